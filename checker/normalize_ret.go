package main

// normalize_ret.go — what replaces one return statement of an inlined helper, and the small condition evaluator that
// specialises the caller's test of the results (`if err != nil {…}`) for the values a given return hands back.

import (
	"go/ast"
	"go/token"
	"go/types"
	"regexp"
	"strconv"
	"strings"
)

const (
	retTerm = iota // the replacement ends the caller (or the helper is in tail position)
	retExit        // control continues after the call
)

func (b *builder) classify(r *ast.ReturnStmt, g []guard) int {
	_, k := b.replace(r, g, true)
	return k
}

func (b *builder) replaceReturn(r *ast.ReturnStmt, g []guard) ([]ast.Stmt, int) {
	return b.replace(r, g, false)
}

func elseList(is *ast.IfStmt) []ast.Stmt {
	switch e := is.Else.(type) {
	case *ast.BlockStmt:
		return e.List
	case *ast.IfStmt:
		return []ast.Stmt{e}
	}
	return nil
}

func (b *builder) lhsIndex(id *ast.Ident) int {
	m := b.mode
	if m.tmpName != "" {
		if id.Name == m.tmpName {
			return 0
		}
		return -1
	}
	o := b.c.useOf(id)
	if o == nil {
		return -1
	}
	for i, x := range m.lhsObjs {
		if x != nil && x == o {
			return i
		}
	}
	return -1
}

// substLHS replaces, in n, every use of a variable the call statement assigns by the given expression.
func (b *builder) substLHS(n ast.Node, repl []ast.Expr) {
	rewriteIdents(n, func(e ast.Expr, isSel, isKey bool) ast.Expr {
		id, ok := e.(*ast.Ident)
		if !ok || isSel {
			return e
		}
		if i := b.lhsIndex(id); i >= 0 && i < len(repl) && repl[i] != nil {
			cl := cloneAST(repl[i], b.c.n.back).(ast.Expr)
			switch cl.(type) {
			case *ast.Ident, *ast.SelectorExpr, *ast.BasicLit, *ast.ParenExpr, *ast.IndexExpr, *ast.CallExpr, *ast.CompositeLit:
				return cl
			}
			return &ast.ParenExpr{X: cl}
		}
		return e
	})
}

func (b *builder) countLHSUses(list []ast.Stmt) []int {
	out := make([]int, len(b.mode.lhs))
	for _, s := range list {
		ast.Inspect(s, func(n ast.Node) bool {
			if id, ok := n.(*ast.Ident); ok {
				if i := b.lhsIndex(id); i >= 0 {
					out[i]++
				}
			}
			return true
		})
	}
	return out
}

func (b *builder) replace(r *ast.ReturnStmt, g []guard, dry bool) ([]ast.Stmt, int) {
	m := b.mode
	pos := b.call.Pos()
	switch m.kind {
	case mTail:
		return []ast.Stmt{r}, retTerm
	case mStmt:
		var out []ast.Stmt
		for _, e := range r.Results {
			if !effectFree(e) {
				out = append(out, &ast.AssignStmt{Lhs: []ast.Expr{ast.NewIdent("_")}, Tok: token.ASSIGN, Rhs: []ast.Expr{e}, TokPos: pos})
			}
		}
		return out, retExit
	}
	es := r.Results
	mkAssign := func() ast.Stmt {
		var lhs []ast.Expr
		if !dry {
			for i := range m.lhs {
				b.varAssigned[i] = true
			}
		}
		for _, l := range m.lhs {
			if id, ok := l.(*ast.Ident); ok {
				lhs = append(lhs, ast.NewIdent(id.Name))
			} else {
				lhs = append(lhs, cloneAST(l, b.c.n.back).(ast.Expr))
			}
		}
		rhs := es
		if !dry {
			rhs = make([]ast.Expr, len(es))
			copy(rhs, es)
			b.assignsEmitted++
			if b.useTok == token.DEFINE && len(es) == len(m.lhs) {
				// a variable defined here takes its type from the expression: keep the type the call gave it
				for i, l := range m.lhs {
					id, ok := l.(*ast.Ident)
					if !ok || id.Name == "_" {
						continue
					}
					var want types.Type
					if m.tmpName != "" {
						want = m.tmpT
					} else if def := b.c.info.Defs[id]; def != nil {
						want = def.Type()
					}
					if want == nil {
						continue
					}
					if et := b.c.typeOf(es[i]); et != nil && types.Identical(et, want) {
						continue
					} else if et != nil && b.typeArgs != nil && b.instantiatedSame(et, want) {
						continue // the helper is generic: its expression has the wanted type once the type arguments are put in
					}
					te := typeExpr(want, b.c.pkg.Types, b.c.file, b.c.info)
					if te == nil {
						b.fail = "the type of " + id.Name + " cannot be written"
						continue
					}
					if _, isPtr := te.(*ast.StarExpr); isPtr {
						te = &ast.ParenExpr{X: te}
					}
					rhs[i] = &ast.CallExpr{Fun: te, Args: []ast.Expr{es[i]}}
				}
			}
		}
		return &ast.AssignStmt{Lhs: lhs, Tok: b.useTok, Rhs: rhs, TokPos: pos}
	}
	// a parallel assignment to plain variables none of which is read by another right-hand side is the sequence of the
	// single assignments: the rules' value tracking follows single assignments only
	split := func(s ast.Stmt) []ast.Stmt {
		as, ok := s.(*ast.AssignStmt)
		if ok && as.Tok == token.ASSIGN && len(as.Lhs) == 1 && len(as.Rhs) == 1 {
			l, lok := as.Lhs[0].(*ast.Ident)
			r, rok := unparen(as.Rhs[0]).(*ast.Ident)
			if lok && rok && l.Name == r.Name {
				return nil // x = x
			}
		}
		if !ok || len(as.Lhs) < 2 || len(as.Lhs) != len(as.Rhs) {
			return []ast.Stmt{s}
		}
		names := map[string]bool{}
		for _, l := range as.Lhs {
			id, ok := l.(*ast.Ident)
			if !ok {
				return []ast.Stmt{s}
			}
			if id.Name != "_" && names[id.Name] {
				return []ast.Stmt{s}
			}
			names[id.Name] = true
		}
		for _, r := range as.Rhs {
			used := map[string]bool{}
			identNames(r, used)
			for nm := range names {
				if used[nm] {
					return []ast.Stmt{s}
				}
			}
		}
		if as.Tok == token.DEFINE {
			// every variable must be new for the split statements to stay definitions
			for _, l := range m.lhs {
				if id, ok := l.(*ast.Ident); ok && id.Name != "_" && m.tmpName == "" && b.c.info.Defs[id] == nil {
					return []ast.Stmt{s}
				}
			}
		}
		var out []ast.Stmt
		for i := range as.Lhs {
			tok := as.Tok
			if id := as.Lhs[i].(*ast.Ident); id.Name == "_" {
				tok = token.ASSIGN
			}
			out = append(out, &ast.AssignStmt{Lhs: []ast.Expr{as.Lhs[i]}, Tok: tok, Rhs: []ast.Expr{as.Rhs[i]}, TokPos: pos})
		}
		return out
	}
	// mkLive: the assignment restricted to the variables that are read after the test of the results
	var liveBranch []ast.Stmt
	mkLive := func() []ast.Stmt {
		anyDead := false
		inBranch := b.countLHSUses(liveBranch)
		isDead := func(i int) bool { return i < len(m.dead) && m.dead[i] && inBranch[i] == 0 }
		for i := range m.lhs {
			if isDead(i) {
				anyDead = true
			}
		}
		if !anyDead || len(es) != len(m.lhs) {
			return split(mkAssign())
		}
		var out []ast.Stmt
		for i, l := range m.lhs {
			if isDead(i) {
				if !effectFree(es[i]) {
					out = append(out, &ast.AssignStmt{Lhs: []ast.Expr{ast.NewIdent("_")}, Tok: token.ASSIGN, Rhs: []ast.Expr{es[i]}, TokPos: pos})
				}
				continue
			}
			id, ok := l.(*ast.Ident)
			if !ok {
				return split(mkAssign())
			}
			tok := b.useTok
			if tok == token.DEFINE && b.c.info.Defs[id] == nil {
				tok = token.ASSIGN
			}
			rhs := es[i]
			if tok == token.DEFINE {
				if def := b.c.info.Defs[id]; def != nil {
					if et := b.c.typeOf(es[i]); et == nil || !types.Identical(et, def.Type()) {
						te := typeExpr(def.Type(), b.c.pkg.Types, b.c.file, b.c.info)
						if te == nil {
							b.fail = "the type of " + id.Name + " cannot be written"
							return nil
						}
						if _, isPtr := te.(*ast.StarExpr); isPtr {
							te = &ast.ParenExpr{X: te}
						}
						rhs = &ast.CallExpr{Fun: te, Args: []ast.Expr{es[i]}}
					}
				}
			}
			if !dry {
				b.varAssigned[i] = true
				b.assignsEmitted++
			}
			if r, ok := unparen(rhs).(*ast.Ident); ok && r.Name == id.Name && tok == token.ASSIGN {
				continue
			}
			out = append(out, &ast.AssignStmt{Lhs: []ast.Expr{ast.NewIdent(id.Name)}, Tok: tok, Rhs: []ast.Expr{rhs}, TokPos: pos})
		}
		return out
	}
	if m.consumer == nil {
		return split(mkAssign()), retExit
	}
	if len(es) != len(m.lhs) {
		return []ast.Stmt{mkAssign(), cloneAST(m.consumer, b.c.n.back).(ast.Stmt)}, retExit
	}
	cond := cloneAST(m.consumer.Cond, b.c.n.back).(ast.Expr)
	holder := &ast.ExprStmt{X: cond}
	b.substLHS(holder, es)
	val, known := b.evalCond(holder.X, g)
	if !known {
		return append(split(mkAssign()), cloneAST(m.consumer, b.c.n.back).(ast.Stmt)), retExit
	}
	b.knownFolds++
	branch := m.consumer.Body.List
	if !val {
		branch = elseList(m.consumer)
	}
	// an else-if chain: keep deciding while the next test is decided by the same results
	for len(branch) == 1 {
		nx, ok := branch[0].(*ast.IfStmt)
		if !ok || nx.Init != nil {
			break
		}
		c2 := cloneAST(nx.Cond, b.c.n.back).(ast.Expr)
		h2 := &ast.ExprStmt{X: c2}
		b.substLHS(h2, es)
		v2, k2 := b.evalCond(h2.X, g)
		if !k2 {
			break
		}
		if v2 {
			branch = nx.Body.List
		} else {
			branch = elseList(nx)
		}
	}
	if !terminatesList(branch) {
		out := []ast.Stmt{}
		liveBranch = branch
		if m.tmpName == "" {
			out = append(out, mkLive()...)
		}
		if dry {
			return out, retExit
		}
		return append(out, b.cloneList(branch)...), retExit
	}
	if dry {
		return nil, retTerm
	}
	// the branch ends the caller: hand the results to it directly
	cl := b.cloneList(branch)
	uses := b.countLHSUses(cl)
	nonSimple := 0
	for _, e := range es {
		if !simpleExpr(nil, e) {
			nonSimple++
		}
	}
	var out []ast.Stmt
	repl := make([]ast.Expr, len(es))
	for i, e := range es {
		simple := simpleExpr(nil, e)
		switch {
		case uses[i] == 0:
			if !effectFree(e) {
				out = append(out, &ast.AssignStmt{Lhs: []ast.Expr{ast.NewIdent("_")}, Tok: token.ASSIGN, Rhs: []ast.Expr{e}, TokPos: pos})
			}
		case simple || (uses[i] == 1 && nonSimple == 1):
			repl[i] = e
		default:
			nm := "ret_i" + strconv.Itoa(b.c.n.fresh())
			b.declared[nm] = true
			out = append(out, &ast.AssignStmt{Lhs: []ast.Expr{ast.NewIdent(nm)}, Tok: token.DEFINE, Rhs: []ast.Expr{e}, TokPos: pos})
			repl[i] = ast.NewIdent(nm)
		}
	}
	wrap := &ast.BlockStmt{List: cl}
	b.substLHS(wrap, repl)
	return append(out, wrap.List...), retTerm
}

// ---------------------------------------------------------------------------------------------------------------------
// conditions

func canonCond(e ast.Expr) (string, bool) {
	e = unparen(e)
	switch x := e.(type) {
	case *ast.UnaryExpr:
		if x.Op == token.NOT {
			s, p := canonCond(x.X)
			return s, !p
		}
	case *ast.BinaryExpr:
		switch x.Op {
		case token.NEQ:
			return types.ExprString(unparen(x.X)) + " == " + types.ExprString(unparen(x.Y)), false
		case token.EQL:
			return types.ExprString(unparen(x.X)) + " == " + types.ExprString(unparen(x.Y)), true
		}
	}
	return types.ExprString(e), true
}

func mkGuard(e ast.Expr, holds bool) guard {
	s, p := canonCond(e)
	if p != holds {
		s = "!" + s
	}
	return guard{canon: s}
}

// condGuards: what is known inside the branch taken when cond evaluates to holds.
func condGuards(cond ast.Expr, holds bool) []guard {
	out := []guard{mkGuard(cond, holds)}
	if b, ok := unparen(cond).(*ast.BinaryExpr); ok {
		if (b.Op == token.LAND && holds) || (b.Op == token.LOR && !holds) {
			out = append(out, condGuards(b.X, holds)...)
			out = append(out, condGuards(b.Y, holds)...)
		}
	}
	if u, ok := unparen(cond).(*ast.UnaryExpr); ok && u.Op == token.NOT {
		out = append(out, condGuards(u.X, !holds)...)
	}
	return out
}

func lookupGuard(e ast.Expr, guards []guard) (bool, bool) {
	s, p := canonCond(e)
	for _, g := range guards {
		if g.canon == s {
			return p, true
		}
		if g.canon == "!"+s {
			return !p, true
		}
	}
	return false, false
}

// invalidate drops what a statement may falsify: a guard over plain local identifiers survives statements that do not
// assign them; any other guard survives nothing.
func invalidate(guards []guard, s ast.Stmt) []guard {
	if len(guards) == 0 {
		return guards
	}
	assigned := map[string]bool{}
	ast.Inspect(s, func(n ast.Node) bool {
		switch x := n.(type) {
		case *ast.AssignStmt:
			for _, l := range x.Lhs {
				if id := identOfRoot(l); id != nil {
					assigned[id.Name] = true
				}
			}
		case *ast.IncDecStmt:
			if id := identOfRoot(x.X); id != nil {
				assigned[id.Name] = true
			}
		case *ast.RangeStmt:
			for _, l := range []ast.Expr{x.Key, x.Value} {
				if l != nil {
					if id := identOfRoot(l); id != nil {
						assigned[id.Name] = true
					}
				}
			}
		case *ast.ValueSpec:
			for _, nm := range x.Names {
				assigned[nm.Name] = true
			}
		case *ast.UnaryExpr:
			if x.Op == token.AND {
				if id := identOfRoot(x.X); id != nil {
					assigned[id.Name] = true
				}
			}
		}
		return true
	})
	var out []guard
	for _, g := range guards {
		if strings.ContainsAny(g.canon, ".([") {
			continue
		}
		keep := true
		for _, tok := range strings.FieldsFunc(g.canon, func(r rune) bool {
			return !(r == '_' || r >= '0' && r <= '9' || r >= 'a' && r <= 'z' || r >= 'A' && r <= 'Z' || r > 127)
		}) {
			if assigned[tok] {
				keep = false
			}
		}
		if keep {
			out = append(out, g)
		}
	}
	return out
}

// evalCond evaluates a condition over the expressions a return hands back.
func (b *builder) evalCond(e ast.Expr, guards []guard) (val bool, known bool) {
	e = unparen(e)
	switch x := e.(type) {
	case *ast.Ident:
		switch x.Name {
		case "true":
			return true, true
		case "false":
			return false, true
		}
	case *ast.UnaryExpr:
		if x.Op == token.NOT {
			v, k := b.evalCond(x.X, guards)
			return !v, k
		}
	case *ast.BinaryExpr:
		switch x.Op {
		case token.LAND:
			l, lk := b.evalCond(x.X, guards)
			r, rk := b.evalCond(x.Y, guards)
			if (lk && !l) || (rk && !r) {
				return false, true
			}
			if lk && rk {
				return true, true
			}
			return false, false
		case token.LOR:
			l, lk := b.evalCond(x.X, guards)
			r, rk := b.evalCond(x.Y, guards)
			if (lk && l) || (rk && r) {
				return true, true
			}
			if lk && rk {
				return false, true
			}
			return false, false
		case token.EQL, token.NEQ, token.GTR:
			// len(X) compared with 0 where X is a literal (or nil)
			if n, ok := litLen(x.X); ok && isZeroLit(x.Y) {
				switch x.Op {
				case token.EQL:
					return n == 0, true
				case token.NEQ, token.GTR:
					return n != 0, true
				}
			}
			if x.Op == token.GTR {
				break
			}
			var other ast.Expr
			if isNilIdent(x.Y) {
				other = x.X
			} else if isNilIdent(x.X) {
				other = x.Y
			}
			if other != nil {
				if isNil, k := b.nilness(other, guards); k {
					return isNil == (x.Op == token.EQL), true
				}
			}
		}
	}
	return lookupGuard(e, guards)
}

func isNilIdent(e ast.Expr) bool {
	id, ok := unparen(e).(*ast.Ident)
	return ok && id.Name == "nil"
}

// nilness: whether e, converted to the type it is compared at, is nil.
func (b *builder) nilness(e ast.Expr, guards []guard) (isNil bool, known bool) {
	e = unparen(e)
	switch x := e.(type) {
	case *ast.Ident:
		if x.Name == "nil" {
			if _, isNilObj := b.c.useOf(x).(*types.Nil); isNilObj || b.c.useOf(x) == nil {
				return true, true
			}
		}
	case *ast.UnaryExpr:
		if x.Op == token.AND {
			return false, true
		}
	case *ast.CompositeLit, *ast.FuncLit, *ast.BasicLit:
		return false, true
	case *ast.CallExpr:
		if o, ok := b.c.orig(x).(*ast.CallExpr); ok {
			if callee := calleeOf(b.c.info, o); callee != nil {
				switch funcFullName(callee) {
				case "fmt.Errorf", "errors.New":
					return false, true
				}
			}
		}
	}
	if t := b.c.typeOf(e); t != nil {
		switch u := t.Underlying().(type) {
		case *types.Basic:
			if u.Kind() != types.UntypedNil && u.Kind() != types.UnsafePointer {
				return false, true
			}
		case *types.Struct, *types.Array:
			return false, true
		}
	}
	if v, k := lookupGuard(&ast.BinaryExpr{X: e, Op: token.EQL, Y: ast.NewIdent("nil")}, guards); k {
		return v, true
	}
	return false, false
}

// litLen: e is len(X) with X a composite literal (its element count) or nil (0).
func litLen(e ast.Expr) (int, bool) {
	call, ok := unparen(e).(*ast.CallExpr)
	if !ok || len(call.Args) != 1 {
		return 0, false
	}
	if id, ok := call.Fun.(*ast.Ident); !ok || id.Name != "len" {
		return 0, false
	}
	switch x := unparen(call.Args[0]).(type) {
	case *ast.CompositeLit:
		for _, el := range x.Elts {
			if _, isKV := el.(*ast.KeyValueExpr); isKV {
				return 0, false // indexed elements: the length is not the count
			}
		}
		return len(x.Elts), true
	case *ast.Ident:
		if x.Name == "nil" {
			return 0, true
		}
	case *ast.CallExpr:
		// T(nil)
		if len(x.Args) == 1 && isNilIdent(x.Args[0]) {
			return 0, true
		}
	}
	return 0, false
}

func isZeroLit(e ast.Expr) bool {
	bl, ok := unparen(e).(*ast.BasicLit)
	return ok && bl.Value == "0"
}

// instantiatedSame: the type of an expression of the generic helper, written with the call's type arguments in the
// places of the type parameters, reads the same as the wanted type.
func (b *builder) instantiatedSame(et, want types.Type) bool {
	sig := b.f.Sig()
	if sig == nil || sig.TypeParams().Len() == 0 {
		return false
	}
	q := func(p *types.Package) string { return p.Path() }
	s := types.TypeString(et, q)
	// the instance
	var fid *ast.Ident
	switch fx := unparen(b.call.Fun).(type) {
	case *ast.Ident:
		fid = fx
	case *ast.SelectorExpr:
		fid = fx.Sel
	case *ast.IndexExpr:
		fid = identOf(fx.X)
	case *ast.IndexListExpr:
		fid = identOf(fx.X)
	}
	if fid == nil {
		return false
	}
	o, _ := b.c.orig(fid).(*ast.Ident)
	if o == nil {
		return false
	}
	inst, ok := b.c.info.Instances[o]
	if !ok || inst.TypeArgs == nil || inst.TypeArgs.Len() != sig.TypeParams().Len() {
		return false
	}
	for i := 0; i < sig.TypeParams().Len(); i++ {
		name := sig.TypeParams().At(i).Obj().Name()
		arg := types.TypeString(inst.TypeArgs.At(i), q)
		s = regexp.MustCompile(`\b`+regexp.QuoteMeta(name)+`\b`).ReplaceAllString(s, arg)
	}
	return s == types.TypeString(want, q)
}
