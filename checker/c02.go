package main

// c02.go — C02: expressions (operator table, token maps, short-circuit, argument order, ill-typed ⇒ error).

import (
	"go/ast"
	"go/constant"
	"go/token"
	"go/types"
	"sort"
	"strings"
)

func init() {
	registry["C02"] = &propCheck{
		meta: propMeta{
			Level: "other",
			Explanation: "Decides the operator table and the evaluation skeleton: (R1) the token→operator map is total over the operator tokens the grammar names, injective, and — followed through the evaluator's switch — " +
				"every operator spelling reaches the Go operation Yarn's table prescribes, on the right alternative of the value, with the left operand on the left (R2; spellings are read from the repository's " +
				"grammar, never compared with identifier names); xor's helper is reduced to its truth table; (R3) the right operand of and/or is evaluated only where the left one does not decide, left before right, once each; " +
				"(R4) arguments are evaluated in one ascending pass, once, before a single call; (R5) every dereference of a value alternative is entailed non-nil by its guards so an ill-typed operation can only leave through an error return; " +
				"(R6) every labelled alternative of the expression/value grammar rules has a handler in the tree builder.",
			NotDecided:  "precedence, associativity and which characters form which token (serialized ATN, assumption A3); IEEE-754 results of Go's operators (language semantics)",
			Assumptions: []string{"A1 (a Value has one non-nil alternative)", "A2 (a storer returns a non-nil value with true)", "A3", "A4"},
			Trusted:     []string{"go/types", "golang.org/x/tools/go/cfg", "the generated LiteralNames/SymbolicNames tables", "go/packages loader"},
		},
		run: checkC02,
	}
}

// Yarn's operator table, keyed by the first spelling of the token in the lexer grammar.
type opSpec struct {
	num, boolean, str string // Go operation expected on each alternative ("" = ill-typed); result constructor implied
}

var yarnOps = map[string]opSpec{
	"*":   {num: "Number(L*R)"},
	"/":   {num: "Number(L/R)"},
	"%":   {num: "Number(math.Mod(L,R))"},
	"+":   {num: "Number(L+R)", str: "String(L+R)"},
	"-":   {num: "Number(L-R)"},
	"<=":  {num: "Boolean(L<=R)"},
	">=":  {num: "Boolean(L>=R)"},
	"<":   {num: "Boolean(L<R)"},
	">":   {num: "Boolean(L>R)"},
	"==":  {num: "Boolean(L==R)", boolean: "Boolean(L==R)", str: "Boolean(L==R)"},
	"!=":  {num: "Boolean(L!=R)", boolean: "Boolean(L!=R)", str: "Boolean(L!=R)"},
	"and": {boolean: "R"},
	"or":  {boolean: "R"},
	"xor": {boolean: "Boolean(tt:0110)"},
}

type tokenMap struct {
	fn      *Func
	lit     *ast.CompositeLit
	entries map[int64]int64  // token constant value -> operator constant value
	keyName map[int64]string // token constant value -> constant identifier (diagnostics)
	valName map[int64]string
	dups    []string
}

// findTokenMap finds, in internal/tree, the function holding a map[int]int literal whose keys include the given token.
func findTokenMap(w *World, mustHaveKey int64) *tokenMap {
	tp := w.Pkg("internal/tree")
	info := tp.TypesInfo
	var best *tokenMap
	type root struct {
		f    *Func
		node ast.Node
		obj  types.Object // package-level variable holding the literal (nil: literal inside f)
	}
	var roots []root
	for _, f := range w.FuncsIn(tp) {
		if f.Body == nil || f.Lit != nil {
			continue
		}
		roots = append(roots, root{f: f, node: f.Body})
	}
	// a table kept in a package-level variable: it counts if exactly one function reads it and nothing can write it
	for _, file := range tp.Syntax {
		for _, d := range file.Decls {
			gd, ok := d.(*ast.GenDecl)
			if !ok || gd.Tok != token.VAR {
				continue
			}
			for _, sp := range gd.Specs {
				vs := sp.(*ast.ValueSpec)
				if len(vs.Names) != 1 || len(vs.Values) != 1 {
					continue
				}
				obj := info.Defs[vs.Names[0]]
				if obj == nil {
					continue
				}
				var reader *Func
				readers, bad := 0, false
				for _, f := range w.FuncsIn(tp) {
					if f.Body == nil {
						continue
					}
					reads := false
					ast.Inspect(f.Body, func(n ast.Node) bool {
						id, ok := n.(*ast.Ident)
						if !ok || info.Uses[id] != obj {
							return true
						}
						// the only permitted use: X[k] read as a value
						ix, isIx := w.parent[id].(*ast.IndexExpr)
						if !isIx || ix.X != ast.Expr(id) {
							bad = true
							return true
						}
						switch p := w.parent[ix].(type) {
						case *ast.AssignStmt:
							for _, l := range p.Lhs {
								if l == ast.Expr(ix) {
									bad = true
								}
							}
						case *ast.IncDecStmt:
							bad = true
						case *ast.UnaryExpr:
							if p.Op == token.AND {
								bad = true
							}
						}
						reads = true
						return true
					})
					if reads && f.Lit == nil {
						readers++
						reader = f
					} else if reads {
						bad = true
					}
				}
				if ast.IsExported(vs.Names[0].Name) {
					bad = true // other packages could write it
				}
				if readers == 1 && !bad {
					roots = append(roots, root{f: reader, node: vs.Values[0], obj: obj})
				}
			}
		}
	}
	// a table written as a switch: func(token int) (operator, bool) { switch token { case T: return OP, true … } return 0, false }
	for _, f := range w.FuncsIn(tp) {
		if f.Body == nil || f.Lit != nil || f.Sig().Params().Len() != 1 {
			continue
		}
		walkNoLit(f.Body, func(n ast.Node) bool {
			sw, ok := n.(*ast.SwitchStmt)
			if !ok || sw.Tag == nil || sw.Init != nil {
				return true
			}
			tid := identOf(sw.Tag)
			if tid == nil || info.Uses[tid] != types.Object(f.Sig().Params().At(0)) {
				return true
			}
			tm := &tokenMap{fn: f, lit: &ast.CompositeLit{Lbrace: sw.Pos(), Rbrace: sw.End()}, entries: map[int64]int64{}, keyName: map[int64]string{}, valName: map[int64]string{}}
			okAll := true
			for _, cl := range sw.Body.List {
				cc := cl.(*ast.CaseClause)
				if cc.List == nil {
					continue
				}
				if len(cc.Body) != 1 {
					okAll = false
					continue
				}
				ret, ok := cc.Body[0].(*ast.ReturnStmt)
				if !ok || len(ret.Results) < 1 {
					okAll = false
					continue
				}
				val := unparen(ret.Results[0])
				if u, ok := val.(*ast.UnaryExpr); ok && u.Op == token.AND {
					val = unparen(u.X)
				}
				vt, ok := info.Types[val]
				if !ok || vt.Value == nil || vt.Value.Kind() != constant.Int {
					okAll = false
					continue
				}
				v, _ := constant.Int64Val(vt.Value)
				for _, kx := range cc.List {
					kt, ok := info.Types[kx]
					if !ok || kt.Value == nil || kt.Value.Kind() != constant.Int {
						okAll = false
						continue
					}
					k, _ := constant.Int64Val(kt.Value)
					if _, dup := tm.entries[k]; dup {
						tm.dups = append(tm.dups, exprStr(kx))
					}
					tm.entries[k] = v
					tm.keyName[k] = exprStr(kx)
					tm.valName[v] = exprStr(val)
				}
			}
			if _, has := tm.entries[mustHaveKey]; has && okAll && len(tm.entries) >= 4 {
				best = tm
			}
			return true
		})
	}
	for _, rt := range roots {
		f := rt.f
		ast.Inspect(rt.node, func(n ast.Node) bool {
			cl, ok := n.(*ast.CompositeLit)
			if !ok {
				return true
			}
			tv, ok := info.Types[cl]
			if !ok {
				return true
			}
			if _, isMap := tv.Type.Underlying().(*types.Map); !isMap {
				return true
			}
			tm := &tokenMap{fn: f, lit: cl, entries: map[int64]int64{}, keyName: map[int64]string{}, valName: map[int64]string{}}
			for _, el := range cl.Elts {
				kv, ok := el.(*ast.KeyValueExpr)
				if !ok {
					continue
				}
				kt, ok1 := info.Types[kv.Key]
				vt, ok2 := info.Types[kv.Value]
				if !ok1 || !ok2 || kt.Value == nil || vt.Value == nil || kt.Value.Kind() != constant.Int || vt.Value.Kind() != constant.Int {
					continue
				}
				k, _ := constant.Int64Val(kt.Value)
				v, _ := constant.Int64Val(vt.Value)
				if _, dup := tm.entries[k]; dup {
					tm.dups = append(tm.dups, exprStr(kv.Key))
				}
				tm.entries[k] = v
				tm.keyName[k] = exprStr(kv.Key)
				tm.valName[v] = exprStr(kv.Value)
			}
			if _, has := tm.entries[mustHaveKey]; has {
				best = tm
			}
			return true
		})
	}
	return best
}

type opCase struct {
	value int64
	name  string
	body  []ast.Stmt
	pos   token.Pos
}

func checkC02(c *Ctx) {
	w := c.W
	wGlobal = w
	c.rule("C02.R1", "token map: total over the binary-operator tokens of grammar rule 'expression', no foreign key, injective", 15)
	c.rule("C02.R2", "operation table: the evaluator case reached from each operator spelling performs the Go operation Yarn's table prescribes, on that alternative, left operand on the left; unary minus/not likewise", 22)
	c.rule("C02.R3", "short-circuit: the right operand's evaluation is entailed to happen only when and/or are not decided by the left value; left before right, each at most once", 3)
	c.rule("C02.R4", "arguments: evaluated in one range loop over the argument slice at the loop index, appended in the same iteration, callee invoked once after the loop", 9)
	c.rule("C02.R5", "every dereference of a Value alternative / use of a *Value in the evaluator is entailed non-nil by dominating guards; every nil-error return of the evaluator family returns a provably non-nil value", 40)
	c.rule("C02.R7", "every Enter handler of a labelled alternative of 'expression' and 'value' reports an expression on every path: calls the current expression callback or installs a callback that does", 12)
	c.rule("C02.R6", "every labelled alternative of grammar rules 'expression' and 'value' has an Enter handler on the tree builder (pass-through: expParens, expValue)", 14)

	g := w.grammar()
	for _, p := range g.problems {
		c.undecided("C02.R1", "grammar: "+p)
	}
	if len(g.problems) > 0 {
		return
	}
	// ----- R1
	isBinary := func(alt string) bool { return strings.Count(alt, "expression") >= 2 && strings.Contains(alt, "op=") }
	toks, err := g.opTokens("expression", isBinary)
	if err != nil || len(toks) < 10 {
		c.undecided("C02.R1", "cannot read the binary operator tokens from the grammar: "+errStr(err))
		return
	}
	c.Extra["grammar_binary_operator_tokens"] = toks
	first, ok := g.tokenConst[toks[0]]
	if !ok {
		c.undecided("C02.R1", "no generated constant for token "+toks[0])
		return
	}
	tm := findTokenMap(w, first)
	if tm == nil {
		c.undecided("C02.R1", "no token→operator map literal found in internal/tree")
		return
	}
	c.fn(tm.fn)
	gramSet := map[int64]string{}
	for _, t := range toks {
		v, ok := g.tokenConst[t]
		if !ok {
			c.ob("C02.R1", "token "+t, w.Pos(tm.lit.Pos()), false, "the grammar names token "+t+" but the generated lexer has no such constant")
			continue
		}
		gramSet[v] = t
		_, mapped := tm.entries[v]
		c.ob("C02.R1", "token "+t, w.Pos(tm.lit.Pos()), mapped, map[bool]string{true: "mapped to " + tm.valName[tm.entries[v]], false: "operator token " + t + " of the grammar has no entry in the token map: expressions using it cannot be built"}[mapped])
	}
	for k, name := range tm.keyName {
		if _, ok := gramSet[k]; !ok {
			c.ob("C02.R1", "foreign key "+name, w.Pos(tm.lit.Pos()), false, "the token map has a key the grammar's operator group does not contain")
		}
	}
	inv := map[int64][]string{}
	for k, v := range tm.entries {
		inv[v] = append(inv[v], tm.keyName[k])
	}
	inj := true
	for _, ks := range inv {
		if len(ks) > 1 {
			inj = false
			sort.Strings(ks)
			c.ob("C02.R1", "injective "+strings.Join(ks, ","), w.Pos(tm.lit.Pos()), false, "two operator tokens map to the same operator: "+strings.Join(ks, ", "))
		}
	}
	if inj && len(tm.dups) == 0 {
		c.ob("C02.R1", "injective", w.Pos(tm.lit.Pos()), true, "distinct tokens map to distinct operators")
	}
	for _, d := range tm.dups {
		c.ob("C02.R1", "duplicate key "+d, w.Pos(tm.lit.Pos()), false, "key listed twice")
	}
	// the looked-up value is what the builder stores in Expression.Operator: checked by R2's provenance below

	// ----- R2
	ev := findBinaryEvaluator(w)
	if ev == nil {
		c.undecided("C02.R2", "no function of package ysgo switching over the tree operator constants found")
		return
	}
	c.fn(ev.fn)
	checkOperationTable(c, g, tm, gramSet, ev)
	checkUnary(c)

	// ----- R3
	checkShortCircuit(c, g, tm, ev)

	// ----- R4
	checkArgumentOrder(c, "C02.R4")

	// ----- R5
	var evalFuncs []*Func
	vm := w.valueModel()
	for _, f := range w.FuncsIn(w.Pkg("")) {
		if f.Obj != nil && vm.family[f.Obj] {
			evalFuncs = append(evalFuncs, f)
		}
	}
	valueObligations(c, "C02.R5", "C02.R5", evalFuncs)

	// ----- R6
	checkHandlers(c, "C02.R6")
}

func errStr(err error) string {
	if err == nil {
		return "too few tokens"
	}
	return err.Error()
}

type binaryEvaluator struct {
	fn       *Func
	sw       *ast.SwitchStmt
	cases    []opCase
	opParam  *types.Var
	lParam   *types.Var
	rParam   *types.Var
	lVal     string // expansion of the evaluated left operand value
	rVal     string
	evalL    *ast.CallExpr
	evalR    *ast.CallExpr
	hasDeflt bool
}

func findBinaryEvaluator(w *World) *binaryEvaluator {
	p := w.Pkg("")
	info := p.TypesInfo
	var best *binaryEvaluator
	for _, f := range w.FuncsIn(p) {
		if f.Body == nil || f.Decl == nil {
			continue
		}
		walkNoLit(f.Body, func(n ast.Node) bool {
			sw, ok := n.(*ast.SwitchStmt)
			if !ok || sw.Tag == nil {
				return true
			}
			id := identOf(sw.Tag)
			if id == nil {
				return true
			}
			tagVar, _ := info.Uses[id].(*types.Var)
			if tagVar == nil || !isIntType(tagVar.Type()) {
				return true
			}
			be := &binaryEvaluator{fn: f, sw: sw, opParam: tagVar}
			for _, cl := range sw.Body.List {
				cc := cl.(*ast.CaseClause)
				if cc.List == nil {
					be.hasDeflt = true
					continue
				}
				for _, x := range cc.List {
					tv, ok := info.Types[x]
					if !ok || tv.Value == nil || tv.Value.Kind() != constant.Int {
						continue
					}
					if sel, ok := unparen(x).(*ast.SelectorExpr); ok {
						if obj := info.Uses[sel.Sel]; obj != nil && obj.Pkg() != nil && obj.Pkg().Path() == modPath+"/internal/tree" {
							v, _ := constant.Int64Val(tv.Value)
							be.cases = append(be.cases, opCase{value: v, name: exprStr(x), body: cc.Body, pos: cc.Pos()})
						}
					}
				}
			}
			if len(be.cases) >= 10 && (best == nil || len(be.cases) > len(best.cases)) {
				best = be
			}
			return true
		})
	}
	if best == nil {
		return nil
	}
	// operand parameters: the two *tree.Expression parameters in order
	sig := best.fn.Sig()
	for i := 0; i < sig.Params().Len(); i++ {
		if typeStr(sig.Params().At(i).Type()) == "*tree.Expression" {
			if best.lParam == nil {
				best.lParam = sig.Params().At(i)
			} else if best.rParam == nil {
				best.rParam = sig.Params().At(i)
			}
		}
	}
	if best.lParam == nil || best.rParam == nil {
		return nil
	}
	// evaluation calls
	vm := w.valueModel()
	walkNoLit(best.fn.Body, func(n ast.Node) bool {
		call, ok := n.(*ast.CallExpr)
		if !ok || len(call.Args) == 0 {
			return true
		}
		callee := calleeOf(info, call)
		if callee == nil || !vm.family[callee] {
			return true
		}
		if id := identOf(call.Args[0]); id != nil {
			switch info.Uses[id] {
			case types.Object(best.lParam):
				best.evalL = call
			case types.Object(best.rParam):
				best.evalR = call
			}
		}
		return true
	})
	if best.evalL == nil || best.evalR == nil {
		return nil
	}
	x := w.expander(best.fn)
	best.lVal = x.str(best.evalL) + "#0"
	best.rVal = x.str(best.evalR) + "#0"
	return best
}

// describeResult renders a returned value expression as "Ctor(L op R)" relative to the evaluated operands.
func describeResult(w *World, be *binaryEvaluator, res ast.Expr) (desc string, alt string) {
	p := w.Pkg("")
	info := p.TypesInfo
	x := w.expander(be.fn)
	operand := func(e ast.Expr) (side, alt string) {
		s := x.str(e)
		for _, a := range []string{"Number", "Boolean", "String"} {
			if s == be.lVal+"."+a {
				return "L", a
			}
			if s == be.rVal+"."+a {
				return "R", a
			}
		}
		return "?{" + s + "}", ""
	}
	res = unparen(res)
	// relayed operand value
	if s := x.str(res); s == be.rVal {
		return "R", ""
	} else if s == be.lVal {
		return "L", ""
	}
	call, ok := res.(*ast.CallExpr)
	if !ok || len(call.Args) != 1 {
		return "?{" + x.str(res) + "}", ""
	}
	callee := calleeOf(info, call)
	if callee == nil || callee.Pkg() == nil || callee.Pkg().Path() != modPath+"/variable" || !strings.HasPrefix(callee.Name(), "New") {
		return "?{" + x.str(res) + "}", ""
	}
	ctor := strings.TrimPrefix(callee.Name(), "New")
	arg := unparen(call.Args[0])
	// resolve single-assignment locals to their initialiser
	if id := identOf(arg); id != nil {
		if obj, ok := info.Uses[id].(*types.Var); ok {
			if rhs, idx, _, ok := x.def(obj); ok && rhs != nil && idx < 0 {
				arg = unparen(rhs)
			}
		}
	}
	switch a := arg.(type) {
	case *ast.BinaryExpr:
		ls, la := operand(a.X)
		rs, ra := operand(a.Y)
		if la != "" && la == ra {
			alt = la
		}
		return ctor + "(" + ls + a.Op.String() + rs + ")", alt
	case *ast.CallExpr:
		if len(a.Args) == 2 {
			ls, la := operand(a.Args[0])
			rs, ra := operand(a.Args[1])
			if la != "" && la == ra {
				alt = la
			}
			if cal := calleeOf(info, a); cal != nil {
				if g := w.byObj[cal]; g != nil {
					// module helper over two booleans: reduce to its truth table
					if tt, ok := truthTable2(w, g); ok && ls == "L" && rs == "R" {
						return ctor + "(tt:" + tt + ")", alt
					} else if ok && ls == "R" && rs == "L" {
						// swapped arguments: transpose the table
						return ctor + "(tt:" + string([]byte{tt[0], tt[2], tt[1], tt[3]}) + ")", alt
					}
				}
				return ctor + "(" + funcFullName(cal) + "(" + ls + "," + rs + "))", alt
			}
		}
	}
	return ctor + "(?{" + x.str(arg) + "})", ""
}

// truthTable2 evaluates a side-effect-free boolean function of two boolean parameters on its four inputs (CEVAL).
// The string lists f(false,false) f(false,true) f(true,false) f(true,true) as 0/1.
func truthTable2(w *World, g *Func) (string, bool) {
	sig := g.Sig()
	if sig == nil || sig.Params().Len() != 2 || sig.Results().Len() != 1 || g.Body == nil || len(g.Body.List) != 1 {
		return "", false
	}
	for i := 0; i < 2; i++ {
		if typeStr(sig.Params().At(i).Type()) != "bool" {
			return "", false
		}
	}
	ret, ok := g.Body.List[0].(*ast.ReturnStmt)
	if !ok || len(ret.Results) != 1 {
		return "", false
	}
	info := g.Pkg.TypesInfo
	var evalB func(e ast.Expr, a, b bool) (bool, bool)
	evalB = func(e ast.Expr, a, b bool) (bool, bool) {
		e = unparen(e)
		switch x := e.(type) {
		case *ast.Ident:
			switch info.Uses[x] {
			case types.Object(sig.Params().At(0)):
				return a, true
			case types.Object(sig.Params().At(1)):
				return b, true
			}
			if tv, ok := info.Types[x]; ok && tv.Value != nil && tv.Value.Kind() == constant.Bool {
				return constant.BoolVal(tv.Value), true
			}
		case *ast.UnaryExpr:
			if x.Op == token.NOT {
				v, ok := evalB(x.X, a, b)
				return !v, ok
			}
		case *ast.BinaryExpr:
			l, ok1 := evalB(x.X, a, b)
			r, ok2 := evalB(x.Y, a, b)
			if !ok1 || !ok2 {
				return false, false
			}
			switch x.Op {
			case token.LAND:
				return l && r, true
			case token.LOR:
				return l || r, true
			case token.EQL:
				return l == r, true
			case token.NEQ:
				return l != r, true
			}
		}
		return false, false
	}
	var sb strings.Builder
	for _, in := range [][2]bool{{false, false}, {false, true}, {true, false}, {true, true}} {
		v, ok := evalB(ret.Results[0], in[0], in[1])
		if !ok {
			return "", false
		}
		if v {
			sb.WriteByte('1')
		} else {
			sb.WriteByte('0')
		}
	}
	return sb.String(), true
}

// guardAlternative: which alternative do the guards dominating n establish for both operands?
func guardAlternative(w *World, be *binaryEvaluator, n ast.Node) string {
	e := w.ent(be.fn)
	info := w.Pkg("").TypesInfo
	x := w.expander(be.fn)
	// find selector expressions L.Alt / R.Alt in the function to build the goals from real syntax
	sels := map[string]ast.Expr{}
	walkNoLit(be.fn.Body, func(m ast.Node) bool {
		if se, ok := m.(*ast.SelectorExpr); ok {
			if _, isField := info.Selections[se]; isField {
				s := x.str(se)
				if _, seen := sels[s]; !seen {
					sels[s] = se
				}
			}
		}
		return true
	})
	at := site{pos: n.Pos(), anc: n}
	for _, alt := range []string{"Number", "Boolean", "String"} {
		l, r := sels[be.lVal+"."+alt], sels[be.rVal+"."+alt]
		if l == nil || r == nil {
			continue
		}
		goal := And{e.nn(keyCtx{e: e, s: &at}, l), e.nn(keyCtx{e: e, s: &at}, r)}
		if ok, _ := e.Prove(n, goal); ok {
			return alt
		}
	}
	return ""
}

func checkOperationTable(c *Ctx, g *grammarInfo, tm *tokenMap, gramSet map[int64]string, be *binaryEvaluator) {
	w := c.W
	info := w.Pkg("").TypesInfo
	vm := w.valueModel()
	fam := func(f *types.Func) bool { return vm.family[f] }
	w.ent(be.fn).installContracts(fam)
	caseByValue := map[int64]*opCase{}
	for i := range be.cases {
		cs := &be.cases[i]
		if caseByValue[cs.value] != nil {
			c.ob("C02.R2", "case "+cs.name+" duplicated", w.Pos(cs.pos), false, "two cases for one operator constant")
		}
		caseByValue[cs.value] = cs
	}
	tokVals := []int64{}
	for v := range gramSet {
		tokVals = append(tokVals, v)
	}
	sort.Slice(tokVals, func(i, j int) bool { return tokVals[i] < tokVals[j] })
	// every return of a value (nil error) after both operands were evaluated
	var valueReturns []*ast.ReturnStmt
	walkNoLit(be.fn.Body, func(n ast.Node) bool {
		if ret, ok := n.(*ast.ReturnStmt); ok && len(ret.Results) == 2 && isNilExpr(info, ret.Results[1]) && ret.Pos() > be.evalR.End() {
			valueReturns = append(valueReturns, ret)
		}
		return true
	})
	ef := w.ent(be.fn)
	var opTag ast.Expr = be.sw.Tag
	exclCache := map[[2]int64]bool{}
	excluded := func(ret *ast.ReturnStmt, opv int64) bool {
		k := [2]int64{int64(ret.Pos()), opv}
		if v, ok := exclCache[k]; ok {
			return v
		}
		at := site{pos: ret.Pos(), anc: ret}
		ok, _ := ef.Prove(ret, Not{ef.intEq(keyCtx{e: ef, s: &at}, opTag, opv)})
		exclCache[k] = ok
		return ok
	}
	for _, tv := range tokVals {
		tok := gramSet[tv]
		sp, ok := g.spelling(tok)
		if !ok {
			c.undecided("C02.R2", "no spelling for token "+tok+" in the lexer grammar")
			continue
		}
		spec, ok := yarnOps[sp]
		if !ok {
			c.undecided("C02.R2", "operator spelling "+sp+" ("+tok+") is not in Yarn's operator table")
			continue
		}
		opv, mapped := tm.entries[tv]
		if !mapped {
			continue // reported by R1
		}
		// the value-returning returns that the path facts do not exclude for this operator, wherever they stand
		// (operator-major switch with type tests inside, or type-major branches with operator switches inside)
		got := map[string]string{} // alternative -> description
		var bad []string
		cs := caseByValue[opv]
		if cs == nil {
			cs = &opCase{value: opv, name: tm.valName[opv], pos: be.sw.Pos()}
		}
		nfeasible := 0
		for _, ret := range valueReturns {
			if excluded(ret, opv) {
				continue
			}
			nfeasible++
			desc, alt := describeResult(w, be, ret.Results[0])
			ga := guardAlternative(w, be, ret)
			switch {
			case ga == "":
				bad = append(bad, w.Pos(ret.Pos())+": returns "+desc+" without guards establishing one common alternative of both operands")
			case alt != "" && alt != ga:
				bad = append(bad, w.Pos(ret.Pos())+": computes on ."+alt+" under guards that establish ."+ga)
			default:
				if prev, dup := got[ga]; dup && prev != desc {
					bad = append(bad, w.Pos(ret.Pos())+": two different results for "+ga+" operands: "+prev+" and "+desc)
				}
				got[ga] = desc
			}
		}
		if nfeasible == 0 {
			c.ob("C02.R2", "operator '"+sp+"'", w.Pos(be.sw.Pos()), false, "operator '"+sp+"' ("+tm.valName[opv]+") has no case in the evaluator: it always fails with 'unknown operator'")
			continue
		}
		want := map[string]string{}
		if spec.num != "" {
			want["Number"] = spec.num
		}
		if spec.boolean != "" {
			want["Boolean"] = spec.boolean
		}
		if spec.str != "" {
			want["String"] = spec.str
		}
		for _, alt := range []string{"Number", "Boolean", "String"} {
			key := "operator '" + sp + "' on " + alt
			switch {
			case want[alt] == "" && got[alt] == "":
				c.obN("C02.R2", key, w.Pos(cs.pos), true, "ill-typed: no value is returned for "+alt+" operands", false)
			case want[alt] == got[alt], alt == "Boolean" && boolTT(want[alt]) != "" && boolTT(want[alt]) == boolTT(got[alt]):
				c.ob("C02.R2", key, w.Pos(cs.pos), true, "case "+cs.name+" returns "+got[alt])
			case got[alt] == "":
				c.ob("C02.R2", key, w.Pos(cs.pos), false, "case "+cs.name+" returns no value for "+alt+" operands; Yarn's table prescribes "+want[alt])
			case want[alt] == "":
				c.ob("C02.R2", key, w.Pos(cs.pos), false, "case "+cs.name+" returns "+got[alt]+" for "+alt+" operands; Yarn's table makes that ill-typed (an error)")
			default:
				c.ob("C02.R2", key, w.Pos(cs.pos), false, "case "+cs.name+" returns "+got[alt]+" for "+alt+" operands; Yarn's table prescribes "+want[alt])
			}
		}
		for i, b := range bad {
			c.ob("C02.R2", "operator '"+sp+"' return#"+itoa(i+1), w.Pos(cs.pos), false, b)
		}
	}
	// the operator stored by the tree builder is the looked-up value, the operands left then right
	checkBuilderOperator(c, tm)
}

// checkBuilderOperator: in the tree builder the Expression literal with an Operator takes it from the token map lookup of
// the context's operator token, LeftOperand from the first child callback and RightOperand from the second.
func checkBuilderOperator(c *Ctx, tm *tokenMap) {
	w := c.W
	tp := w.Pkg("internal/tree")
	info := tp.TypesInfo
	found := 0
	for _, f := range w.FuncsIn(tp) {
		if f.Body == nil || f.Lit != nil {
			continue
		}
		x := w.expander(f)
		ast.Inspect(f.Body, func(n ast.Node) bool {
			cl, ok := n.(*ast.CompositeLit)
			if !ok {
				return true
			}
			if tv, ok := info.Types[cl]; !ok || typeStr(tv.Type) != "tree.Expression" {
				return true
			}
			op := litField(cl, "Operator")
			if op == nil {
				return true
			}
			found++
			s := x.str(op)
			okOp := strings.Contains(s, funcFullName(tm.fn.Obj)+"(") && strings.Contains(s, "GetOp().GetTokenType()") && strings.HasSuffix(s, "#0")
			c.ob("C02.R2", f.Name+"/operator-source", w.Pos(cl.Pos()), okOp, map[bool]string{true: "Expression.Operator is the token-map image of the context's operator token", false: "Expression.Operator is " + s + ", not the token-map image of the parsed operator token"}[okOp])
			// operand order: LeftOperand is assigned by the callback pushed last (called first), RightOperand is the argument of the callback pushed first
			l, r := litField(cl, "LeftOperand"), litField(cl, "RightOperand")
			okOrder := false
			why := "operands not recognised"
			if l != nil && r != nil {
				// the literal sits in a callback literal whose parameter is r; l is a variable assigned in another callback pushed after it
				lit1 := w.EnclosingOrSelf(cl)
				if lit1 != nil && lit1.Lit != nil && len(lit1.Lit.Type.Params.List) == 1 {
					// the storage the left operand is read from: a captured local, or a field of a captured local
					storage := func(e ast.Expr) string {
						e = unparen(e)
						if id := identOf(e); id != nil {
							if o := info.Uses[id]; o != nil {
								return "v" + itoa(int(o.Pos()))
							}
						}
						if se, ok := e.(*ast.SelectorExpr); ok {
							if id := identOf(se.X); id != nil {
								if o := info.Uses[id]; o != nil {
									if sel, ok := info.Selections[se]; ok && sel.Kind() == types.FieldVal {
										return "v" + itoa(int(o.Pos())) + "." + sel.Obj().Name()
									}
								}
							}
						}
						return ""
					}
					rid, lkey := identOf(r), storage(l)
					if rid != nil && lkey != "" && info.Uses[rid] == info.Defs[lit1.Lit.Type.Params.List[0].Names[0]] {
						// find the other callback assigning that storage
						var lit2 *ast.FuncLit
						ast.Inspect(f.Body, func(m ast.Node) bool {
							if fl, ok := m.(*ast.FuncLit); ok && fl != lit1.Lit {
								ast.Inspect(fl.Body, func(a ast.Node) bool {
									if as, ok := a.(*ast.AssignStmt); ok && len(as.Lhs) == 1 {
										if storage(as.Lhs[0]) == lkey {
											if pid := identOf(as.Rhs[0]); pid != nil && len(fl.Type.Params.List) == 1 && info.Uses[pid] == info.Defs[fl.Type.Params.List[0].Names[0]] {
												lit2 = fl
											}
										}
									}
									return true
								})
							}
							return true
						})
						if lit2 != nil {
							if lit2.Pos() > lit1.Lit.Pos() {
								okOrder, why = true, "the callback pushed last (run for the first child) records the left operand; the one pushed first receives the right operand"
							} else {
								why = "the callback that records the left operand is pushed before the one that receives the right operand: operands are swapped"
							}
						}
					}
				}
			}
			c.ob("C02.R2", f.Name+"/operand-order", w.Pos(cl.Pos()), okOrder, why)
			return true
		})
	}
	if found == 0 {
		c.undecided("C02.R2", "no Expression literal with an Operator found in the tree builder")
	}
}

func checkUnary(c *Ctx) {
	w := c.W
	p := w.Pkg("")
	info := p.TypesInfo
	vm := w.valueModel()
	// the evaluator: family function with a tagless switch over the fields of *tree.Expression
	for _, f := range w.FuncsIn(p) {
		if f.Obj == nil || !vm.family[f.Obj] || f.Body == nil {
			continue
		}
		x := w.expander(f)
		walkNoLit(f.Body, func(n ast.Node) bool {
			cc, ok := n.(*ast.CaseClause)
			if !ok || len(cc.List) != 1 {
				return true
			}
			b, ok := unparen(cc.List[0]).(*ast.BinaryExpr)
			if !ok || b.Op != token.NEQ || !isNilExpr(info, b.Y) {
				return true
			}
			fld := lastField(info, b.X)
			if fld == nil || (fld.Name() != "NegativeExpression" && fld.Name() != "NotExpression") {
				return true
			}
			want := map[string]string{"NegativeExpression": "NewNumber(-V.Number)", "NotExpression": "NewBoolean(!V.Boolean)"}[fld.Name()]
			got := ""
			for _, st := range cc.Body {
				walkNoLit(st, func(m ast.Node) bool {
					ret, ok := m.(*ast.ReturnStmt)
					if !ok || len(ret.Results) != 2 || !isNilExpr(info, ret.Results[1]) {
						return true
					}
					call, ok := unparen(ret.Results[0]).(*ast.CallExpr)
					if !ok || len(call.Args) != 1 {
						got = "?"
						return true
					}
					callee := calleeOf(info, call)
					u, ok := unparen(call.Args[0]).(*ast.UnaryExpr)
					if callee == nil || !ok {
						got = "?"
						return true
					}
					s := x.str(u.X)
					val := ""
					// s = evaluateExpression($e.<fld>,…)#0.<Alt>
					if strings.Contains(s, "."+fld.Name()+",") || strings.Contains(s, "."+fld.Name()+")#0.") {
						val = "V" + s[strings.LastIndex(s, "."):]
					}
					got = callee.Name() + "(" + u.Op.String() + val + ")"
					return true
				})
			}
			c.ob("C02.R2", f.Name+"/unary "+fld.Name(), w.Pos(cc.Pos()), got == want, map[bool]string{true: "returns " + got, false: "returns " + got + "; Yarn prescribes " + want}[got == want])
			return true
		})
	}
	// tree builder: expNegative / expNot set exactly those fields
	tp := w.Pkg("internal/tree")
	for ctxType, field := range map[string]string{"*parser.ExpNegativeContext": "NegativeExpression", "*parser.ExpNotContext": "NotExpression"} {
		fs := w.FuncsWithParam(tp, ctxType)
		okf := false
		pos := "-"
		for _, f := range fs {
			if !strings.Contains(f.Name, "Enter") {
				continue
			}
			pos = w.Pos(f.Decl.Pos())
			ast.Inspect(f.Body, func(n ast.Node) bool {
				if cl, ok := n.(*ast.CompositeLit); ok {
					if tv, ok := tp.TypesInfo.Types[cl]; ok && typeStr(tv.Type) == "tree.Expression" && len(cl.Elts) == 1 && litField(cl, field) != nil {
						okf = true
					}
				}
				return true
			})
		}
		c.ob("C02.R2", "builder "+ctxType, pos, okf, map[bool]string{true: "builds an Expression with only " + field + " set", false: "the handler of " + ctxType + " does not build an Expression with exactly " + field + " set"}[okf])
	}
}

// intEq builds the formula "x == c" for an integer expression x the way cond does for source comparisons.
func (e *entFn) intEq(k keyCtx, x ast.Expr, cst int64) Formula {
	var objs []types.Object
	k.objs = &objs
	l := k.norm(x)
	return And{e.noteAtom(gtAtom(l, cst-1), objs), Not{e.noteAtom(gtAtom(l, cst), objs)}}
}

func checkShortCircuit(c *Ctx, g *grammarInfo, tm *tokenMap, be *binaryEvaluator) {
	w := c.W
	info := w.Pkg("").TypesInfo
	e := w.ent(be.fn)
	x := w.expander(be.fn)
	opConst := func(spelling string) (int64, bool) {
		for tok, v := range g.tokenConst {
			if sp, ok := g.spelling(tok); ok && sp == spelling {
				if o, ok := tm.entries[v]; ok {
					return o, true
				}
			}
		}
		return 0, false
	}
	// a dereference of the left value's Boolean
	var lbool *ast.StarExpr
	walkNoLit(be.fn.Body, func(n ast.Node) bool {
		if se, ok := n.(*ast.StarExpr); ok && lbool == nil && x.str(se.X) == be.lVal+".Boolean" && se.Pos() < be.evalR.Pos() {
			lbool = se
		}
		return true
	})
	var opIdent ast.Expr = be.sw.Tag
	at := site{pos: be.evalR.Pos(), anc: be.evalR}
	k := keyCtx{e: e, s: &at}
	for _, sc := range []struct {
		sp       string
		decidedL bool // the left value that decides the result
	}{{"and", false}, {"or", true}} {
		key := be.fn.Name + "/short-circuit '" + sc.sp + "'"
		opv, ok := opConst(sc.sp)
		if !ok {
			c.undecided("C02.R3", "operator '"+sc.sp+"' not resolved through grammar and token map")
			continue
		}
		if lbool == nil {
			c.ob("C02.R3", key, w.Pos(be.evalR.Pos()), false, "the left operand's boolean is never inspected before the right operand is evaluated: '"+sc.sp+"' cannot short-circuit")
			continue
		}
		lb := e.cond(k, lbool, 0)
		var decided Formula = lb
		if !sc.decidedL {
			decided = Not{lb}
		}
		goal := Not{And{e.intEq(k, opIdent, opv), decided}}
		ok2, how := e.Prove(be.evalR, goal)
		c.ob("C02.R3", key, w.Pos(be.evalR.Pos()), ok2, map[bool]string{true: "the right operand is evaluated only if not (operator is '" + sc.sp + "' and the left value decides): " + how, false: "the right operand can be evaluated although operator '" + sc.sp + "' is already decided by the left value (its side effects and errors must not happen): " + how}[ok2])
	}
	// order and multiplicity
	r := evtRule{
		start: "",
		prim: func(n ast.Node) []string {
			if call, ok := n.(*ast.CallExpr); ok {
				if call == be.evalL {
					return []string{"L"}
				}
				if call == be.evalR {
					return []string{"R"}
				}
				if callee := calleeOf(info, call); callee != nil && w.valueModel().family[callee] {
					return []string{"OTHER"}
				}
			}
			return nil
		},
		step: func(st, ev string) string { return addTok(st, ev) },
		bad: func(st, ev string) string {
			switch {
			case ev == "R" && st != "L R":
				return "the right operand is evaluated after [" + strings.TrimSuffix(st, " R") + "] (want: the left operand exactly once before)"
			case ev == "L" && st != "L":
				return "the left operand is evaluated again"
			case ev == "OTHER":
				return "an operand is evaluated by another call"
			}
			return ""
		},
	}
	fs := runEVT(w, be.fn, r)
	if len(fs) == 0 {
		c.ob("C02.R3", be.fn.Name+"/left-then-right-once", w.Pos(be.fn.Decl.Pos()), true, "every path evaluates the left operand once, then the right operand at most once")
	}
	for i, f := range fs {
		c.ob("C02.R3", be.fn.Name+"/left-then-right-once#"+itoa(i+1), w.Pos(f.pos), false, f.msg)
	}
	// the value returned when short-circuiting is the deciding left value
	n := 0
	walkNoLit(be.fn.Body, func(m ast.Node) bool {
		ret, ok := m.(*ast.ReturnStmt)
		if !ok || ret.Pos() > be.evalR.Pos() || len(ret.Results) != 2 || !isNilExpr(info, ret.Results[1]) {
			return true
		}
		n++
		s := x.str(ret.Results[0])
		okv := s == be.lVal
		c.ob("C02.R3", be.fn.Name+"/short-circuit-value#"+itoa(n), w.Pos(ret.Pos()), okv, map[bool]string{true: "a short-circuited and/or returns the (deciding) left value", false: "a short-circuit return yields " + s + ", not the left value"}[okv])
		return true
	})
}

// ---------- R4 (shared with C17.R3, C10.R4) ----------

type argLoop struct {
	fn       *Func
	slice    string // expansion of the argument slice
	loop     *ast.RangeStmt
	dispatch *ast.CallExpr
}

func checkArgumentOrder(c *Ctx, rule string) {
	w := c.W
	m := w.runner()
	p := w.Pkg("")
	info := p.TypesInfo
	vm := w.valueModel()
	type target struct {
		f     *Func
		slice string // suffix of the expanded argument slice
		elem  string // suffix after the index for the evaluated expression
	}
	var targets []target
	for _, f := range w.FuncsWithParam(p, "*tree.FunctionCall") {
		targets = append(targets, target{f, "$" + paramName(f, "*tree.FunctionCall") + ".Arguments", ""})
	}
	if m.call != nil {
		targets = append(targets, target{m.call, "$" + paramName(m.call, "*tree.CallStatement") + ".Arguments", ""})
	}
	if m.cmd != nil {
		targets = append(targets, target{m.cmd, "$" + paramName(m.cmd, "*tree.CommandStatement") + ".Elements", ".Expression"})
	}
	for _, t := range targets {
		f := t.f
		c.fn(f)
		x := w.expander(f)
		var loops []*ast.RangeStmt
		var evals []*ast.CallExpr
		walkNoLit(f.Body, func(n ast.Node) bool {
			switch n := n.(type) {
			case *ast.RangeStmt:
				if s := x.str(n.X); s == t.slice || s == strings.Replace(t.slice, ".Arguments", ".FunctionCall.Arguments", 1) {
					loops = append(loops, n)
				}
			case *ast.CallExpr:
				if callee := calleeOf(info, n); callee != nil && vm.family[callee] {
					evals = append(evals, n)
				}
			}
			return true
		})
		if len(loops) != 1 {
			c.ob(rule, f.Name+"/arg-loop", w.Pos(f.Decl.Pos()), false, itoa(len(loops))+" range loops over the argument slice (want exactly one ascending pass)")
			continue
		}
		loop := loops[0]
		c.ob(rule, f.Name+"/arg-loop", w.Pos(loop.Pos()), true, "one range loop over "+exprStr(loop.X)+" (ascending, A4)")
		// evaluation inside the loop at the loop index
		okEval := len(evals) == 1
		why := itoa(len(evals)) + " evaluation calls in the function (want exactly one, inside the loop)"
		if okEval {
			ev := evals[0]
			inside := ev.Pos() > loop.Body.Pos() && ev.End() < loop.Body.End()
			arg := x.str(ev.Args[0])
			base := x.str(loop.X)
			idx := ""
			if loop.Key != nil {
				if id := identOf(loop.Key); id != nil && id.Name != "_" {
					idx = "$" + id.Name
				}
			}
			want1 := base + "[" + idx + "]" + t.elem
			want2 := base + "[range]" + t.elem
			okEval = inside && (arg == want1 || arg == want2)
			why = "evaluates " + arg + " inside the loop"
			if !inside {
				why = "the evaluation call is outside the argument loop"
			} else if !okEval {
				why = "evaluates " + arg + ", not the element at the loop index (" + want1 + ")"
			}
			// appended in the same iteration, to the slice handed to the callee
			if okEval {
				appended := false
				walkNoLit(loop.Body, func(n ast.Node) bool {
					if call, ok := n.(*ast.CallExpr); ok && isBuiltin(info, call, "append") && len(call.Args) == 2 {
						if as, ok := w.parent[call].(*ast.AssignStmt); ok && len(as.Lhs) == 1 && exprStr(as.Lhs[0]) == exprStr(call.Args[0]) {
							if x.str(call.Args[1]) == x.str(ev)+"#0" {
								appended = true
							}
						}
					}
					return true
				})
				if !appended {
					// or stored at the loop index into a slice made with exactly one slot per argument
					walkNoLit(loop.Body, func(n ast.Node) bool {
						as, ok := n.(*ast.AssignStmt)
						if !ok || len(as.Lhs) != 1 || len(as.Rhs) != 1 || as.Tok != token.ASSIGN {
							return true
						}
						ix, ok := unparen(as.Lhs[0]).(*ast.IndexExpr)
						if !ok || idx == "" || x.str(ix.Index) != idx || x.str(as.Rhs[0]) != x.str(ev)+"#0" {
							return true
						}
						if sx := x.str(ix.X); sx == "make(expr,len("+base+"))" || strings.HasPrefix(sx, "make(") && strings.HasSuffix(sx, ",len("+base+"))") {
							appended = true
						}
						return true
					})
				}
				if !appended {
					okEval, why = false, "the evaluated value is neither appended to the argument list nor stored at the loop index into a list made with one slot per argument, in the same iteration"
				}
			}
		}
		c.ob(rule, f.Name+"/evaluate-at-index", w.Pos(loop.Pos()), okEval, why)
		// single dispatch after the loop, outside any loop
		var dispatches []*ast.CallExpr
		walkNoLit(f.Body, func(n ast.Node) bool {
			call, ok := n.(*ast.CallExpr)
			if !ok {
				return true
			}
			sel, ok := unparen(call.Fun).(*ast.SelectorExpr)
			if !ok || sel.Sel.Name != "call" {
				return true
			}
			dispatches = append(dispatches, call)
			return true
		})
		okD := len(dispatches) == 1
		whyD := itoa(len(dispatches)) + " dispatch calls (want exactly one)"
		if okD {
			d := dispatches[0]
			inLoop := false
			for q := w.parent[d]; q != nil && q != f.Node(); q = w.parent[q] {
				switch q.(type) {
				case *ast.ForStmt, *ast.RangeStmt:
					inLoop = true
				}
			}
			okD = !inLoop && d.Pos() > loop.End()
			whyD = "the callee is invoked once, after the argument loop"
			if inLoop {
				whyD = "the dispatch sits inside a loop: the callee can run more than once"
			} else if !okD {
				whyD = "the dispatch precedes the argument loop"
			}
		}
		c.ob(rule, f.Name+"/single-dispatch", w.Pos(f.Decl.Pos()), okD, whyD)
	}
	if len(targets) < 3 {
		c.undecided(rule, "expected three argument-evaluating functions (function call, call statement, command statement)")
	}
}

// ---------- R6 ----------

func checkHandlers(c *Ctx, rule string) {
	w := c.W
	g := w.grammar()
	tp := w.Pkg("internal/tree")
	pl := namedType(tp, "parserListener")
	if pl == nil {
		c.undecided(rule, "type parserListener not found")
		return
	}
	declared := map[string]bool{}
	for i := 0; i < pl.NumMethods(); i++ {
		declared[pl.Method(i).Name()] = true
	}
	passThrough := map[string]string{"expParens": "parentheses only group; the inner expression reports itself", "expValue": "the value alternative reports itself"}
	// the generated listener interface must know the label too (grammar and generated code agree)
	pp := w.Pkg("internal/parser")
	iface := namedType(pp, "YarnSpinnerParserListener")
	ifaceMethods := map[string]bool{}
	if iface != nil {
		if it, ok := iface.Underlying().(*types.Interface); ok {
			for i := 0; i < it.NumMethods(); i++ {
				ifaceMethods[it.Method(i).Name()] = true
			}
		}
	}
	for _, rname := range []string{"expression", "value"} {
		labels := g.labels(rname)
		if len(labels) < 5 {
			c.undecided(rule, "labels of grammar rule "+rname+" not read")
			continue
		}
		for _, l := range labels {
			mname := "Enter" + strings.ToUpper(l[:1]) + l[1:]
			key := "alternative " + rname + "#" + l
			if !ifaceMethods[mname] {
				c.ob(rule, key, "internal/parser/YarnSpinnerParser.g4", false, "the generated listener interface has no "+mname+": grammar and generated parser disagree")
				continue
			}
			if why, ok := passThrough[l]; ok {
				c.obN(rule, key, "internal/parser/YarnSpinnerParser.g4", true, "pass-through: "+why, false)
				continue
			}
			c.ob(rule, key, "internal/parser/YarnSpinnerParser.g4", declared[mname], map[bool]string{true: "handled by parserListener." + mname, false: "no parserListener." + mname + ": an expression written with this alternative never reaches its callback (the statement is dropped or evaluated with a missing operand)"}[declared[mname]])
			if declared[mname] && rule == "C02.R6" {
				h := w.DeclByName(tp, "parserListener."+mname)
				if h == nil || h.Body == nil {
					c.undecided("C02.R7", "handler "+mname+" not found as a declaration")
					continue
				}
				c.fn(h)
				fs := reportsExpression(w, h, 0)
				if len(fs) == 0 {
					c.ob("C02.R7", h.Name+"/reports", w.Pos(h.Decl.Pos()), true, "every path calls the current expression callback or installs a callback that does")
				}
				for i, fd := range fs {
					k := h.Name + "/reports"
					if i > 0 {
						k += "#" + itoa(i+1)
					}
					c.ob("C02.R7", k, w.Pos(fd.pos), false, fd.msg)
				}
			}
		}
	}
}

// boolTT: the truth table (rows LR = 00,01,10,11) of a described result over two boolean operands, "" if it is not one.
// L != R and xor are the same function of two booleans; so are L == R and its table.
func boolTT(desc string) string {
	switch desc {
	case "Boolean(L!=R)", "Boolean(R!=L)", "Boolean(tt:0110)":
		return "0110"
	case "Boolean(L==R)", "Boolean(R==L)", "Boolean(tt:1001)":
		return "1001"
	}
	if strings.HasPrefix(desc, "Boolean(tt:") && strings.HasSuffix(desc, ")") {
		return strings.TrimSuffix(strings.TrimPrefix(desc, "Boolean(tt:"), ")")
	}
	return ""
}
