package main

// c12.go — C12: the end of the dialogue is absorbing (plus the helpers on the continuation stack shared with C01).

import (
	"go/ast"
	"go/constant"
	"go/token"
	"go/types"
)

func init() {
	registry["C12"] = &propCheck{
		meta: propMeta{
			Level: "other",
			Explanation: "Decides three structural necessary conditions of 'END is absorbing' in DialogueRunner.Next: (R1) every return of the end marker " +
				"(nil, nil) is reached only with the continuation stack provably empty (path-event automaton over go/cfg, with callee summaries); " +
				"(R2) a consumed choice always clears the waiting state before Next returns or recurses; (R3) on the one path that is feasible when the " +
				"stack is empty, no choice is pending and no command is pending, Next performs no call, store or channel operation at all. " +
				"It decides these parts of the code's shape, not the behaviour as a whole.",
			NotDecided:  "the composition of R1-R3 with C10.R3, C17.R1 and C01.R1 into the absorbing property is argued in DESIGN.md, not mechanised",
			Assumptions: []string{"A4 (stdlib contracts)", "go/cfg and go/types are trusted"},
			Trusted:     []string{"go/types", "golang.org/x/tools/go/cfg", "go/packages loader"},
		},
		run: checkC12,
	}
}

// sizeTest recognises a comparison of fld.Size() (or len(fld)) with a constant that decides emptiness.
func sizeTest(info *types.Info, cond ast.Expr, fld *types.Var) (emptyOnTrue bool, ok bool) {
	b, isBin := unparen(cond).(*ast.BinaryExpr)
	if !isBin {
		return false, false
	}
	isSize := func(x ast.Expr) bool {
		call, ok := unparen(x).(*ast.CallExpr)
		if !ok {
			return false
		}
		if isBuiltin(info, call, "len") && len(call.Args) == 1 && lastField(info, call.Args[0]) == fld {
			return true
		}
		name, on := methodCallOn(info, call, fld)
		return on && name == "Size"
	}
	constOf := func(x ast.Expr) (int64, bool) {
		if tv, ok := info.Types[x]; ok && tv.Value != nil && tv.Value.Kind() == constant.Int {
			return constant.Int64Val(tv.Value)
		}
		return 0, false
	}
	op := b.Op
	var c int64
	switch {
	case isSize(b.X):
		v, ok := constOf(b.Y)
		if !ok {
			return false, false
		}
		c = v
	case isSize(b.Y):
		v, ok := constOf(b.X)
		if !ok {
			return false, false
		}
		c = v
		op = map[token.Token]token.Token{token.LSS: token.GTR, token.GTR: token.LSS, token.LEQ: token.GEQ, token.GEQ: token.LEQ, token.EQL: token.EQL, token.NEQ: token.NEQ}[op]
	default:
		return false, false
	}
	switch {
	case op == token.EQL && c == 0, op == token.LSS && c == 1, op == token.LEQ && c == 0:
		return true, true
	case op == token.NEQ && c == 0, op == token.GTR && c == 0, op == token.GEQ && c == 1:
		return false, true
	}
	return false, false
}

// stackEffect summarises what a module function may do to the continuation stack: "" none, otherwise the set of exit
// states of the emptiness automaton started in "unknown".
type stackSummary struct {
	touches bool
	exits   map[string]bool
}

func stackRule(w *World, m *runnerModel, self *Func, summaries map[*Func]*stackSummary) evtRule {
	info := m.pkg.TypesInfo
	return evtRule{
		start: "unknown",
		prim: func(n ast.Node) []string {
			call, ok := n.(*ast.CallExpr)
			if !ok {
				return nil
			}
			if name, on := methodCallOn(info, call, m.fStack); on {
				switch name {
				case "Clear":
					return []string{"EMPTY"}
				case "Push", "PushAll":
					return []string{"NONEMPTY"}
				case "Pop":
					return []string{"UNKNOWN"}
				}
				return nil
			}
			if callee := calleeOf(info, call); callee != nil {
				if g := w.byObj[callee]; g != nil && g.Pkg == m.pkg {
					if g == self {
						return []string{"UNKNOWN"}
					}
					s := summaries[g]
					if s == nil {
						return []string{"UNKNOWN"} // recursion in progress
					}
					if !s.touches {
						return nil
					}
					if len(s.exits) == 1 && s.exits["empty"] {
						return []string{"EMPTY"}
					}
					return []string{"UNKNOWN"}
				}
			}
			return nil
		},
		edge: func(e edgeInfo) []string {
			if emptyOnTrue, ok := sizeTest(info, e.Cond, m.fStack); ok {
				if emptyOnTrue == e.Branch {
					return []string{"EMPTY"}
				}
				return []string{"NONEMPTY"}
			}
			return nil
		},
		step: func(st, ev string) string {
			switch ev {
			case "EMPTY":
				return "empty"
			case "NONEMPTY":
				return "nonempty"
			case "UNKNOWN":
				return "unknown"
			}
			return ""
		},
	}
}

// stackSummaries computes, for every function of package ysgo, how it leaves the continuation stack.
func stackSummaries(w *World, m *runnerModel) map[*Func]*stackSummary {
	sums := map[*Func]*stackSummary{}
	info := m.pkg.TypesInfo
	var visit func(f *Func, depth int) *stackSummary
	visit = func(f *Func, depth int) *stackSummary {
		if s, ok := sums[f]; ok {
			return s
		}
		sums[f] = nil // in progress
		s := &stackSummary{exits: map[string]bool{}}
		if f.Body != nil {
			walkNoLit(f.Body, func(n ast.Node) bool {
				if call, ok := n.(*ast.CallExpr); ok {
					if _, on := methodCallOn(info, call, m.fStack); on {
						s.touches = true
					}
					if callee := calleeOf(info, call); callee != nil {
						if g := w.byObj[callee]; g != nil && g.Pkg == m.pkg && g != f && depth < 6 {
							if gs := visit(g, depth+1); gs == nil || gs.touches {
								s.touches = true
							}
						} else if g == f {
							s.touches = true
						}
					}
				}
				return true
			})
			if s.touches {
				r := stackRule(w, m, f, sums)
				r.ret = func(st string, _ *ast.ReturnStmt, _ string) string {
					s.exits[st] = true
					return ""
				}
				runEVT(w, f, r)
			}
		}
		sums[f] = s
		return s
	}
	for _, f := range w.FuncsIn(m.pkg) {
		if f.Decl != nil {
			visit(f, 0)
		}
	}
	return sums
}

func isEndReturn(info *types.Info, r *ast.ReturnStmt) bool {
	if len(r.Results) != 2 {
		return false
	}
	return isNilExpr(info, r.Results[0]) && isNilExpr(info, r.Results[1])
}

// isChoiceIndex: X[choice] where X is reached through the lastStatement field and the index is Next's parameter
func isChoiceIndex(m *runnerModel, ix *ast.IndexExpr) bool {
	info := m.pkg.TypesInfo
	id := identOf(ix.Index)
	if id == nil {
		return false
	}
	sig := m.next.Sig()
	if sig.Params().Len() != 1 || info.Uses[id] != sig.Params().At(0) {
		return false
	}
	base := ix.X
	for d := 0; d < 4; d++ {
		_, fields := fieldChain(info, base)
		for _, f := range fields {
			if f == m.fLast {
				return true
			}
		}
		// a local bound once to (a part of) the pending option group: options := dr.lastStatement.….Options
		bid, ok := unparen(base).(*ast.Ident)
		if !ok || wGlobal == nil {
			return false
		}
		v, isVar := info.Uses[bid].(*types.Var)
		if !isVar || v.IsField() {
			return false
		}
		rhs, idx, _, okd := wGlobal.expander(m.next).def(v)
		if !okd || rhs == nil || idx >= 0 {
			return false
		}
		base = rhs
	}
	return false
}

func checkC12(c *Ctx) {
	w := c.W
	wGlobal = w
	m := w.runner()
	c.rule("C12.R1", "every return of the end marker (nil, nil) in Next is reached only with the continuation stack empty (after Clear or on the empty edge of a Size()==0 test, no push since)", 2)
	c.rule("C12.R2", "after the choice argument is consumed (Options[choice]), every path stores to lastStatement before Next returns or recurses (a consumed choice is never left pending)", 1)
	c.rule("C12.R3", "on the path feasible under INV_END (no pending command, not waiting for a choice, stack empty) Next performs no call, store, send, receive or goroutine start", 2)
	if !m.ok(c, "C12") {
		return
	}
	info := m.pkg.TypesInfo
	c.fn(m.next)
	sums := stackSummaries(w, m)

	// R1
	r1 := stackRule(w, m, m.next, sums)
	ends := 0
	endSeen := map[*ast.ReturnStmt]bool{}
	bad1 := map[*ast.ReturnStmt]string{}
	r1.ret = func(st string, r *ast.ReturnStmt, kind string) string {
		if isEndReturn(info, r) {
			if !endSeen[r] {
				endSeen[r] = true
				ends++
			}
			if st != "empty" {
				bad1[r] = "the end marker is returned while the continuation stack is " + st + " (statements may remain queued and run on the next call)"
			}
		}
		return ""
	}
	runEVT(w, m.next, r1)
	idx := 0
	var endRets []*ast.ReturnStmt
	walkNoLit(m.next.Body, func(n ast.Node) bool {
		if r, ok := n.(*ast.ReturnStmt); ok && isEndReturn(info, r) {
			endRets = append(endRets, r)
		}
		return true
	})
	for _, r := range endRets {
		idx++
		key := m.next.Name + "/end-return#" + itoa(idx)
		if !endSeen[r] {
			c.obN("C12.R1", key, w.Pos(r.Pos()), true, "unreachable in the control-flow graph", false)
			continue
		}
		if msg, bad := bad1[r]; bad {
			c.ob("C12.R1", key, w.Pos(r.Pos()), false, msg)
		} else {
			c.ob("C12.R1", key, w.Pos(r.Pos()), true, "reached only in automaton state 'empty'")
		}
	}

	// R2
	choiceConsumedRule(c, m, "C12.R2")

	// R3
	checkNoEffectUnderEnd(c, m, "C12.R3")
}

// choiceConsumedRule: after Options[choice] is read, every path stores to lastStatement before Next returns or recurses.
func choiceConsumedRule(c *Ctx, m *runnerModel, rule string) {
	w := c.W
	info := m.pkg.TypesInfo
	consumed := 0
	r2 := evtRule{
		start: "idle",
		prim: func(n ast.Node) []string {
			switch n := n.(type) {
			case *ast.IndexExpr:
				if isChoiceIndex(m, n) {
					consumed++
					return []string{"CONSUME"}
				}
			case *ast.AssignStmt:
				for _, f := range storesTo(info, n) {
					if f == m.fLast {
						return []string{"STORELAST"}
					}
				}
			case *ast.CallExpr:
				if callee := calleeOf(info, n); callee != nil && w.byObj[callee] == m.next {
					return []string{"RECURSE"}
				}
			case *pseudo:
				if n.kind == "SELFCALL" {
					return []string{"RECURSE"}
				}
			}
			return nil
		},
		step: func(st, ev string) string {
			switch ev {
			case "CONSUME":
				return "consumed"
			case "STORELAST":
				return "idle"
			case "RECURSE":
				if st == "consumed" {
					return "consumed-recursed"
				}
			}
			return ""
		},
		bad: func(st, ev string) string {
			if st == "consumed-recursed" && ev == "RECURSE" {
				return "Next recurses while the consumed choice is still pending: the same choice would be applied again"
			}
			return ""
		},
		ret: func(st string, r *ast.ReturnStmt, kind string) string {
			if st == "consumed" || st == "consumed-recursed" {
				return "Next returns (" + kind + ") with the consumed choice still pending: a later call would run an option body again"
			}
			return ""
		},
	}
	fs := runEVT(w, m.next, r2)
	if consumed == 0 {
		c.undecided(rule, "no use of the choice parameter as an index through lastStatement found in Next")
	} else if len(fs) == 0 {
		c.ob(rule, m.next.Name+"/choice-consumed", w.Pos(m.next.Decl.Pos()), true, "every path from Options[choice] stores to lastStatement before any return or recursive call")
	} else {
		for i, f := range fs {
			c.ob(rule, m.next.Name+"/choice-consumed#"+itoa(i+1), w.Pos(f.pos), false, f.msg)
		}
	}

}

// checkNoEffectUnderEnd: automaton state "feasible" = the path is consistent with INV_END so far.
func checkNoEffectUnderEnd(c *Ctx, m *runnerModel, rule string) {
	w := c.W
	info := m.pkg.TypesInfo
	guards := 0
	isWaitingCall := func(x ast.Expr) bool {
		call, ok := unparen(x).(*ast.CallExpr)
		if !ok || m.waiting == nil {
			return false
		}
		callee := calleeOf(info, call)
		return callee != nil && w.byObj[callee] == m.waiting
	}
	pureGuardCall := func(call *ast.CallExpr) bool {
		if isWaitingCall(call) {
			return true
		}
		if name, on := methodCallOn(info, call, m.fStack); on && name == "Size" {
			return true
		}
		return isBuiltin(info, call, "len")
	}
	seenGuard := map[string]bool{}
	r := evtRule{
		start: "feasible",
		edge: func(e edgeInfo) []string {
			// pending-command test: fChan != nil
			if b, ok := unparen(e.Cond).(*ast.BinaryExpr); ok && (b.Op == token.NEQ || b.Op == token.EQL) {
				var other ast.Expr
				if isNilExpr(info, b.Y) {
					other = b.X
				} else if isNilExpr(info, b.X) {
					other = b.Y
				}
				if other != nil && lastField(info, other) == m.fChan {
					seenGuard["pending"] = true
					if (b.Op == token.NEQ) == e.Branch {
						return []string{"INFEASIBLE"}
					}
					return nil
				}
				// inline waiting test: <through lastStatement>.ShortcutOptionStatement != nil
				if other != nil && isOptionGroupOfLast(m, other) {
					seenGuard["waiting"] = true
					if (b.Op == token.NEQ) == e.Branch {
						return []string{"INFEASIBLE"}
					}
					return nil
				}
			}
			if isWaitingCall(e.Cond) {
				seenGuard["waiting"] = true
				if e.Branch {
					return []string{"INFEASIBLE"}
				}
				return nil
			}
			if emptyOnTrue, ok := sizeTest(info, e.Cond, m.fStack); ok {
				seenGuard["empty"] = true
				if emptyOnTrue != e.Branch {
					return []string{"INFEASIBLE"}
				}
				return nil
			}
			return nil
		},
		prim: func(n ast.Node) []string {
			switch n := n.(type) {
			case *ast.CallExpr:
				if pureGuardCall(n) {
					return nil
				}
				if tv, ok := info.Types[n.Fun]; ok && tv.IsType() {
					return nil
				}
				return []string{"EFFECT"}
			case *ast.AssignStmt:
				if len(storesTo(info, n)) > 0 {
					return []string{"EFFECT"}
				}
			case *ast.IncDecStmt:
				if len(storesTo(info, n)) > 0 {
					return []string{"EFFECT"}
				}
			case *ast.SendStmt, *ast.GoStmt, *ast.DeferStmt:
				return []string{"EFFECT"}
			case *ast.UnaryExpr:
				if n.Op == token.ARROW {
					return []string{"EFFECT"}
				}
			case *pseudo:
				if n.kind == "ARM:recv" {
					return []string{"EFFECT"}
				}
			}
			return nil
		},
		step: func(st, ev string) string {
			if ev == "INFEASIBLE" {
				return "infeasible"
			}
			return ""
		},
		bad: func(st, ev string) string {
			if st == "feasible" && ev == "EFFECT" {
				return "reachable when the dialogue has ended (no pending command, not waiting for a choice, empty stack): Next must have no effect there"
			}
			return ""
		},
	}
	endOK := false
	r.ret = func(st string, ret *ast.ReturnStmt, kind string) string {
		if st == "feasible" {
			if isEndReturn(info, ret) {
				endOK = true
				return ""
			}
			return "a return other than the end marker is reachable when the dialogue has ended"
		}
		return ""
	}
	// the waiting predicate itself must be effect-free
	if m.waiting != nil {
		pure := true
		walkNoLit(m.waiting.Body, func(n ast.Node) bool {
			switch n.(type) {
			case *ast.CallExpr, *ast.AssignStmt, *ast.IncDecStmt, *ast.SendStmt, *ast.GoStmt:
				pure = false
			}
			return true
		})
		c.ob(rule, m.waiting.Name+"/pure", w.Pos(m.waiting.Decl.Pos()), pure, map[bool]string{true: "the waiting predicate only reads fields", false: "the waiting predicate has effects"}[pure])
		c.fn(m.waiting)
	}
	fs := runEVT(w, m.next, r)
	for _, g := range []string{"pending", "waiting", "empty"} {
		if seenGuard[g] {
			guards++
		}
	}
	c.Extra["c12_guards_seen"] = guards
	if len(fs) == 0 {
		c.ob(rule, m.next.Name+"/no-effect-under-INV_END", w.Pos(m.next.Decl.Pos()), endOK, map[bool]string{true: "the only INV_END-feasible path takes the three state tests and returns the end marker with no call, store or channel operation", false: "no return of the end marker is reachable on the INV_END-feasible path"}[endOK])
		c.obN(rule, m.next.Name+"/guards", w.Pos(m.next.Decl.Pos()), guards == 3, "state tests recognised: "+itoa(guards)+" of 3 (pending command, waiting for choice, empty stack)", true)
	} else {
		for i, f := range fs {
			c.ob(rule, m.next.Name+"/effect-under-INV_END#"+itoa(i+1)+" "+nodeStrAny(f.node), w.Pos(f.pos), false, f.msg)
		}
	}
}

// isOptionGroupOfLast: x is <...lastStatement>.F with F the *tree.ShortcutOptionStatement field of tree.Statement
func isOptionGroupOfLast(m *runnerModel, x ast.Expr) bool {
	info := m.pkg.TypesInfo
	_, fields := fieldChain(info, x)
	if len(fields) < 2 || fields[len(fields)-2] != m.fLast {
		return false
	}
	return typeStr(fields[len(fields)-1].Type()) == "*tree.ShortcutOptionStatement"
}

func nodeStrAny(n ast.Node) string {
	switch x := n.(type) {
	case ast.Expr:
		return nodeStr(x)
	case *ast.ReturnStmt:
		return nodeStr(x)
	case *ast.AssignStmt:
		if len(x.Lhs) > 0 {
			return "assign " + nodeStr(x.Lhs[0])
		}
	}
	return "stmt"
}
