package main

// model.go — semantic anchors of package ysgo: fields of DialogueRunner by type, executors by parameter type.

import (
	"fmt"
	"go/ast"
	"go/token"
	"go/types"
	"strings"

	"golang.org/x/tools/go/packages"
)

type runnerModel struct {
	pkg       *packages.Package
	T         *types.Named // DialogueRunner
	fStack    *types.Var   // container.Stack[*statementQueue]
	fLast     *types.Var   // *tree.Statement
	fChan     *types.Var   // <-chan error (or a pointer to a struct holding it: then fChanRecv is the inner field)
	fChanRecv *types.Var   // the field the runner receives from (fChan itself unless nested)
	fNode     *types.Var   // string
	fVis      *types.Var   // map[string]int
	fSnap     *types.Var   // map[string]variable.Value
	fStore    *types.Var   // variable.Storer
	fFuncs    *types.Var   // *functionStorer
	fCmds     *types.Var   // *commandStorer
	fLP       *types.Var   // markup.LineParser
	fDlg      *types.Var   // *tree.Dialogue

	next, restore, snapshot, ctor             *Func
	jump, set, ifx, cmd, call, decl, incVisit *Func
	waiting                                   *Func // isWaitingForChoice-like predicate (may be nil)
	problems                                  []string

	// the cursor over a list of statements (statementQueue today), recognised by structure: a struct of the package
	// with a []*tree.Statement field and an int field
	queueT *types.Named
	fStmts *types.Var
	fPtr   *types.Var
	fetch  *Func // method on *queueT returning (statement, ok); nil when the fetch is written out at its use
}

var runnerModelCache *runnerModel

func (w *World) runner() *runnerModel {
	if runnerModelCache != nil && runnerModelCache.pkg == w.Pkg("") {
		return runnerModelCache
	}
	m := &runnerModel{pkg: w.Pkg("")}
	runnerModelCache = m
	m.T = namedType(m.pkg, "DialogueRunner")
	if m.T == nil {
		m.problems = append(m.problems, "type DialogueRunner not found")
		return m
	}
	field := func(typ, fallback string) *types.Var {
		if v := structFieldByType(m.T, typ); v != nil {
			return v
		}
		if v := structFieldByName(m.T, fallback); v != nil {
			return v
		}
		m.problems = append(m.problems, fmt.Sprintf("no unique DialogueRunner field of type %s (nor named %s)", typ, fallback))
		return nil
	}
	// the statement cursor type
	sc := m.pkg.Types.Scope()
	for _, name := range sc.Names() {
		tn, ok := sc.Lookup(name).(*types.TypeName)
		if !ok || tn.IsAlias() {
			continue
		}
		n, ok := tn.Type().(*types.Named)
		if !ok || n == m.T {
			continue
		}
		st, ok := n.Underlying().(*types.Struct)
		if !ok || st.NumFields() > 4 {
			continue
		}
		var fs, fp *types.Var
		nInt := 0
		for i := 0; i < st.NumFields(); i++ {
			switch typeStr(st.Field(i).Type()) {
			case "[]*tree.Statement":
				fs = st.Field(i)
			case "int":
				fp = st.Field(i)
				nInt++
			}
		}
		if fs != nil && fp != nil && nInt == 1 {
			if m.queueT != nil {
				m.problems = append(m.problems, "two candidate statement cursor types: "+m.queueT.Obj().Name()+", "+n.Obj().Name())
			}
			m.queueT, m.fStmts, m.fPtr = n, fs, fp
		}
	}
	// the continuation (cursor type, stack of cursors) and the pending option group are what the flow properties
	// (C01, C04, C06, C07, C12) read; the other properties do not: a change of that representation must not take
	// their anchors away ("soft" problems, see ok)
	softField := func(typ, fallback string) *types.Var {
		n := len(m.problems)
		v := field(typ, fallback)
		for i := n; i < len(m.problems); i++ {
			m.problems[i] = "soft:" + m.problems[i]
		}
		return v
	}
	if m.queueT == nil {
		m.problems = append(m.problems, "soft:no statement cursor type (struct with a []*tree.Statement field and an int field)")
	} else {
		m.fStack = softField("container.Stack[*"+typeStr(m.queueT)+"]", "statementsToRun")
		for _, g := range w.FuncsIn(m.pkg) {
			if g.Decl != nil && g.Decl.Recv != nil && g.Body != nil && g.Sig().Results().Len() == 2 {
				if p, ok := g.Sig().Recv().Type().(*types.Pointer); ok && p.Elem() == types.Type(m.queueT) && typeStr(g.Sig().Results().At(0).Type()) == "*tree.Statement" {
					m.fetch = g
				}
			}
		}
	}
	m.fLast = softField("*tree.Statement", "lastStatement")
	// the pending-command channel is read by the command and flow properties only
	{
		n := len(m.problems)
		m.fChan = field("<-chan error", "commandErrChan")
		m.fChanRecv = m.fChan
		if m.fChan == nil && m.T != nil {
			// the pending command kept as a pointer to a struct of the package with exactly one <-chan error field
			if st, ok := m.T.Underlying().(*types.Struct); ok {
				var outer, inner *types.Var
				cnt := 0
				for i := 0; i < st.NumFields(); i++ {
					pt, ok := st.Field(i).Type().(*types.Pointer)
					if !ok {
						continue
					}
					nt, ok := pt.Elem().(*types.Named)
					if !ok || nt.Obj().Pkg() != m.pkg.Types {
						continue
					}
					is, ok := nt.Underlying().(*types.Struct)
					if !ok {
						continue
					}
					var in *types.Var
					k := 0
					for j := 0; j < is.NumFields(); j++ {
						if typeStr(is.Field(j).Type()) == "<-chan error" {
							in = is.Field(j)
							k++
						}
					}
					if k == 1 {
						outer, inner = st.Field(i), in
						cnt++
					}
				}
				if cnt == 1 {
					m.fChan, m.fChanRecv = outer, inner
					m.problems = m.problems[:n]
				}
			}
		}
		for i := n; i < len(m.problems); i++ {
			m.problems[i] = "softchan:" + m.problems[i]
		}
	}
	m.fNode = field("string", "currentNode")
	m.fVis = field("map[string]int", "visitedNodes")
	m.fSnap = field("map[string]variable.Value", "variableSnapshot")
	m.fStore = field("variable.Storer", "variableStorer")
	m.fFuncs = field("*ysgo.functionStorer", "functionStorer")
	m.fCmds = field("*ysgo.commandStorer", "commandStorer")
	// the line parser field is optional: only C14.R4 / C07.R2's exception / C04.R3 look at it
	if v := structFieldByType(m.T, "markup.LineParser"); v != nil {
		m.fLP = v
	} else if v := structFieldByName(m.T, "lineParser"); v != nil {
		m.fLP = v
	}
	m.fDlg = field("*tree.Dialogue", "dialogue")

	api := func(name string) *Func {
		f := w.DeclByName(m.pkg, name)
		if f == nil {
			m.problems = append(m.problems, "API function "+name+" not found")
		}
		return f
	}
	m.next = api("DialogueRunner.Next")
	m.restore = api("DialogueRunner.RestoreAt")
	m.snapshot = api("DialogueRunner.Snapshot")
	m.ctor = api("NewDialogueRunner")
	exec := func(typ string) *Func {
		var cands []*Func
		for _, f := range w.FuncsWithParam(m.pkg, typ) {
			if f.Decl.Recv != nil {
				cands = append(cands, f)
			}
		}
		if len(cands) != 1 {
			m.problems = append(m.problems, fmt.Sprintf("%d methods with a %s parameter (want 1)", len(cands), typ))
			return nil
		}
		return cands[0]
	}
	m.jump = exec("*tree.JumpStatement")
	m.set = exec("*tree.SetStatement")
	m.ifx = exec("*tree.IfStatement")
	m.cmd = exec("*tree.CommandStatement")
	m.call = exec("*tree.CallStatement")
	m.decl = exec("*tree.DeclareStatement")
	// the visit-count updater: the function holding the in-place update of the visit map
	if m.fVis != nil {
		for _, f := range w.FuncsIn(m.pkg) {
			if f.Body == nil {
				continue
			}
			found := false
			walkNoLit(f.Body, func(n ast.Node) bool {
				switch n := n.(type) {
				case *ast.IncDecStmt:
					if ix, ok := unparen(n.X).(*ast.IndexExpr); ok && lastField(f.Pkg.TypesInfo, ix.X) == m.fVis {
						found = true
					}
				case *ast.AssignStmt:
					for _, l := range n.Lhs {
						if ix, ok := unparen(l).(*ast.IndexExpr); ok && lastField(f.Pkg.TypesInfo, ix.X) == m.fVis {
							found = true
						}
					}
				}
				return true
			})
			if found && f != m.restore && f != m.ctor && f != m.snapshot {
				if m.incVisit != nil && m.incVisit != f {
					m.problems = append(m.problems, "more than one function updates the visit map in place: "+m.incVisit.Name+", "+f.Name)
				}
				m.incVisit = f
			}
		}
	}
	// the waiting predicate: a niladic bool method whose single return mentions lastStatement
	for _, f := range w.FuncsIn(m.pkg) {
		if f.Decl == nil || f.Decl.Recv == nil || f.Body == nil {
			continue
		}
		sig := f.Sig()
		if sig.Params().Len() == 0 && sig.Results().Len() == 1 && typeStr(sig.Results().At(0).Type()) == "bool" && len(f.Body.List) == 1 {
			if r, ok := f.Body.List[0].(*ast.ReturnStmt); ok && len(r.Results) == 1 {
				// the returned expression must be a conjunction with the conjunct <lastStatement>.ShortcutOptionStatement != nil
				var conj []ast.Expr
				var split func(x ast.Expr)
				split = func(x ast.Expr) {
					if b, ok := unparen(x).(*ast.BinaryExpr); ok && b.Op == token.LAND {
						split(b.X)
						split(b.Y)
						return
					}
					conj = append(conj, unparen(x))
				}
				split(r.Results[0])
				for _, cj := range conj {
					if b, ok := cj.(*ast.BinaryExpr); ok && b.Op == token.NEQ && isNilExpr(f.Pkg.TypesInfo, b.Y) && m.fLast != nil && isOptionGroupOfLast(m, b.X) {
						m.waiting = f
					}
				}
			}
		}
	}
	return m
}

func (m *runnerModel) ok(c *Ctx, rule string) bool {
	needsFlow := map[string]bool{"C01": true, "C04": true, "C06": true, "C07": true, "C12": true}[c.Prop]
	bad := false
	needsChan := needsFlow || c.Prop == "C10"
	for _, p := range m.problems {
		if strings.HasPrefix(p, "soft:") && !needsFlow {
			continue
		}
		if strings.HasPrefix(p, "softchan:") && !needsChan {
			continue
		}
		c.undecided(rule, "anchor: "+strings.TrimPrefix(strings.TrimPrefix(p, "soft:"), "softchan:"))
		bad = true
	}
	return !bad
}

// ctorInit describes how the constructor initialises the runner it returns: the literal's elements, overridden or
// completed by top-level stores `r.f = e` on the local that is returned (a runner built step by step).
type ctorInit struct {
	obj    types.Object        // the local holding the runner under construction (nil: literal returned directly)
	fields map[string]ast.Expr // field name -> initial value expression
	pos    token.Pos
}

var ctorInitCache *ctorInit
var ctorInitFor *runnerModel

func (m *runnerModel) ctorInit(w *World) *ctorInit {
	if ctorInitCache != nil && ctorInitFor == m {
		return ctorInitCache
	}
	ci := &ctorInit{fields: map[string]ast.Expr{}, pos: m.ctor.Decl.Pos()}
	ctorInitCache, ctorInitFor = ci, m
	info := m.pkg.TypesInfo
	// the returned local
	walkNoLit(m.ctor.Body, func(n ast.Node) bool {
		r, ok := n.(*ast.ReturnStmt)
		if !ok || len(r.Results) == 0 {
			return true
		}
		if id := identOf(r.Results[0]); id != nil {
			if v, ok := info.Uses[id].(*types.Var); ok {
				if fields, ok := w.builtFields(m.ctor, v); ok {
					ci.obj, ci.fields = v, fields
				}
			}
		}
		return true
	})
	if ci.obj == nil {
		walkNoLit(m.ctor.Body, func(n ast.Node) bool {
			if cl, ok := n.(*ast.CompositeLit); ok {
				if tv, ok := info.Types[cl]; ok && tv.Type == types.Type(m.T) {
					ci.pos = cl.Pos()
					for _, el := range cl.Elts {
						if kv, ok := el.(*ast.KeyValueExpr); ok {
							if id, ok := kv.Key.(*ast.Ident); ok {
								ci.fields[id.Name] = kv.Value
							}
						}
					}
				}
			}
			return true
		})
	}
	return ci
}

// isInitStore: the assignment is a top-level statement of the constructor storing into a field of the runner under
// construction (initialisation, not a reassignment).
func (ci *ctorInit) isInitStore(m *runnerModel, as *ast.AssignStmt) bool {
	if ci.obj == nil {
		return false
	}
	top := false
	for _, st := range m.ctor.Body.List {
		if st == ast.Stmt(as) {
			top = true
		}
	}
	if !top {
		return false
	}
	for _, l := range as.Lhs {
		se, ok := unparen(l).(*ast.SelectorExpr)
		if !ok {
			return false
		}
		id := identOf(se.X)
		if id == nil || m.pkg.TypesInfo.Uses[id] != ci.obj {
			return false
		}
	}
	return true
}
