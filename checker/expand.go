package main

// expand.go — canonical rendering of expressions with single-assignment locals substituted by their initialisers
// (a syntactic value numbering used by the provenance rules that do not need SSA).

import (
	"fmt"
	"go/ast"
	"go/token"
	"go/types"
	"strings"
)

type expander struct {
	w *World
	f *Func
	e *entFn
}

func (w *World) expander(f *Func) *expander {
	return &expander{w: w, f: f, e: w.ent(f)}
}

// def returns the single defining expression of a local (and the index of the result it takes for multi-value
// definitions), or nil when the local is a parameter, assigned more than once, or address-taken.
func (x *expander) def(obj types.Object) (rhs ast.Expr, idx int, rangeOf ast.Expr, ok bool) {
	as := x.e.assigns[obj]
	if len(as) != 1 || x.e.addrOf[obj] {
		return nil, 0, nil, false
	}
	info := x.f.Pkg.TypesInfo
	switch a := as[0].(type) {
	case *ast.AssignStmt:
		for i, l := range a.Lhs {
			if id := identOf(l); id != nil && (info.Defs[id] == obj || info.Uses[id] == obj) {
				if len(a.Rhs) == len(a.Lhs) {
					if a.Tok != token.DEFINE && a.Tok != token.ASSIGN {
						return nil, 0, nil, false
					}
					return a.Rhs[i], -1, nil, true
				}
				if len(a.Rhs) == 1 {
					return a.Rhs[0], i, nil, true
				}
			}
		}
	case *ast.ValueSpec:
		for i, id := range a.Names {
			if info.Defs[id] == obj {
				if len(a.Values) == len(a.Names) {
					return a.Values[i], -1, nil, true
				}
				if len(a.Values) == 1 {
					return a.Values[0], i, nil, true
				}
			}
		}
	case *ast.RangeStmt:
		if id := identOf(a.Value); id != nil && info.Defs[id] == obj {
			return nil, 0, a.X, true
		}
	}
	return nil, 0, nil, false
}

func (x *expander) str(e ast.Expr) string { return x.strD(e, 0) }

func (x *expander) strD(e ast.Expr, depth int) string {
	info := x.f.Pkg.TypesInfo
	e = unparen(e)
	if tv, ok := info.Types[e]; ok && tv.Value != nil {
		return tv.Value.ExactString()
	}
	switch n := e.(type) {
	case *ast.Ident:
		obj := info.Uses[n]
		if obj == nil {
			obj = info.Defs[n]
		}
		if v, ok := obj.(*types.Var); ok && !v.IsField() && v.Pkg() != nil && v.Parent() != v.Pkg().Scope() {
			if depth >= 32 {
				return "$" + n.Name
			}
			if rhs, idx, rng, ok := x.def(obj); ok {
				if rng != nil {
					return x.strD(rng, depth+1) + "[range]"
				}
				s := x.strD(rhs, depth+1)
				if idx >= 0 {
					s += fmt.Sprintf("#%d", idx)
				}
				return s
			}
			// parameters and multiply-assigned locals stay symbolic
			return "$" + n.Name
		}
		if obj != nil && obj.Pkg() != nil {
			return obj.Pkg().Name() + "." + n.Name
		}
		return n.Name
	case *ast.SelectorExpr:
		if sel, ok := info.Selections[n]; ok {
			// v.f where v is bound once to a composite literal that sets f, and nothing in the function stores to a
			// field named f of that type: the field still holds what the literal gave it
			if sel.Kind() == types.FieldVal && depth < 32 {
				if id := identOf(n.X); id != nil {
					if v, ok := info.Uses[id].(*types.Var); ok && !v.IsField() {
						if rhs, idx, _, ok := x.def(v); ok && rhs != nil && idx < 0 {
							if fv := litField(rhs, sel.Obj().Name()); fv != nil && !x.fieldStored(sel.Obj().(*types.Var)) {
								return x.strD(fv, depth+1)
							}
						}
					}
				}
			}
			return x.strD(n.X, depth) + "." + sel.Obj().Name()
		}
		if obj := info.Uses[n.Sel]; obj != nil && obj.Pkg() != nil {
			return obj.Pkg().Name() + "." + n.Sel.Name
		}
		return x.strD(n.X, depth) + "." + n.Sel.Name
	case *ast.StarExpr:
		return x.strD(n.X, depth) // pointer indirection is transparent for provenance
	case *ast.UnaryExpr:
		if n.Op == token.AND {
			return x.strD(n.X, depth)
		}
		return n.Op.String() + x.strD(n.X, depth)
	case *ast.IndexExpr:
		return x.strD(n.X, depth) + "[" + x.strD(n.Index, depth) + "]"
	case *ast.SliceExpr:
		lo, hi := "", ""
		if n.Low != nil {
			lo = x.strD(n.Low, depth)
		}
		if n.High != nil {
			hi = x.strD(n.High, depth)
		}
		return x.strD(n.X, depth) + "[" + lo + ":" + hi + "]"
	case *ast.CallExpr:
		args := []string{}
		for _, a := range n.Args {
			args = append(args, x.strD(a, depth))
		}
		if tv, ok := info.Types[n.Fun]; ok && tv.IsType() {
			return "conv:" + typeStr(tv.Type) + "(" + strings.Join(args, ",") + ")"
		}
		if callee := calleeOf(info, n); callee != nil {
			recv := ""
			if sel, ok := unparen(n.Fun).(*ast.SelectorExpr); ok {
				if _, isSel := info.Selections[sel]; isSel {
					recv = x.strD(sel.X, depth) + "."
				}
			}
			if recv != "" {
				return recv + callee.Name() + "(" + strings.Join(args, ",") + ")"
			}
			return funcFullName(callee) + "(" + strings.Join(args, ",") + ")"
		}
		return x.strD(n.Fun, depth) + "(" + strings.Join(args, ",") + ")"
	case *ast.BinaryExpr:
		return "(" + x.strD(n.X, depth) + n.Op.String() + x.strD(n.Y, depth) + ")"
	case *ast.CompositeLit:
		parts := []string{}
		for _, el := range n.Elts {
			if kv, ok := el.(*ast.KeyValueExpr); ok {
				parts = append(parts, exprStr(kv.Key)+":"+x.strD(kv.Value, depth))
			} else {
				parts = append(parts, x.strD(el, depth))
			}
		}
		t := ""
		if tv, ok := info.Types[n]; ok {
			t = typeStr(tv.Type)
		}
		return t + "{" + strings.Join(parts, ",") + "}"
	case *ast.BasicLit:
		return n.Value
	case *ast.FuncLit:
		return fmt.Sprintf("func@%d", n.Pos())
	case *ast.TypeAssertExpr:
		return x.strD(n.X, depth) + ".(type)"
	}
	return fmt.Sprintf("expr@%d", e.Pos())
}

// litField returns the value of field name in a composite literal (after & and parens), or nil.
func litField(e ast.Expr, name string) ast.Expr {
	e = unparen(e)
	if u, ok := e.(*ast.UnaryExpr); ok && u.Op == token.AND {
		e = unparen(u.X)
	}
	cl, ok := e.(*ast.CompositeLit)
	if !ok {
		return nil
	}
	for _, el := range cl.Elts {
		if kv, ok := el.(*ast.KeyValueExpr); ok {
			if id, ok := kv.Key.(*ast.Ident); ok && id.Name == name {
				return kv.Value
			}
		}
	}
	return nil
}

func litOf(e ast.Expr) *ast.CompositeLit {
	e = unparen(e)
	if u, ok := e.(*ast.UnaryExpr); ok && u.Op == token.AND {
		e = unparen(u.X)
	}
	cl, _ := e.(*ast.CompositeLit)
	return cl
}

// fieldStored: some statement of the function (literals included) stores to this field.
func (x *expander) fieldStored(fld *types.Var) bool {
	for _, fs := range x.e.fstores {
		if fs.field == fld {
			return true
		}
	}
	return false
}
