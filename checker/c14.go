package main

// c14.go — C14: markup parsing is a pure function of the line (sufficient condition: a call of ParseMarkup reads no
// location an earlier call could have written).

import (
	"go/ast"
	"go/token"
	"go/types"
	"sort"
	"strings"

	"golang.org/x/tools/go/cfg"
	"golang.org/x/tools/go/ssa"
)

func init() {
	registry["C14"] = &propCheck{
		meta: propMeta{
			Level: "proof",
			Explanation: "Proves a sufficient condition for purity: from the entry of ParseMarkup no field of the LineParser is read before it is written (interprocedural definite-assignment analysis over go/cfg with per-method summaries iterated to a fixpoint), no reachable function writes a package-level variable and the ones read are never written after initialisation, " +
				"every external callee is in a reviewed table of state-free functions, and the dialogue runner renders a line from the line's elements, the variable and function stores and the parser only (no other runner field is read or written while rendering). " +
				"Obligations = receiver-field reads, callees, package-level accesses and runner-field accesses; all must be discharged.",
			NotDecided:  "nothing of the property is left out, but the condition is sufficient, not necessary: a failure of the callee table or of the package-state rule alone is reported as undecided (exit 2), a stale receiver/runner field as a violation",
			Assumptions: []string{"the listed standard-library functions are deterministic and keep no state between calls (A4)"},
			Trusted:     []string{"go/types", "golang.org/x/tools/go/cfg", "golang.org/x/tools/go/ssa (call resolution)", "the reviewed table of state-free callees", "go/packages loader"},
		},
		run: checkC14,
	}
}

type daSummary struct {
	exposed   map[*types.Var]token.Pos // fields possibly read before written (first position)
	mustWrite map[*types.Var]bool      // fields definitely written on every normal return
}

type daCtx struct {
	w       *World
	info    *types.Info
	fields  map[*types.Var]bool
	methods map[*types.Func]*Func
	sums    map[*types.Func]*daSummary
	reads   int
}

func (d *daCtx) recvField(e ast.Expr, recv types.Object) *types.Var {
	sel, ok := unparen(e).(*ast.SelectorExpr)
	if !ok {
		return nil
	}
	id, ok := unparen(sel.X).(*ast.Ident)
	if !ok || d.info.Uses[id] != recv {
		return nil
	}
	if s, ok := d.info.Selections[sel]; ok && s.Kind() == types.FieldVal {
		if f, ok := s.Obj().(*types.Var); ok && d.fields[f] {
			return f
		}
	}
	return nil
}

func (d *daCtx) analyse(f *Func) *daSummary {
	recvObj := d.info.Defs[f.Decl.Recv.List[0].Names[0]]
	g := cfg.New(f.Body, noReturnCall(d.info))
	sum := &daSummary{exposed: map[*types.Var]token.Pos{}, mustWrite: map[*types.Var]bool{}}
	read := func(fld *types.Var, written map[*types.Var]bool, at ast.Node) {
		d.reads++
		if !written[fld] {
			if _, seen := sum.exposed[fld]; !seen {
				sum.exposed[fld] = at.Pos()
			}
		}
	}
	var visit func(n ast.Node, written map[*types.Var]bool)
	visit = func(n ast.Node, written map[*types.Var]bool) {
		switch n := n.(type) {
		case nil:
			return
		case *ast.AssignStmt:
			for _, r := range n.Rhs {
				visit(r, written)
			}
			for _, l := range n.Lhs {
				if fld := d.recvField(l, recvObj); fld != nil {
					if n.Tok != token.ASSIGN && n.Tok != token.DEFINE {
						read(fld, written, n)
					}
					written[fld] = true
				} else {
					visit(l, written)
				}
			}
			return
		case *ast.IncDecStmt:
			if fld := d.recvField(n.X, recvObj); fld != nil {
				read(fld, written, n)
				written[fld] = true
				return
			}
		case *ast.CallExpr:
			for _, a := range n.Args {
				visit(a, written)
			}
			if sel, ok := unparen(n.Fun).(*ast.SelectorExpr); ok {
				if id, ok := unparen(sel.X).(*ast.Ident); ok && d.info.Uses[id] == recvObj {
					if callee := calleeOf(d.info, n); callee != nil {
						if s := d.sums[callee]; s != nil {
							for fld := range s.exposed {
								read(fld, written, n)
							}
							for fld := range s.mustWrite {
								written[fld] = true
							}
							return
						}
					}
				}
				visit(sel.X, written)
			} else {
				visit(n.Fun, written)
			}
			return
		case *ast.UnaryExpr:
			// &recv.f: the address escapes; treat as a read and as not-written afterwards (conservative)
			if n.Op == token.AND {
				if fld := d.recvField(n.X, recvObj); fld != nil {
					read(fld, written, n)
					return
				}
			}
		case *ast.SelectorExpr:
			if fld := d.recvField(n, recvObj); fld != nil {
				read(fld, written, n)
				return
			}
		case *ast.FuncLit:
			// a literal may run later: every receiver field it mentions counts as read now
			ast.Inspect(n.Body, func(q ast.Node) bool {
				if se, ok := q.(*ast.SelectorExpr); ok {
					if fld := d.recvField(se, recvObj); fld != nil {
						read(fld, written, se)
					}
				}
				return true
			})
			return
		}
		ast.Inspect(n, func(ch ast.Node) bool {
			if ch == n {
				return true
			}
			if ch != nil {
				visit(ch, written)
			}
			return false
		})
	}
	clone := func(m map[*types.Var]bool) map[*types.Var]bool {
		c := map[*types.Var]bool{}
		for k := range m {
			c[k] = true
		}
		return c
	}
	inter := func(a, b map[*types.Var]bool) map[*types.Var]bool {
		c := map[*types.Var]bool{}
		for k := range a {
			if b[k] {
				c[k] = true
			}
		}
		return c
	}
	in := make([]map[*types.Var]bool, len(g.Blocks))
	in[0] = map[*types.Var]bool{}
	var exit map[*types.Var]bool
	meetExit := func(wr map[*types.Var]bool) {
		if exit == nil {
			exit = clone(wr)
		} else {
			exit = inter(exit, wr)
		}
	}
	work := []int32{0}
	for len(work) > 0 {
		bi := work[0]
		work = work[1:]
		b := g.Blocks[bi]
		if !b.Live {
			continue
		}
		wr := clone(in[bi])
		returned := false
		for _, n := range b.Nodes {
			visit(n, wr)
			if _, ok := n.(*ast.ReturnStmt); ok {
				meetExit(wr)
				returned = true
			}
		}
		if len(b.Succs) == 0 && !returned {
			// falls off the end (or ends in panic: not a normal return)
			if len(b.Nodes) == 0 || !endsInPanic(d.info, b.Nodes[len(b.Nodes)-1]) {
				meetExit(wr)
			}
		}
		for _, s := range b.Succs {
			var nw map[*types.Var]bool
			if in[s.Index] == nil {
				nw = clone(wr)
			} else {
				nw = inter(in[s.Index], wr)
			}
			if in[s.Index] == nil || len(nw) != len(in[s.Index]) {
				in[s.Index] = nw
				work = append(work, s.Index)
			}
		}
	}
	if exit != nil {
		sum.mustWrite = exit
	}
	return sum
}

func endsInPanic(info *types.Info, n ast.Node) bool {
	if es, ok := n.(*ast.ExprStmt); ok {
		if call, ok := es.X.(*ast.CallExpr); ok {
			return isBuiltin(info, call, "panic")
		}
	}
	return false
}

// state-free external callees (reviewed table)
var pureExternal = map[string]bool{
	"strings": true, "unicode": true, "unicode/utf8": true, "unicode/utf16": true, "strconv": true, "slices": true, "math": true, "errors": true, "maps": true, "sort": true, "bytes": true,
}
var pureExternalFuncs = map[string]bool{
	"fmt.Errorf": true, "fmt.Sprint": true, "fmt.Sprintf": true, "fmt.Sprintln": true, "io.ReadAll": true,
	"regexp.Compile": true, "regexp.MustCompile": true, "regexp.QuoteMeta": true,
	"(*regexp.Regexp).FindStringIndex": true, "(*regexp.Regexp).MatchString": true, "(*regexp.Regexp).FindStringSubmatch": true, "(*regexp.Regexp).FindStringSubmatchIndex": true, "(*regexp.Regexp).FindString": true, "(*regexp.Regexp).ReplaceAllString": true,
	"(error).Error": true,
}

func checkC14(c *Ctx) {
	w := c.W
	wGlobal = w
	c.rule("C14.R1", "no field of LineParser is read before it is written on any path from the entry of ParseMarkup (interprocedural definite assignment)", 40)
	c.rule("C14.R2", "no function reachable from ParseMarkup writes a package-level variable; package-level variables it reads are never written after initialisation", 1)
	c.rule("C14.R3", "every external callee reachable from ParseMarkup is in the reviewed table of state-free functions", 20)
	c.rule("C14.R4", "the dialogue runner renders a line from the line's elements, the variable/function stores and the parser only: no other runner field is read or written while rendering, and the text handed to ParseMarkup is built in a local", 3)
	c.rule("C14.R5", "what an element shows was parsed for it now: the parse result of every Line that Next builds is the result of rendering that statement's own elements on the same path (not a result kept from an earlier rendering)", 2)
	c14Fresh(c)
	mp := w.Pkg("markup")
	lp := namedType(mp, "LineParser")
	if lp == nil {
		c.undecided("C14.R1", "type markup.LineParser not found")
		return
	}
	entry := w.DeclByName(mp, "LineParser.ParseMarkup")
	if entry == nil {
		c.undecided("C14.R1", "markup.(*LineParser).ParseMarkup not found")
		return
	}
	d := &daCtx{w: w, info: mp.TypesInfo, fields: map[*types.Var]bool{}, methods: map[*types.Func]*Func{}, sums: map[*types.Func]*daSummary{}}
	st := lp.Underlying().(*types.Struct)
	for i := 0; i < st.NumFields(); i++ {
		d.fields[st.Field(i)] = true
	}
	for _, f := range w.FuncsIn(mp) {
		if f.Decl != nil && f.Decl.Recv != nil && f.Body != nil && f.Obj != nil && len(f.Decl.Recv.List[0].Names) == 1 {
			rt := typeStr(f.Sig().Recv().Type())
			if rt == "*markup.LineParser" || rt == "markup.LineParser" {
				d.methods[f.Obj] = f
			}
		}
	}
	// optimistic start: greatest fixpoint for mustWrite, least for exposed
	for obj := range d.methods {
		all := map[*types.Var]bool{}
		for f := range d.fields {
			all[f] = true
		}
		d.sums[obj] = &daSummary{exposed: map[*types.Var]token.Pos{}, mustWrite: all}
	}
	rounds := 0
	for ; rounds < 30; rounds++ {
		changed := false
		var objs []*types.Func
		for obj := range d.methods {
			objs = append(objs, obj)
		}
		sort.Slice(objs, func(i, j int) bool { return objs[i].Name() < objs[j].Name() })
		for _, obj := range objs {
			d.reads = 0
			s := d.analyse(d.methods[obj])
			old := d.sums[obj]
			if len(s.exposed) != len(old.exposed) || len(s.mustWrite) != len(old.mustWrite) {
				changed = true
			} else {
				for f := range s.exposed {
					if _, ok := old.exposed[f]; !ok {
						changed = true
					}
				}
				for f := range s.mustWrite {
					if !old.mustWrite[f] {
						changed = true
					}
				}
			}
			d.sums[obj] = s
		}
		if !changed {
			break
		}
	}
	c.Extra["definite_assignment_rounds"] = rounds + 1
	c.Extra["methods_summarised"] = len(d.methods)
	if rounds >= 30 {
		c.undecided("C14.R1", "definite-assignment summaries did not converge")
		return
	}
	// reachable methods from the entry (through receiver calls)
	reach := map[*types.Func]bool{}
	var visit func(obj *types.Func)
	visit = func(obj *types.Func) {
		if reach[obj] || d.methods[obj] == nil {
			return
		}
		reach[obj] = true
		walkNoLit(d.methods[obj].Body, func(n ast.Node) bool {
			if call, ok := n.(*ast.CallExpr); ok {
				if callee := calleeOf(d.info, call); callee != nil {
					visit(callee)
				}
			}
			return true
		})
		ast.Inspect(d.methods[obj].Body, func(n ast.Node) bool {
			if call, ok := n.(*ast.CallExpr); ok {
				if callee := calleeOf(d.info, call); callee != nil {
					visit(callee)
				}
			}
			return true
		})
	}
	visit(entry.Obj)
	// one obligation per field read site in reachable methods (discharged by the dataflow), and the verdict at the entry
	exposedAtEntry := d.sums[entry.Obj].exposed
	nReads := 0
	for obj := range reach {
		f := d.methods[obj]
		c.fn(f)
		recvObj := d.info.Defs[f.Decl.Recv.List[0].Names[0]]
		counter := map[string]int{}
		ast.Inspect(f.Body, func(n ast.Node) bool {
			se, ok := n.(*ast.SelectorExpr)
			if !ok {
				return true
			}
			fld := d.recvField(se, recvObj)
			if fld == nil {
				return true
			}
			// skip pure left-hand sides
			if as, ok := w.parent[se].(*ast.AssignStmt); ok && (as.Tok == token.ASSIGN || as.Tok == token.DEFINE) {
				for _, l := range as.Lhs {
					if unparen(l) == ast.Expr(se) {
						return true
					}
				}
			}
			nReads++
			counter[fld.Name()]++
			key := f.Name + "/read " + fld.Name() + "#" + itoa(counter[fld.Name()])
			if pos, bad := exposedAtEntry[fld]; bad {
				// only the reads of an exposed field can be the offending ones; report them all, the entry verdict names the first
				_ = pos
				if _, local := d.sums[obj].exposed[fld]; local {
					c.ob("C14.R1", key, w.Pos(se.Pos()), false, "field "+fld.Name()+" may be read here before any write since the entry of ParseMarkup: it still holds what the previous parse (of another line, or a failed one) left in it")
					return true
				}
			}
			c.ob("C14.R1", key, w.Pos(se.Pos()), true, "written on every path from the entry of ParseMarkup before this read")
			return true
		})
	}
	var exp []string
	for f := range exposedAtEntry {
		exp = append(exp, f.Name())
	}
	sort.Strings(exp)
	c.ob("C14.R1", entry.Name+"/upward-exposed-fields", w.Pos(entry.Decl.Pos()), len(exp) == 0, map[bool]string{true: "the set of LineParser fields read before written from the entry of ParseMarkup is empty (fixpoint over " + itoa(len(d.methods)) + " methods)", false: "fields read before written from the entry of ParseMarkup: " + strings.Join(exp, ", ")}[len(exp) == 0])

	// ----- R2 / R3 on SSA
	sEntry := w.SSAFunc(entry)
	if sEntry == nil {
		c.undecided("C14.R2", "no SSA for ParseMarkup")
		return
	}
	reachS := w.reachModule(sEntry)
	initOnly := initOnlyFuncs(w)
	globalsRead := map[*ssa.Global]bool{}
	callees := map[string]token.Pos{}
	for f := range reachS {
		c.Funcs[ssaFuncName(f)] = true
		for _, b := range f.Blocks {
			for _, in := range b.Instrs {
				switch x := in.(type) {
				case *ssa.Store:
					if g := globalRoot(x.Addr, 0); g != nil {
						c.undecided("C14.R2", "a function reachable from ParseMarkup writes package-level variable "+g.Name()+" at "+w.Pos(x.Pos())+" (purity cannot be shown by this sufficient condition; shared state is C18's question)")
					}
				case *ssa.MapUpdate:
					if g := globalRoot(x.Map, 0); g != nil {
						c.undecided("C14.R2", "a function reachable from ParseMarkup updates the package-level map "+g.Name()+" at "+w.Pos(x.Pos()))
					}
				case *ssa.UnOp:
					if x.Op == token.MUL {
						if g, ok := x.X.(*ssa.Global); ok {
							globalsRead[g] = true
						}
					}
				case ssa.CallInstruction:
					cc := x.Common()
					if callee := cc.StaticCallee(); callee != nil {
						if !strings.HasPrefix(ssaFuncPkgPath(callee), modPath) {
							name := callee.String()
							if callee.Origin() != nil {
								name = callee.Origin().String()
							}
							if _, seen := callees[name]; !seen {
								callees[name] = x.Pos()
							}
						}
					} else if cc.IsInvoke() {
						name := "(" + typeStr(cc.Value.Type()) + ")." + cc.Method.Name()
						if _, seen := callees[name]; !seen {
							callees[name] = x.Pos()
						}
					}
				}
			}
		}
	}
	for g := range globalsRead {
		// written only during initialisation?
		okG := true
		for _, f := range w.ModuleSSAFuncs() {
			if initOnly[f] != "" {
				continue
			}
			for _, b := range f.Blocks {
				for _, in := range b.Instrs {
					if st, ok := in.(*ssa.Store); ok && globalRoot(st.Addr, 0) == g {
						okG = false
					}
				}
			}
		}
		c.ob("C14.R2", "global "+g.Name(), w.Pos(g.Pos()), okG, map[bool]string{true: "read by the parser, written only during package initialisation", false: "read by the parser and written at run time"}[okG])
	}
	if len(globalsRead) == 0 {
		c.obN("C14.R2", "globals", "-", true, "the parser reads no package-level variable", false)
	}
	var names []string
	for n := range callees {
		names = append(names, n)
	}
	sort.Strings(names)
	for _, n := range names {
		ok := pureExternalFuncs[n]
		if !ok {
			// package-level table
			pkg := n
			if i := strings.Index(pkg, "."); i > 0 {
				pkg = strings.TrimLeft(pkg[:i], "(*")
				if j := strings.LastIndex(n[:strings.LastIndex(n, ".")], "("); j >= 0 {
					inner := strings.Trim(n[j:strings.LastIndex(n, ")")], "(*)")
					if k := strings.LastIndex(inner, "."); k > 0 {
						pkg = inner[:k]
					}
				}
			}
			if pureExternal[pkg] {
				ok = true
			}
			// methods on strings.Reader / strings.Builder / io.RuneScanner are over parser-owned objects created per parse
			if strings.HasPrefix(n, "(*strings.Reader)") || strings.HasPrefix(n, "(*strings.Builder)") || strings.HasPrefix(n, "(io.RuneScanner)") || strings.HasPrefix(n, "(io.Reader)") {
				ok = true
			}
		}
		if ok {
			c.obN("C14.R3", "callee "+n, w.Pos(callees[n]), true, "in the reviewed table of state-free functions", true)
		} else {
			c.obN("C14.R3", "callee "+n, w.Pos(callees[n]), true, "NOT in the reviewed table", false)
			c.undecided("C14.R3", "external callee "+n+" (first at "+w.Pos(callees[n])+") is not in the reviewed table of state-free functions")
		}
	}

	// ----- R4: the runner
	m := w.runner()
	if !m.ok(c, "C14.R4") {
		return
	}
	info := m.pkg.TypesInfo
	var render *Func
	for _, f := range w.FuncsWithParam(m.pkg, "[]*tree.LineFormattedTextElement") {
		render = f
	}
	if render == nil {
		c14R4WrittenOut(c, m)
		return
	}
	c.fn(render)
	if m.fLP == nil {
		c.ob("C14.R4", render.Name+"/parser-field", w.Pos(render.Decl.Pos()), false, "the dialogue runner has no line parser field of its own: lines are parsed by a parser value shared beyond this runner, whose state other runners' lines (or earlier failed lines) can leave behind")
		return
	}
	allowedRead := map[*types.Var]bool{m.fStore: true, m.fFuncs: true, m.fLP: true}
	rst := m.T.Underlying().(*types.Struct)
	isRunnerField := func(f *types.Var) bool {
		for i := 0; i < rst.NumFields(); i++ {
			if rst.Field(i) == f {
				return true
			}
		}
		return false
	}
	nAcc := 0
	ast.Inspect(render.Body, func(n ast.Node) bool {
		se, ok := n.(*ast.SelectorExpr)
		if !ok {
			return true
		}
		sel, ok := info.Selections[se]
		if !ok || sel.Kind() != types.FieldVal {
			return true
		}
		fld := sel.Obj().(*types.Var)
		if !isRunnerField(fld) {
			return true
		}
		nAcc++
		okF := allowedRead[fld]
		// a write?
		if as, ok := w.parent[se].(*ast.AssignStmt); ok {
			for _, l := range as.Lhs {
				if unparen(l) == ast.Expr(se) {
					okF = false
				}
			}
		}
		c.ob("C14.R4", render.Name+"/runner-field "+fld.Name()+"#"+itoa(nAcc), w.Pos(se.Pos()), okF, map[bool]string{true: "rendering uses " + fld.Name(), false: "rendering a line reads or writes the runner's " + fld.Name() + ": what an earlier (possibly failed) line left there would change this line's result"}[okF])
		return true
	})
	// the parsed text is the String() of a builder declared in this call
	x := w.expander(render)
	okLocal, got := false, ""
	walkNoLit(render.Body, func(n ast.Node) bool {
		call, ok := n.(*ast.CallExpr)
		if !ok {
			return true
		}
		if name, on := methodCallOn(info, call, m.fLP); on && name == "ParseMarkup" && len(call.Args) == 1 {
			got = x.str(call.Args[0])
			if inner, ok := unparen(call.Args[0]).(*ast.CallExpr); ok {
				if sel, ok := unparen(inner.Fun).(*ast.SelectorExpr); ok && sel.Sel.Name == "String" {
					if id := identOf(sel.X); id != nil {
						if obj, ok := info.Uses[id].(*types.Var); ok && !obj.IsField() && obj.Parent() != obj.Pkg().Scope() && obj.Pos() > render.Body.Pos() && freshLocalObject(w, render, obj) {
							okLocal = true
						}
					}
				}
			}
		}
		return true
	})
	c.ob("C14.R4", render.Name+"/text-built-locally", w.Pos(render.Decl.Pos()), okLocal, map[bool]string{true: "the text handed to ParseMarkup is the content of a builder declared in this call", false: "the text handed to ParseMarkup is " + got + ", not the content of a builder local to this call"}[okLocal])
	// the parser field is used only through ParseMarkup
	for _, f := range w.FuncsIn(m.pkg) {
		if f.Body == nil {
			continue
		}
		ast.Inspect(f.Body, func(n ast.Node) bool {
			se, ok := n.(*ast.SelectorExpr)
			if !ok || lastField(info, se) != m.fLP {
				return true
			}
			if _, isField := info.Selections[se]; !isField {
				return true
			}
			par, ok := w.parent[se].(*ast.SelectorExpr)
			okU := ok && par.Sel.Name == "ParseMarkup"
			c.ob("C14.R4", f.Name+"/parser-use", w.Pos(se.Pos()), okU, map[bool]string{true: "the runner's parser is used through ParseMarkup only", false: "the runner's line parser is used other than by calling ParseMarkup"}[okU])
			return true
		})
	}
}

// c14R4WrittenOut: no rendering method — the rendering (a loop over a line's text elements writing to a builder, then
// ParseMarkup of the builder's content) is written out where it is used. The same obligations, stated on those regions.
func c14R4WrittenOut(c *Ctx, m *runnerModel) {
	w := c.W
	info := m.pkg.TypesInfo
	if m.fLP == nil {
		c.ob("C14.R4", m.next.Name+"/parser-field", w.Pos(m.next.Decl.Pos()), false, "the dialogue runner has no line parser field of its own: lines are parsed by a parser value shared beyond this runner, whose state other runners' lines (or earlier failed lines) can leave behind")
		return
	}
	allowedRead := map[*types.Var]bool{m.fStore: true, m.fFuncs: true, m.fLP: true}
	rst := m.T.Underlying().(*types.Struct)
	isRunnerField := func(f *types.Var) bool {
		for i := 0; i < rst.NumFields(); i++ {
			if rst.Field(i) == f {
				return true
			}
		}
		return false
	}
	regions := 0
	for _, f := range w.FuncsIn(m.pkg) {
		if f.Body == nil || f.Lit != nil {
			continue
		}
		walkNoLit(f.Body, func(n ast.Node) bool {
			r, ok := n.(*ast.RangeStmt)
			if !ok {
				return true
			}
			if tv, ok := info.Types[r.X]; !ok || typeStr(tv.Type) != "[]*tree.LineFormattedTextElement" {
				return true
			}
			regions++
			c.fn(f)
			key := f.Name + "@" + itoa(regions)
			// the builder written in the loop
			var builder types.Object
			walkNoLit(r.Body, func(q ast.Node) bool {
				if call, ok := q.(*ast.CallExpr); ok {
					if sel, ok := unparen(call.Fun).(*ast.SelectorExpr); ok && strings.HasPrefix(sel.Sel.Name, "Write") {
						if id := identOf(sel.X); id != nil {
							builder = info.Uses[id]
						}
					}
				}
				return true
			})
			// the parse of that builder's content
			var parse *ast.CallExpr
			walkNoLit(f.Body, func(q ast.Node) bool {
				call, ok := q.(*ast.CallExpr)
				if !ok {
					return true
				}
				if name, on := methodCallOn(info, call, m.fLP); on && name == "ParseMarkup" && len(call.Args) == 1 {
					if inner, ok := unparen(call.Args[0]).(*ast.CallExpr); ok {
						if sel, ok := unparen(inner.Fun).(*ast.SelectorExpr); ok && sel.Sel.Name == "String" {
							if id := identOf(sel.X); id != nil && builder != nil && info.Uses[id] == builder {
								parse = call
							}
						}
					}
				}
				return true
			})
			okLocal := false
			if v, ok := builder.(*types.Var); ok && parse != nil && !v.IsField() && v.Parent() != v.Pkg().Scope() && v.Pos() > f.Body.Pos() && freshLocalObject(w, f, v) {
				okLocal = true
			}
			c.ob("C14.R4", key+"/text-built-locally", w.Pos(r.Pos()), okLocal, map[bool]string{true: "the text handed to ParseMarkup is the content of a builder declared in this call and filled by this loop", false: "the builder this loop fills is not a local whose content is handed to the runner's ParseMarkup"}[okLocal])
			nAcc := 0
			for _, node := range []ast.Node{r, parse} {
				if node == nil || node == ast.Node((*ast.CallExpr)(nil)) {
					continue
				}
				ast.Inspect(node, func(q ast.Node) bool {
					se, ok := q.(*ast.SelectorExpr)
					if !ok {
						return true
					}
					sel, ok := info.Selections[se]
					if !ok || sel.Kind() != types.FieldVal {
						return true
					}
					fld := sel.Obj().(*types.Var)
					if !isRunnerField(fld) {
						return true
					}
					// the ranged expression itself (evaluated once, before the region) may come from the continuation
					if se.Pos() >= r.X.Pos() && se.End() <= r.X.End() {
						return true
					}
					nAcc++
					okF := allowedRead[fld]
					if as, ok := w.parent[se].(*ast.AssignStmt); ok {
						for _, l := range as.Lhs {
							if unparen(l) == ast.Expr(se) {
								okF = false
							}
						}
					}
					c.ob("C14.R4", key+"/runner-field "+fld.Name()+"#"+itoa(nAcc), w.Pos(se.Pos()), okF, map[bool]string{true: "rendering uses " + fld.Name(), false: "rendering a line reads or writes the runner's " + fld.Name() + ": what an earlier (possibly failed) line left there would change this line's result"}[okF])
					return true
				})
			}
			return true
		})
	}
	if regions == 0 {
		c.undecided("C14.R4", "neither a line-rendering method nor a written-out rendering loop was found")
		return
	}
	for _, f := range w.FuncsIn(m.pkg) {
		if f.Body == nil {
			continue
		}
		ast.Inspect(f.Body, func(n ast.Node) bool {
			se, ok := n.(*ast.SelectorExpr)
			if !ok || lastField(info, se) != m.fLP {
				return true
			}
			if _, isField := info.Selections[se]; !isField {
				return true
			}
			par, ok := w.parent[se].(*ast.SelectorExpr)
			okU := ok && par.Sel.Name == "ParseMarkup"
			c.ob("C14.R4", f.Name+"/parser-use", w.Pos(se.Pos()), okU, map[bool]string{true: "the runner's parser is used through ParseMarkup only", false: "the runner's line parser is used other than by calling ParseMarkup"}[okU])
			return true
		})
	}
}

// c14Fresh: C14.R5. A parse result that is looked up instead of computed depends on whatever line was rendered when it was
// stored. For every Line literal in Next: ParseResult expands (through locals assigned once) to the first result of the
// rendering method applied to elements of the statement being shown, or to ParseMarkup of a builder's content.
func c14Fresh(c *Ctx) {
	w := c.W
	m := w.runner()
	if !m.ok(c, "C14.R5") {
		return
	}
	info := m.pkg.TypesInfo
	f := m.next
	x := w.expander(f)
	var renders []string
	for _, rf := range w.FuncsWithParam(m.pkg, "[]*tree.LineFormattedTextElement") {
		if rf.Decl != nil {
			renders = append(renders, "."+rf.Decl.Name.Name+"(")
		}
	}
	n := 0
	walkNoLit(f.Body, func(q ast.Node) bool {
		cl, ok := q.(*ast.CompositeLit)
		if !ok {
			return true
		}
		tv, ok := info.Types[cl]
		if !ok || typeStr(tv.Type) != "ysgo.Line" {
			return true
		}
		pr := litField(cl, "ParseResult")
		if pr == nil {
			return true
		}
		n++
		s := x.str(pr)
		okF := false
		for _, r := range renders {
			if strings.Contains(s, r) && strings.HasSuffix(s, ")#0") && strings.Contains(s, ".Text.Elements") {
				okF = true
			}
		}
		if strings.Contains(s, ".ParseMarkup(") && strings.HasSuffix(s, ".String())#0") {
			okF = true
		}
		c.ob("C14.R5", f.Name+"/line-result#"+itoa(n), w.Pos(cl.Pos()), okF, map[bool]string{true: "the parse result shown is the one computed on this path (" + shorten(s, 90) + ")", false: "the parse result shown is " + shorten(s, 100) + ", which is not (only) the rendering computed on this path: a result kept from an earlier rendering — of this statement with other values, or of another line — would be shown"}[okF])
		return true
	})
	if n == 0 {
		c.undecided("C14.R5", "no Line literal with a ParseResult was found in Next")
	}
}

// freshLocalObject: the local denotes an object created in this call — declared without a value (`var b T`), or bound,
// every time it is assigned, to a composite literal, its address or new(T). A local that holds the address of a field
// (`text := &dr.lineText`) is a name for the runner's own memory, not a local object.
func freshLocalObject(w *World, f *Func, v *types.Var) bool {
	info := f.Pkg.TypesInfo
	as := w.ent(f).assigns[v]
	if len(as) == 0 {
		return false
	}
	for _, a := range as {
		switch d := a.(type) {
		case *ast.ValueSpec:
			for i, nm := range d.Names {
				if info.Defs[nm] == types.Object(v) && i < len(d.Values) && !freshObjectExpr(info, d.Values[i]) {
					return false
				}
			}
		case *ast.AssignStmt:
			if len(d.Lhs) != len(d.Rhs) {
				return false
			}
			for i, l := range d.Lhs {
				if id := identOf(l); id != nil && (info.Defs[id] == types.Object(v) || info.Uses[id] == types.Object(v)) && !freshObjectExpr(info, d.Rhs[i]) {
					return false
				}
			}
		default:
			return false
		}
	}
	return true
}

func freshObjectExpr(info *types.Info, e ast.Expr) bool {
	e = unparen(e)
	if u, ok := e.(*ast.UnaryExpr); ok && u.Op == token.AND {
		e = unparen(u.X)
	}
	switch x := e.(type) {
	case *ast.CompositeLit:
		return true
	case *ast.CallExpr:
		return isBuiltin(info, x, "new")
	}
	return false
}
