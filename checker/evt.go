package main

// evt.go — EVT: path-event automata over go/cfg. A rule maps primitive program actions (calls, stores, index
// expressions, receives, sends, returns, branch edges, loop back-edges, select arms) to events and gives a finite
// automaton; a forward dataflow computes the set of automaton states reaching each point and reports bad exits.

import (
	"fmt"
	"go/ast"
	"go/token"
	"go/types"
	"sort"
	"strings"

	"golang.org/x/tools/go/cfg"
)

// pseudo nodes for control events
type pseudo struct {
	kind string   // "BACKEDGE", "ENTERLOOP", "ARM:recv", "ARM:default", "EXIT" (fall off a no-return block)
	stmt ast.Node // loop statement or comm clause
}

func (p *pseudo) Pos() token.Pos { return p.stmt.Pos() }
func (p *pseudo) End() token.Pos { return p.stmt.End() }

type edgeInfo struct {
	Cond   ast.Expr // leaf condition (no top-level !, &&, ||)
	Tag    ast.Expr // non-nil for a tag switch: the edge means Tag == Cond (true) / Tag != Cond (false)
	Branch bool
}

type evtRule struct {
	name  string
	start string
	// prim maps a primitive node to events; called for *ast.CallExpr, *ast.AssignStmt (once per statement),
	// *ast.IncDecStmt, *ast.IndexExpr, *ast.UnaryExpr(<-), *ast.SendStmt, *ast.GoStmt, *ast.DeferStmt, *ast.FuncLit,
	// *ast.StarExpr, *ast.SelectorExpr, *ast.RangeStmt (head evaluation) and *pseudo.
	prim func(n ast.Node) []string
	edge func(e edgeInfo) []string
	step func(state, ev string) string // "" = unchanged
	// ret is called for every return statement (and the implicit one) with each state reaching it; non-empty = finding
	ret func(state string, r *ast.ReturnStmt, kind string) string
	// bad is called after each transition; non-empty = finding reported at the primitive
	bad func(state, ev string) string
}

type evtFinding struct {
	pos  token.Pos
	node ast.Node
	msg  string
}

// retKind classifies a return by the value in the error position, through types rather than shapes.
func retKind(f *Func, r *ast.ReturnStmt) string {
	sig := f.Sig()
	info := f.Pkg.TypesInfo
	if sig == nil || sig.Results().Len() == 0 {
		return "void"
	}
	last := sig.Results().At(sig.Results().Len() - 1)
	hasErr := typeStr(last.Type()) == "error"
	if len(r.Results) == 0 {
		return "unknown" // bare return with named results
	}
	if len(r.Results) == 1 && sig.Results().Len() > 1 {
		return "relay" // return g(...)
	}
	if !hasErr {
		return "value"
	}
	x := unparen(r.Results[len(r.Results)-1])
	if isNilExpr(info, x) {
		return "nil"
	}
	if call, ok := x.(*ast.CallExpr); ok {
		if callee := calleeOf(info, call); callee != nil {
			switch funcFullName(callee) {
			case "fmt.Errorf", "errors.New", "errors.Join":
				return "err"
			}
		}
		if len(r.Results) == 1 {
			return "relay"
		}
		return "unknown"
	}
	if tv, ok := info.Types[x]; ok && tv.Value != nil {
		return "err" // a constant error value
	}
	if id, ok := x.(*ast.Ident); ok {
		// a variable proved non-nil by the dominating guards
		e := wGlobal.ent(f)
		if ok, _ := e.Prove(r, e.nn(e.k(), id)); ok {
			return "err"
		}
		if ok, _ := e.Prove(r, Not{e.nn(e.k(), id)}); ok {
			return "nil"
		}
	}
	return "unknown"
}

var wGlobal *World

// primitives lists the primitive actions of evaluating node n, in evaluation order, not entering function literals.
func primitives(n ast.Node, emit func(ast.Node)) {
	var walk func(n ast.Node)
	walk = func(n ast.Node) {
		switch n := n.(type) {
		case nil:
		case *ast.FuncLit:
			emit(n)
		case *ast.CallExpr:
			walk(n.Fun)
			for _, a := range n.Args {
				walk(a)
			}
			emit(n)
		case *ast.AssignStmt:
			for _, r := range n.Rhs {
				walk(r)
			}
			for _, l := range n.Lhs {
				switch l := l.(type) {
				case *ast.IndexExpr:
					walk(l.X)
					walk(l.Index)
				case *ast.SelectorExpr:
					walk(l.X)
				case *ast.StarExpr:
					walk(l.X)
				}
			}
			emit(n)
		case *ast.IncDecStmt:
			if ix, ok := n.X.(*ast.IndexExpr); ok {
				walk(ix.X)
				walk(ix.Index)
			}
			emit(n)
		case *ast.ReturnStmt:
			for _, r := range n.Results {
				walk(r)
			}
			emit(n)
		case *ast.IndexExpr:
			walk(n.X)
			walk(n.Index)
			emit(n)
		case *ast.SelectorExpr:
			walk(n.X)
			emit(n)
		case *ast.StarExpr:
			walk(n.X)
			emit(n)
		case *ast.UnaryExpr:
			walk(n.X)
			if n.Op == token.ARROW {
				emit(n)
			}
		case *ast.SendStmt:
			walk(n.Chan)
			walk(n.Value)
			emit(n)
		case *ast.GoStmt:
			for _, a := range n.Call.Args {
				walk(a)
			}
			emit(n)
		case *ast.DeferStmt:
			for _, a := range n.Call.Args {
				walk(a)
			}
			emit(n)
		case *ast.BinaryExpr:
			// && and || inside non-condition expressions: both sides listed (over-approximation of evaluation)
			walk(n.X)
			walk(n.Y)
		default:
			ast.Inspect(n, func(c ast.Node) bool {
				if c == n {
					return true
				}
				if c != nil {
					walk(c)
				}
				return false
			})
		}
	}
	walk(n)
}

func noReturnCall(info *types.Info) func(*ast.CallExpr) bool {
	return func(c *ast.CallExpr) bool { return !isBuiltin(info, c, "panic") }
}

// runEVT evaluates rule r on function f.
func runEVT(w *World, f *Func, r evtRule) []evtFinding {
	info := f.Pkg.TypesInfo
	g := cfg.New(f.Body, noReturnCall(info))
	// the label of the function's first statement, if any (target of tail self-jumps)
	// a top-level `for {` without condition that nothing breaks out of (the function leaves it by return only)
	var restartLoop *ast.ForStmt
	for _, st := range f.Body.List {
		fs, ok := st.(*ast.ForStmt)
		if !ok || fs.Cond != nil || fs.Init != nil || fs.Post != nil {
			continue
		}
		if !breaksOutOf(fs) {
			restartLoop = fs
		}
	}
	// a top-level label that is only ever jumped to from below it (a restart point)
	var entryLabel *ast.LabeledStmt
	for _, st := range f.Body.List {
		ls, ok := st.(*ast.LabeledStmt)
		if !ok {
			continue
		}
		backOnly, any := true, false
		walkNoLit(f.Body, func(n ast.Node) bool {
			if br, ok := n.(*ast.BranchStmt); ok && br.Tok == token.GOTO && br.Label != nil && br.Label.Name == ls.Label.Name {
				any = true
				if br.Pos() < ls.Pos() {
					backOnly = false
				}
			}
			return true
		})
		if any && backOnly {
			entryLabel = ls
			break
		}
	}
	in := make([]map[string]bool, len(g.Blocks))
	for i := range in {
		in[i] = map[string]bool{}
	}
	in[0][r.start] = true
	var out []evtFinding
	seen := map[string]bool{}
	report := func(n ast.Node, msg string) {
		key := w.PosCol(n.Pos()) + "|" + msg
		if !seen[key] {
			seen[key] = true
			out = append(out, evtFinding{n.Pos(), n, msg})
		}
	}
	// a state is "<automaton state>§<knowledge about single-assignment boolean locals>"; rules only see the first part
	splitState := func(st string) (string, string) {
		if i := strings.Index(st, "§"); i >= 0 {
			return st[:i], st[i:]
		}
		return st, ""
	}
	apply := func(states map[string]bool, evs []string, at ast.Node) map[string]bool {
		for _, ev := range evs {
			res := map[string]bool{}
			for full := range states {
				st, know := splitState(full)
				nx := st
				if r.step != nil {
					if s2 := r.step(st, ev); s2 != "" {
						nx = s2
					}
				}
				if r.bad != nil {
					if msg := r.bad(nx, ev); msg != "" {
						report(at, msg)
					}
				}
				if ev == "BACKEDGE" || ev == "NEXT" {
					know = keepConstKnowledge(know)
				}
				res[nx+know] = true
			}
			states = res
		}
		return states
	}
	ef := w.ent(f)
	// boolKnowledge refines the states with what a branch on a single-assignment boolean local tells, dropping
	// states that already know the opposite (correlated conditions such as `if isText {…} if !isText {…}`)
	boolKnowledge := func(states map[string]bool, cond ast.Expr, branch bool) map[string]bool {
		id := identOf(cond)
		if id == nil {
			return states
		}
		obj, ok := info.Uses[id].(*types.Var)
		if !ok || obj.IsField() || ef.addrOf[obj] {
			return states
		}
		if b, ok := obj.Type().Underlying().(*types.Basic); !ok || b.Kind() != types.Bool {
			return states
		}
		prefix := "§"
		if isConstBool(ef, info, obj) {
			prefix = "§c"
		} else if len(ef.assigns[obj]) != 1 {
			return states
		}
		tagT, tagF := fmt.Sprintf("%s%d=T", prefix, obj.Pos()), fmt.Sprintf("%s%d=F", prefix, obj.Pos())
		mine, other := tagT, tagF
		if !branch {
			mine, other = tagF, tagT
		}
		res := map[string]bool{}
		for full := range states {
			if strings.Contains(full, other) {
				continue // infeasible
			}
			if !strings.Contains(full, mine) {
				full += mine
			}
			res[full] = true
		}
		return res
	}
	isComm := func(n ast.Node) bool {
		if cc, ok := w.parent[n].(*ast.CommClause); ok && cc.Comm == n {
			return true
		}
		return false
	}
	work := []int32{0}
	queued := map[int32]bool{0: true}
	for len(work) > 0 {
		bi := work[0]
		work = work[1:]
		queued[bi] = false
		b := g.Blocks[bi]
		if !b.Live {
			continue
		}
		states := in[bi]
		switch b.Kind {
		case cfg.KindSelectCaseBody:
			if cc, ok := b.Stmt.(*ast.CommClause); ok && cc.Comm != nil && r.prim != nil {
				states = apply(states, r.prim(&pseudo{"ARM:recv", cc}), cc)
			}
		case cfg.KindSelectAfterCase:
			if len(b.Nodes) > 0 && r.prim != nil {
				for p := ast.Node(b.Nodes[0]); p != nil; p = w.parent[p] {
					if cc, ok := p.(*ast.CommClause); ok {
						if cc.Comm == nil {
							states = apply(states, r.prim(&pseudo{"ARM:default", cc}), cc)
						}
						break
					}
					if p == f.Node() {
						break
					}
				}
			}
		}
		for _, n := range b.Nodes {
			if isComm(n) {
				continue // the communication of a select arm happens on the arm (ARM:recv), not before the select
			}
			primitives(n, func(p ast.Node) {
				if ret, ok := p.(*ast.ReturnStmt); ok {
					if r.ret != nil {
						kind := retKind(f, ret)
						for full := range states {
							st, _ := splitState(full)
							if msg := r.ret(st, ret, kind); msg != "" {
								report(ret, msg)
							}
						}
					}
					return
				}
				states = constBoolAssign(ef, info, states, p)
				if r.prim != nil {
					if evs := r.prim(p); len(evs) > 0 {
						states = apply(states, evs, p)
					}
				}
			})
			if vs, ok := n.(*ast.ValueSpec); ok {
				states = constBoolAssign(ef, info, states, vs)
				if r.prim != nil {
					if evs := r.prim(vs); len(evs) > 0 {
						states = apply(states, evs, vs)
					}
				}
			}
			if ds, ok := n.(*ast.DeclStmt); ok {
				if gd, ok := ds.Decl.(*ast.GenDecl); ok {
					for _, sp := range gd.Specs {
						if vs, ok := sp.(*ast.ValueSpec); ok {
							states = constBoolAssign(ef, info, states, vs)
							if r.prim != nil {
								if evs := r.prim(vs); len(evs) > 0 {
									states = apply(states, evs, vs)
								}
							}
						}
					}
				}
			}
		}
		for si, succ := range b.Succs {
			st2 := states
			// `goto L` with L the label of the function's first statement is iteration written as a tail self-call
			// (Next: "run the next statement right away"): the activation ends here exactly as it would at
			// `return f(params…)`, and the one that follows starts from the entry like any other. The states reaching
			// the jump are handed to ret as a relayed return and are not carried round the back edge.
			if succ.Kind == cfg.KindLabel && entryLabel != nil && succ.Stmt == ast.Stmt(entryLabel) && isGotoEdge(w, b, entryLabel) {
				at := ast.Node(entryLabel)
				if len(b.Nodes) > 0 {
					at = b.Nodes[len(b.Nodes)-1]
				}
				if r.prim != nil {
					if evs := r.prim(&pseudo{"SELFCALL", entryLabel}); len(evs) > 0 {
						st2 = apply(st2, evs, at)
					}
				}
				if r.ret != nil {
					synth := &ast.ReturnStmt{Return: at.End()}
					for full := range st2 {
						st, _ := splitState(full)
						if msg := r.ret(st, synth, "relay"); msg != "" {
							report(at, msg)
						}
					}
				}
				// the activation that follows starts at the label, without whatever precedes it in the function
				if !in[succ.Index][r.start] {
					in[succ.Index][r.start] = true
					if !queued[succ.Index] {
						queued[succ.Index] = true
						work = append(work, succ.Index)
					}
				}
				continue
			}
			if len(b.Succs) == 2 && len(b.Nodes) > 0 && b.Kind != cfg.KindRangeLoop {
				if cond, ok := b.Nodes[len(b.Nodes)-1].(ast.Expr); ok {
					var tag ast.Expr
					if cc, ok := w.parent[cond].(*ast.CaseClause); ok {
						if sw, ok := w.parent[w.parent[cc]].(*ast.SwitchStmt); ok && sw.Tag != nil {
							tag = sw.Tag
						}
					}
					// drop the states whose knowledge about tracked booleans already decides the whole condition the other way
					if tag == nil {
						pruned := map[string]bool{}
						for full := range st2 {
							if v := evalKnown(info, cond, full); v == 0 || (v == 1) == (si == 0) {
								pruned[full] = true
							}
						}
						st2 = pruned
					}
					// go/cfg keeps conditions whole: decompose !, && (true edge) and || (false edge) into leaves
					for _, le := range decomposeCond(cond, si == 0) {
						if tag == nil {
							st2 = boolKnowledge(st2, le.Cond, le.Branch)
						}
						if r.edge != nil {
							le.Tag = tag
							if evs := r.edge(le); len(evs) > 0 {
								st2 = apply(st2, evs, cond)
							}
						}
					}
				}
			}
			// `for { … continue … }` at the top level of the function, left only by return: the same iteration-as-restart
			// written as a loop (see the goto case above): the back edge ends an activation
			if restartLoop != nil && succ.Stmt == ast.Stmt(restartLoop) && succ.Kind == cfg.KindForBody && (succ.Index <= b.Index) {
				at := ast.Node(restartLoop)
				if len(b.Nodes) > 0 {
					at = b.Nodes[len(b.Nodes)-1]
				}
				if r.prim != nil {
					if evs := r.prim(&pseudo{"SELFCALL", restartLoop}); len(evs) > 0 {
						st2 = apply(st2, evs, at)
					}
				}
				if r.ret != nil {
					synth := &ast.ReturnStmt{Return: at.End()}
					for full := range st2 {
						st, _ := splitState(full)
						if msg := r.ret(st, synth, "relay"); msg != "" {
							report(at, msg)
						}
					}
				}
				if !in[succ.Index][r.start] {
					in[succ.Index][r.start] = true
					if !queued[succ.Index] {
						queued[succ.Index] = true
						work = append(work, succ.Index)
					}
				}
				continue
			}
			if (succ.Kind == cfg.KindRangeLoop || succ.Kind == cfg.KindForLoop || (succ.Kind == cfg.KindForBody && isLoopHead(succ))) && r.prim != nil {
				kind := "ENTERLOOP"
				if succ.Index <= b.Index || b.Kind == cfg.KindForPost {
					kind = "BACKEDGE"
				}
				if evs := r.prim(&pseudo{kind, succ.Stmt}); len(evs) > 0 {
					st2 = apply(st2, evs, succ.Stmt)
				}
				if kind == "BACKEDGE" {
					cleared := map[string]bool{}
					for full := range st2 {
						st, know := splitState(full)
						cleared[st+keepConstKnowledge(know)] = true
					}
					st2 = cleared
				}
			}
			changed := false
			for st := range st2 {
				if !in[succ.Index][st] {
					in[succ.Index][st] = true
					changed = true
					if len(in[succ.Index]) > 4096 || len(st) > 4000 {
						panic(fmt.Sprintf("EVT automaton of rule %q is not finite on %s (state %.200q…)", r.name, f.Name, st))
					}
				}
			}
			if changed && !queued[succ.Index] {
				queued[succ.Index] = true
				work = append(work, succ.Index)
			}
		}
	}
	sort.Slice(out, func(i, j int) bool { return out[i].pos < out[j].pos })
	return out
}

// a for loop without condition has its body block as the loop head
func isLoopHead(b *cfg.Block) bool {
	fs, ok := b.Stmt.(*ast.ForStmt)
	return ok && fs.Cond == nil
}

// ---------- event helpers ----------

func has(st, tok string) bool { return strings.Contains(" "+st+" ", " "+tok+" ") }

// addTok appends a token to a sequence-valued state, saturating so that the automaton stays finite inside loops.
func addTok(st, tok string) string {
	if st == "" {
		return tok
	}
	if strings.Count(" "+st+" ", " "+tok+" ") >= 2 || len(st) > 160 {
		return st
	}
	return st + " " + tok
}

// methodCallOn reports whether call is X.m(...) with X a field chain ending in field fld; returns the method name.
func methodCallOn(info *types.Info, call *ast.CallExpr, fld *types.Var) (string, bool) {
	sel, ok := unparen(call.Fun).(*ast.SelectorExpr)
	if !ok {
		return "", false
	}
	if fld == nil {
		return "", false
	}
	if lastField(info, sel.X) != fld {
		// through a local that holds the field's (reference-typed) value: callbacks := s.expressionCallbacks
		if id := identOf(sel.X); id != nil {
			if rhs := localAliasOf(info, id); rhs != nil && lastField(info, rhs) == fld {
				return sel.Sel.Name, true
			}
		}
		return "", false
	}
	return sel.Sel.Name, true
}

var aliasCache = map[*types.Info]map[types.Object]ast.Expr{}

// localAliasOf: id names a local of reference type (pointer, map, slice, chan, func) assigned exactly once, by := or
// var, from a call-free field path; returns that path. The local then denotes the same object as the path did.
func localAliasOf(info *types.Info, id *ast.Ident) ast.Expr {
	obj, ok := info.Uses[id].(*types.Var)
	if !ok || obj.IsField() || obj.Pkg() == nil || obj.Parent() == obj.Pkg().Scope() {
		return nil
	}
	switch obj.Type().Underlying().(type) {
	case *types.Pointer, *types.Map, *types.Slice, *types.Chan, *types.Signature:
	default:
		return nil
	}
	cache := aliasCache[info]
	if cache == nil {
		cache = map[types.Object]ast.Expr{}
		count := map[types.Object]int{}
		note := func(l ast.Expr, rhs ast.Expr) {
			lid, ok := l.(*ast.Ident)
			if !ok {
				return
			}
			o := info.Defs[lid]
			if o == nil {
				o = info.Uses[lid]
			}
			if o == nil {
				return
			}
			count[o]++
			cache[o] = rhs
		}
		for n := range info.Scopes {
			file, ok := n.(*ast.File)
			if !ok {
				continue
			}
			ast.Inspect(file, func(q ast.Node) bool {
				switch x := q.(type) {
				case *ast.AssignStmt:
					for i, l := range x.Lhs {
						var rhs ast.Expr
						if len(x.Lhs) == len(x.Rhs) && x.Tok == token.DEFINE {
							rhs = x.Rhs[i]
						}
						note(l, rhs)
					}
				case *ast.ValueSpec:
					for i, nm := range x.Names {
						var rhs ast.Expr
						if len(x.Values) == len(x.Names) {
							rhs = x.Values[i]
						}
						note(nm, rhs)
					}
				case *ast.RangeStmt:
					if x.Key != nil {
						note(x.Key, nil)
					}
					if x.Value != nil {
						note(x.Value, nil)
					}
				case *ast.IncDecStmt:
					note(x.X, nil)
				case *ast.UnaryExpr:
					if x.Op == token.AND {
						note(x.X, nil)
						note(x.X, nil) // address taken: never an alias
					}
				}
				return true
			})
		}
		for o, k := range count {
			if k != 1 {
				cache[o] = nil
			}
		}
		aliasCache[info] = cache
	}
	rhs := cache[obj]
	if rhs == nil || !callFree(rhs) {
		return nil
	}
	if root, fields := fieldChain(info, rhs); root == nil || len(fields) == 0 {
		return nil
	}
	return rhs
}

// storesTo lists the field objects an assignment/incdec statement stores to (direct field stores only).
func storesTo(info *types.Info, n ast.Node) []*types.Var {
	var out []*types.Var
	add := func(l ast.Expr) {
		l = unparen(l)
		if ix, ok := l.(*ast.IndexExpr); ok {
			// m[k] = v updates the object held by the field, recorded with the same field
			if fld := lastField(info, ix.X); fld != nil {
				out = append(out, fld)
			}
			return
		}
		if _, ok := l.(*ast.SelectorExpr); ok {
			if fld := lastField(info, l); fld != nil {
				out = append(out, fld)
			}
		}
	}
	switch n := n.(type) {
	case *ast.AssignStmt:
		for _, l := range n.Lhs {
			add(l)
		}
	case *ast.IncDecStmt:
		add(n.X)
	}
	return out
}

// decomposeCond lists the leaf conditions whose truth value is implied by taking the given branch of cond.
func decomposeCond(cond ast.Expr, branch bool) []edgeInfo {
	cond = unparen(cond)
	switch x := cond.(type) {
	case *ast.UnaryExpr:
		if x.Op == token.NOT {
			return decomposeCond(x.X, !branch)
		}
	case *ast.BinaryExpr:
		switch {
		case x.Op == token.LAND && branch, x.Op == token.LOR && !branch:
			return append(decomposeCond(x.X, branch), decomposeCond(x.Y, branch)...)
		case x.Op == token.LAND || x.Op == token.LOR:
			return nil // which operand decided is unknown on this edge
		}
	}
	return []edgeInfo{{Cond: cond, Branch: branch}}
}

// isConstBool: a boolean local all of whose assignments store a constant (or the zero value of a var declaration).
func isConstBool(ef *entFn, info *types.Info, obj *types.Var) bool {
	as := ef.assigns[obj]
	if len(as) < 2 {
		return false
	}
	for _, a := range as {
		switch a := a.(type) {
		case *ast.AssignStmt:
			if len(a.Lhs) != len(a.Rhs) {
				return false
			}
			for i, l := range a.Lhs {
				if id := identOf(l); id != nil && (info.Uses[id] == obj || info.Defs[id] == obj) {
					if tv, ok := info.Types[a.Rhs[i]]; !ok || tv.Value == nil {
						return false
					}
				}
			}
		case *ast.ValueSpec:
			if len(a.Values) != 0 {
				for i, nm := range a.Names {
					if info.Defs[nm] == obj && i < len(a.Values) {
						if tv, ok := info.Types[a.Values[i]]; !ok || tv.Value == nil {
							return false
						}
					}
				}
			}
		default:
			return false
		}
	}
	return true
}

// constBoolAssign updates the knowledge about constant-assigned boolean locals at an assignment or declaration.
func constBoolAssign(ef *entFn, info *types.Info, states map[string]bool, n ast.Node) map[string]bool {
	set := func(states map[string]bool, obj *types.Var, val bool) map[string]bool {
		tagT, tagF := fmt.Sprintf("§c%d=T", obj.Pos()), fmt.Sprintf("§c%d=F", obj.Pos())
		mine := tagT
		if !val {
			mine = tagF
		}
		res := map[string]bool{}
		for full := range states {
			full = strings.ReplaceAll(strings.ReplaceAll(full, tagT, ""), tagF, "")
			res[full+mine] = true
		}
		return res
	}
	switch a := n.(type) {
	case *ast.AssignStmt:
		if len(a.Lhs) != len(a.Rhs) {
			return states
		}
		for i, l := range a.Lhs {
			id := identOf(l)
			if id == nil {
				continue
			}
			obj, _ := info.Uses[id].(*types.Var)
			if obj == nil {
				obj, _ = info.Defs[id].(*types.Var)
			}
			if obj == nil || !isConstBool(ef, info, obj) {
				continue
			}
			if tv, ok := info.Types[a.Rhs[i]]; ok && tv.Value != nil {
				states = set(states, obj, tv.Value.ExactString() == "true")
			}
		}
	case *ast.ValueSpec:
		for i, nm := range a.Names {
			obj, _ := info.Defs[nm].(*types.Var)
			if obj == nil || !isConstBool(ef, info, obj) {
				continue
			}
			val := false
			if i < len(a.Values) {
				if tv, ok := info.Types[a.Values[i]]; ok && tv.Value != nil {
					val = tv.Value.ExactString() == "true"
				}
			}
			states = set(states, obj, val)
		}
	}
	return states
}

// keepConstKnowledge keeps only the knowledge about constant-assigned booleans (it survives loop iterations).
func keepConstKnowledge(know string) string {
	out := ""
	for _, part := range strings.Split(know, "§") {
		if strings.HasPrefix(part, "c") {
			out += "§" + part
		}
	}
	return out
}

// evalKnown evaluates a condition under the boolean knowledge of a state: 1 true, -1 false, 0 unknown.
func evalKnown(info *types.Info, cond ast.Expr, full string) int {
	cond = unparen(cond)
	switch x := cond.(type) {
	case *ast.Ident:
		if obj, ok := info.Uses[x].(*types.Var); ok {
			for _, prefix := range []string{"§c", "§"} {
				if strings.Contains(full, fmt.Sprintf("%s%d=T", prefix, obj.Pos())) {
					return 1
				}
				if strings.Contains(full, fmt.Sprintf("%s%d=F", prefix, obj.Pos())) {
					return -1
				}
			}
		}
	case *ast.UnaryExpr:
		if x.Op == token.NOT {
			return -evalKnown(info, x.X, full)
		}
	case *ast.BinaryExpr:
		l, r := evalKnown(info, x.X, full), evalKnown(info, x.Y, full)
		switch x.Op {
		case token.LAND:
			if l == -1 || r == -1 {
				return -1
			}
			if l == 1 && r == 1 {
				return 1
			}
		case token.LOR:
			if l == 1 || r == 1 {
				return 1
			}
			if l == -1 && r == -1 {
				return -1
			}
		}
	}
	return 0
}

// isGotoEdge: the edge from b into the label's block is a jump (goto), not the fall-through from the statement that
// precedes the label. go/cfg records no node for a goto: the fall-through predecessor is the block that holds the
// statement textually before the label (or the entry block when the label comes first).
func isGotoEdge(w *World, b *cfg.Block, label *ast.LabeledStmt) bool {
	if len(b.Nodes) == 0 {
		// an empty predecessor: the entry block of a function that starts with the label falls through; anything else
		// that is empty and jumps here was created for a goto
		return b.Index != 0
	}
	last := b.Nodes[len(b.Nodes)-1]
	return last.Pos() > label.Pos()
}

// breaksOutOf: a break (unlabelled, not inside a nested loop/switch/select; or labelled) can leave the loop.
func breaksOutOf(loop *ast.ForStmt) bool {
	out := false
	var walk func(n ast.Node, nested bool)
	walk = func(n ast.Node, nested bool) {
		ast.Inspect(n, func(q ast.Node) bool {
			if out || q == nil {
				return false
			}
			switch x := q.(type) {
			case *ast.FuncLit:
				return false
			case *ast.BranchStmt:
				if x.Tok == token.BREAK && (x.Label != nil || !nested) {
					out = true
				}
				if x.Tok == token.GOTO {
					out = true
				}
			case *ast.ForStmt:
				if q != n {
					walk(x.Body, true)
					return false
				}
			case *ast.RangeStmt:
				walk(x.Body, true)
				return false
			case *ast.SwitchStmt:
				walk(x.Body, true)
				return false
			case *ast.TypeSwitchStmt:
				walk(x.Body, true)
				return false
			case *ast.SelectStmt:
				walk(x.Body, true)
				return false
			}
			return true
		})
	}
	walk(loop.Body, false)
	return out
}
