package main

// evt.go — EVT: path-event automata over go/cfg. A rule maps primitive program actions (calls, stores, index
// expressions, receives, sends, returns, branch edges, loop back-edges, select arms) to events and gives a finite
// automaton; a forward dataflow computes the set of automaton states reaching each point and reports bad exits.

import (
	"fmt"
	"go/ast"
	"go/token"
	"go/types"
	"sort"
	"strings"

	"golang.org/x/tools/go/cfg"
)

// pseudo nodes for control events
type pseudo struct {
	kind string   // "BACKEDGE", "ENTERLOOP", "ARM:recv", "ARM:default", "EXIT" (fall off a no-return block)
	stmt ast.Node // loop statement or comm clause
}

func (p *pseudo) Pos() token.Pos { return p.stmt.Pos() }
func (p *pseudo) End() token.Pos { return p.stmt.End() }

type edgeInfo struct {
	Cond   ast.Expr // leaf condition (no top-level !, &&, ||)
	Tag    ast.Expr // non-nil for a tag switch: the edge means Tag == Cond (true) / Tag != Cond (false)
	Branch bool
}

type evtRule struct {
	name  string
	start string
	// prim maps a primitive node to events; called for *ast.CallExpr, *ast.AssignStmt (once per statement),
	// *ast.IncDecStmt, *ast.IndexExpr, *ast.UnaryExpr(<-), *ast.SendStmt, *ast.GoStmt, *ast.DeferStmt, *ast.FuncLit,
	// *ast.StarExpr, *ast.SelectorExpr, *ast.RangeStmt (head evaluation) and *pseudo.
	prim func(n ast.Node) []string
	edge func(e edgeInfo) []string
	step func(state, ev string) string // "" = unchanged
	// ret is called for every return statement (and the implicit one) with each state reaching it; non-empty = finding
	ret func(state string, r *ast.ReturnStmt, kind string) string
	// bad is called after each transition; non-empty = finding reported at the primitive
	bad func(state, ev string) string
}

type evtFinding struct {
	pos  token.Pos
	node ast.Node
	msg  string
}

// retKind classifies a return by the value in the error position, through types rather than shapes.
func retKind(f *Func, r *ast.ReturnStmt) string {
	sig := f.Sig()
	info := f.Pkg.TypesInfo
	if sig == nil || sig.Results().Len() == 0 {
		return "void"
	}
	last := sig.Results().At(sig.Results().Len() - 1)
	hasErr := typeStr(last.Type()) == "error"
	if len(r.Results) == 0 {
		return "unknown" // bare return with named results
	}
	if len(r.Results) == 1 && sig.Results().Len() > 1 {
		return "relay" // return g(...)
	}
	if !hasErr {
		return "value"
	}
	x := unparen(r.Results[len(r.Results)-1])
	if isNilExpr(info, x) {
		return "nil"
	}
	if call, ok := x.(*ast.CallExpr); ok {
		if callee := calleeOf(info, call); callee != nil {
			switch funcFullName(callee) {
			case "fmt.Errorf", "errors.New", "errors.Join":
				return "err"
			}
		}
		if len(r.Results) == 1 {
			return "relay"
		}
		return "unknown"
	}
	if tv, ok := info.Types[x]; ok && tv.Value != nil {
		return "err" // a constant error value
	}
	if id, ok := x.(*ast.Ident); ok {
		// a variable proved non-nil by the dominating guards
		e := wGlobal.ent(f)
		if ok, _ := e.Prove(r, e.nn(e.k(), id)); ok {
			return "err"
		}
		if ok, _ := e.Prove(r, Not{e.nn(e.k(), id)}); ok {
			return "nil"
		}
	}
	return "unknown"
}

var wGlobal *World

// primitives lists the primitive actions of evaluating node n, in evaluation order, not entering function literals.
func primitives(n ast.Node, emit func(ast.Node)) {
	var walk func(n ast.Node)
	walk = func(n ast.Node) {
		switch n := n.(type) {
		case nil:
		case *ast.FuncLit:
			emit(n)
		case *ast.CallExpr:
			walk(n.Fun)
			for _, a := range n.Args {
				walk(a)
			}
			emit(n)
		case *ast.AssignStmt:
			for _, r := range n.Rhs {
				walk(r)
			}
			for _, l := range n.Lhs {
				switch l := l.(type) {
				case *ast.IndexExpr:
					walk(l.X)
					walk(l.Index)
				case *ast.SelectorExpr:
					walk(l.X)
				case *ast.StarExpr:
					walk(l.X)
				}
			}
			emit(n)
		case *ast.IncDecStmt:
			if ix, ok := n.X.(*ast.IndexExpr); ok {
				walk(ix.X)
				walk(ix.Index)
			}
			emit(n)
		case *ast.ReturnStmt:
			for _, r := range n.Results {
				walk(r)
			}
			emit(n)
		case *ast.IndexExpr:
			walk(n.X)
			walk(n.Index)
			emit(n)
		case *ast.SelectorExpr:
			walk(n.X)
			emit(n)
		case *ast.StarExpr:
			walk(n.X)
			emit(n)
		case *ast.UnaryExpr:
			walk(n.X)
			if n.Op == token.ARROW {
				emit(n)
			}
		case *ast.SendStmt:
			walk(n.Chan)
			walk(n.Value)
			emit(n)
		case *ast.GoStmt:
			for _, a := range n.Call.Args {
				walk(a)
			}
			emit(n)
		case *ast.DeferStmt:
			for _, a := range n.Call.Args {
				walk(a)
			}
			emit(n)
		case *ast.BinaryExpr:
			// && and || inside non-condition expressions: both sides listed (over-approximation of evaluation)
			walk(n.X)
			walk(n.Y)
		default:
			ast.Inspect(n, func(c ast.Node) bool {
				if c == n {
					return true
				}
				if c != nil {
					walk(c)
				}
				return false
			})
		}
	}
	walk(n)
}

func noReturnCall(info *types.Info) func(*ast.CallExpr) bool {
	return func(c *ast.CallExpr) bool { return !isBuiltin(info, c, "panic") }
}

// runEVT evaluates rule r on function f.
func runEVT(w *World, f *Func, r evtRule) []evtFinding {
	info := f.Pkg.TypesInfo
	g := cfg.New(f.Body, noReturnCall(info))
	in := make([]map[string]bool, len(g.Blocks))
	for i := range in {
		in[i] = map[string]bool{}
	}
	in[0][r.start] = true
	var out []evtFinding
	seen := map[string]bool{}
	report := func(n ast.Node, msg string) {
		key := w.PosCol(n.Pos()) + "|" + msg
		if !seen[key] {
			seen[key] = true
			out = append(out, evtFinding{n.Pos(), n, msg})
		}
	}
	// a state is "<automaton state>§<knowledge about single-assignment boolean locals>"; rules only see the first part
	splitState := func(st string) (string, string) {
		if i := strings.Index(st, "§"); i >= 0 {
			return st[:i], st[i:]
		}
		return st, ""
	}
	apply := func(states map[string]bool, evs []string, at ast.Node) map[string]bool {
		for _, ev := range evs {
			res := map[string]bool{}
			for full := range states {
				st, know := splitState(full)
				nx := st
				if r.step != nil {
					if s2 := r.step(st, ev); s2 != "" {
						nx = s2
					}
				}
				if r.bad != nil {
					if msg := r.bad(nx, ev); msg != "" {
						report(at, msg)
					}
				}
				if ev == "BACKEDGE" || ev == "NEXT" {
					know = ""
				}
				res[nx+know] = true
			}
			states = res
		}
		return states
	}
	ef := w.ent(f)
	// boolKnowledge refines the states with what a branch on a single-assignment boolean local tells, dropping
	// states that already know the opposite (correlated conditions such as `if isText {…} if !isText {…}`)
	boolKnowledge := func(states map[string]bool, cond ast.Expr, branch bool) map[string]bool {
		id := identOf(cond)
		if id == nil {
			return states
		}
		obj, ok := info.Uses[id].(*types.Var)
		if !ok || obj.IsField() || len(ef.assigns[obj]) != 1 || ef.addrOf[obj] {
			return states
		}
		if b, ok := obj.Type().Underlying().(*types.Basic); !ok || b.Kind() != types.Bool {
			return states
		}
		tagT, tagF := fmt.Sprintf("§%d=T", obj.Pos()), fmt.Sprintf("§%d=F", obj.Pos())
		mine, other := tagT, tagF
		if !branch {
			mine, other = tagF, tagT
		}
		res := map[string]bool{}
		for full := range states {
			if strings.Contains(full, other) {
				continue // infeasible
			}
			if !strings.Contains(full, mine) {
				full += mine
			}
			res[full] = true
		}
		return res
	}
	isComm := func(n ast.Node) bool {
		if cc, ok := w.parent[n].(*ast.CommClause); ok && cc.Comm == n {
			return true
		}
		return false
	}
	work := []int32{0}
	queued := map[int32]bool{0: true}
	for len(work) > 0 {
		bi := work[0]
		work = work[1:]
		queued[bi] = false
		b := g.Blocks[bi]
		if !b.Live {
			continue
		}
		states := in[bi]
		switch b.Kind {
		case cfg.KindSelectCaseBody:
			if cc, ok := b.Stmt.(*ast.CommClause); ok && cc.Comm != nil && r.prim != nil {
				states = apply(states, r.prim(&pseudo{"ARM:recv", cc}), cc)
			}
		case cfg.KindSelectAfterCase:
			if len(b.Nodes) > 0 && r.prim != nil {
				for p := ast.Node(b.Nodes[0]); p != nil; p = w.parent[p] {
					if cc, ok := p.(*ast.CommClause); ok {
						if cc.Comm == nil {
							states = apply(states, r.prim(&pseudo{"ARM:default", cc}), cc)
						}
						break
					}
					if p == f.Node() {
						break
					}
				}
			}
		}
		for _, n := range b.Nodes {
			if isComm(n) {
				continue // the communication of a select arm happens on the arm (ARM:recv), not before the select
			}
			primitives(n, func(p ast.Node) {
				if ret, ok := p.(*ast.ReturnStmt); ok {
					if r.ret != nil {
						kind := retKind(f, ret)
						for full := range states {
							st, _ := splitState(full)
							if msg := r.ret(st, ret, kind); msg != "" {
								report(ret, msg)
							}
						}
					}
					return
				}
				if r.prim != nil {
					if evs := r.prim(p); len(evs) > 0 {
						states = apply(states, evs, p)
					}
				}
			})
		}
		for si, succ := range b.Succs {
			st2 := states
			if len(b.Succs) == 2 && len(b.Nodes) > 0 && b.Kind != cfg.KindRangeLoop {
				if cond, ok := b.Nodes[len(b.Nodes)-1].(ast.Expr); ok {
					var tag ast.Expr
					if cc, ok := w.parent[cond].(*ast.CaseClause); ok {
						if sw, ok := w.parent[w.parent[cc]].(*ast.SwitchStmt); ok && sw.Tag != nil {
							tag = sw.Tag
						}
					}
					// go/cfg keeps conditions whole: decompose !, && (true edge) and || (false edge) into leaves
					for _, le := range decomposeCond(cond, si == 0) {
						if tag == nil {
							st2 = boolKnowledge(st2, le.Cond, le.Branch)
						}
						if r.edge != nil {
							le.Tag = tag
							if evs := r.edge(le); len(evs) > 0 {
								st2 = apply(st2, evs, cond)
							}
						}
					}
				}
			}
			if (succ.Kind == cfg.KindRangeLoop || succ.Kind == cfg.KindForLoop || (succ.Kind == cfg.KindForBody && isLoopHead(succ))) && r.prim != nil {
				kind := "ENTERLOOP"
				if succ.Index <= b.Index || b.Kind == cfg.KindForPost {
					kind = "BACKEDGE"
				}
				if evs := r.prim(&pseudo{kind, succ.Stmt}); len(evs) > 0 {
					st2 = apply(st2, evs, succ.Stmt)
				}
				if kind == "BACKEDGE" {
					cleared := map[string]bool{}
					for full := range st2 {
						st, _ := splitState(full)
						cleared[st] = true
					}
					st2 = cleared
				}
			}
			changed := false
			for st := range st2 {
				if !in[succ.Index][st] {
					in[succ.Index][st] = true
					changed = true
				}
			}
			if changed && !queued[succ.Index] {
				queued[succ.Index] = true
				work = append(work, succ.Index)
			}
		}
	}
	sort.Slice(out, func(i, j int) bool { return out[i].pos < out[j].pos })
	return out
}

// a for loop without condition has its body block as the loop head
func isLoopHead(b *cfg.Block) bool {
	fs, ok := b.Stmt.(*ast.ForStmt)
	return ok && fs.Cond == nil
}

// ---------- event helpers ----------

func has(st, tok string) bool { return strings.Contains(" "+st+" ", " "+tok+" ") }

// addTok appends a token to a sequence-valued state, saturating so that the automaton stays finite inside loops.
func addTok(st, tok string) string {
	if st == "" {
		return tok
	}
	if strings.Count(" "+st+" ", " "+tok+" ") >= 2 || len(st) > 160 {
		return st
	}
	return st + " " + tok
}

// methodCallOn reports whether call is X.m(...) with X a field chain ending in field fld; returns the method name.
func methodCallOn(info *types.Info, call *ast.CallExpr, fld *types.Var) (string, bool) {
	sel, ok := unparen(call.Fun).(*ast.SelectorExpr)
	if !ok {
		return "", false
	}
	if lastField(info, sel.X) != fld || fld == nil {
		return "", false
	}
	return sel.Sel.Name, true
}

// storesTo lists the field objects an assignment/incdec statement stores to (direct field stores only).
func storesTo(info *types.Info, n ast.Node) []*types.Var {
	var out []*types.Var
	add := func(l ast.Expr) {
		l = unparen(l)
		if ix, ok := l.(*ast.IndexExpr); ok {
			// m[k] = v updates the object held by the field, recorded with the same field
			if fld := lastField(info, ix.X); fld != nil {
				out = append(out, fld)
			}
			return
		}
		if _, ok := l.(*ast.SelectorExpr); ok {
			if fld := lastField(info, l); fld != nil {
				out = append(out, fld)
			}
		}
	}
	switch n := n.(type) {
	case *ast.AssignStmt:
		for _, l := range n.Lhs {
			add(l)
		}
	case *ast.IncDecStmt:
		add(n.X)
	}
	return out
}

// decomposeCond lists the leaf conditions whose truth value is implied by taking the given branch of cond.
func decomposeCond(cond ast.Expr, branch bool) []edgeInfo {
	cond = unparen(cond)
	switch x := cond.(type) {
	case *ast.UnaryExpr:
		if x.Op == token.NOT {
			return decomposeCond(x.X, !branch)
		}
	case *ast.BinaryExpr:
		switch {
		case x.Op == token.LAND && branch, x.Op == token.LOR && !branch:
			return append(decomposeCond(x.X, branch), decomposeCond(x.Y, branch)...)
		case x.Op == token.LAND || x.Op == token.LOR:
			return nil // which operand decided is unknown on this edge
		}
	}
	return []edgeInfo{{Cond: cond, Branch: branch}}
}
