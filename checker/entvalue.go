package main

// entvalue.go — the nil-safety obligations on variable.Value that several properties share (C02.R5, C03.R6, C06.R1-R3).

import (
	"go/ast"
	"go/token"
	"go/types"
	"strconv"
	"strings"
)

func isValueNamed(t types.Type) bool {
	if n, ok := t.(*types.Named); ok {
		return n.Obj().Name() == "Value" && n.Obj().Pkg() != nil && n.Obj().Pkg().Path() == modPath+"/variable"
	}
	return false
}

func isValuePtr(t types.Type) bool {
	if p, ok := t.(*types.Pointer); ok {
		return isValueNamed(p.Elem())
	}
	return false
}

func isValuePtrSlice(t types.Type) bool {
	if s, ok := t.Underlying().(*types.Slice); ok {
		return isValuePtr(s.Elem())
	}
	return false
}

func isTreePtr(t types.Type) bool {
	if p, ok := t.(*types.Pointer); ok {
		if n, ok := p.Elem().(*types.Named); ok {
			return n.Obj().Pkg() != nil && n.Obj().Pkg().Path() == modPath+"/internal/tree"
		}
	}
	return false
}

type valueModel struct {
	w            *World
	family       map[*types.Func]bool // evaluator family: (… *tree.X …) -> (*Value, error)
	constructors map[*types.Func]bool // functions whose every return is &Value{…}
}

var valueModelCache *valueModel

func (w *World) valueModel() *valueModel {
	if valueModelCache != nil && valueModelCache.w == w {
		return valueModelCache
	}
	m := &valueModel{w: w, family: map[*types.Func]bool{}, constructors: map[*types.Func]bool{}}
	for _, f := range w.Funcs {
		if f.Obj == nil {
			continue
		}
		sig := f.Sig()
		if sig.Results().Len() == 2 && isValuePtr(sig.Results().At(0).Type()) && typeStr(sig.Results().At(1).Type()) == "error" {
			for i := 0; i < sig.Params().Len(); i++ {
				if isTreePtr(sig.Params().At(i).Type()) {
					m.family[f.Obj] = true
				}
			}
		}
		if sig.Results().Len() == 1 && isValuePtr(sig.Results().At(0).Type()) && f.Body != nil {
			all, n := true, 0
			walkNoLit(f.Body, func(c ast.Node) bool {
				if r, ok := c.(*ast.ReturnStmt); ok {
					n++
					if len(r.Results) != 1 || !m.freshNonNil(f, r.Results[0], 0) {
						all = false
					}
				}
				return true
			})
			if all && n > 0 {
				m.constructors[f.Obj] = true
			}
		}
	}
	valueModelCache = m
	return m
}

// freshNonNil: &T{…}, new(T), or a local assigned exactly once to one of those.
func (m *valueModel) freshNonNil(f *Func, x ast.Expr, depth int) bool {
	info := f.Pkg.TypesInfo
	switch x := unparen(x).(type) {
	case *ast.UnaryExpr:
		if x.Op == token.AND {
			_, ok := unparen(x.X).(*ast.CompositeLit)
			return ok
		}
	case *ast.CallExpr:
		return isBuiltin(info, x, "new")
	case *ast.Ident:
		obj, _ := info.Uses[x].(*types.Var)
		if obj == nil || depth > 2 {
			return false
		}
		e := m.w.ent(f)
		if as := e.assigns[obj]; len(as) == 1 && !e.addrOf[obj] {
			if a, ok := as[0].(*ast.AssignStmt); ok && len(a.Lhs) == 1 && len(a.Rhs) == 1 {
				return m.freshNonNil(f, a.Rhs[0], depth+1)
			}
		}
	}
	return false
}

// intrinsic says why a *Value expression needs no proof ("" if it does).
func (m *valueModel) intrinsic(f *Func, x ast.Expr, depth int) string {
	info := f.Pkg.TypesInfo
	x = unparen(x)
	switch x := x.(type) {
	case *ast.CallExpr:
		if isBuiltin(info, x, "new") {
			return "new(T) is never nil"
		}
		if callee := calleeOf(info, x); callee != nil {
			if m.constructors[callee] {
				return "constructor result"
			}
		}
	case *ast.UnaryExpr:
		if x.Op == token.AND {
			return "address of a literal or variable"
		}
	case *ast.IndexExpr:
		if tv, ok := info.Types[x.X]; ok && isValuePtrSlice(tv.Type) {
			return "element of a []*Value (append rule)"
		}
	case *ast.Ident:
		obj, _ := info.Uses[x].(*types.Var)
		if obj == nil {
			return ""
		}
		// parameters and receivers of the enclosing functions: the caller's obligation (argument rule)
		for g := f; g != nil; g = g.Parent {
			if sig := g.Sig(); sig != nil {
				for i := 0; i < sig.Params().Len(); i++ {
					if sig.Params().At(i) == obj {
						return "parameter (argument rule at call sites)"
					}
				}
				if sig.Recv() == obj {
					return "receiver (checked at call sites)"
				}
			}
		}
		e := m.w.ent(f)
		if as := e.assigns[obj]; len(as) == 1 && depth < 3 {
			switch a := as[0].(type) {
			case *ast.AssignStmt:
				if len(a.Lhs) == 1 && len(a.Rhs) == 1 {
					return m.intrinsic(f, a.Rhs[0], depth+1)
				}
				if len(a.Lhs) == len(a.Rhs) { // a, b := x, y
					for i, l := range a.Lhs {
						if id := identOf(l); id != nil && (info.Defs[id] == obj || info.Uses[id] == obj) {
							return m.intrinsic(f, a.Rhs[i], depth+1)
						}
					}
				}
			case *ast.RangeStmt:
				if a.Value != nil && identOf(a.Value) != nil && info.Defs[identOf(a.Value)] == obj {
					if tv, ok := info.Types[a.X]; ok && isValuePtrSlice(tv.Type) {
						return "range element of a []*Value (append rule)"
					}
				}
			}
		}
	}
	return ""
}

// valueObligations enumerates and decides the Value nil-safety obligations inside the given functions.
// rules: deref = rule id for alternative dereferences and *Value uses, contract = rule id for family returns and
// appended/passed values ("" to skip that class).
func valueObligations(c *Ctx, derefRule, contractRule string, funcs []*Func) {
	w := c.W
	m := w.valueModel()
	fam := func(f *types.Func) bool { return m.family[f] }
	for _, f := range funcs {
		if f.Body == nil {
			continue
		}
		c.fn(f)
		info := f.Pkg.TypesInfo
		e := w.ent(f)
		e.installContracts(fam)
		isFamily := f.Obj != nil && m.family[f.Obj]
		counter := map[string]int{}
		key := func(kind string, x ast.Node) string {
			s := kind + " " + nodeStr(x)
			counter[s]++
			if counter[s] > 1 {
				return f.Name + "/" + s + "#" + itoa(counter[s])
			}
			return f.Name + "/" + s
		}
		walkNoLit(f.Body, func(n ast.Node) bool {
			switch n := n.(type) {
			case *ast.StarExpr:
				if derefRule == "" {
					break
				}
				if sel, ok := unparen(n.X).(*ast.SelectorExpr); ok {
					if tv, ok := info.Types[sel.X]; ok && (isValuePtr(tv.Type) || isValueNamed(tv.Type)) {
						switch sel.Sel.Name {
						case "Number", "Boolean", "String":
							ok, how := e.Prove(n, e.nn(e.k(), sel))
							c.ob(derefRule, key("deref", n), w.Pos(n.Pos()), ok, how)
						}
					}
				}
			case *ast.SelectorExpr:
				if derefRule == "" {
					break
				}
				if tv, ok := info.Types[n.X]; ok && isValuePtr(tv.Type) {
					if why := m.intrinsic(f, n.X, 0); why != "" {
						c.obN(derefRule, key("use", n), w.Pos(n.Pos()), true, why, false)
					} else {
						ok, how := e.Prove(n, e.nn(e.k(), n.X))
						c.ob(derefRule, key("use", n), w.Pos(n.Pos()), ok, how)
					}
				}
			case *ast.ReturnStmt:
				if contractRule == "" || !isFamily || len(n.Results) == 0 {
					break
				}
				if len(n.Results) == 1 {
					// return g(...): relays the whole tuple of another family member
					if call, ok := unparen(n.Results[0]).(*ast.CallExpr); ok {
						if callee := calleeOf(info, call); callee != nil && m.family[callee] {
							c.obN(contractRule, key("return", n), w.Pos(n.Pos()), true, "relays the result of "+callee.Name()+" (same contract)", false)
						} else {
							c.ob(contractRule, key("return", n), w.Pos(n.Pos()), false, "relays a call outside the evaluator family: the value may be nil with a nil error")
						}
					}
					break
				}
				if len(n.Results) == 2 && isNilExpr(info, n.Results[1]) {
					switch {
					case isNilExpr(info, n.Results[0]):
						c.ob(contractRule, key("return", n), w.Pos(n.Pos()), false, "returns (nil, nil): callers dereference the value whenever the error is nil")
					default:
						if why := m.intrinsic(f, n.Results[0], 0); why != "" {
							c.obN(contractRule, key("return", n), w.Pos(n.Pos()), true, why, false)
						} else {
							ok, how := e.Prove(n, e.nn(e.k(), n.Results[0]))
							c.ob(contractRule, key("return", n), w.Pos(n.Pos()), ok, how)
						}
					}
				}
			case *ast.AssignStmt:
				if contractRule == "" {
					break
				}
				// store rule: everything stored into an element of a []*Value is non-nil
				if len(n.Lhs) == len(n.Rhs) {
					for i, l := range n.Lhs {
						ix, ok := unparen(l).(*ast.IndexExpr)
						if !ok {
							continue
						}
						if tv, ok := info.Types[ix.X]; ok && isValuePtrSlice(tv.Type) {
							a := n.Rhs[i]
							if why := m.intrinsic(f, a, 0); why != "" {
								c.obN(contractRule, key("store", a), w.Pos(a.Pos()), true, why, false)
							} else {
								ok, how := e.Prove(n, e.nn(e.k(), a))
								c.ob(contractRule, key("store", a), w.Pos(a.Pos()), ok, how)
							}
						}
					}
				}
			case *ast.CallExpr:
				if contractRule == "" {
					break
				}
				// make rule: a []*Value made with a length starts with nil elements; it must be filled, one store per
				// element of the ranged collection whose length it was made with, before anything else
				if isBuiltin(info, n, "make") && len(n.Args) >= 2 {
					if tv, ok := info.Types[n.Args[0]]; ok && tv.IsType() && isValuePtrSlice(tv.Type) {
						if lv, ok := info.Types[n.Args[1]]; !ok || lv.Value == nil || lv.Value.ExactString() != "0" {
							ok, how := madeThenFilled(w, f, n)
							c.ob(contractRule, key("make", n), w.Pos(n.Pos()), ok, how)
						}
					}
					break
				}
				// append rule: everything appended to a []*Value is non-nil
				if isBuiltin(info, n, "append") && len(n.Args) >= 2 && !n.Ellipsis.IsValid() {
					if tv, ok := info.Types[n.Args[0]]; ok && isValuePtrSlice(tv.Type) {
						for _, a := range n.Args[1:] {
							if why := m.intrinsic(f, a, 0); why != "" {
								c.obN(contractRule, key("append", a), w.Pos(a.Pos()), true, why, false)
							} else {
								ok, how := e.Prove(n, e.nn(e.k(), a))
								c.ob(contractRule, key("append", a), w.Pos(a.Pos()), ok, how)
							}
						}
					}
					break
				}
				// argument rule: a *Value passed to a callee is non-nil
				if tv, ok := info.Types[n.Fun]; ok && !tv.IsType() {
					for _, a := range n.Args {
						if ta, ok := info.Types[a]; ok && isValuePtr(ta.Type) && !isNilExpr(info, a) {
							if why := m.intrinsic(f, a, 0); why != "" {
								c.obN(contractRule, key("arg", a), w.Pos(a.Pos()), true, why, false)
							} else {
								ok, how := e.Prove(n, e.nn(e.k(), a))
								c.ob(contractRule, key("arg", a), w.Pos(a.Pos()), ok, how)
							}
						}
					}
				}
			}
			return true
		})
	}
}

func nodeStr(n ast.Node) string {
	switch x := n.(type) {
	case ast.Expr:
		s := exprStr(x)
		if len(s) > 60 {
			s = s[:57] + "..."
		}
		return s
	case *ast.ReturnStmt:
		parts := []string{}
		for _, r := range x.Results {
			s := exprStr(r)
			if len(s) > 40 {
				s = s[:37] + "..."
			}
			parts = append(parts, s)
		}
		return "return " + strings.Join(parts, ", ")
	}
	return "?"
}

func itoa(i int) string { return strconv.Itoa(i) }

// madeThenFilled: S := make([]*Value, len(A)) (the length possibly through a local assigned once) is followed, in the
// same statement list, by `for i[, x] := range A { … S[i] = v }` whose body stores at the range key as a top-level
// statement, contains no break/continue/goto, and nothing between the make and the loop mentions S. Every element is
// then stored before S is read (an iteration that does not reach the store leaves the function).
func madeThenFilled(w *World, f *Func, mk *ast.CallExpr) (bool, string) {
	info := f.Pkg.TypesInfo
	x := w.expander(f)
	as, ok := w.parent[mk].(*ast.AssignStmt)
	if !ok || len(as.Lhs) != 1 || len(as.Rhs) != 1 || identOf(as.Lhs[0]) == nil {
		return false, "a []*Value is made with a length (its elements start nil) and is not bound to a local that is filled at once"
	}
	sobj := info.Defs[identOf(as.Lhs[0])]
	if sobj == nil {
		sobj = info.Uses[identOf(as.Lhs[0])]
	}
	size := x.str(mk.Args[1])
	if !strings.HasPrefix(size, "len(") || !strings.HasSuffix(size, ")") {
		return false, "a []*Value is made with the length " + size + ", not the length of the collection it is filled from: elements may stay nil"
	}
	ranged := size[len("len(") : len(size)-1]
	list := stmtListOf(w, as)
	after := false
	for _, st := range list {
		if st == ast.Stmt(as) {
			after = true
			continue
		}
		if !after {
			continue
		}
		rs, isRange := st.(*ast.RangeStmt)
		mentions := false
		ast.Inspect(st, func(n ast.Node) bool {
			if id, ok := n.(*ast.Ident); ok && info.Uses[id] == sobj {
				mentions = true
			}
			return !mentions
		})
		if !mentions {
			continue
		}
		if !isRange || x.str(rs.X) != ranged || identOf(rs.Key) == nil {
			return false, "the slice made with nil elements is used before a range over " + ranged + " has filled it"
		}
		kobj := info.Defs[identOf(rs.Key)]
		stored := false
		for _, bs := range rs.Body.List {
			if a2, ok := bs.(*ast.AssignStmt); ok && len(a2.Lhs) == 1 && a2.Tok == token.ASSIGN {
				if ix, ok := unparen(a2.Lhs[0]).(*ast.IndexExpr); ok && identOf(ix.X) != nil && info.Uses[identOf(ix.X)] == sobj && identOf(ix.Index) != nil && info.Uses[identOf(ix.Index)] == kobj {
					stored = true
				}
			}
		}
		jumps := false
		ast.Inspect(rs.Body, func(n ast.Node) bool {
			if _, ok := n.(*ast.FuncLit); ok {
				return false
			}
			if br, ok := n.(*ast.BranchStmt); ok && br.Tok != token.FALLTHROUGH {
				jumps = true
			}
			return true
		})
		switch {
		case !stored:
			return false, "the loop over " + ranged + " does not store into the made slice at the range key in every iteration: elements may stay nil"
		case jumps:
			return false, "the filling loop contains break/continue/goto: an iteration may skip its store and leave a nil element"
		}
		return true, "made with len(" + ranged + ") elements and filled, one store per iteration, by the range over " + ranged + " that follows"
	}
	return false, "the slice made with nil elements is never filled by a range over " + ranged
}
