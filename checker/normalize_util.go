package main

// normalize_util.go — syntax helpers of the inlining normalisation (clone, purity, termination, type expressions).

import (
	"go/ast"
	"go/token"
	"go/types"
	"reflect"
)

var astNodeType = reflect.TypeOf((*ast.Node)(nil)).Elem()

// cloneAST deep-copies a syntax tree (positions kept); back maps every copy to its original.
func cloneAST(n ast.Node, back map[ast.Node]ast.Node) ast.Node {
	if n == nil {
		return nil
	}
	rv := reflect.ValueOf(n)
	if rv.Kind() != reflect.Ptr || rv.IsNil() {
		return n
	}
	v := rv.Elem()
	c := reflect.New(v.Type())
	c.Elem().Set(v)
	for i := 0; i < v.NumField(); i++ {
		f := c.Elem().Field(i)
		switch f.Kind() {
		case reflect.Ptr, reflect.Interface:
			if f.IsNil() {
				continue
			}
			if node, ok := f.Interface().(ast.Node); ok {
				cl := cloneAST(node, back)
				f.Set(reflect.ValueOf(cl))
			}
		case reflect.Slice:
			if f.IsNil() || f.Len() == 0 {
				continue
			}
			et := f.Type().Elem()
			if !(et.Implements(astNodeType)) {
				continue
			}
			ns := reflect.MakeSlice(f.Type(), f.Len(), f.Len())
			for j := 0; j < f.Len(); j++ {
				e := f.Index(j)
				if (e.Kind() == reflect.Ptr || e.Kind() == reflect.Interface) && e.IsNil() {
					continue
				}
				cl := cloneAST(e.Interface().(ast.Node), back)
				ns.Index(j).Set(reflect.ValueOf(cl))
			}
			f.Set(ns)
		}
	}
	res := c.Interface().(ast.Node)
	// a clone of a clone points to the first original
	if o, ok := back[n]; ok {
		back[res] = o
	} else {
		back[res] = n
	}
	return res
}

// simpleExpr: free of side effects and cheap, so that it may be duplicated or evaluated at another point of the same
// statement sequence (it reads variables: callers check that those are not written in between where that matters).
func simpleExpr(info *types.Info, e ast.Expr) bool {
	switch x := e.(type) {
	case nil:
		return true
	case *ast.Ident, *ast.BasicLit:
		return true
	case *ast.FuncLit:
		// a literal that refers to nothing but its own parameters and package-level names denotes the same function
		// wherever and however often it is evaluated
		return closedFuncLit(info, x)
	case *ast.ParenExpr:
		return simpleExpr(info, x.X)
	case *ast.SelectorExpr:
		return simpleExpr(info, x.X)
	case *ast.StarExpr:
		return simpleExpr(info, x.X)
	case *ast.UnaryExpr:
		return x.Op != token.ARROW && simpleExpr(info, x.X)
	case *ast.BinaryExpr:
		return simpleExpr(info, x.X) && simpleExpr(info, x.Y)
	case *ast.IndexExpr:
		return simpleExpr(info, x.X) && simpleExpr(info, x.Index)
	case *ast.CallExpr:
		if info != nil {
			if tv, ok := info.Types[x.Fun]; ok && tv.IsType() && len(x.Args) == 1 {
				return simpleExpr(info, x.Args[0])
			}
			if isBuiltin(info, x, "len") || isBuiltin(info, x, "cap") {
				return len(x.Args) == 1 && simpleExpr(info, x.Args[0])
			}
		}
	}
	return false
}

// containsReturn: a return statement of this function (function literals excluded) occurs in n.
func containsReturn(n ast.Node) bool {
	found := false
	ast.Inspect(n, func(x ast.Node) bool {
		switch x.(type) {
		case *ast.FuncLit:
			return false
		case *ast.ReturnStmt:
			found = true
		}
		return !found
	})
	return found
}

// hasUnsupported: constructs whose meaning depends on the enclosing function.
func hasUnsupported(body *ast.BlockStmt) string {
	why := hasUnsupported1(body, false)
	if why == "" {
		why = hasUnsupported1(body, true)
	}
	return why
}

func hasUnsupported1(body *ast.BlockStmt, onlyRecover bool) string {
	why := ""
	ast.Inspect(body, func(x ast.Node) bool {
		switch y := x.(type) {
		case *ast.FuncLit:
			return false
		case *ast.DeferStmt:
			if !onlyRecover {
				why = "defer"
			}
		case *ast.LabeledStmt:
			if !onlyRecover {
				why = "label"
			}
		case *ast.BranchStmt:
			if y.Tok == token.GOTO && !onlyRecover {
				why = "goto"
			}
		case *ast.CallExpr:
			if id, ok := y.Fun.(*ast.Ident); ok && id.Name == "recover" && onlyRecover {
				why = "recover"
			}
		}
		return why == ""
	})
	return why
}

// terminatesList: the list ends in a statement after which control cannot continue (return or panic).
func terminatesList(list []ast.Stmt) bool {
	if len(list) == 0 {
		return false
	}
	switch s := list[len(list)-1].(type) {
	case *ast.ReturnStmt:
		return true
	case *ast.BranchStmt:
		// a goto leaves for a label of the enclosing function: control does not continue after it
		return s.Tok == token.GOTO
	case *ast.ExprStmt:
		if c, ok := s.X.(*ast.CallExpr); ok {
			if id, ok := c.Fun.(*ast.Ident); ok && id.Name == "panic" {
				return true
			}
		}
	case *ast.BlockStmt:
		return terminatesList(s.List)
	case *ast.IfStmt:
		if s.Else == nil {
			return false
		}
		switch e := s.Else.(type) {
		case *ast.BlockStmt:
			return terminatesList(s.Body.List) && terminatesList(e.List)
		case *ast.IfStmt:
			return terminatesList(s.Body.List) && terminatesList([]ast.Stmt{e})
		}
	}
	return false
}

// typeExpr renders a type as syntax valid in the given file of the given package, or nil if it cannot.
func typeExpr(t types.Type, pkg *types.Package, file *ast.File, info *types.Info) ast.Expr {
	switch x := t.(type) {
	case *types.Basic:
		if x.Kind() == types.UntypedNil || x.Info()&types.IsUntyped != 0 {
			return nil
		}
		return ast.NewIdent(x.Name())
	case *types.Alias:
		return typeExpr(types.Unalias(x), pkg, file, info)
	case *types.Named:
		if x.TypeArgs().Len() > 0 {
			return nil
		}
		obj := x.Obj()
		if obj.Pkg() == nil {
			return ast.NewIdent(obj.Name()) // error
		}
		if obj.Pkg() == pkg {
			if obj.Parent() != pkg.Scope() {
				return nil
			}
			return ast.NewIdent(obj.Name())
		}
		for _, imp := range file.Imports {
			if pn, ok := info.Implicits[imp].(*types.PkgName); ok && pn.Imported() == obj.Pkg() {
				return &ast.SelectorExpr{X: ast.NewIdent(pn.Name()), Sel: ast.NewIdent(obj.Name())}
			}
			if imp.Name != nil {
				if pn, ok := info.Defs[imp.Name].(*types.PkgName); ok && pn.Imported() == obj.Pkg() && pn.Name() != "_" && pn.Name() != "." {
					return &ast.SelectorExpr{X: ast.NewIdent(pn.Name()), Sel: ast.NewIdent(obj.Name())}
				}
			}
		}
		return nil
	case *types.Pointer:
		if e := typeExpr(x.Elem(), pkg, file, info); e != nil {
			return &ast.StarExpr{X: e}
		}
	case *types.Slice:
		if e := typeExpr(x.Elem(), pkg, file, info); e != nil {
			return &ast.ArrayType{Elt: e}
		}
	case *types.Map:
		k, v := typeExpr(x.Key(), pkg, file, info), typeExpr(x.Elem(), pkg, file, info)
		if k != nil && v != nil {
			return &ast.MapType{Key: k, Value: v}
		}
	case *types.Chan:
		if e := typeExpr(x.Elem(), pkg, file, info); e != nil {
			dir := ast.SEND | ast.RECV
			switch x.Dir() {
			case types.SendOnly:
				dir = ast.SEND
			case types.RecvOnly:
				dir = ast.RECV
			}
			return &ast.ChanType{Dir: dir, Value: e}
		}
	case *types.Interface:
		if x.NumMethods() == 0 && x.NumEmbeddeds() == 0 {
			return ast.NewIdent("any")
		}
	}
	return nil
}

// identsNamed collects every identifier name occurring in n.
func identNames(n ast.Node, into map[string]bool) {
	ast.Inspect(n, func(x ast.Node) bool {
		if id, ok := x.(*ast.Ident); ok {
			into[id.Name] = true
		}
		return true
	})
}

// effectFree: evaluating e changes nothing and cannot fail (it may allocate): dropping it is unobservable.
func effectFree(e ast.Expr) bool {
	switch x := e.(type) {
	case *ast.CompositeLit:
		for _, el := range x.Elts {
			if kv, ok := el.(*ast.KeyValueExpr); ok {
				if !effectFree(kv.Value) {
					return false
				}
				if _, isId := kv.Key.(*ast.Ident); !isId && !effectFree(kv.Key) {
					return false
				}
				continue
			}
			if !effectFree(el) {
				return false
			}
		}
		return true
	case *ast.FuncLit:
		return true
	case *ast.UnaryExpr:
		if x.Op == token.AND {
			return effectFree(x.X)
		}
	case *ast.ParenExpr:
		return effectFree(x.X)
	}
	// selectors, dereferences and index expressions can panic: they are "simple" for duplication, not for dropping —
	// but a helper's result expression that the caller ignores was evaluated before the rewriting too, so only the
	// order matters, and simple expressions have no effects to order
	return simpleExpr(nil, e)
}

// closedFuncLit: the literal captures no local variable: every identifier it uses is declared inside it, or denotes a
// package-level object, an imported package, or a universe name.
func closedFuncLit(info *types.Info, lit *ast.FuncLit) bool {
	if info == nil {
		return false
	}
	closed := true
	ast.Inspect(lit, func(q ast.Node) bool {
		id, ok := q.(*ast.Ident)
		if !ok || !closed {
			return closed
		}
		obj := info.Uses[id]
		if obj == nil {
			return true // a definition, a field key, a label
		}
		switch o := obj.(type) {
		case *types.PkgName, *types.Nil, *types.Builtin, *types.Const, *types.TypeName, *types.Func:
			return true
		case *types.Var:
			if o.IsField() {
				return true
			}
			if o.Pkg() != nil && o.Parent() == o.Pkg().Scope() {
				return true // package-level variable: the same variable wherever the literal is evaluated
			}
			if o.Pos() >= lit.Pos() && o.Pos() < lit.End() {
				return true // declared inside the literal
			}
			closed = false
		}
		return closed
	})
	return closed
}
