package main

// exact.go — guards that must not reject what the property declares valid.
//
// The safety rules (C06.R5, C15.R2) prove that a guard is strong enough: what passes it cannot panic. A guard that is too
// strong passes those rules and breaks the behaviour: dice(1) refused, the text of an attribute at position 0 reported
// empty. These rules extract the conditions under which the rejecting return is reached and evaluate them — constant
// evaluation of the extracted expressions, no code of the repository runs — over every point of a small box of valid
// inputs. A comparison operator or a bound that is off by one is wrong on a boundary point of the box; every guard in
// question is a conjunction/disjunction of linear comparisons, for which the boundary points are the deciding ones.
//
//   C09.R5  the checked dice / random_range closures fail for no valid argument (sides >= 1; lower <= upper)
//   C13.R9  TextForAttribute returns its "not representable" empty result for no range that lies inside the text

import (
	"go/ast"
	"go/constant"
	"go/token"
	"go/types"
	"sort"
	"strings"

	"golang.org/x/tools/go/packages"
)

type pathGuard struct {
	cond  ast.Expr
	holds bool     // the condition's value on the way to the node
	tag   ast.Expr // case of a switch with tag: tag == cond
}

// pathGuardsTo: the conditions of the enclosing if statements / switch clauses between root and node, plus — for
// statements that follow an `if c { …terminates }` in the same list — the negation of c. ok is false when the node sits
// in a loop or under a clause the rule cannot express.
func pathGuardsTo(w *World, info *types.Info, root ast.Node, node ast.Node) ([]pathGuard, bool) {
	return pathGuardsToL(w, info, root, node, false)
}

// pathGuardsToL: as pathGuardsTo; with loops allowed, the conditions collected are those between the node and the root
// whatever loops lie in between (what must hold in the iteration that reaches the node).
func pathGuardsToL(w *World, info *types.Info, root ast.Node, node ast.Node, loops bool) ([]pathGuard, bool) {
	var guards []pathGuard
	child := node
	for p := w.parent[node]; p != nil && child != root; child, p = p, w.parent[p] {
		switch y := p.(type) {
		case *ast.IfStmt:
			if child == ast.Node(y.Body) {
				guards = append(guards, pathGuard{cond: y.Cond, holds: true})
			} else if child == y.Else {
				guards = append(guards, pathGuard{cond: y.Cond, holds: false})
			}
		case *ast.CaseClause:
			sw, _ := w.parent[w.parent[y]].(*ast.SwitchStmt)
			if sw == nil || len(y.List) != 1 {
				return nil, false
			}
			for _, st := range y.Body {
				if ast.Node(st) == child {
					break
				}
				if is, ok := st.(*ast.IfStmt); ok && is.Else == nil && len(is.Body.List) > 0 && isTerminating(info, is.Body.List[len(is.Body.List)-1]) {
					guards = append(guards, pathGuard{cond: is.Cond, holds: false})
				}
			}
			guards = append(guards, pathGuard{cond: y.List[0], holds: true, tag: sw.Tag})
		case *ast.ForStmt, *ast.RangeStmt:
			if !loops {
				return nil, false
			}
		case *ast.SelectStmt, *ast.TypeSwitchStmt:
			return nil, false
		case *ast.BlockStmt:
			// earlier siblings `if c { …return }` without else: reaching child means !c
			for _, st := range y.List {
				if ast.Node(st) == child {
					break
				}
				if is, ok := st.(*ast.IfStmt); ok && is.Else == nil && len(is.Body.List) > 0 && isTerminating(info, is.Body.List[len(is.Body.List)-1]) {
					guards = append(guards, pathGuard{cond: is.Cond, holds: false})
				}
			}
		}
		if p == root {
			break
		}
	}
	return guards, true
}

// reachableUnder evaluates the guards with the given leaf valuation. ok is false if a guard cannot be evaluated.
func reachableUnder(info *types.Info, guards []pathGuard, leaf func(e ast.Expr) (int64, bool)) (reach bool, ok bool) {
	evalLeaf = func(e ast.Expr, _ int64) (int64, bool) { return leaf(e) }
	defer func() { evalLeaf = nil }()
	for _, g := range guards {
		if g.tag != nil {
			a, _, ok1 := evalIntExpr(info, g.tag, nil, 0)
			b, _, ok2 := evalIntExpr(info, g.cond, nil, 0)
			if !ok1 || !ok2 {
				return false, false
			}
			if a != b {
				return false, true
			}
			continue
		}
		_, b, ok := evalIntExpr(info, g.cond, nil, 0)
		if !ok {
			return false, false
		}
		if b != g.holds {
			return false, true
		}
	}
	return true, true
}

// noteLocalDefs makes evalIntExpr look through f's single-assignment locals with call-free initialisers.
func noteLocalDefs(w *World, f *Func) {
	info := f.Pkg.TypesInfo
	for obj, das := range w.ent(f).assigns {
		if len(das) != 1 {
			continue
		}
		if a, ok := das[0].(*ast.AssignStmt); ok && len(a.Lhs) == len(a.Rhs) {
			for i, l := range a.Lhs {
				if id := identOf(l); id != nil && (info.Defs[id] == obj || info.Uses[id] == obj) {
					evalLocalDefs[obj] = a.Rhs[i]
				}
			}
		}
	}
}

// errorReturns: the return statements of the literal whose error result is not the nil literal.
func errorReturns(l *Func) []*ast.ReturnStmt {
	info := l.Pkg.TypesInfo
	var out []*ast.ReturnStmt
	walkNoLit(l.Body, func(q ast.Node) bool {
		if r, ok := q.(*ast.ReturnStmt); ok && len(r.Results) >= 1 && l.Sig().Results().Len() == len(r.Results) {
			last := r.Results[len(r.Results)-1]
			if typeStr(l.Sig().Results().At(len(r.Results)-1).Type()) == "error" && !isNilExpr(info, last) {
				out = append(out, r)
			}
		}
		return true
	})
	return out
}

func c09Domain(c *Ctx) {
	w := c.W
	m := w.runner()
	var storerCtor *Func
	for _, f := range w.FuncsIn(m.pkg) {
		if f.Decl != nil && f.Sig().Results().Len() == 1 && typeStr(f.Sig().Results().At(0).Type()) == "*ysgo.functionStorer" {
			storerCtor = f
		}
	}
	if storerCtor == nil {
		c.undecided("C09.R5", "function storer constructor not found")
		return
	}
	reg := findRegistry(w, storerCtor)
	if reg == nil {
		c.undecided("C09.R5", "registry not found")
		return
	}
	info := m.pkg.TypesInfo
	for _, spec := range []struct {
		name   string
		arity  int
		valid  func(a, b int64) bool
		domain string
	}{
		{"dice", 1, func(a, _ int64) bool { return a >= 1 }, "sides >= 1"},
		{"random_range", 2, func(a, b int64) bool { return a <= b }, "lower <= upper"},
	} {
		key := "builtin " + spec.name + "/accepts-its-domain"
		call, _ := unparen(reg.entries[spec.name]).(*ast.CallExpr)
		var l *Func
		if call != nil {
			if callee := calleeOf(info, call); callee != nil && w.byObj[callee] != nil {
				l = returnedLit(w, w.byObj[callee])
			}
		}
		if l == nil || l.Sig().Params().Len() != spec.arity {
			c.undecided("C09.R5", "\""+spec.name+"\" is not registered as a call returning a single function literal of "+itoa(spec.arity)+" parameter(s)")
			continue
		}
		c.fn(l)
		noteLocalDefs(w, l)
		rets := errorReturns(l)
		bad, undec := "", ""
		for _, r := range rets {
			guards, ok := pathGuardsTo(w, info, l.Body, r)
			if !ok {
				undec = "an error return of \"" + spec.name + "\" sits in a loop or under a clause the rule cannot evaluate (" + w.Pos(r.Pos()) + ")"
				continue
			}
			for a := int64(-4); a <= 8 && bad == "" && undec == ""; a++ {
				for b := int64(-4); b <= 8 && bad == "" && undec == ""; b++ {
					if spec.arity == 1 && b != 0 {
						continue
					}
					if !spec.valid(a, b) {
						continue
					}
					reach, ok := reachableUnder(info, guards, func(e ast.Expr) (int64, bool) {
						if id := identOf(e); id != nil {
							for i := 0; i < l.Sig().Params().Len(); i++ {
								if info.Uses[id] == types.Object(l.Sig().Params().At(i)) {
									return []int64{a, b}[i], true
								}
							}
						}
						return 0, false
					})
					if !ok {
						undec = "a condition guarding an error return of \"" + spec.name + "\" is not a pure integer expression over the parameters (" + w.Pos(r.Pos()) + ")"
					} else if reach {
						args := itoa(int(a))
						if spec.arity == 2 {
							args += ", " + itoa(int(b))
						}
						bad = w.Pos(r.Pos()) + ": " + spec.name + "(" + args + ") is refused with an error although it is in the function's domain (" + spec.domain + ")"
					}
				}
			}
		}
		switch {
		case bad != "":
			c.ob("C09.R5", key, w.Pos(l.Node().Pos()), false, bad)
		case undec != "":
			c.undecided("C09.R5", undec)
		default:
			c.ob("C09.R5", key, w.Pos(l.Node().Pos()), true, itoa(len(rets))+" error return(s); none is reachable for an argument in the domain ("+spec.domain+", evaluated on the box -4…8)")
		}
	}
}

func c13TextExact(c *Ctx) {
	w := c.W
	mp := w.Pkg("markup")
	info := mp.TypesInfo
	tfa := w.DeclByName(mp, "ParseResult.TextForAttribute")
	if tfa == nil || tfa.Body == nil {
		c.undecided("C13.R9", "TextForAttribute not found")
		return
	}
	c.fn(tfa)
	noteLocalDefs(w, tfa)
	// the returns of a constant string: the "not representable" answers
	var rets []*ast.ReturnStmt
	total := 0
	walkNoLit(tfa.Body, func(q ast.Node) bool {
		if r, ok := q.(*ast.ReturnStmt); ok && len(r.Results) == 1 {
			total++
			if tv, ok := info.Types[r.Results[0]]; ok && tv.Value != nil {
				rets = append(rets, r)
			}
		}
		return true
	})
	if total == 0 || total == len(rets) {
		c.ob("C13.R9", tfa.Name+"/returns-the-range", w.Pos(tfa.Decl.Pos()), false, "TextForAttribute never returns a part of the text")
		return
	}
	key := tfa.Name + "/accepts-every-range-inside-the-text"
	bad, undec := "", ""
	for _, r := range rets {
		guards, ok := pathGuardsTo(w, info, tfa.Body, r)
		if !ok {
			undec = "a constant return of TextForAttribute sits in a loop or under a clause the rule cannot evaluate (" + w.Pos(r.Pos()) + ")"
			continue
		}
		if len(guards) == 0 {
			bad = w.Pos(r.Pos()) + ": a constant is returned unconditionally"
			continue
		}
		for L := int64(0); L <= 3 && bad == "" && undec == ""; L++ {
			for p := int64(0); p <= L && bad == "" && undec == ""; p++ {
				for ln := int64(0); p+ln <= L && bad == "" && undec == ""; ln++ {
					if tv := info.Types[r.Results[0]]; ln == 0 && tv.Value != nil && tv.Value.ExactString() == `""` {
						continue // the text of an empty range is the empty string: the constant is the right answer
					}
					reach, ok := reachableUnder(info, guards, func(e ast.Expr) (int64, bool) {
						switch y := unparen(e).(type) {
						case *ast.SelectorExpr:
							if sel, ok := info.Selections[y]; ok && sel.Kind() == types.FieldVal && typeStr(sel.Recv()) == "markup.Attribute" {
								switch sel.Obj().Name() {
								case "Position":
									return p, true
								case "Length":
									return ln, true
								}
							}
						case *ast.CallExpr:
							// the number of characters of the text
							if isBuiltin(info, y, "len") && len(y.Args) == 1 {
								if tv, ok := info.Types[y.Args[0]]; ok && isRuneSlice(tv.Type) {
									return L, true
								}
							}
							if callee := calleeOf(info, y); callee != nil && funcFullName(callee) == "unicode/utf8.RuneCountInString" {
								return L, true
							}
						}
						return 0, false
					})
					if !ok {
						undec = "a condition guarding a constant return of TextForAttribute is not a pure integer expression over position, length and the number of characters (" + w.Pos(r.Pos()) + ")"
					} else if reach {
						bad = w.Pos(r.Pos()) + ": the attribute (position " + itoa(int(p)) + ", length " + itoa(int(ln)) + ") lies inside a text of " + itoa(int(L)) + " character(s) and yet the constant " + exprStr(r.Results[0]) + " is returned instead of the text it covers"
					}
				}
			}
		}
	}
	switch {
	case bad != "":
		c.ob("C13.R9", key, w.Pos(tfa.Decl.Pos()), false, bad)
	case undec != "":
		c.undecided("C13.R9", undec)
	default:
		c.ob("C13.R9", key, w.Pos(tfa.Decl.Pos()), true, itoa(len(rets))+" constant return(s); none is reachable for a range inside the text (every position/length/text length up to 3 characters)")
	}
}

var _ = token.NoPos

// checkWrapNonNil: a failure is never reported on behalf of a call that succeeded. Every error-typed variable handed to
// fmt.Errorf (wrapped with %w or printed) must be entailed non-nil where the message is built; wrapping a nil error
// produces a non-nil error out of a success — the inverted test `if err == nil { return fmt.Errorf("…: %w", err) }`.
func checkWrapNonNil(c *Ctx, rule string, pkgs ...string) {
	w := c.W
	n := 0
	for _, pn := range pkgs {
		p := w.Pkg(pn)
		if p == nil {
			c.undecided(rule, "package "+pn+" not loaded")
			continue
		}
		info := p.TypesInfo
		for _, f := range w.FuncsIn(p) {
			if f.Body == nil {
				continue
			}
			e := w.ent(f)
			k := 0
			walkNoLit(f.Body, func(q ast.Node) bool {
				call, ok := q.(*ast.CallExpr)
				if !ok {
					return true
				}
				callee := calleeOf(info, call)
				if callee == nil || funcFullName(callee) != "fmt.Errorf" {
					return true
				}
				for _, a := range call.Args[1:] {
					id := identOf(a)
					if id == nil {
						continue
					}
					v, ok := info.Uses[id].(*types.Var)
					if !ok || v.IsField() || typeStr(v.Type()) != "error" {
						continue
					}
					n++
					k++
					c.fn(f)
					at := site{pos: call.Pos(), anc: call}
					ok2, how := e.Prove(call, e.nn(keyCtx{e: e, s: &at}, id))
					key := f.Name + "/wraps " + id.Name + "#" + itoa(k)
					if ok2 {
						c.obN(rule, key, w.Pos(call.Pos()), true, "entailed non-nil: "+how, false)
					} else {
						c.ob(rule, key, w.Pos(call.Pos()), false, "an error is built from "+id.Name+", which is not entailed non-nil here: a call that succeeded would be reported as a failure ("+how+")")
					}
				}
				return true
			})
		}
	}
	if n == 0 {
		c.undecided(rule, "no wrapped error found")
	}
}

// checkFoundFlag: what a lookup hands back is used only where the lookup is known to have found it. For every
// `v, ok := f(…)` on a module function returning (T, bool), a map index or a type assertion, every later use of v must be
// entailed by ok: the zero value standing in for "not found" is never taken for a result. (The inverted test
// `if ok { return "", nil }; return v.toString()` passes every safety rule and always answers with the zero value.)
func checkFoundFlag(c *Ctx, rule string, pkgs ...string) {
	w := c.W
	n := 0
	for _, pn := range pkgs {
		p := w.Pkg(pn)
		if p == nil {
			c.undecided(rule, "package "+pn+" not loaded")
			continue
		}
		info := p.TypesInfo
		for _, f := range w.FuncsIn(p) {
			if f.Body == nil {
				continue
			}
			e := w.ent(f)
			k := 0
			walkNoLit(f.Body, func(q ast.Node) bool {
				as, ok := q.(*ast.AssignStmt)
				if !ok || len(as.Lhs) != 2 || len(as.Rhs) != 1 {
					return true
				}
				vid, okid := identOf(as.Lhs[0]), identOf(as.Lhs[1])
				if vid == nil || okid == nil || vid.Name == "_" || okid.Name == "_" {
					return true
				}
				call, isCall := unparen(as.Rhs[0]).(*ast.CallExpr)
				if !isCall {
					return true // map index and type assertion: the zero value is part of their contract
				}
				callee := calleeOf(info, call)
				if callee == nil || w.byObj[callee.Origin()] == nil {
					return true
				}
				sig := callee.Type().(*types.Signature)
				if sig.Results().Len() != 2 || typeStr(sig.Results().At(1).Type()) != "bool" {
					return true
				}
				vobj := info.Defs[vid]
				if vobj == nil {
					vobj = info.Uses[vid]
				}
				okobj := info.Defs[okid]
				if okobj == nil {
					okobj = info.Uses[okid]
				}
				if vobj == nil || okobj == nil || len(e.assigns[vobj]) != 1 || len(e.assigns[okobj]) < 1 {
					return true
				}
				// uses of v after the assignment, inside this function (not in nested literals)
				walkNoLit(f.Body, func(u ast.Node) bool {
					id, ok := u.(*ast.Ident)
					if !ok || info.Uses[id] != vobj || id.Pos() < as.End() {
						return true
					}
					n++
					k++
					c.fn(f)
					at := site{pos: id.Pos(), anc: id}
					// the flag as it was at the lookup
					kc := keyCtx{e: e, s: &site{pos: as.End(), anc: as}}
					_ = at
					ok2, how := e.Prove(id, e.cond(kc, okid, 0))
					key := f.Name + "/uses " + vid.Name + " of " + callee.Name() + "#" + itoa(k)
					if ok2 {
						c.obN(rule, key, w.Pos(id.Pos()), true, "entailed by "+okid.Name+": "+how, false)
					} else {
						c.ob(rule, key, w.Pos(id.Pos()), false, vid.Name+" is used although "+callee.Name()+" is not known to have found it ("+okid.Name+" is not entailed): the zero value would be taken for a result ("+how+")")
					}
					return true
				})
				return true
			})
		}
	}
	if n == 0 {
		c.undecided(rule, "no lookup with a found flag")
	}
}

// c13ValueText: the text of a markup value (what select chooses its replacement by and what % is replaced with).
// In (*Value).toString, a constant spelling true/false is returned under the matching test of BoolValue, and the
// integer rendering of a float (Itoa(int(FloatValue))) only where FloatValue is known to equal its integer part.
func c13ValueText(c *Ctx) {
	w := c.W
	mp := w.Pkg("markup")
	info := mp.TypesInfo
	f := w.DeclByName(mp, "Value.toString")
	if f == nil || f.Body == nil {
		c.undecided("C13.R13", "(*Value).toString not found")
		return
	}
	c.fn(f)
	fieldTruth := func(cond ast.Expr, field string) (bool, bool) { // (truth of the field when cond holds, is such a test)
		neg := false
		x := unparen(cond)
		for {
			if u, ok := x.(*ast.UnaryExpr); ok && u.Op == token.NOT {
				neg = !neg
				x = unparen(u.X)
				continue
			}
			break
		}
		if se, ok := x.(*ast.SelectorExpr); ok && se.Sel.Name == field {
			return !neg, true
		}
		return false, false
	}
	isIntegral := func(cond ast.Expr) (bool, bool) { // (cond holding means "equal", is such a test)
		b, ok := unparen(cond).(*ast.BinaryExpr)
		if !ok || (b.Op != token.EQL && b.Op != token.NEQ) {
			return false, false
		}
		isField := func(e ast.Expr) bool {
			se, ok := unparen(e).(*ast.SelectorExpr)
			return ok && se.Sel.Name == "FloatValue"
		}
		isRound := func(e ast.Expr) bool { // float64(int(X.FloatValue)) or math.Trunc(X.FloatValue)
			call, ok := unparen(e).(*ast.CallExpr)
			if !ok || len(call.Args) != 1 {
				return false
			}
			if tv, ok := info.Types[call.Fun]; ok && tv.IsType() && typeStr(tv.Type) == "float64" {
				inner, ok := unparen(call.Args[0]).(*ast.CallExpr)
				if ok && len(inner.Args) == 1 {
					if tv2, ok := info.Types[inner.Fun]; ok && tv2.IsType() && isIntType(tv2.Type) {
						return isField(inner.Args[0])
					}
				}
			}
			if callee := calleeOf(info, call); callee != nil && funcFullName(callee) == "math.Trunc" {
				return isField(call.Args[0])
			}
			return false
		}
		if (isField(b.X) && isRound(b.Y)) || (isField(b.Y) && isRound(b.X)) {
			return b.Op == token.EQL, true
		}
		return false, false
	}
	nBool, nInt := 0, 0
	walkNoLit(f.Body, func(q ast.Node) bool {
		r, ok := q.(*ast.ReturnStmt)
		if !ok || len(r.Results) != 1 {
			return true
		}
		guards, okg := pathGuardsTo(w, info, f.Body, r)
		if tv, ok := info.Types[r.Results[0]]; ok && tv.Value != nil && tv.Value.Kind() == constant.String {
			sp := strings.ToLower(constant.StringVal(tv.Value))
			if sp != "true" && sp != "false" {
				return true
			}
			nBool++
			key := f.Name + "/spells " + sp
			if !okg {
				c.ob("C13.R13", key, w.Pos(r.Pos()), false, "the constant is returned in a loop or under a clause the rule cannot read")
				return true
			}
			found, right := false, false
			for _, g := range guards {
				if g.tag != nil {
					continue
				}
				if t, is := fieldTruth(g.cond, "BoolValue"); is {
					found = true
					right = (t == g.holds) == (sp == "true")
				}
			}
			switch {
			case !found:
				c.ob("C13.R13", key, w.Pos(r.Pos()), false, "\""+sp+"\" is returned without a test of BoolValue")
			case !right:
				c.ob("C13.R13", key, w.Pos(r.Pos()), false, "\""+sp+"\" is the text of a boolean value that is "+map[bool]string{true: "false", false: "true"}[sp == "true"]+": select would choose the replacement of the opposite value")
			default:
				c.ob("C13.R13", key, w.Pos(r.Pos()), true, "returned where BoolValue is "+sp)
			}
			return true
		}
		// the integer rendering of a float
		conv := false
		ast.Inspect(r.Results[0], func(n ast.Node) bool {
			if call, ok := n.(*ast.CallExpr); ok && len(call.Args) == 1 {
				if tv, ok := info.Types[call.Fun]; ok && tv.IsType() && isIntType(tv.Type) {
					if se, ok := unparen(call.Args[0]).(*ast.SelectorExpr); ok && se.Sel.Name == "FloatValue" {
						conv = true
					}
				}
			}
			return true
		})
		if conv {
			nInt++
			key := f.Name + "/float-as-integer"
			okInt := false
			for _, g := range guards {
				if g.tag != nil {
					continue
				}
				if eq, is := isIntegral(g.cond); is && eq == g.holds {
					okInt = true
				}
			}
			c.ob("C13.R13", key, w.Pos(r.Pos()), okg && okInt, map[bool]string{true: "the float is rendered through its integer part only where it equals it", false: "the float is rendered through its integer part where it is not known to equal it: 2.5 would read 2"}[okg && okInt])
		}
		return true
	})
	if nBool < 2 {
		c.undecided("C13.R13", "the texts of the two boolean values were not found in (*Value).toString")
	}
}

// c06NilMaps: a write m[k] = v (or m[k]++) into a nil map panics. For every map-typed field of a module struct that
// some function of the module writes through, everything ever stored in the field must be a map that exists: a make, a
// non-nil map literal, or a local bound once to one of those (the copy loops). A value that can be nil (a parameter's
// field, maps.Clone of one — which hands nil back for nil) is not; a composite literal of the struct that leaves the
// field out leaves it nil.
func c06NilMaps(c *Ctx) {
	w := c.W
	type fieldUse struct {
		fld     *types.Var
		written token.Pos // some m[k] = v through the field
	}
	fields := map[*types.Var]*fieldUse{}
	pkgs := []*packages.Package{w.Pkg(""), w.Pkg("variable")}
	// fields written through
	for _, p := range pkgs {
		if p == nil {
			continue
		}
		info := p.TypesInfo
		for _, f := range w.FuncsIn(p) {
			if f.Body == nil {
				continue
			}
			ast.Inspect(f.Body, func(n ast.Node) bool {
				var lhs []ast.Expr
				switch x := n.(type) {
				case *ast.AssignStmt:
					lhs = x.Lhs
				case *ast.IncDecStmt:
					lhs = []ast.Expr{x.X}
				}
				for _, l := range lhs {
					ix, ok := unparen(l).(*ast.IndexExpr)
					if !ok {
						continue
					}
					tv, ok := info.Types[ix.X]
					if !ok {
						continue
					}
					if _, isMap := tv.Type.Underlying().(*types.Map); !isMap {
						continue
					}
					if fld := lastField(info, ix.X); fld != nil && fld.Pkg() != nil && strings.HasPrefix(fld.Pkg().Path(), modPath) {
						// a write that follows, in the same function, a top-level store of a map made there writes that map
						var latest *ast.AssignStmt
						for _, st := range f.Body.List {
							if as, ok := st.(*ast.AssignStmt); ok && as.End() <= ix.Pos() && len(as.Lhs) == len(as.Rhs) {
								for _, sl := range as.Lhs {
									if _, isSel := unparen(sl).(*ast.SelectorExpr); isSel && lastField(info, sl) == fld {
										latest = as
									}
								}
							}
						}
						if latest != nil {
							fresh := false
							for i, sl := range latest.Lhs {
								if lastField(info, sl) == fld {
									if call, ok := unparen(latest.Rhs[i]).(*ast.CallExpr); ok && isBuiltin(info, call, "make") {
										fresh = true
									}
									if _, ok := unparen(latest.Rhs[i]).(*ast.CompositeLit); ok {
										fresh = true
									}
								}
							}
							if fresh {
								continue
							}
						}
						if fields[fld] == nil {
							fields[fld] = &fieldUse{fld: fld, written: ix.Pos()}
						}
					}
				}
				return true
			})
		}
	}
	if len(fields) == 0 {
		c.undecided("C06.R11", "no map field written through found")
		return
	}
	var freshMap func(f *Func, e ast.Expr) (bool, string)
	depth := 0
	freshMap = func(f *Func, e ast.Expr) (bool, string) {
		info := f.Pkg.TypesInfo
		x := w.expander(f)
		e = unparen(e)
		for k := 0; k < 4; k++ {
			id := identOf(e)
			if id == nil {
				break
			}
			rhs, idx, _, ok := x.def(info.Uses[id])
			if !ok || rhs == nil || idx >= 0 {
				break
			}
			e = unparen(rhs)
		}
		switch y := e.(type) {
		case *ast.CallExpr:
			if isBuiltin(info, y, "make") {
				return true, "a map made here"
			}
			if callee := calleeOf(info, y); callee != nil {
				// a module function every return of which hands back a map made there
				if g := w.byObj[callee.Origin()]; g != nil && g.Body != nil && depth < 3 {
					all, nret := true, 0
					depth++
					walkNoLit(g.Body, func(q ast.Node) bool {
						if r, ok := q.(*ast.ReturnStmt); ok {
							nret++
							if len(r.Results) != 1 {
								all = false
							} else if ok, _ := freshMap(g, r.Results[0]); !ok {
								all = false
							}
						}
						return true
					})
					depth--
					if all && nret > 0 {
						return true, "the result of " + callee.Name() + ", every return of which hands back a map made there"
					}
				}
				// maps.Clone of a package-level map that is initialised with a literal and that nothing assigns: not nil
				if funcFullName(callee) == "maps.Clone" && len(y.Args) == 1 {
					if id := identOf(y.Args[0]); id != nil && unparen(y.Args[0]) == ast.Expr(id) {
						if pv, ok := info.Uses[id].(*types.Var); ok && pv.Pkg() != nil && pv.Parent() == pv.Pkg().Scope() {
							ne := &nEval{w: w}
							if init, _ := ne.pkgVarInit(pv); init != nil {
								if _, isLit := unparen(init).(*ast.CompositeLit); isLit {
									return true, "a clone of the package-level map " + pv.Name() + ", which is initialised with a literal and never assigned"
								}
							}
						}
					}
				}
				return false, "the result of " + funcFullName(callee) + ", which can be nil (maps.Clone hands nil back for a nil map)"
			}
		case *ast.CompositeLit:
			return true, "a map literal"
		}
		if isNilExpr(info, e) {
			return false, "nil"
		}
		// a package-level table that is a map literal and is never assigned
		if id := identOf(e); id != nil {
			if v, ok := info.Uses[id].(*types.Var); ok && v.Parent() == f.Pkg.Types.Scope() {
				isLit, assigned := false, false
				for _, file := range f.Pkg.Syntax {
					ast.Inspect(file, func(q ast.Node) bool {
						switch z := q.(type) {
						case *ast.ValueSpec:
							for i, nm := range z.Names {
								if info.Defs[nm] == types.Object(v) && i < len(z.Values) {
									_, isLit = unparen(z.Values[i]).(*ast.CompositeLit)
								}
							}
						case *ast.AssignStmt:
							for _, l := range z.Lhs {
								if lid := identOf(l); lid != nil && info.Uses[lid] == types.Object(v) {
									assigned = true
								}
							}
						}
						return true
					})
				}
				if isLit && !assigned {
					return true, "the package-level map literal " + id.Name + ", which is never assigned"
				}
			}
		}
		return false, "the value " + x.str(e) + ", not known to be a map that exists"
	}
	n := 0
	var flds []*types.Var
	for fld := range fields {
		flds = append(flds, fld)
	}
	sort.Slice(flds, func(i, j int) bool { return flds[i].Pos() < flds[j].Pos() })
	for _, fld := range flds {
		owner := ""
		for _, p := range pkgs {
			if p == nil {
				continue
			}
			info := p.TypesInfo
			for _, f := range w.FuncsIn(p) {
				if f.Body == nil {
					continue
				}
				k := 0
				ast.Inspect(f.Body, func(q ast.Node) bool {
					switch y := q.(type) {
					case *ast.AssignStmt:
						if len(y.Lhs) != len(y.Rhs) {
							return true
						}
						for i, l := range y.Lhs {
							if _, isSel := unparen(l).(*ast.SelectorExpr); isSel && lastField(info, l) == fld {
								n++
								k++
								ok, why := freshMap(f, y.Rhs[i])
								c.fn(f)
								c.ob("C06.R11", f.Name+"/stores "+fld.Name()+"#"+itoa(k), w.Pos(y.Pos()), ok, map[bool]string{true: "the field receives " + why, false: "the map field " + fld.Name() + ", which " + w.Pos(fields[fld].written) + " writes through, receives " + why + ": the write would panic (assignment to entry in nil map)"}[ok])
							}
						}
					case *ast.CompositeLit:
						tv, ok := info.Types[y]
						if !ok {
							return true
						}
						st, ok := tv.Type.Underlying().(*types.Struct)
						if !ok {
							return true
						}
						has := false
						for i := 0; i < st.NumFields(); i++ {
							if st.Field(i) == fld {
								has = true
							}
						}
						if !has {
							return true
						}
						owner = typeStr(tv.Type)
						n++
						k++
						c.fn(f)
						fv := litField(y, fld.Name())
						if fv == nil {
							// left out: fine only if the object is completed right away by a store to the field in the same function
							completed := false
							ast.Inspect(f.Body, func(z ast.Node) bool {
								if as, ok := z.(*ast.AssignStmt); ok && as.Pos() > y.End() {
									for _, l := range as.Lhs {
										if _, isSel := unparen(l).(*ast.SelectorExpr); isSel && lastField(info, l) == fld {
											completed = true
										}
									}
								}
								if call, ok := z.(*ast.CallExpr); ok && call.Pos() > y.End() {
									if callee := calleeOf(info, call); callee != nil {
										if g := w.byObj[callee]; g != nil && g.Body != nil {
											ast.Inspect(g.Body, func(z2 ast.Node) bool {
												if as, ok := z2.(*ast.AssignStmt); ok {
													for _, l := range as.Lhs {
														if _, isSel := unparen(l).(*ast.SelectorExpr); isSel && lastField(g.Pkg.TypesInfo, l) == fld {
															completed = true
														}
													}
												}
												return true
											})
										}
									}
								}
								return true
							})
							c.ob("C06.R11", f.Name+"/builds "+owner+" with "+fld.Name()+"#"+itoa(k), w.Pos(y.Pos()), completed, map[bool]string{true: "the literal leaves the field out and the same function (or a method it calls) stores it afterwards", false: "a " + owner + " is built without its map " + fld.Name() + ", which " + w.Pos(fields[fld].written) + " writes through: the write would panic (assignment to entry in nil map)"}[completed])
							return true
						}
						ok2, why := freshMap(f, fv)
						c.ob("C06.R11", f.Name+"/builds "+owner+" with "+fld.Name()+"#"+itoa(k), w.Pos(y.Pos()), ok2, map[bool]string{true: "the field is initialised with " + why, false: "the map field " + fld.Name() + ", which " + w.Pos(fields[fld].written) + " writes through, is initialised with " + why}[ok2])
					}
					return true
				})
			}
		}
	}
	if n == 0 {
		c.undecided("C06.R11", "no store to a written-through map field found")
	}
}

// c13ImplicitCharacter: the implicit character attribute ("Name: " prefix) is added exactly when the markers gave no
// attribute named character. The append of the Attribute literal named by the character constant must lie on a path
// on which a *presence test* is false; a presence test is a boolean local that starts false and is set true only under
// `X.Name == <character>`, or slices.ContainsFunc / IndexFunc with a predicate returning that comparison, or the found
// flag of a lookup by that name.
func c13ImplicitCharacter(c *Ctx) {
	w := c.W
	mp := w.Pkg("markup")
	info := mp.TypesInfo
	isCharConst := func(e ast.Expr) bool {
		tv, ok := info.Types[e]
		return ok && tv.Value != nil && tv.Value.Kind() == constant.String && constant.StringVal(tv.Value) == "character"
	}
	// X.Name == character  (true: the comparison holding means "named character")
	nameTest := func(cond ast.Expr) (eq bool, ok bool) {
		neg := false
		x := unparen(cond)
		for {
			if u, isU := x.(*ast.UnaryExpr); isU && u.Op == token.NOT {
				neg = !neg
				x = unparen(u.X)
				continue
			}
			break
		}
		b, isB := x.(*ast.BinaryExpr)
		if !isB || (b.Op != token.EQL && b.Op != token.NEQ) {
			return false, false
		}
		isName := func(e ast.Expr) bool {
			se, ok := unparen(e).(*ast.SelectorExpr)
			return ok && se.Sel.Name == "Name"
		}
		if (isName(b.X) && isCharConst(b.Y)) || (isName(b.Y) && isCharConst(b.X)) {
			return (b.Op == token.EQL) != neg, true
		}
		return false, false
	}
	found := 0
	for _, f := range w.FuncsIn(mp) {
		if f.Body == nil || f.Lit != nil {
			continue
		}
		var appends []*ast.CallExpr
		walkNoLit(f.Body, func(q ast.Node) bool {
			call, ok := q.(*ast.CallExpr)
			if !ok || !isBuiltin(info, call, "append") || len(call.Args) != 2 {
				return true
			}
			x := w.expander(f)
			arg := unparen(call.Args[1])
			for k := 0; k < 3; k++ {
				id := identOf(arg)
				if id == nil {
					break
				}
				rhs, idx, _, ok := x.def(info.Uses[id])
				if !ok || rhs == nil || idx >= 0 {
					break
				}
				arg = unparen(rhs)
			}
			isCharLit := func(e ast.Expr) bool {
				cl, ok := unparen(e).(*ast.CompositeLit)
				if !ok {
					return false
				}
				if tv, ok := info.Types[cl]; ok && typeStr(tv.Type) == "markup.Attribute" {
					if nm := litField(cl, "Name"); nm != nil && isCharConst(nm) {
						return true
					}
				}
				return false
			}
			if isCharLit(arg) {
				appends = append(appends, call)
				return true
			}
			// a variable declared, then assigned the literal (possibly through another local), or completed field by field
			var namedChar func(v *types.Var, depth int) bool
			namedChar = func(v *types.Var, depth int) bool {
				if depth > 3 {
					return false
				}
				for _, a := range w.ent(f).assigns[v] {
					if as, ok := a.(*ast.AssignStmt); ok && len(as.Lhs) == len(as.Rhs) {
						for j, l := range as.Lhs {
							if lid := identOf(l); lid != nil && (info.Uses[lid] == types.Object(v) || info.Defs[lid] == types.Object(v)) {
								if isCharLit(as.Rhs[j]) {
									return true
								}
								if rid := identOf(as.Rhs[j]); rid != nil {
									if u, ok := info.Uses[rid].(*types.Var); ok && u != v && namedChar(u, depth+1) {
										return true
									}
								}
							}
						}
					}
				}
				hit := false
				walkNoLit(f.Body, func(z ast.Node) bool {
					if as, ok := z.(*ast.AssignStmt); ok && len(as.Lhs) == len(as.Rhs) {
						for j, l := range as.Lhs {
							if se, ok := unparen(l).(*ast.SelectorExpr); ok && se.Sel.Name == "Name" {
								if bid := identOf(se.X); bid != nil && info.Uses[bid] == types.Object(v) && isCharConst(as.Rhs[j]) {
									hit = true
								}
							}
						}
					}
					return !hit
				})
				return hit
			}
			if id := identOf(arg); id != nil {
				if v, ok := info.Uses[id].(*types.Var); ok && namedChar(v, 0) {
					appends = append(appends, call)
				}
			}
			return true
		})
		for i, ap := range appends {
			found++
			c.fn(f)
			key := f.Name + "/implicit-character-only-when-absent"
			if i > 0 {
				key += "#" + itoa(i+1)
			}
			guards, ok := pathGuardsTo(w, info, f.Body, ap)
			if !ok {
				c.ob("C13.R14", key, w.Pos(ap.Pos()), false, "the implicit character attribute is appended inside a loop or under a clause the rule cannot read")
				continue
			}
			verdict, why := "none", ""
			for _, g := range guards {
				if g.tag != nil {
					continue
				}
				// strip negations of the guard
				neg := false
				x := unparen(g.cond)
				for {
					if u, isU := x.(*ast.UnaryExpr); isU && u.Op == token.NOT {
						neg = !neg
						x = unparen(u.X)
						continue
					}
					break
				}
				present := g.holds != neg // the truth of x on this path
				kind := ""
				switch y := x.(type) {
				case *ast.Ident:
					v, isVar := info.Uses[y].(*types.Var)
					if !isVar || typeStr(v.Type()) != "bool" {
						break
					}
					// a flag: starts false, set true only under the name test
					startsFalse, setOK, nset := false, true, 0
					for _, a := range w.ent(f).assigns[v] {
						switch d := a.(type) {
						case *ast.AssignStmt:
							for j, l := range d.Lhs {
								if id := identOf(l); id == nil || (info.Defs[id] != types.Object(v) && info.Uses[id] != types.Object(v)) {
									continue
								}
								if len(d.Rhs) != len(d.Lhs) {
									// the found flag of a lookup by the character name
									if call, ok := unparen(d.Rhs[0]).(*ast.CallExpr); ok && j == 1 && len(call.Args) >= 1 && isCharConst(call.Args[len(call.Args)-1]) {
										startsFalse, nset = true, nset+1
										continue
									}
									setOK = false
									continue
								}
								tv := info.Types[d.Rhs[j]]
								switch {
								case tv.Value != nil && tv.Value.Kind() == constant.Bool && !constant.BoolVal(tv.Value) && d.Tok == token.DEFINE:
									startsFalse = true
								case tv.Value != nil && tv.Value.Kind() == constant.Bool && constant.BoolVal(tv.Value):
									nset++
									gs, ok := pathGuardsToL(w, info, f.Body, d, true)
									under := false
									for _, sg := range gs {
										if sg.tag == nil {
											if eq, is := nameTest(sg.cond); is && eq == sg.holds {
												under = true
											}
										}
									}
									if !ok || !under {
										setOK = false
									}
								default:
									if call, ok := unparen(d.Rhs[j]).(*ast.CallExpr); ok && containsNamePredicate(info, call, nameTest) {
										startsFalse, nset = true, nset+1
									} else {
										setOK = false
									}
								}
							}
						case *ast.ValueSpec:
							if len(d.Values) == 0 {
								startsFalse = true
							}
						}
					}
					if startsFalse && setOK && nset > 0 {
						kind = "flag " + y.Name
					} else if typeStr(v.Type()) == "bool" && strings.Contains(strings.ToLower(y.Name), "character") {
						kind = "broken"
						why = "the flag " + y.Name + " is not `false, then true only under X.Name == character`" + map[bool]string{true: " (it is never set)", false: ""}[nset == 0]
					}
				case *ast.CallExpr:
					if containsNamePredicate(info, y, nameTest) {
						kind = "call " + exprStrShort(y)
					}
				}
				switch {
				case kind == "broken":
					verdict = "broken"
				case kind != "" && !present:
					verdict = "ok"
					why = "appended only where the presence test (" + kind + ") is false"
				case kind != "" && present:
					verdict = "inverted"
					why = "the implicit character attribute is appended where the presence test (" + kind + ") holds: a line with an explicit [character] marker gets a second character attribute, a plain `Name: ` line gets none"
				}
				if verdict != "none" {
					break
				}
			}
			switch verdict {
			case "ok":
				c.ob("C13.R14", key, w.Pos(ap.Pos()), true, why)
			case "none":
				c.ob("C13.R14", key, w.Pos(ap.Pos()), false, "the implicit character attribute is appended without a test that no attribute named character is present")
			default:
				c.ob("C13.R14", key, w.Pos(ap.Pos()), false, why)
			}
		}
	}
	if found == 0 {
		c.undecided("C13.R14", "no append of an attribute named by the character constant found")
	}
}

// containsNamePredicate: the call is slices.ContainsFunc(xs, func(a T) bool { return a.Name == character }) (or a module
// function / IndexFunc comparison wrapped around such a predicate).
func containsNamePredicate(info *types.Info, call *ast.CallExpr, nameTest func(ast.Expr) (bool, bool)) bool {
	callee := calleeOf(info, call)
	if callee == nil || callee.Pkg() == nil || callee.Pkg().Path() != "slices" || callee.Name() != "ContainsFunc" || len(call.Args) != 2 {
		return false
	}
	lit, ok := unparen(call.Args[1]).(*ast.FuncLit)
	if !ok || len(lit.Body.List) != 1 {
		return false
	}
	ret, ok := lit.Body.List[0].(*ast.ReturnStmt)
	if !ok || len(ret.Results) != 1 {
		return false
	}
	eq, is := nameTest(ret.Results[0])
	return is && eq
}

// c13CloseAll: the close-all marker [/] closes every open marker once. In the function that pairs markers, the arm that
// ranges over the list of open markers and appends one attribute per element must leave that list empty (L = L[:0],
// L = nil or an empty literal, as a statement of the arm after the loop): otherwise every later close marker, and the
// next close-all, would close the same markers again.
func c13CloseAll(c *Ctx) {
	w := c.W
	mp := w.Pkg("markup")
	info := mp.TypesInfo
	found := 0
	for _, f := range w.FuncsIn(mp) {
		if f.Body == nil || f.Lit != nil {
			continue
		}
		walkNoLit(f.Body, func(q ast.Node) bool {
			rs, ok := q.(*ast.RangeStmt)
			if !ok {
				return true
			}
			if tv, ok := info.Types[rs.X]; !ok || typeStr(tv.Type) != "[]markup.attributeMarker" {
				return true
			}
			// the list: a local, or a field of the parser (then it must be emptied the same way)
			listStr := exprStr(rs.X)
			sameList := func(e ast.Expr) bool { return exprStr(unparen(e)) == listStr }
			// the body appends an Attribute per element
			appends := false
			walkNoLit(rs.Body, func(z ast.Node) bool {
				if call, ok := z.(*ast.CallExpr); ok && isBuiltin(info, call, "append") && len(call.Args) == 2 {
					if tv, ok := info.Types[call.Args[0]]; ok && typeStr(tv.Type) == "[]markup.Attribute" {
						appends = true
					}
				}
				return true
			})
			if !appends {
				return true
			}
			// is the ranged list the one open markers are appended to?
			isOpenList := false
			walkNoLit(f.Body, func(z ast.Node) bool {
				if as, ok := z.(*ast.AssignStmt); ok && len(as.Lhs) == 1 && len(as.Rhs) == 1 {
					if sameList(as.Lhs[0]) {
						if call, ok := unparen(as.Rhs[0]).(*ast.CallExpr); ok && isBuiltin(info, call, "append") {
							isOpenList = true
						}
					}
				}
				return true
			})
			if !isOpenList {
				return true
			}
			found++
			c.fn(f)
			list := stmtListOf(w, rs)
			emptied := false
			after := false
			for _, st := range list {
				if st == ast.Stmt(rs) {
					after = true
					continue
				}
				if !after {
					continue
				}
				as, ok := st.(*ast.AssignStmt)
				if !ok || len(as.Lhs) != 1 || len(as.Rhs) != 1 || as.Tok != token.ASSIGN {
					continue
				}
				if !sameList(as.Lhs[0]) {
					continue
				}
				switch r := unparen(as.Rhs[0]).(type) {
				case *ast.SliceExpr:
					if sameList(r.X) && r.Low == nil && r.High != nil {
						if tv, ok := info.Types[r.High]; ok && tv.Value != nil && tv.Value.ExactString() == "0" {
							emptied = true
						}
					}
				case *ast.CompositeLit:
					emptied = len(r.Elts) == 0
				default:
					emptied = isNilExpr(info, as.Rhs[0])
				}
			}
			c.ob("C13.R15", f.Name+"/close-all-empties-the-open-list", w.Pos(rs.Pos()), emptied, map[bool]string{true: "after one attribute per open marker, the list of open markers is emptied", false: "the arm that closes every open marker leaves them in the list of open markers: a later close marker or close-all would close them a second time"}[emptied])
			return true
		})
	}
	if found == 0 {
		c.undecided("C13.R15", "no range over the list of open markers that appends attributes (the close-all arm) found")
	}
}
