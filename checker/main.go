package main

// ysgocheck — static-analysis checker for the ysgo properties C01…C20 (see /verif/DESIGN.md).
// Every verdict is computed from the source currently in -repo; nothing in the repository is executed.

import (
	"encoding/json"
	"flag"
	"fmt"
	"os"
	"path/filepath"
	"runtime/debug"
	"sort"
	"strconv"
	"strings"
	"time"
)

type overlayFlag map[string]string

func (o overlayFlag) String() string { return fmt.Sprint(map[string]string(o)) }
func (o overlayFlag) Set(v string) error {
	kv := strings.SplitN(v, "=", 2)
	if len(kv) != 2 {
		return fmt.Errorf("want file=replacement")
	}
	o[kv[0]] = kv[1]
	return nil
}

type propCheck struct {
	meta     propMeta
	run      func(c *Ctx)
	all      bool         // needs the whole program in the thorough tier
	thorough func(c *Ctx) // extra work of the thorough tier
}

var registry = map[string]*propCheck{}

func main() {
	prop := flag.String("prop", "", "property id (C01…C20)")
	tier := flag.String("tier", "quick", "quick|thorough")
	repo := flag.String("repo", "/repo", "repository working tree")
	verif := flag.String("verif", "/verif", "verification directory (evidence, known findings, tables)")
	jsonOut := flag.Bool("json", false, "print failed obligations as one JSON line")
	noEv := flag.Bool("noevidence", false, "do not write evidence files")
	replay := flag.String("replay", "", "violations file to replay (re-runs the property and prints the listed constructs)")
	selftest := flag.Bool("selftest", false, "run only the rule-sensitivity self-test of the property")
	list := flag.Bool("list", false, "list properties")
	writeBase := flag.Bool("write-function-table", false, "record the functions of the current tree as the reviewed decomposition (tables/functions.json)")
	normDump := flag.Bool("norm-dump", false, "print the files rewritten by the helper-inlining normalisation and exit")
	mutgen := flag.Bool("mutgen", false, "development aid: print single-site syntactic mutants of the hand-written sources as JSON lines")
	allProps := flag.Bool("allprops", false, "development aid: run every property on one load and print the failing rules as one JSON line")
	inventory := flag.Bool("inventory", false, "print the whole-program reachability inventory as JSON (thorough tier helper)")
	flag.BoolVar(&verbose, "v", false, "print every obligation")
	ov := overlayFlag{}
	flag.Var(ov, "overlay", "file=replacement (repeatable): analyse the tree with file replaced")
	flag.Parse()

	if *inventory {
		b, _ := json.Marshal(runInventory(*repo))
		fmt.Println(string(b))
		return
	}
	if *writeBase {
		w, err := loadWorld(*repo, nil, false)
		if err != nil {
			fmt.Println(err)
			os.Exit(2)
		}
		if err := writeFuncBaseline(w, *verif); err != nil {
			fmt.Println(err)
			os.Exit(2)
		}
		fmt.Printf("%d functions recorded\n", len(w.funcEntries()))
		return
	}
	if *normDump {
		ovl := map[string][]byte{}
		for k, v := range ov {
			b, _ := os.ReadFile(v)
			ovl[k] = b
		}
		w, err := loadWorld(*repo, ovl, false)
		if err != nil {
			fmt.Println(err)
			os.Exit(2)
		}
		nw, lg := normalizeWorld(w, *verif)
		b, _ := json.MarshalIndent(lg, "", "  ")
		fmt.Println(string(b))
		for _, f := range lg.FilesDiff {
			fmt.Printf("==== %s\n%s\n", f, nw.overlay[filepath.Join(*repo, f)])
		}
		return
	}
	if *list {
		ids := []string{}
		for id := range registry {
			ids = append(ids, id)
		}
		sort.Strings(ids)
		fmt.Println(strings.Join(ids, " "))
		return
	}
	if env := os.Getenv("VERIF_TIER"); env != "" && !flagSet("tier") {
		*tier = env
	}
	seed := 0
	if s := os.Getenv("VERIF_SEED"); s != "" {
		if v, err := strconv.Atoi(s); err == nil {
			seed = v
		}
	}
	if *mutgen {
		runMutgen(*repo)
		return
	}
	if *allProps {
		// development aid (mutation sweeps): every property on one load; prints one JSON line {prop: [failing rules]|"undecided"}
		overlay := map[string][]byte{}
		for k, v := range ov {
			b, err := os.ReadFile(v)
			if err != nil {
				fmt.Println(`{"error":"overlay"}`)
				os.Exit(2)
			}
			overlay[k] = b
		}
		res := map[string]interface{}{}
		func() {
			defer func() {
				if r := recover(); r != nil {
					res["error"] = fmt.Sprint(r)
				}
			}()
			w, err := loadWorld(*repo, overlay, false)
			if err != nil {
				res["error"] = "load: " + err.Error()
				return
			}
			w, _ = normalizeWorld(w, *verif)
			ids := []string{}
			for id := range registry {
				ids = append(ids, id)
			}
			sort.Strings(ids)
			for _, id := range ids {
				func() {
					defer func() {
						if r := recover(); r != nil {
							res[id] = "panic: " + fmt.Sprint(r)
						}
					}()
					c := newCtx(id, "quick", w)
					registry[id].run(c)
					c.checkMinima()
					var failed []string
					seen := map[string]bool{}
					for _, o := range c.Obs {
						if !o.OK && !seen[o.Rule] {
							seen[o.Rule] = true
							failed = append(failed, o.Rule)
						}
					}
					sort.Strings(failed)
					switch {
					case len(failed) > 0:
						res[id] = failed
					case len(c.Undecided) > 0:
						res[id] = "undecided"
					}
				}()
			}
		}()
		b, _ := json.Marshal(res)
		fmt.Println(string(b))
		return
	}
	pc := registry[*prop]
	if pc == nil {
		fmt.Printf("UNDECIDED unknown property %q\n", *prop)
		os.Exit(2)
	}
	if *tier != "quick" && *tier != "thorough" {
		fmt.Printf("UNDECIDED unknown tier %q\n", *tier)
		os.Exit(2)
	}
	code := 2
	t0 := time.Now()
	func() {
		defer func() {
			if r := recover(); r != nil {
				fmt.Printf("UNDECIDED property=%s analysis panic: %v\n%s\n", *prop, r, debug.Stack())
				code = 2
			}
		}()
		overlay := map[string][]byte{}
		for k, v := range ov {
			b, err := os.ReadFile(v)
			if err != nil {
				fmt.Printf("UNDECIDED cannot read overlay %s: %v\n", v, err)
				os.Exit(2)
			}
			overlay[k] = b
		}
		if *selftest {
			code = runSelfTest(*prop, *repo, *verif, seed, true)
			return
		}
		w, err := loadWorld(*repo, overlay, false)
		if err != nil {
			fmt.Printf("UNDECIDED property=%s cannot load %s: %v\n", *prop, *repo, err)
			code = 2
			return
		}
		w, nlog := normalizeWorld(w, *verif)
		c := newCtx(*prop, *tier, w)
		c.Extra["normalisation"] = nlog
		if nlog.Error != "" {
			fmt.Printf("note: helper-inlining normalisation not applied: %s\n", nlog.Error)
		}
		c.start = t0
		c.ovFiles = ov
		pc.run(c)
		if *tier == "thorough" && len(ov) == 0 {
			thoroughExtras(c, pc, *repo, *verif, seed)
		}
		code = c.finish(pc.meta, *verif, seed, *jsonOut, !*noEv && len(ov) == 0)
		if *replay != "" {
			replayFile(c, *replay)
		}
	}()
	os.Exit(code)
}

func flagSet(name string) bool {
	found := false
	flag.Visit(func(f *flag.Flag) {
		if f.Name == name {
			found = true
		}
	})
	return found
}
