package main

// ysgocheck — static-analysis checker for the ysgo properties C01…C20 (see /verif/DESIGN.md).
// Every verdict is computed from the source currently in -repo; nothing in the repository is executed.

import (
	"encoding/json"
	"time"
	"flag"
	"fmt"
	"os"
	"runtime/debug"
	"sort"
	"strconv"
	"strings"
)

type overlayFlag map[string]string

func (o overlayFlag) String() string { return fmt.Sprint(map[string]string(o)) }
func (o overlayFlag) Set(v string) error {
	kv := strings.SplitN(v, "=", 2)
	if len(kv) != 2 {
		return fmt.Errorf("want file=replacement")
	}
	o[kv[0]] = kv[1]
	return nil
}

type propCheck struct {
	meta propMeta
	run  func(c *Ctx)
	all  bool // needs the whole program in the thorough tier
	thorough func(c *Ctx) // extra work of the thorough tier
}

var registry = map[string]*propCheck{}

func main() {
	prop := flag.String("prop", "", "property id (C01…C20)")
	tier := flag.String("tier", "quick", "quick|thorough")
	repo := flag.String("repo", "/repo", "repository working tree")
	verif := flag.String("verif", "/verif", "verification directory (evidence, known findings, tables)")
	jsonOut := flag.Bool("json", false, "print failed obligations as one JSON line")
	noEv := flag.Bool("noevidence", false, "do not write evidence files")
	replay := flag.String("replay", "", "violations file to replay (re-runs the property and prints the listed constructs)")
	selftest := flag.Bool("selftest", false, "run only the rule-sensitivity self-test of the property")
	list := flag.Bool("list", false, "list properties")
	inventory := flag.Bool("inventory", false, "print the whole-program reachability inventory as JSON (thorough tier helper)")
	flag.BoolVar(&verbose, "v", false, "print every obligation")
	ov := overlayFlag{}
	flag.Var(ov, "overlay", "file=replacement (repeatable): analyse the tree with file replaced")
	flag.Parse()

	if *inventory {
		b, _ := json.Marshal(runInventory(*repo))
		fmt.Println(string(b))
		return
	}
	if *list {
		ids := []string{}
		for id := range registry {
			ids = append(ids, id)
		}
		sort.Strings(ids)
		fmt.Println(strings.Join(ids, " "))
		return
	}
	if env := os.Getenv("VERIF_TIER"); env != "" && !flagSet("tier") {
		*tier = env
	}
	seed := 0
	if s := os.Getenv("VERIF_SEED"); s != "" {
		if v, err := strconv.Atoi(s); err == nil {
			seed = v
		}
	}
	pc := registry[*prop]
	if pc == nil {
		fmt.Printf("UNDECIDED unknown property %q\n", *prop)
		os.Exit(2)
	}
	if *tier != "quick" && *tier != "thorough" {
		fmt.Printf("UNDECIDED unknown tier %q\n", *tier)
		os.Exit(2)
	}
	code := 2
	t0 := time.Now()
	func() {
		defer func() {
			if r := recover(); r != nil {
				fmt.Printf("UNDECIDED property=%s analysis panic: %v\n%s\n", *prop, r, debug.Stack())
				code = 2
			}
		}()
		overlay := map[string][]byte{}
		for k, v := range ov {
			b, err := os.ReadFile(v)
			if err != nil {
				fmt.Printf("UNDECIDED cannot read overlay %s: %v\n", v, err)
				os.Exit(2)
			}
			overlay[k] = b
		}
		if *selftest {
			code = runSelfTest(*prop, *repo, *verif, seed, true)
			return
		}
		w, err := loadWorld(*repo, overlay, false)
		if err != nil {
			fmt.Printf("UNDECIDED property=%s cannot load %s: %v\n", *prop, *repo, err)
			code = 2
			return
		}
		c := newCtx(*prop, *tier, w)
		c.start = t0
		c.ovFiles = ov
		pc.run(c)
		if *tier == "thorough" && len(ov) == 0 {
			thoroughExtras(c, pc, *repo, *verif, seed)
		}
		code = c.finish(pc.meta, *verif, seed, *jsonOut, !*noEv && len(ov) == 0)
		if *replay != "" {
			replayFile(c, *replay)
		}
	}()
	os.Exit(code)
}

func flagSet(name string) bool {
	found := false
	flag.Visit(func(f *flag.Flag) {
		if f.Name == name {
			found = true
		}
	})
	return found
}
