package main

// c10.go — C10: pending commands (Next never blocks, completion consumed once, handlers run once, wait keeps fractions).

import (
	"go/ast"
	"go/constant"
	"go/token"
	"go/types"
	"math"
	"sort"
	"strings"

	"golang.org/x/tools/go/ssa"
)

func init() {
	registry["C10"] = &propCheck{
		meta: propMeta{
			Level: "other",
			Explanation: "Static rules are schedule-independent, which is this property's quantifier. Decides: (R1) no module function reachable synchronously from Next contains a blocking channel operation, sleep or wait — every receive is a select with default, every send goes to a channel made in the same function with enough capacity; " +
				"(R2) the host handler is invoked from a goroutine unless the bridge must call it to obtain its channel; (R3) in Next the received completion clears the pending channel before any return and the default arm returns the waiting error with no effect; in the command executor the dispatched channel is either received from or stored as pending, never both or neither; " +
				"(R4) one dispatch per statement and one handler invocation per bridge call, and the handler goroutine reports completion exactly once on every arm; (R5) goroutine literals capture only channels and never-reassigned variables and write nothing but channel sends; " +
				"(R6) the built-in wait sleeps exactly its argument × one second (no truncation before scaling) and reports completion only after the sleep.",
			NotDecided:  "the timing of time.Sleep itself; data races inside host handlers; ANTLR runtime internals",
			Assumptions: []string{"A4 (a buffered channel of capacity ≥ 1 accepts one send without blocking; select with default never blocks)", "A6"},
			Trusted:     []string{"go/types", "golang.org/x/tools/go/cfg", "golang.org/x/tools/go/ssa", "go/packages loader"},
		},
		run: checkC10,
	}
}

// syncReach: module functions reachable from roots without crossing a go statement.
func (w *World) syncReach(roots ...*ssa.Function) map[*ssa.Function]bool {
	prog := w.SSA()
	seen := map[*ssa.Function]bool{}
	var work []*ssa.Function
	push := func(f *ssa.Function) {
		if f != nil && !seen[f] && f.Blocks != nil && strings.HasPrefix(ssaFuncPkgPath(f), modPath) {
			seen[f] = true
			work = append(work, f)
		}
	}
	for _, r := range roots {
		push(r)
	}
	var modTypes []types.Type
	for _, p := range w.Pkgs {
		sc := p.Types.Scope()
		for _, name := range sc.Names() {
			if tn, ok := sc.Lookup(name).(*types.TypeName); ok && !tn.IsAlias() {
				if _, isIface := tn.Type().Underlying().(*types.Interface); !isIface {
					if n, ok := tn.Type().(*types.Named); ok && n.TypeParams().Len() == 0 {
						modTypes = append(modTypes, tn.Type(), types.NewPointer(tn.Type()))
					}
				}
			}
		}
	}
	for len(work) > 0 {
		f := work[0]
		work = work[1:]
		// closures started only by go statements are asynchronous
		async := map[ssa.Value]bool{}
		for _, b := range f.Blocks {
			for _, in := range b.Instrs {
				if g, ok := in.(*ssa.Go); ok {
					async[g.Call.Value] = true
				}
				// a timer callback runs on its own goroutine, later: time.AfterFunc(d, f)
				if cl, ok := in.(*ssa.Call); ok {
					if callee := cl.Call.StaticCallee(); callee != nil && callee.String() == "time.AfterFunc" && len(cl.Call.Args) == 2 {
						async[cl.Call.Args[1]] = true
					}
				}
			}
		}
		for _, b := range f.Blocks {
			for _, in := range b.Instrs {
				if _, isGo := in.(*ssa.Go); isGo {
					continue
				}
				if c, ok := in.(ssa.CallInstruction); ok {
					cc := c.Common()
					if callee := cc.StaticCallee(); callee != nil {
						push(callee)
					} else if !cc.IsInvoke() {
						// a call through a function value: every module function of that signature whose value escapes
						if sig, ok := cc.Value.Type().Underlying().(*types.Signature); ok {
							for _, cand := range w.escapingFuncs() {
								if types.Identical(cand.Signature, sig) {
									push(cand)
								}
							}
						}
					} else if cc.IsInvoke() {
						for _, t := range modTypes {
							ms := prog.MethodSets.MethodSet(t)
							if sel := ms.Lookup(cc.Method.Pkg(), cc.Method.Name()); sel != nil {
								if types.Implements(t, cc.Value.Type().Underlying().(*types.Interface)) {
									push(prog.MethodValue(sel))
								}
							}
						}
					}
				}
				if mc, ok := in.(*ssa.MakeClosure); ok {
					if async[mc] {
						// only used as the callee of go statements?
						onlyGo := true
						for _, ref := range *mc.Referrers() {
							if _, isGo := ref.(*ssa.Go); isGo {
								continue
							}
							// the callback argument of time.AfterFunc
							if cl, isCall := ref.(*ssa.Call); isCall {
								if callee := cl.Call.StaticCallee(); callee != nil && callee.String() == "time.AfterFunc" && len(cl.Call.Args) == 2 && cl.Call.Args[1] == ssa.Value(mc) {
									continue
								}
							}
							onlyGo = false
						}
						if onlyGo {
							continue
						}
					}
					push(mc.Fn.(*ssa.Function))
				}
				for _, op := range in.Operands(nil) {
					if fn, ok := (*op).(*ssa.Function); ok && !async[fn] {
						push(fn)
					}
				}
			}
		}
	}
	return seen
}

func checkC10(c *Ctx) {
	w := c.W
	wGlobal = w
	m := w.runner()
	c.rule("C10.R1", "no blocking operation in any module function reachable synchronously from Next: receives only in selects with default, sends only to channels made in the same function with sufficient capacity, no sleep/wait", 3)
	c.rule("C10.R2", "the command bridge invokes the host handler from a goroutine unless the invocation is entailed by `the handler returns a channel`", 1)
	c.rule("C10.R3", "completion is consumed exactly once: in Next the receive arm clears the pending channel before any return and the default arm returns the waiting error with no effect; in the command executor the dispatched channel is received from or stored as pending, never both, never neither", 2)
	c.rule("C10.R4", "exactly once: one dispatch per command statement; per bridge call the handler is invoked at most once and, if not at all, an error is reported; each arm of the handler goroutine reports completion exactly once and the arms cover every signature the gate accepts", 2)
	c.rule("C10.R5", "goroutine literals capture only channels and variables never assigned after the go statement, and write nothing but channel sends", 2)
	c.rule("C10.R7", "the argument list handed to a command handler does not originate (through slices, appends, local cells, results of module functions) in a field of the runner: a handler may read its arguments from its own goroutine after the call returned, while the runner evaluates the next command", 1)
	c.rule("C10.R6", "built-in wait: the sleep duration is the number argument × one second with no float→integer conversion before scaling; completion is sent only after the sleep", 2)
	if !m.ok(c, "C10") {
		return
	}
	info := m.pkg.TypesInfo
	next := w.SSAFunc(m.next)
	if next == nil {
		c.undecided("C10.R1", "no SSA for Next")
		return
	}

	// ----- R7: the argument list of a command is not backed by memory the runner keeps
	c10FreshArguments(c, m)

	// ----- R1
	reach := w.syncReach(next)
	var fns []*ssa.Function
	for f := range reach {
		fns = append(fns, f)
	}
	sort.Slice(fns, func(i, j int) bool { return fns[i].String() < fns[j].String() })
	c.Extra["sync_reachable_from_Next"] = len(fns)
	nOps := 0
	for _, f := range fns {
		c.Funcs[ssaFuncName(f)] = true
		for _, b := range f.Blocks {
			for _, in := range b.Instrs {
				switch x := in.(type) {
				case *ssa.UnOp:
					if x.Op == token.ARROW {
						nOps++
						c.ob("C10.R1", ssaFuncName(f)+"/receive", w.Pos(x.Pos()), false, "a plain channel receive on the synchronous path of Next: Next would block until the command completes")
					}
				case *ssa.Select:
					nOps++
					c.ob("C10.R1", ssaFuncName(f)+"/select", w.Pos(x.Pos()), !x.Blocking, map[bool]string{true: "select with a default arm: never blocks", false: "a select without default on the synchronous path of Next: Next would block"}[!x.Blocking])
				case *ssa.Send:
					nOps++
					ok, why := sendCannotBlock(f, x)
					c.ob("C10.R1", ssaFuncName(f)+"/send", w.Pos(x.Pos()), ok, why)
				case ssa.CallInstruction:
					if callee := x.Common().StaticCallee(); callee != nil {
						switch callee.String() {
						case "time.Sleep", "(*sync.WaitGroup).Wait", "(*sync.Cond).Wait", "time.After", "time.Tick":
							nOps++
							c.ob("C10.R1", ssaFuncName(f)+"/"+callee.Name(), w.Pos(x.Pos()), false, callee.String()+" on the synchronous path of Next")
						}
					}
				}
			}
		}
	}
	if nOps == 0 {
		c.undecided("C10.R1", "no channel operation found on the synchronous path of Next (the poll has vanished?)")
	}
	if len(fns) < 25 {
		c.undecided("C10.R1", "only "+itoa(len(fns))+" functions reachable from Next")
	}

	// ----- R3 in Next
	r3 := evtRule{
		start: "",
		prim: func(n ast.Node) []string {
			switch n := n.(type) {
			case *pseudo:
				if cc, ok := n.stmt.(*ast.CommClause); ok {
					if n.kind == "ARM:recv" && commOn(info, cc, m.fChanRecv) {
						return []string{"RECV"}
					}
					if n.kind == "ARM:default" && selectOn(w, info, cc, m.fChanRecv) {
						return []string{"DEFAULT"}
					}
				}
			case *ast.AssignStmt:
				for i, l := range n.Lhs {
					if _, isSel := unparen(l).(*ast.SelectorExpr); isSel && lastField(info, l) == m.fChan {
						if len(n.Rhs) == len(n.Lhs) && isNilExpr(info, n.Rhs[i]) {
							return []string{"CLEARCHAN"}
						}
						return []string{"SETCHAN"}
					}
				}
				if len(storesTo(info, n)) > 0 {
					return []string{"EFFECT"}
				}
			case *ast.IncDecStmt:
				if len(storesTo(info, n)) > 0 {
					return []string{"EFFECT"}
				}
			case *ast.CallExpr:
				if callee := calleeOf(info, n); callee != nil {
					switch funcFullName(callee) {
					case "fmt.Errorf", "errors.New":
						return nil
					}
				}
				if tv, ok := info.Types[n.Fun]; ok && tv.IsType() {
					return nil
				}
				return []string{"EFFECT"}
			case *ast.SendStmt, *ast.GoStmt:
				return []string{"EFFECT"}
			}
			return nil
		},
		step: func(st, ev string) string {
			switch {
			case ev == "RECV":
				return "received"
			case ev == "DEFAULT":
				return "pending"
			case ev == "CLEARCHAN" && st == "received":
				return "cleared"
			case st == "pending" && (ev == "EFFECT" || ev == "SETCHAN" || ev == "CLEARCHAN"):
				return "pending-effect"
			}
			return ""
		},
		bad: func(st, ev string) string {
			if st == "pending-effect" && ev != "DEFAULT" {
				return "an effect is reachable while a command is still pending (Next must return the waiting error without side effects and without starting anything)"
			}
			return ""
		},
		ret: func(st string, ret *ast.ReturnStmt, kind string) string {
			switch st {
			case "received":
				return "the completion was received but the pending channel is not cleared before this return (" + kind + "): every later Next would wait forever for a completion that was already consumed"
			case "pending":
				if len(ret.Results) == 2 && !isNilExpr(info, ret.Results[1]) {
					if tv, ok := info.Types[ret.Results[1]]; ok && tv.Value != nil {
						return ""
					}
				}
				return "the default arm of the pending poll does not return the constant waiting error"
			}
			return ""
		},
	}
	sawRecv := false
	walkNoLit(m.next.Body, func(n ast.Node) bool {
		if cc, ok := n.(*ast.CommClause); ok && commOn(info, cc, m.fChanRecv) {
			sawRecv = true
		}
		return true
	})
	fs := runEVT(w, m.next, r3)
	if !sawRecv {
		c.ob("C10.R3", m.next.Name+"/poll", w.Pos(m.next.Decl.Pos()), false, "Next has no select arm receiving from the pending channel")
	} else if len(fs) == 0 {
		c.ob("C10.R3", m.next.Name+"/poll", w.Pos(m.next.Decl.Pos()), true, "receive arm: channel cleared before any return; default arm: returns the constant waiting error with no effect")
	}
	for i, f := range fs {
		c.ob("C10.R3", m.next.Name+"/poll#"+itoa(i+1), w.Pos(f.pos), false, f.msg)
	}
	c.fn(m.next)

	// ----- R3 in the command executor
	c.fn(m.cmd)
	var dispatch *ast.CallExpr
	var chanVar types.Object
	walkNoLit(m.cmd.Body, func(n ast.Node) bool {
		if call, ok := n.(*ast.CallExpr); ok {
			if name, on := methodCallOn(info, call, m.fCmds); on && name == "call" {
				dispatch = call
				if as, ok := w.parent[call].(*ast.AssignStmt); ok && len(as.Lhs) == 1 {
					if id := identOf(as.Lhs[0]); id != nil {
						chanVar = info.Defs[id]
						if chanVar == nil {
							chanVar = info.Uses[id]
						}
					}
				}
			}
		}
		return true
	})
	if dispatch == nil || chanVar == nil {
		c.ob("C10.R3", m.cmd.Name+"/dispatch-result", w.Pos(m.cmd.Decl.Pos()), false, "the channel returned by the dispatch is not kept: completion could never be observed")
	} else {
		isChanVar := func(e ast.Expr) bool {
			id := identOf(e)
			return id != nil && info.Uses[id] == chanVar
		}
		rex := evtRule{
			start: "",
			prim: func(n ast.Node) []string {
				switch n := n.(type) {
				case *ast.CallExpr:
					if n == dispatch {
						return []string{"DISPATCH"}
					}
				case *pseudo:
					if cc, ok := n.stmt.(*ast.CommClause); ok && n.kind == "ARM:recv" {
						if recvFrom(cc, isChanVar) {
							return []string{"RECV"}
						}
					}
				case *ast.UnaryExpr:
					if n.Op == token.ARROW && isChanVar(n.X) {
						return []string{"RECV"}
					}
				case *ast.AssignStmt:
					for i, l := range n.Lhs {
						if _, isSel := unparen(l).(*ast.SelectorExpr); isSel && lastField(info, l) == m.fChan && len(n.Rhs) == len(n.Lhs) {
							if isChanVar(n.Rhs[i]) {
								return []string{"STOREPENDING"}
							}
							// nested: &T{…, <channel field>: ch}
							if m.fChanRecv != m.fChan {
								r := unparen(n.Rhs[i])
								if u, ok := r.(*ast.UnaryExpr); ok && u.Op == token.AND {
									r = unparen(u.X)
								}
								if cl, ok := r.(*ast.CompositeLit); ok {
									if fv := litField(cl, m.fChanRecv.Name()); fv != nil && isChanVar(fv) {
										return []string{"STOREPENDING"}
									}
								}
							}
							if isNilExpr(info, n.Rhs[i]) {
								return []string{"CLEARPENDING"}
							}
							return []string{"STOREOTHER"}
						}
					}
				}
				return nil
			},
			step: func(st, ev string) string {
				switch ev {
				case "DISPATCH":
					return "dispatched"
				case "RECV":
					switch st {
					case "dispatched":
						return "received"
					case "stored":
						return "both"
					}
				case "STOREPENDING":
					switch st {
					case "dispatched":
						return "stored"
					case "received":
						return "both"
					}
				case "CLEARPENDING":
					if st == "both" {
						return "received"
					}
				case "STOREOTHER":
					return "other"
				}
				return ""
			},
			ret: func(st string, ret *ast.ReturnStmt, kind string) string {
				switch st {
				case "dispatched":
					return "a return is reachable after the dispatch with the returned channel neither received from nor stored as pending: the command's completion (and its error) is lost"
				case "both":
					return "the dispatched channel is both stored as pending and received from on one path: the next poll waits for a completion that was already consumed"
				case "other":
					return "something other than the dispatched channel is stored as pending"
				}
				return ""
			},
		}
		fs := runEVT(w, m.cmd, rex)
		if len(fs) == 0 {
			c.ob("C10.R3", m.cmd.Name+"/dispatch-result", w.Pos(dispatch.Pos()), true, "after the dispatch every path either receives from the returned channel or stores it as pending")
		}
		for i, f := range fs {
			c.ob("C10.R3", m.cmd.Name+"/dispatch-result#"+itoa(i+1), w.Pos(f.pos), false, f.msg)
		}
	}

	// ----- R4 (a): single dispatch — same shape rule as C02.R4 restricted to the command executor
	nd := 0
	walkNoLit(m.cmd.Body, func(n ast.Node) bool {
		if call, ok := n.(*ast.CallExpr); ok {
			if name, on := methodCallOn(info, call, m.fCmds); on && name == "call" {
				nd++
				inLoop := false
				for q := w.parent[call]; q != nil && q != m.cmd.Node(); q = w.parent[q] {
					switch q.(type) {
					case *ast.ForStmt, *ast.RangeStmt:
						inLoop = true
					}
				}
				c.ob("C10.R4", m.cmd.Name+"/dispatch#"+itoa(nd), w.Pos(call.Pos()), !inLoop && nd == 1, map[bool]string{true: "the only dispatch of the statement, outside any loop", false: "the command can be dispatched more than once per statement"}[!inLoop && nd == 1])
			}
		}
		return true
	})
	if nd == 0 {
		c.ob("C10.R4", m.cmd.Name+"/dispatch", w.Pos(m.cmd.Decl.Pos()), false, "the command executor never dispatches")
	}

	// ----- R2, R4 (b,c): the bridge
	checkCommandBridge(c)

	// ----- R5
	checkGoCaptures(c)

	// ----- R6
	checkWait(c)
}

// commOn: the comm clause receives from an expression ending in field fld.
func commOn(info *types.Info, cc *ast.CommClause, fld *types.Var) bool {
	return recvFrom(cc, func(e ast.Expr) bool { return lastField(info, e) == fld && fld != nil })
}

func recvFrom(cc *ast.CommClause, is func(ast.Expr) bool) bool {
	if cc.Comm == nil {
		return false
	}
	var x ast.Expr
	switch s := cc.Comm.(type) {
	case *ast.ExprStmt:
		x = s.X
	case *ast.AssignStmt:
		if len(s.Rhs) == 1 {
			x = s.Rhs[0]
		}
	}
	if u, ok := unparen(x).(*ast.UnaryExpr); ok && u.Op == token.ARROW {
		return is(u.X)
	}
	return false
}

// selectOn: cc is the default clause of a select that has a receive arm on fld.
func selectOn(w *World, info *types.Info, cc *ast.CommClause, fld *types.Var) bool {
	body, ok := w.parent[cc].(*ast.BlockStmt)
	if !ok {
		return false
	}
	for _, s := range body.List {
		if o, ok := s.(*ast.CommClause); ok && commOn(info, o, fld) {
			return true
		}
	}
	return false
}

// sendCannotBlock: the channel is made in the same function with constant capacity k ≥ 1 and no path sends more than k times.
func sendCannotBlock(f *ssa.Function, s *ssa.Send) (bool, string) {
	mk, ok := s.Chan.(*ssa.MakeChan)
	if !ok {
		// a local variable holding the channel
		if ld, isLoad := s.Chan.(*ssa.UnOp); isLoad && ld.Op == token.MUL {
			if a, isAlloc := ld.X.(*ssa.Alloc); isAlloc {
				var only *ssa.MakeChan
				n := 0
				for _, ref := range *a.Referrers() {
					if st, ok := ref.(*ssa.Store); ok && st.Addr == ssa.Value(a) {
						n++
						only, _ = st.Val.(*ssa.MakeChan)
					}
				}
				if n == 1 && only != nil {
					mk, ok = only, true
				}
			}
		}
		if !ok {
			// a call to a generic helper's own channel is handled in the helper
			return false, "the channel sent to is not made in this function: the send may block"
		}
	}
	k, isConst := mk.Size.(*ssa.Const)
	if !isConst || k.Value == nil {
		return false, "the channel's capacity is not a constant"
	}
	capacity, _ := constant.Int64Val(k.Value)
	if capacity < 1 {
		return false, "send on an unbuffered channel made in this function: blocks until someone receives"
	}
	// longest path counting sends on this channel
	isSendOn := func(in ssa.Instruction) bool {
		sd, ok := in.(*ssa.Send)
		if !ok {
			return false
		}
		if sd.Chan == ssa.Value(mk) {
			return true
		}
		if ld, ok := sd.Chan.(*ssa.UnOp); ok && ld.Op == token.MUL {
			if ld2, ok2 := s.Chan.(*ssa.UnOp); ok2 && ld.X == ld2.X {
				return true
			}
		}
		return false
	}
	memo := map[*ssa.BasicBlock]int{}
	onStack := map[*ssa.BasicBlock]bool{}
	cyclic := false
	var longest func(b *ssa.BasicBlock) int
	longest = func(b *ssa.BasicBlock) int {
		if v, ok := memo[b]; ok {
			return v
		}
		if onStack[b] {
			cyclic = true
			return 0
		}
		onStack[b] = true
		own := 0
		for _, in := range b.Instrs {
			if isSendOn(in) {
				own++
			}
		}
		best := 0
		for _, sc := range b.Succs {
			if v := longest(sc); v > best {
				best = v
			}
		}
		onStack[b] = false
		memo[b] = own + best
		return own + best
	}
	maxSends := longest(f.Blocks[0])
	if cyclic {
		// a loop: sends inside it are unbounded
		for _, b := range f.Blocks {
			for _, in := range b.Instrs {
				if isSendOn(in) && blockInCycle(b) {
					return false, "a send inside a loop: the number of sends is not bounded by the channel's capacity"
				}
			}
		}
	}
	if int64(maxSends) > capacity {
		return false, "a path sends " + itoa(maxSends) + " times on a channel of capacity " + itoa(int(capacity))
	}
	return true, "channel made here with capacity " + itoa(int(capacity)) + ", at most " + itoa(maxSends) + " send(s) per path (A4)"
}

func blockInCycle(b *ssa.BasicBlock) bool {
	seen := map[*ssa.BasicBlock]bool{}
	var visit func(x *ssa.BasicBlock) bool
	visit = func(x *ssa.BasicBlock) bool {
		for _, s := range x.Succs {
			if s == b {
				return true
			}
			if !seen[s] {
				seen[s] = true
				if visit(s) {
					return true
				}
			}
		}
		return false
	}
	return visit(b)
}

// ---------- the command bridge (R2, R4) ----------

func isReflectCall(info *types.Info, call *ast.CallExpr) bool {
	callee := calleeOf(info, call)
	return callee != nil && funcFullName(callee) == "(reflect.Value).Call"
}

func checkCommandBridge(c *Ctx) {
	w := c.W
	p := w.Pkg("")
	info := p.TypesInfo
	// the bridge constructor: a function with an `any` parameter returning (YarnSpinnerCommand, error)
	var ctor *Func
	for _, f := range w.FuncsIn(p) {
		if f.Decl == nil {
			continue
		}
		sig := f.Sig()
		if sig.Results().Len() == 2 && typeStr(sig.Results().At(0).Type()) == "ysgo.YarnSpinnerCommand" && sig.Params().Len() == 1 {
			if _, isIface := sig.Params().At(0).Type().Underlying().(*types.Interface); isIface {
				ctor = f
			}
		}
	}
	if ctor == nil {
		c.undecided("C10.R2", "command bridge constructor not found")
		return
	}
	c.fn(ctor)
	// the returned closure
	var bridge *Func
	for _, l := range w.Lits(ctor) {
		if l.Parent == ctor && l.Sig() != nil {
			if s := l.Sig(); s.Results().Len() == 1 && typeStr(s.Results().At(0).Type()) == "<-chan error" {
				bridge = l
			}
		}
	}
	if bridge == nil {
		c.undecided("C10.R2", "the bridge closure (func([]*Value) <-chan error) was not found")
		return
	}
	c.fn(bridge)
	// gate outputs: constants of type returnSignature returned by the command gate; which one means "returns a channel"
	gate, gateConsts, chanConst, okGate := commandGate(w, ctor)
	if !okGate {
		c.undecided("C10.R2", "the command output gate or its channel-returning signature constant was not resolved")
		return
	}
	c.fn(gate)
	// the signature variable captured by the bridge
	var sigVar ast.Expr
	walkNoLit(ctor.Body, func(n ast.Node) bool {
		if as, ok := n.(*ast.AssignStmt); ok && len(as.Rhs) == 1 {
			if call, ok := as.Rhs[0].(*ast.CallExpr); ok {
				if callee := calleeOf(info, call); callee != nil && w.byObj[callee] == gate {
					sigVar = as.Lhs[0]
				}
			}
		}
		return true
	})
	if sigVar == nil {
		c.undecided("C10.R2", "the gate's result is not kept by the bridge constructor")
		return
	}
	sigObj := info.Defs[identOf(sigVar)]
	e := w.ent(bridge)
	// every use of the signature variable inside the bridge
	var sigUse ast.Expr
	ast.Inspect(bridge.Body, func(n ast.Node) bool {
		if id, ok := n.(*ast.Ident); ok && info.Uses[id] == sigObj && sigUse == nil {
			sigUse = id
		}
		return true
	})
	nCalls := 0
	var goLits []*ast.FuncLit
	ast.Inspect(bridge.Body, func(n ast.Node) bool {
		switch n := n.(type) {
		case *ast.GoStmt:
			if lit, ok := n.Call.Fun.(*ast.FuncLit); ok {
				goLits = append(goLits, lit)
			}
		case *ast.CallExpr:
			if !isReflectCall(info, n) {
				return true
			}
			nCalls++
			key := ctor.Name + "/handler-invocation#" + itoa(nCalls)
			// inside a go literal?
			inGo := false
			for q := w.parent[n]; q != nil && q != bridge.Node(); q = w.parent[q] {
				if lit, ok := q.(*ast.FuncLit); ok {
					if g, ok := w.parent[w.parent[lit]].(*ast.GoStmt); ok && g.Call.Fun == ast.Expr(lit) {
						inGo = true
					}
				}
			}
			if inGo {
				c.ob("C10.R2", key, w.Pos(n.Pos()), true, "the handler runs in its own goroutine")
				return true
			}
			if sigUse == nil {
				c.ob("C10.R2", key, w.Pos(n.Pos()), false, "the handler is invoked on the caller's goroutine")
				return true
			}
			at := site{pos: n.Pos(), anc: n}
			ok, how := e.Prove(n, e.intEq(keyCtx{e: e, s: &at}, sigUse, chanConst))
			c.ob("C10.R2", key, w.Pos(n.Pos()), ok, map[bool]string{true: "synchronous invocation entailed by `the handler returns a channel` (it must be called to obtain the channel): " + how, false: "the host handler is invoked on the caller's goroutine although it does not return a channel: Next would block for the handler's whole run (" + how + ")"}[ok])
		}
		return true
	})
	if nCalls == 0 {
		c.ob("C10.R2", ctor.Name+"/handler-invocation", w.Pos(bridge.Node().Pos()), false, "the bridge never invokes the host handler")
	}
	// R4 (b): per bridge call at most one invocation; zero only after an error was sent
	r := evtRule{
		start: "",
		prim: func(n ast.Node) []string {
			switch n := n.(type) {
			case *ast.CallExpr:
				if isReflectCall(info, n) {
					return []string{"INVOKE"}
				}
				if isFilledChanCtor(w, calleeOf(info, n)) {
					return []string{"SEND"}
				}
			case *ast.GoStmt:
				if lit, ok := n.Call.Fun.(*ast.FuncLit); ok {
					has := false
					ast.Inspect(lit.Body, func(q ast.Node) bool {
						if call, ok := q.(*ast.CallExpr); ok && isReflectCall(info, call) {
							has = true
						}
						return true
					})
					if has {
						return []string{"INVOKE"}
					}
				}
				return []string{"GO"}
			case *ast.SendStmt:
				return []string{"SEND"}
			}
			return nil
		},
		step: func(st, ev string) string { return addTok(st, ev) },
		ret: func(st string, ret *ast.ReturnStmt, kind string) string {
			n := strings.Count(" "+st+" ", " INVOKE ")
			switch {
			case n > 1:
				return "the handler can be invoked " + itoa(n) + " times for one command"
			case n == 0 && !has(st, "SEND"):
				return "a path returns without invoking the handler and without reporting an error"
			}
			return ""
		},
	}
	fs := runEVT(w, bridge, r)
	if len(fs) == 0 {
		c.ob("C10.R4", ctor.Name+"/invoke-once", w.Pos(bridge.Node().Pos()), true, "every path invokes the handler exactly once, or reports an error without invoking it")
	}
	for i, f := range fs {
		c.ob("C10.R4", ctor.Name+"/invoke-once#"+itoa(i+1), w.Pos(f.pos), false, f.msg)
	}
	// R4 (c): the goroutine's arms report completion exactly once and cover the gate's asynchronous signatures
	for gi, lit := range goLits {
		lf := w.funcOf[lit]
		if lf == nil {
			continue
		}
		c.fn(lf)
		var sw *ast.SwitchStmt
		walkNoLit(lit.Body, func(n ast.Node) bool {
			if s, ok := n.(*ast.SwitchStmt); ok && s.Tag != nil && identOf(s.Tag) != nil && info.Uses[identOf(s.Tag)] == sigObj {
				sw = s
			}
			return true
		})
		key := ctor.Name + "/goroutine#" + itoa(gi+1)
		// the arms: cases of a switch on the signature, or an if / else-if chain comparing it with the gate's constants
		type sigArm struct {
			vals []int64
			name string
			body []ast.Stmt
			pos  token.Pos
			dflt bool
		}
		var sarms []sigArm
		var armsAt token.Pos
		if sw != nil {
			armsAt = sw.Pos()
			for _, cl := range sw.Body.List {
				cc := cl.(*ast.CaseClause)
				a := sigArm{body: cc.Body, pos: cc.Pos(), dflt: cc.List == nil, name: "default"}
				if len(cc.List) > 0 {
					a.name = exprStr(cc.List[0])
				}
				for _, x := range cc.List {
					if tv, ok := info.Types[x]; ok && tv.Value != nil {
						v, _ := constant.Int64Val(tv.Value)
						a.vals = append(a.vals, v)
					}
				}
				sarms = append(sarms, a)
			}
		} else {
			walkNoLit(lit.Body, func(n ast.Node) bool {
				is, ok := n.(*ast.IfStmt)
				if !ok || sarms != nil {
					return true
				}
				if pe, isElse := w.parent[is].(*ast.IfStmt); isElse && pe.Else == ast.Stmt(is) {
					return true
				}
				var cand []sigArm
				okChain := true
				for _, a := range armsOfIfChain(is) {
					if len(a.conds) == 0 {
						cand = append(cand, sigArm{body: a.body, pos: a.pos, dflt: true, name: "else"})
						continue
					}
					b, ok := unparen(a.conds[0]).(*ast.BinaryExpr)
					if !ok || b.Op != token.EQL {
						okChain = false
						break
					}
					var cx ast.Expr
					if id := identOf(b.X); id != nil && info.Uses[id] == sigObj {
						cx = b.Y
					} else if id := identOf(b.Y); id != nil && info.Uses[id] == sigObj {
						cx = b.X
					}
					tv, ok := info.Types[cx]
					if cx == nil || !ok || tv.Value == nil {
						okChain = false
						break
					}
					v, _ := constant.Int64Val(tv.Value)
					cand = append(cand, sigArm{vals: []int64{v}, body: a.body, pos: a.pos, name: exprStr(cx)})
				}
				if okChain && len(cand) > 0 {
					sarms, armsAt = cand, is.Pos()
				}
				return true
			})
		}
		if sarms == nil {
			// no dispatch on the signature: the whole body must send exactly once
			ok, why := sendsExactlyOnce(w, lf, lit.Body.List)
			c.ob("C10.R4", key+"/completion", w.Pos(lit.Pos()), ok, why)
			continue
		}
		covered := map[int64]bool{}
		hasDefault := false
		for _, a := range sarms {
			if a.dflt {
				hasDefault = true
			}
			for _, v := range a.vals {
				covered[v] = true
			}
			ok, why := sendsExactlyOnce(w, lf, a.body)
			c.ob("C10.R4", key+"/arm "+a.name, w.Pos(a.pos), ok, why)
		}
		var missing []string
		for v, name := range gateConsts {
			if v != chanConst && !covered[v] && !hasDefault {
				missing = append(missing, name)
			}
		}
		sort.Strings(missing)
		c.ob("C10.R4", key+"/covers-gate", w.Pos(armsAt), len(missing) == 0, map[bool]string{true: "the arms cover every signature the gate accepts for asynchronous invocation", false: "the gate accepts " + strings.Join(missing, ", ") + " but the goroutine has no arm for it: such a command would never report completion"}[len(missing) == 0])
	}
	if len(goLits) == 0 {
		c.ob("C10.R4", ctor.Name+"/goroutine", w.Pos(bridge.Node().Pos()), false, "the bridge starts no goroutine")
	}
}

// sendsExactlyOnce: every path through the statements performs exactly one channel send (returns end a path).
func sendsExactlyOnce(w *World, f *Func, stmts []ast.Stmt) (bool, string) {
	// count sends along paths structurally: sequence, if/else, return
	type res struct{ min, max int }
	var seq func(list []ast.Stmt) (res, bool) // bool: falls through
	var one func(s ast.Stmt) (res, bool)
	one = func(s ast.Stmt) (res, bool) {
		switch s := s.(type) {
		case *ast.SendStmt:
			return res{1, 1}, true
		case *ast.ReturnStmt:
			return res{0, 0}, false
		case *ast.BlockStmt:
			return seq(s.List)
		case *ast.IfStmt:
			a, af := seq(s.Body.List)
			b, bf := res{0, 0}, true
			if s.Else != nil {
				b, bf = one(s.Else)
			}
			// paths that end inside an arm are accounted by the caller through terminal collection
			return res{min(a.min, b.min), max(a.max, b.max)}, af || bf
		case *ast.ForStmt, *ast.RangeStmt, *ast.SwitchStmt, *ast.SelectStmt:
			n := 0
			ast.Inspect(s, func(q ast.Node) bool {
				if _, ok := q.(*ast.SendStmt); ok {
					n++
				}
				return true
			})
			if n > 0 {
				return res{0, 99}, true
			}
		}
		return res{0, 0}, true
	}
	// enumerate terminal paths exactly (small bodies): recursive path enumeration
	var paths []int
	var walk func(list []ast.Stmt, count int, cont func(int))
	walk = func(list []ast.Stmt, count int, cont func(int)) {
		if len(list) == 0 {
			cont(count)
			return
		}
		s := list[0]
		rest := list[1:]
		switch s := s.(type) {
		case *ast.SendStmt:
			walk(rest, count+1, cont)
		case *ast.ReturnStmt:
			paths = append(paths, count)
		case *ast.BranchStmt:
			// loops are not entered by this walk: a break met here leaves the switch arm, which ends the path
			if s.Tok == token.BREAK && s.Label == nil {
				paths = append(paths, count)
			} else {
				paths = append(paths, 99)
			}
		case *ast.BlockStmt:
			walk(s.List, count, func(n int) { walk(rest, n, cont) })
		case *ast.IfStmt:
			walk(s.Body.List, count, func(n int) { walk(rest, n, cont) })
			if s.Else != nil {
				walk([]ast.Stmt{s.Else}, count, func(n int) { walk(rest, n, cont) })
			} else {
				walk(rest, count, cont)
			}
		default:
			r, _ := one(s)
			if r.max == 99 {
				paths = append(paths, 99)
				return
			}
			walk(rest, count, cont)
		}
	}
	_ = seq
	seq = func(list []ast.Stmt) (res, bool) { return res{}, true }
	walk(stmts, 0, func(n int) { paths = append(paths, n) })
	for _, n := range paths {
		if n != 1 {
			if n == 0 {
				return false, "a path through this arm sends nothing: the command would never report completion and Next would wait forever"
			}
			return false, "a path through this arm sends more than once: the second send blocks the goroutine forever or reports a completion twice"
		}
	}
	return true, "every path sends exactly once (" + itoa(len(paths)) + " paths)"
}

// commandGate finds the output gate called by the command bridge constructor, the constants it can return and the
// one returned under the channel-kind test.
func commandGate(w *World, ctor *Func) (*Func, map[int64]string, int64, bool) {
	p := w.Pkg("")
	info := p.TypesInfo
	var gate *Func
	walkNoLit(ctor.Body, func(n ast.Node) bool {
		if call, ok := n.(*ast.CallExpr); ok {
			if callee := calleeOf(info, call); callee != nil {
				if g := w.byObj[callee]; g != nil && isOutputGate(g) {
					gate = g
				}
			}
		}
		return true
	})
	if gate == nil {
		return nil, nil, 0, false
	}
	consts := map[int64]string{}
	chanConst, found := int64(-1), false
	walkNoLit(gate.Body, func(n ast.Node) bool {
		ret, ok := n.(*ast.ReturnStmt)
		if !ok || len(ret.Results) != 2 || !isNilExpr(info, ret.Results[1]) {
			return true
		}
		tv, ok := info.Types[ret.Results[0]]
		if !ok || tv.Value == nil {
			return true
		}
		v, _ := constant.Int64Val(tv.Value)
		consts[v] = exprStr(ret.Results[0])
		// guarded by a call to a function that tests reflect.Chan?
		for q := w.parent[ret]; q != nil && q != gate.Node(); q = w.parent[q] {
			if cc, ok := q.(*ast.CaseClause); ok {
				for _, x := range cc.List {
					if call, ok := unparen(x).(*ast.CallExpr); ok {
						if callee := calleeOf(info, call); callee != nil {
							if g := w.byObj[callee]; g != nil && mentionsChanKind(g) {
								chanConst, found = v, true
							}
						}
					}
				}
			}
			if is, ok := q.(*ast.IfStmt); ok {
				if call, ok := unparen(is.Cond).(*ast.CallExpr); ok {
					if callee := calleeOf(info, call); callee != nil {
						if g := w.byObj[callee]; g != nil && mentionsChanKind(g) {
							chanConst, found = v, true
						}
					}
				}
			}
		}
		return true
	})
	return gate, consts, chanConst, found
}

func mentionsChanKind(f *Func) bool {
	found := false
	if f.Body == nil {
		return false
	}
	ast.Inspect(f.Body, func(n ast.Node) bool {
		if se, ok := n.(*ast.SelectorExpr); ok && se.Sel.Name == "Chan" {
			if id := identOf(se.X); id != nil && id.Name == "reflect" {
				found = true
			}
		}
		return true
	})
	return found
}

// ---------- R5 ----------

func checkGoCaptures(c *Ctx) {
	w := c.W
	n := 0
	for _, f := range w.ModuleSSAFuncs() {
		pp := ssaFuncPkgPath(f)
		if strings.HasSuffix(pp, "/internal/testutils") {
			continue
		}
		for _, b := range f.Blocks {
			for _, in := range b.Instrs {
				var startVal ssa.Value
				switch st := in.(type) {
				case *ssa.Go:
					startVal = st.Call.Value
				case *ssa.Call:
					// time.AfterFunc(d, f): f runs on its own goroutine
					if callee := st.Call.StaticCallee(); callee != nil && callee.String() == "time.AfterFunc" && len(st.Call.Args) == 2 {
						startVal = st.Call.Args[1]
					}
				}
				if startVal == nil {
					continue
				}
				g := in
				n++
				key := ssaFuncName(f) + "/go#" + itoa(n)
				mc, isClosure := startVal.(*ssa.MakeClosure)
				var body *ssa.Function
				if isClosure {
					body = mc.Fn.(*ssa.Function)
				} else if fn, ok := startVal.(*ssa.Function); ok {
					body = fn
				}
				if body == nil {
					c.ob("C10.R5", key, w.Pos(g.Pos()), false, "a goroutine is started on a function value that is not a literal: its captures cannot be inspected")
					continue
				}
				var problems []string
				if isClosure {
					for i, bnd := range mc.Bindings {
						fv := body.FreeVars[i]
						t := fv.Type()
						if _, isChan := t.Underlying().(*types.Chan); isChan {
							continue
						}
						// captured by reference: the binding is the address of a local
						if a, ok := bnd.(*ssa.Alloc); ok {
							stores := 0
							for _, ref := range *a.Referrers() {
								if st, ok := ref.(*ssa.Store); ok && st.Addr == ssa.Value(a) {
									stores++
								}
							}
							// stores inside the goroutine
							for _, bb := range body.Blocks {
								for _, bi := range bb.Instrs {
									if st, ok := bi.(*ssa.Store); ok && st.Addr == ssa.Value(fv) {
										problems = append(problems, "the goroutine assigns the captured variable "+fv.Name())
									}
								}
							}
							if stores > 1 {
								problems = append(problems, "the captured variable "+fv.Name()+" is assigned more than once in the enclosing function (a write may race with the goroutine's read)")
							}
							continue
						}
						// captured value (never reassigned): immutable handle; mutable referents are the handler's business
					}
				}
				for _, bb := range body.Blocks {
					for _, bi := range bb.Instrs {
						switch x := bi.(type) {
						case *ssa.Store:
							if _, local := x.Addr.(*ssa.Alloc); !local {
								if _, isFV := x.Addr.(*ssa.FreeVar); !isFV {
									problems = append(problems, "the goroutine stores to shared memory at "+w.Pos(x.Pos()))
								}
							}
						case *ssa.MapUpdate:
							problems = append(problems, "the goroutine updates a map at "+w.Pos(x.Pos()))
						}
					}
				}
				c.ob("C10.R5", key, w.Pos(g.Pos()), len(problems) == 0, map[bool]string{true: "captures only channels and never-reassigned values; writes nothing but channel sends", false: strings.Join(problems, "; ")}[len(problems) == 0])
			}
		}
	}
}

// ---------- R6 ----------

func checkWait(c *Ctx) {
	w := c.W
	p := w.Pkg("")
	info := p.TypesInfo
	// the function registered under "wait"
	var waitFn *Func
	for _, file := range p.Syntax {
		if strings.HasSuffix(w.Fset.Position(file.Pos()).Filename, "_test.go") {
			continue
		}
		ast.Inspect(file, func(n ast.Node) bool {
			kv, ok := n.(*ast.KeyValueExpr)
			if !ok {
				return true
			}
			if tv, ok := info.Types[kv.Key]; ok && tv.Value != nil && tv.Value.Kind() == constant.String && constant.StringVal(tv.Value) == "wait" {
				if id := identOf(kv.Value); id != nil {
					if fn, ok := info.Uses[id].(*types.Func); ok {
						waitFn = w.byObj[fn]
					}
				}
			}
			return true
		})
	}
	if waitFn == nil {
		c.undecided("C10.R6", "no function registered under the command name \"wait\"")
		return
	}
	c.fn(waitFn)
	sf := w.SSAFunc(waitFn)
	if sf == nil {
		c.undecided("C10.R6", "no SSA for the wait command")
		return
	}
	all := append([]*ssa.Function{sf}, sf.AnonFuncs...)
	nSleep := 0
	for _, f := range all {
		for _, b := range f.Blocks {
			for _, in := range b.Instrs {
				call, ok := in.(*ssa.Call)
				if !ok {
					continue
				}
				callee := call.Call.StaticCallee()
				if callee == nil || (callee.String() != "time.Sleep" && callee.String() != "time.AfterFunc") {
					continue
				}
				nSleep++
				coef, why := scaleOfNumber(call.Call.Args[0], true, 0)
				ok2 := why == "" && coef == 1e9
				msg := "the sleep lasts the number argument × 1e9 ns, converted to a Duration only after scaling"
				if !ok2 {
					if why == "" {
						why = "the duration is the argument × " + trimFloat(coef) + " ns, not × 1e9"
					}
					msg = "the built-in wait does not sleep for exactly its argument in seconds: " + why
				}
				c.ob("C10.R6", waitFn.Name+"/sleep-duration", w.Pos(call.Pos()), ok2, msg)
			}
		}
	}
	if nSleep == 0 {
		c.ob("C10.R6", waitFn.Name+"/sleep-duration", w.Pos(waitFn.Decl.Pos()), false, "the built-in wait never sleeps")
	}
	// completion after the sleep (in each literal that sleeps)
	// the callbacks of time.AfterFunc: they start after the delay
	timerCallbacks := map[ast.Node]bool{}
	ast.Inspect(waitFn.Body, func(n ast.Node) bool {
		if call, ok := n.(*ast.CallExpr); ok && len(call.Args) == 2 {
			if callee := calleeOf(info, call); callee != nil && funcFullName(callee) == "time.AfterFunc" {
				if lit, ok := unparen(call.Args[1]).(*ast.FuncLit); ok {
					timerCallbacks[lit] = true
				}
			}
		}
		return true
	})
	for _, l := range append([]*Func{waitFn}, w.Lits(waitFn)...) {
		hasSleep := timerCallbacks[l.Node()]
		isTimer := hasSleep
		walkNoLit(l.Body, func(n ast.Node) bool {
			if call, ok := n.(*ast.CallExpr); ok {
				if callee := calleeOf(info, call); callee != nil && funcFullName(callee) == "time.Sleep" {
					hasSleep = true
				}
			}
			return true
		})
		if !hasSleep {
			continue
		}
		startState := ""
		if isTimer {
			startState = "SLEEP" // the timer has waited before the callback runs
		}
		r := evtRule{
			start: startState,
			prim: func(n ast.Node) []string {
				switch n := n.(type) {
				case *ast.CallExpr:
					if callee := calleeOf(info, n); callee != nil && funcFullName(callee) == "time.Sleep" {
						return []string{"SLEEP"}
					}
				case *ast.SendStmt:
					return []string{"SEND"}
				}
				return nil
			},
			step: func(st, ev string) string { return addTok(st, ev) },
			bad: func(st, ev string) string {
				if ev == "SEND" && !strings.HasPrefix(st, "SLEEP") {
					return "completion is sent before the sleep"
				}
				return ""
			},
			ret: func(st string, ret *ast.ReturnStmt, kind string) string {
				if st != "SLEEP SEND" {
					return "the waiting goroutine ends after [" + st + "] (want: sleep, then exactly one completion)"
				}
				return ""
			},
		}
		fs := runEVT(w, l, r)
		if len(fs) == 0 {
			c.ob("C10.R6", l.Name+"/completion-after-sleep", w.Pos(l.Node().Pos()), true, "completion is sent exactly once, after the sleep")
		}
		for i, f := range fs {
			c.ob("C10.R6", l.Name+"/completion-after-sleep#"+itoa(i+1), w.Pos(f.pos), false, f.msg)
		}
	}
}

func trimFloat(f float64) string {
	if f == math.Trunc(f) && math.Abs(f) < 1e15 {
		return itoa(int(f))
	}
	return strings.TrimRight(strings.TrimRight(strconvFormat(f), "0"), ".")
}

func strconvFormat(f float64) string { return constant.MakeFloat64(f).String() }

// scaleOfNumber: v = coef × (the number argument), with float→integer conversion allowed only outermost.
// Returns a non-empty reason when the shape is not a pure scaling.
func scaleOfNumber(v ssa.Value, outermost bool, depth int) (float64, string) {
	if depth > 12 {
		return 0, "expression too deep"
	}
	switch x := v.(type) {
	case *ssa.UnOp:
		if x.Op == token.MUL {
			// *arg.Number
			if fld := loadedField(x.X); fld != nil && fld.Name() == "Number" && pkgPathOfVar(fld) == modPath+"/variable" {
				return 1, ""
			}
			// captured or local variable holding it
			if a, ok := x.X.(*ssa.Alloc); ok {
				for _, ref := range *a.Referrers() {
					if st, ok := ref.(*ssa.Store); ok && st.Addr == ssa.Value(a) {
						return scaleOfNumber(st.Val, outermost, depth+1)
					}
				}
			}
			if fv, ok := x.X.(*ssa.FreeVar); ok {
				// binding in the parent
				if par := fv.Parent().Parent(); par != nil {
					for _, b := range par.Blocks {
						for _, in := range b.Instrs {
							if mc, ok := in.(*ssa.MakeClosure); ok && mc.Fn == ssa.Value(fv.Parent()) {
								for i, fvv := range fv.Parent().FreeVars {
									if fvv == fv {
										if a, ok := mc.Bindings[i].(*ssa.Alloc); ok {
											for _, ref := range *a.Referrers() {
												if st, ok := ref.(*ssa.Store); ok && st.Addr == ssa.Value(a) {
													return scaleOfNumber(st.Val, outermost, depth+1)
												}
											}
										}
									}
								}
							}
						}
					}
				}
			}
		}
	case *ssa.FreeVar:
		if par := x.Parent().Parent(); par != nil {
			for _, b := range par.Blocks {
				for _, in := range b.Instrs {
					if mc, ok := in.(*ssa.MakeClosure); ok && mc.Fn == ssa.Value(x.Parent()) {
						for i, fvv := range x.Parent().FreeVars {
							if fvv == x {
								return scaleOfNumber(mc.Bindings[i], outermost, depth+1)
							}
						}
					}
				}
			}
		}
	case *ssa.BinOp:
		if x.Op == token.MUL {
			if k, ok := constFloat(x.Y); ok {
				cf, why := scaleOfNumber(x.X, false, depth+1)
				return cf * k, why
			}
			if k, ok := constFloat(x.X); ok {
				cf, why := scaleOfNumber(x.Y, false, depth+1)
				return cf * k, why
			}
		}
		return 0, "the duration is computed with '" + x.Op.String() + "' on non-constant operands"
	case *ssa.Convert:
		from, ok1 := x.X.Type().Underlying().(*types.Basic)
		to, ok2 := x.Type().Underlying().(*types.Basic)
		if ok1 && ok2 {
			if from.Info()&types.IsFloat != 0 && to.Info()&types.IsInteger != 0 {
				if !outermost {
					cf, why := scaleOfNumber(x.X, false, depth+1)
					if why != "" {
						return 0, why
					}
					return 0, "the number (× " + trimFloat(cf) + ") is truncated to an integer before it is scaled: fractions are lost"
				}
				return scaleOfNumber(x.X, false, depth+1)
			}
			return scaleOfNumber(x.X, outermost, depth+1)
		}
	case *ssa.ChangeType:
		return scaleOfNumber(x.X, outermost, depth+1)
	case *ssa.Call:
		if callee := x.Call.StaticCallee(); callee != nil && callee.String() == "math.Ceil" && len(x.Call.Args) == 1 {
			return scaleOfNumber(x.Call.Args[0], false, depth+1)
		}
		return 0, "the duration goes through a call (" + x.Call.Value.String() + ")"
	}
	return 0, "the duration is not a pure scaling of the number argument (" + v.String() + ")"
}

func constFloat(v ssa.Value) (float64, bool) {
	switch x := v.(type) {
	case *ssa.Const:
		if x.Value == nil {
			return 0, false
		}
		switch x.Value.Kind() {
		case constant.Int, constant.Float:
			f, _ := constant.Float64Val(x.Value)
			return f, true
		}
	case *ssa.Convert:
		return constFloat(x.X)
	case *ssa.ChangeType:
		return constFloat(x.X)
	}
	return 0, false
}

var escapingCache []*ssa.Function

// escapingFuncs: module functions and closures whose value is used other than as the callee of a static call.
func (w *World) escapingFuncs() []*ssa.Function {
	if escapingCache != nil {
		return escapingCache
	}
	set := map[*ssa.Function]bool{}
	for _, f := range w.ModuleSSAFuncs() {
		for _, b := range f.Blocks {
			for _, in := range b.Instrs {
				if mc, ok := in.(*ssa.MakeClosure); ok {
					// a closure value escapes unless its only use is to be called or started right here
					for _, ref := range *mc.Referrers() {
						switch r := ref.(type) {
						case *ssa.Call:
							if r.Call.Value != ssa.Value(mc) {
								set[mc.Fn.(*ssa.Function)] = true
							}
						case *ssa.Go:
							if r.Call.Value != ssa.Value(mc) {
								set[mc.Fn.(*ssa.Function)] = true
							}
						case *ssa.Defer:
						default:
							set[mc.Fn.(*ssa.Function)] = true
						}
					}
				}
				for _, op := range in.Operands(nil) {
					if fn, ok := (*op).(*ssa.Function); ok && strings.HasPrefix(ssaFuncPkgPath(fn), modPath) {
						if c, isCall := in.(ssa.CallInstruction); isCall && c.Common().Value == ssa.Value(fn) {
							continue
						}
						if _, isMC := in.(*ssa.MakeClosure); isMC {
							continue
						}
						set[fn] = true
					}
				}
			}
		}
	}
	for f := range set {
		escapingCache = append(escapingCache, f)
	}
	sort.Slice(escapingCache, func(i, j int) bool { return escapingCache[i].String() < escapingCache[j].String() })
	return escapingCache
}

// isFilledChanCtor: a module function whose whole body is `ch := make(chan T, k); ch <- <parameter>; return ch` with a
// constant k >= 1 — a call of it is "a channel on which the argument has been sent".
func isFilledChanCtor(w *World, callee *types.Func) bool {
	if callee == nil {
		return false
	}
	f := w.byObj[callee.Origin()]
	if f == nil || f.Body == nil || len(f.Body.List) != 3 {
		return false
	}
	info := f.Pkg.TypesInfo
	as, ok := f.Body.List[0].(*ast.AssignStmt)
	if !ok || as.Tok != token.DEFINE || len(as.Lhs) != 1 || len(as.Rhs) != 1 {
		return false
	}
	mk, ok := unparen(as.Rhs[0]).(*ast.CallExpr)
	if !ok || !isBuiltin(info, mk, "make") || len(mk.Args) != 2 {
		return false
	}
	if tv, ok := info.Types[mk.Args[1]]; !ok || tv.Value == nil || tv.Value.Kind() != constant.Int {
		return false
	} else if k, _ := constant.Int64Val(tv.Value); k < 1 {
		return false
	}
	ch := info.Defs[identOf(as.Lhs[0])]
	send, ok := f.Body.List[1].(*ast.SendStmt)
	if !ok || ch == nil || identOf(send.Chan) == nil || info.Uses[identOf(send.Chan)] != ch {
		return false
	}
	if vid := identOf(send.Value); vid == nil {
		return false
	} else if v, ok := info.Uses[vid].(*types.Var); !ok || !isParamOf(f, v) {
		return false
	}
	ret, ok := f.Body.List[2].(*ast.ReturnStmt)
	return ok && len(ret.Results) == 1 && identOf(ret.Results[0]) != nil && info.Uses[identOf(ret.Results[0])] == ch
}

func isParamOf(f *Func, v *types.Var) bool {
	if f.Decl == nil || f.Decl.Type.Params == nil {
		return false
	}
	for _, fl := range f.Decl.Type.Params.List {
		for _, nm := range fl.Names {
			if f.Pkg.TypesInfo.Defs[nm] == v {
				return true
			}
		}
	}
	return false
}

// c10FreshArguments (C10.R7): in the function that executes a command statement, every []*variable.Value handed to a call
// (the dispatch to the command table, or a handler invoked directly) has no origin in a field of the DialogueRunner.
func c10FreshArguments(c *Ctx, m *runnerModel) {
	w := c.W
	if m.cmd == nil {
		c.undecided("C10.R7", "the function executing command statements was not found")
		return
	}
	f := w.SSAFunc(m.cmd)
	if f == nil {
		c.undecided("C10.R7", "no SSA for "+m.cmd.Name)
		return
	}
	n := 0
	for _, b := range f.Blocks {
		for _, in := range b.Instrs {
			call, ok := in.(ssa.CallInstruction)
			if !ok {
				continue
			}
			cc := call.Common()
			if _, isBuiltin := cc.Value.(*ssa.Builtin); isBuiltin {
				continue
			}
			if callee := cc.StaticCallee(); callee != nil && !strings.HasPrefix(ssaFuncPkgPath(callee), modPath) {
				continue
			}
			for _, a := range cc.Args {
				if typeStr(a.Type()) != "[]*variable.Value" {
					continue
				}
				n++
				os := originSet{}
				w.sliceOrigins(a, map[*ssa.Parameter]originSet{}, os, map[ssa.Value]bool{}, 0)
				var bad, keys []string
				for k := range os {
					keys = append(keys, k)
					if strings.HasPrefix(k, "field ysgo.DialogueRunner.") || strings.HasPrefix(k, "package-level ") {
						bad = append(bad, k)
					}
				}
				sort.Strings(keys)
				sort.Strings(bad)
				key := m.cmd.Name + "/arguments#" + itoa(n)
				if len(bad) > 0 {
					c.ob("C10.R7", key, w.Pos(in.Pos()), false, "the argument list handed to the command can share its backing array with "+strings.Join(bad, ", ")+": a handler still reading its arguments (from its goroutine, or after a restore abandoned it) sees the arguments of the next command, and the two race")
				} else {
					c.ob("C10.R7", key, w.Pos(in.Pos()), true, "origins of the argument list: "+strings.Join(keys, ", "))
				}
			}
		}
	}
	if n == 0 {
		c.undecided("C10.R7", "no call receiving a []*variable.Value found in "+m.cmd.Name)
	}
}
