package main

// c17.go — C17: custom commands receive exactly the arguments written in the script.

import (
	"go/ast"
	"go/constant"
	"go/token"
	"go/types"
	"regexp"
	"strings"
)

func init() {
	registry["C17"] = &propCheck{
		meta: propMeta{
			Level: "other",
			Explanation: "Decides: (R1) the dispatch of a command is entailed by `its name is a string` and `its name is not \"stop\"`, and passes the name and the remaining values; (R2) the handler invoked is the entry of the registration table under the command's name, invoked only when found, otherwise a non-nil error is reported; " +
				"(R3) the argument values are built by one ascending pass over all elements and handed over in that order; (R4) words are classified by exact comparison with true/false, become numbers only under a syntactic guard that — when it is a constant regular expression — accepts decimal literals and rejects everything else strconv.ParseFloat would take (probe set), and otherwise stay verbatim strings; empty words are skipped; " +
				"(R5) re-arranging a command's elements keeps every element: text is accumulated, flushed before every expression and after the last element, and the accumulator is reset after each flush.",
			NotDecided:  "tokenisation of keyword-prefixed names such as `iffy` or `elsewhere` (lexer ATN, assumption A3); what counts as whitespace between words at the lexer level",
			Assumptions: []string{"A3", "A4", "A6"},
			Trusted:     []string{"go/types", "golang.org/x/tools/go/cfg", "Go's regexp package (to evaluate the extracted constant pattern)", "go/packages loader"},
		},
		run: checkC17,
	}
}

func checkC17(c *Ctx) {
	w := c.W
	wGlobal = w
	m := w.runner()
	c.rule("C17.R1", "dispatch is entailed by name-is-a-string and name != \"stop\"; it passes the name and values[1:]", 3)
	c.rule("C17.R2", "the invoked handler is the registration table's entry under the command name, invoked only when found; an unknown name yields a non-nil error", 3)
	c.rule("C17.R3", "arguments: one ascending pass over all elements, in order (shape shared with C02.R4)", 3)
	c.rule("C17.R4", "word classification: true/false by exact comparison, numbers only under a decimal-literal guard (probe set), everything else verbatim; empty words skipped", 5)
	c.rule("C17.R6", "registration reaches the table: every public command-registration call that returns without error has stored the (converted) command once in the dispatch table under the given name; nothing is stored when it fails", 2)
	c.rule("C17.R5", "re-arrangement keeps every element: accumulate text, flush before each expression and after the last element, reset after flush", 3)
	if !m.ok(c, "C17") {
		return
	}
	info := m.pkg.TypesInfo
	f := m.cmd
	c.fn(f)
	x := w.expander(f)
	e := w.ent(f)
	vm := w.valueModel()
	e.installContracts(func(fn *types.Func) bool { return vm.family[fn] })

	// ----- R1
	var dispatches []*ast.CallExpr
	walkNoLit(f.Body, func(n ast.Node) bool {
		if call, ok := n.(*ast.CallExpr); ok {
			if name, on := methodCallOn(info, call, m.fCmds); on && name == "call" {
				dispatches = append(dispatches, call)
			}
		}
		return true
	})
	if len(dispatches) == 0 {
		c.ob("C17.R1", f.Name+"/dispatch", w.Pos(f.Decl.Pos()), false, "the command executor does not dispatch through the command table")
		return
	}
	for di, dispatch := range dispatches {
		sfx := ""
		if di > 0 {
			sfx = "#" + itoa(di+1)
		}
		c17R1one(c, m, f, x, e, dispatch, sfx)
	}

	// ----- R3
	checkArgumentOrderOne(c, "C17.R3", m.cmd)

	// ----- R2
	c17R2(c, m)
	// ----- R4
	c17R4(c)
	// ----- R5
	c17R5(c)
	// ----- R6
	checkRegistration(c, "C17.R6", "command", 2)
}

func c17R1one(c *Ctx, m *runnerModel, f *Func, x *expander, e *entFn, dispatch *ast.CallExpr, sfx string) {
	w := c.W
	info := m.pkg.TypesInfo
	if len(dispatch.Args) != 2 {
		c.ob("C17.R1", f.Name+"/dispatch"+sfx, w.Pos(dispatch.Pos()), false, "unrecognised dispatch call")
		return
	}
	nameS, argsS := x.str(dispatch.Args[0]), x.str(dispatch.Args[1])
	// values slice: the local appended to in the argument loop
	okName := strings.HasSuffix(nameS, "[0].String")
	valuesVar := ""
	if okName {
		valuesVar = strings.TrimSuffix(nameS, "[0].String")
	}
	okArgs := valuesVar != "" && argsS == valuesVar+"[1:]"
	c.ob("C17.R1", f.Name+"/dispatch-arguments"+sfx, w.Pos(dispatch.Pos()), okName && okArgs, map[bool]string{true: "dispatches (*values[0].String, values[1:])", false: "dispatches (" + nameS + ", " + argsS + "): want the first value's string as the name and all remaining values as arguments"}[okName && okArgs])
	// the list handed over is the one evaluated in this activation: a local that is made empty and only appended to
	if okArgs {
		var vobj types.Object
		argX := unparen(dispatch.Args[1])
		for i := 0; i < 4; i++ {
			id := identOf(argX)
			if id == nil {
				break
			}
			if rhs, idx, _, ok := x.def(info.Uses[id]); ok && rhs != nil && idx < 0 {
				argX = unparen(rhs)
				continue
			}
			break
		}
		if se, ok := argX.(*ast.SliceExpr); ok {
			if id := identOf(se.X); id != nil {
				vobj = info.Uses[id]
			}
		}
		okFresh, why := vobj != nil, "the argument list is not a local"
		var freshLocal func(vobj types.Object, depth int) (bool, string)
		freshLocal = func(vobj types.Object, depth int) (bool, string) {
			okFresh, why := true, "the argument list is made empty in this call and only appended to by the evaluation loop"
			for _, a := range e.assigns[vobj] {
				switch as := a.(type) {
				case *ast.ValueSpec:
					if len(as.Values) != 0 {
						okFresh, why = false, "the argument list is initialised from "+exprStr(as.Values[0])
					}
				case *ast.AssignStmt:
					if len(as.Lhs) != len(as.Rhs) {
						okFresh, why = false, "the argument list receives a result of "+exprStr(as.Rhs[0])+": it can be a list that was not evaluated in this activation (kept from an earlier execution of the statement, say)"
						continue
					}
					for i, l := range as.Lhs {
						if id := identOf(l); id == nil || (info.Uses[id] != vobj && info.Defs[id] != vobj) {
							continue
						}
						rhs := unparen(as.Rhs[i])
						if call, ok := rhs.(*ast.CallExpr); ok {
							if isBuiltin(info, call, "make") {
								continue
							}
							if isBuiltin(info, call, "append") && len(call.Args) == 2 && !call.Ellipsis.IsValid() {
								if aid := identOf(call.Args[0]); aid != nil && info.Uses[aid] == vobj {
									continue
								}
							}
						}
						if cl, ok := rhs.(*ast.CompositeLit); ok && len(cl.Elts) == 0 {
							continue
						}
						// a copy of another local of this call that is itself made here and only filled here
						if rid, ok := rhs.(*ast.Ident); ok && depth < 3 {
							if rv, isVar := info.Uses[rid].(*types.Var); isVar && !rv.IsField() && rv.Pkg() != nil && rv.Parent() != rv.Pkg().Scope() && len(e.assigns[rv]) > 0 {
								if ok2, _ := freshLocal(rv, depth+1); ok2 {
									continue
								}
							}
						}
						okFresh, why = false, "the argument list is assigned "+shorten(exprStr(as.Rhs[i]), 80)+": it can be a list that was not evaluated in this activation (kept from an earlier execution of the statement, say)"
					}
				default:
					okFresh, why = false, "the argument list is assigned in an unrecognised way"
				}
			}
			return okFresh, why
		}
		if vobj != nil {
			okFresh, why = freshLocal(vobj, 0)
		}
		c.ob("C17.R3", f.Name+"/arguments-evaluated-now"+sfx, w.Pos(dispatch.Pos()), okFresh, why)
	}
	at := site{pos: dispatch.Pos(), anc: dispatch}
	k := keyCtx{e: e, s: &at}
	// name != "stop"
	var stopCmp *ast.BinaryExpr
	var strSel ast.Expr
	walkNoLit(f.Body, func(n ast.Node) bool {
		switch n := n.(type) {
		case *ast.BinaryExpr:
			if n.Op == token.EQL || n.Op == token.NEQ {
				if tv, ok := info.Types[n.Y]; ok && tv.Value != nil && tv.Value.Kind() == constant.String && constant.StringVal(tv.Value) == "stop" {
					if x.str(n.X) == nameS {
						stopCmp = n
					}
				}
			}
		case *ast.SelectorExpr:
			if strSel == nil && x.str(n) == nameS {
				strSel = n
			}
		}
		return true
	})
	if stopCmp == nil {
		c.ob("C17.R1", f.Name+"/stop-not-dispatched"+sfx, w.Pos(dispatch.Pos()), false, "the command name is never compared with \"stop\" before the dispatch: <<stop>> would be sent to a handler (or fail as unknown)")
	} else {
		goal := e.cond(k, stopCmp, 0)
		if stopCmp.Op == token.EQL {
			goal = Not{goal}
		}
		ok, how := e.Prove(dispatch, goal)
		c.ob("C17.R1", f.Name+"/stop-not-dispatched"+sfx, w.Pos(dispatch.Pos()), ok, map[bool]string{true: "entailed: name != \"stop\" (" + how + ")", false: "the dispatch is reachable with the name \"stop\": " + how}[ok])
	}
	if strSel == nil {
		c.ob("C17.R1", f.Name+"/name-is-string"+sfx, w.Pos(dispatch.Pos()), false, "the name's String alternative is never inspected")
	} else {
		ok, how := e.Prove(dispatch, e.nn(k, strSel))
		c.ob("C17.R1", f.Name+"/name-is-string"+sfx, w.Pos(dispatch.Pos()), ok, map[bool]string{true: "entailed: the first value is a string (" + how + ")", false: "the dispatch is reachable when the first value is not a string: " + how}[ok])
	}

}

// checkArgumentOrderOne applies the C02.R4 shape rule to one function by filtering the shared implementation's output.
func checkArgumentOrderOne(c *Ctx, rule string, f *Func) {
	tmp := newCtx(c.Prop, c.Tier, c.W)
	tmp.rule(rule, "", 0)
	checkArgumentOrder(tmp, rule)
	for _, o := range tmp.Obs {
		if strings.HasPrefix(o.Key, f.Name+"/") {
			c.ob(rule, o.Key, o.Pos, o.OK, o.How)
		}
	}
}

func c17R2(c *Ctx, m *runnerModel) {
	w := c.W
	info := m.pkg.TypesInfo
	cs := namedType(m.pkg, "commandStorer")
	if cs == nil {
		c.undecided("C17.R2", "type commandStorer not found")
		return
	}
	table := structFieldByType(cs, "map[string]ysgo.YarnSpinnerCommand")
	if table == nil {
		c.undecided("C17.R2", "commandStorer has no unique map[string]YarnSpinnerCommand field")
		return
	}
	var callFn, addFn *Func
	for _, f := range w.FuncsIn(m.pkg) {
		if f.Decl == nil || f.Decl.Recv == nil || typeStr(f.Sig().Recv().Type()) != "*ysgo.commandStorer" {
			continue
		}
		sig := f.Sig()
		if sig.Results().Len() == 1 && typeStr(sig.Results().At(0).Type()) == "<-chan error" {
			callFn = f
		}
		if sig.Results().Len() == 0 && sig.Params().Len() == 2 && typeStr(sig.Params().At(1).Type()) == "ysgo.YarnSpinnerCommand" {
			addFn = f
		}
	}
	if callFn == nil || addFn == nil {
		c.undecided("C17.R2", "commandStorer.call / addCommand not found")
		return
	}
	c.fn(callFn)
	c.fn(addFn)
	// addCommand stores into the table under its id
	okAdd := false
	walkNoLit(addFn.Body, func(n ast.Node) bool {
		if as, ok := n.(*ast.AssignStmt); ok && len(as.Lhs) == 1 && len(as.Rhs) == 1 {
			if ix, ok := unparen(as.Lhs[0]).(*ast.IndexExpr); ok && lastField(info, ix.X) == table {
				if id, v := identOf(ix.Index), identOf(as.Rhs[0]); id != nil && v != nil && info.Uses[id] == addFn.Sig().Params().At(0) && info.Uses[v] == addFn.Sig().Params().At(1) {
					okAdd = true
				}
			}
		}
		return true
	})
	c.ob("C17.R2", addFn.Name+"/registers", w.Pos(addFn.Decl.Pos()), okAdd, map[bool]string{true: "stores the handler in the table under its name", false: "a registered handler is not stored in the command table under its name"}[okAdd])
	// call: every call through a function value uses the table's entry under the id, under the found flag
	cx := w.expander(callFn)
	e := w.ent(callFn)
	recv := "$" + recvName(callFn)
	idParam := "$" + callFn.Sig().Params().At(0).Name()
	argsParam := callFn.Sig().Params().At(1)
	nInv := 0
	walkNoLit(callFn.Body, func(n ast.Node) bool {
		call, ok := n.(*ast.CallExpr)
		if !ok {
			return true
		}
		tv, ok := info.Types[call.Fun]
		if !ok || tv.IsType() {
			return true
		}
		if _, isSig := tv.Type.Underlying().(*types.Signature); !isSig {
			return true
		}
		if calleeOf(info, call) != nil || isBuiltinCall(info, call) {
			return true // static callee
		}
		nInv++
		key := callFn.Name + "/invocation#" + itoa(nInv)
		src := cx.str(call.Fun)
		want := recv + "." + table.Name() + "[" + idParam + "]#0"
		okSrc := src == want
		okArgs := len(call.Args) == 1 && identOf(call.Args[0]) != nil && info.Uses[identOf(call.Args[0])] == argsParam
		// found flag
		okFound, how := false, "the found flag of the lookup is discarded"
		if id := identOf(call.Fun); id != nil {
			if obj, ok := info.Uses[id].(*types.Var); ok {
				if as := e.assigns[obj]; len(as) == 1 {
					if a, ok := as[0].(*ast.AssignStmt); ok && len(a.Lhs) == 2 {
						if okID := identOf(a.Lhs[1]); okID != nil && okID.Name != "_" {
							at := site{pos: call.Pos(), anc: call}
							okFound, how = e.Prove(call, e.cond(keyCtx{e: e, s: &at}, okID, 0))
						}
					}
				}
			}
		}
		all := okSrc && okArgs && okFound
		why := "invokes the table's entry under the command name with the arguments, only when the name was found"
		switch {
		case !okSrc:
			why = "a command is dispatched to " + src + ", not to the registration table's entry under its name (" + want + "): a handler registered by the host under that name would not be reached"
		case !okArgs:
			why = "the handler does not receive the argument slice"
		case !okFound:
			why = "the handler value is invoked although the lookup may have failed (nil function call): " + how
		}
		c.ob("C17.R2", key, w.Pos(call.Pos()), all, why)
		return true
	})
	if nInv == 0 {
		c.ob("C17.R2", callFn.Name+"/invocation", w.Pos(callFn.Decl.Pos()), false, "the command table's entry is never invoked")
	}
	// unknown name: a return reachable with ¬found must return a channel that was sent a non-nil error
	r := evtRule{
		start: "",
		prim: func(n ast.Node) []string {
			switch n := n.(type) {
			case *ast.SendStmt:
				if isNilExpr(info, n.Value) {
					return []string{"SENDNIL"}
				}
				return []string{"SENDERR"}
			case *ast.CallExpr:
				tv, ok := info.Types[n.Fun]
				if ok && !tv.IsType() && calleeOf(info, n) == nil && !isBuiltinCall(info, n) {
					return []string{"INVOKE"}
				}
				if callee := calleeOf(info, n); callee != nil {
					if g := w.byObj[callee]; g != nil && strings.Contains(g.Name, "chanWithImmediateValue") && len(n.Args) == 1 && !isNilExpr(info, n.Args[0]) {
						return []string{"SENDERR"}
					}
				}
			}
			return nil
		},
		step: func(st, ev string) string { return addTok(st, ev) },
		ret: func(st string, ret *ast.ReturnStmt, kind string) string {
			if !has(st, "INVOKE") && !has(st, "SENDERR") {
				return "a path returns without invoking a handler and without reporting an error: an unregistered command would silently succeed"
			}
			if has(st, "SENDNIL") && !has(st, "INVOKE") {
				return "an unknown command reports success (nil is sent)"
			}
			return ""
		},
	}
	fs := runEVT(w, callFn, r)
	if len(fs) == 0 {
		c.ob("C17.R2", callFn.Name+"/unknown-is-error", w.Pos(callFn.Decl.Pos()), true, "every path either invokes the found handler or reports a non-nil error")
	}
	for i, f := range fs {
		c.ob("C17.R2", callFn.Name+"/unknown-is-error#"+itoa(i+1), w.Pos(f.pos), false, f.msg)
	}
}

func isBuiltinCall(info *types.Info, call *ast.CallExpr) bool {
	if id, ok := unparen(call.Fun).(*ast.Ident); ok {
		_, isB := info.Uses[id].(*types.Builtin)
		return isB
	}
	return false
}

var numberAccept = []string{"-5", "5.25", "007", "0", "12.50", "-0.5"}
var numberReject = []string{"nan", "NaN", "inf", "Inf", "+Inf", "-inf", "infinity", "1e3", "1E3", "0x10", "0b1", "0o7", ".5", "5.", "+1", "-", "", "1_000", "1 2", "--1", "1.2.3", "١٢"}

func c17R4(c *Ctx) {
	w := c.W
	tp := w.Pkg("internal/tree")
	info := tp.TypesInfo
	// the classifier: func(string) *variable.Value in internal/tree
	var cls *Func
	for _, f := range w.FuncsIn(tp) {
		if f.Decl == nil || f.Decl.Recv != nil {
			continue
		}
		sig := f.Sig()
		if sig.Params().Len() == 1 && typeStr(sig.Params().At(0).Type()) == "string" && sig.Results().Len() == 1 && isValuePtr(sig.Results().At(0).Type()) && !strings.HasPrefix(f.Decl.Name.Name, "New") {
			cls = f
		}
	}
	if cls == nil {
		c.undecided("C17.R4", "the word classifier (func(string) *variable.Value in internal/tree) was not found")
		return
	}
	c.fn(cls)
	e := w.ent(cls)
	param := cls.Sig().Params().At(0)
	x := w.expander(cls)
	pS := "$" + param.Name()
	nRet := 0
	walkNoLit(cls.Body, func(n ast.Node) bool {
		ret, ok := n.(*ast.ReturnStmt)
		if !ok || len(ret.Results) != 1 {
			return true
		}
		nRet++
		key := cls.Name + "/return#" + itoa(nRet)
		call, ok := unparen(ret.Results[0]).(*ast.CallExpr)
		if !ok || len(call.Args) != 1 {
			c.ob("C17.R4", key, w.Pos(ret.Pos()), false, "unrecognised result "+exprStr(ret.Results[0]))
			return true
		}
		callee := calleeOf(info, call)
		if callee == nil {
			c.ob("C17.R4", key, w.Pos(ret.Pos()), false, "unrecognised result "+exprStr(ret.Results[0]))
			return true
		}
		at := site{pos: ret.Pos(), anc: ret}
		k := keyCtx{e: e, s: &at}
		switch callee.Name() {
		case "NewBoolean":
			tv, ok := info.Types[call.Args[0]]
			if !ok || tv.Value == nil {
				c.ob("C17.R4", key, w.Pos(ret.Pos()), false, "a boolean that is not a constant")
				return true
			}
			word := tv.Value.ExactString() // true / false
			// entailed: param == "<word>"
			var cmp *ast.BinaryExpr
			walkNoLit(cls.Body, func(q ast.Node) bool {
				if b, ok := q.(*ast.BinaryExpr); ok && b.Op == token.EQL {
					if id := identOf(b.X); id != nil && info.Uses[id] == param {
						if cv, ok := info.Types[b.Y]; ok && cv.Value != nil && cv.Value.Kind() == constant.String && constant.StringVal(cv.Value) == word {
							cmp = b
						}
					}
				}
				return true
			})
			if cmp == nil {
				// the same comparison written as a case of a switch on the word
				var goal Formula
				walkNoLit(cls.Body, func(q ast.Node) bool {
					sw, ok := q.(*ast.SwitchStmt)
					if !ok || sw.Tag == nil || sw.Init != nil {
						return true
					}
					if id := identOf(sw.Tag); id == nil || info.Uses[id] != types.Object(param) {
						return true
					}
					for _, cl := range sw.Body.List {
						for _, cx := range cl.(*ast.CaseClause).List {
							if cv, ok := info.Types[cx]; ok && cv.Value != nil && cv.Value.Kind() == constant.String && constant.StringVal(cv.Value) == word {
								goal = e.caseEq(sw, cx)
							}
						}
					}
					return true
				})
				if goal != nil {
					ok2, how := e.Prove(ret, goal)
					c.ob("C17.R4", key, w.Pos(ret.Pos()), ok2, map[bool]string{true: "the boolean " + word + " only for the exact word \"" + word + "\" (" + how + ")", false: "the boolean " + word + " can be produced for a word other than \"" + word + "\": " + how}[ok2])
					return true
				}
			}
			if cmp == nil {
				c.ob("C17.R4", key, w.Pos(ret.Pos()), false, "the boolean "+word+" is produced without an exact comparison of the word with \""+word+"\" (words such as True or TRUE must stay strings)")
				return true
			}
			ok2, how := e.Prove(ret, e.cond(k, cmp, 0))
			c.ob("C17.R4", key, w.Pos(ret.Pos()), ok2, map[bool]string{true: "the boolean " + word + " only for the exact word \"" + word + "\" (" + how + ")", false: "the boolean " + word + " can be produced for a word other than \"" + word + "\": " + how}[ok2])
		case "NewString":
			s := x.str(call.Args[0])
			c.ob("C17.R4", key, w.Pos(ret.Pos()), s == pS, map[bool]string{true: "every other word stays the verbatim string", false: "a string argument is " + s + ", not the word as written"}[s == pS])
		case "NewNumber":
			// value: ParseFloat of the word, err == nil
			s := x.str(call.Args[0])
			okVal := s == "strconv.ParseFloat("+pS+",64)#0"
			// guard: some pure call on the word that is entailed true here and is a constant regexp match or similar
			guard, gdesc := findNumberGuard(w, cls, param)
			if guard == nil {
				// a condition on the word that this rule cannot evaluate (a hand-written test, inlined): undecided, not a violation
				opaque := ""
				for q := w.parent[ret]; q != nil && q != cls.Node(); q = w.parent[q] {
					is, ok := q.(*ast.IfStmt)
					if !ok {
						continue
					}
					cs := x.str(is.Cond)
					if strings.Contains(cs, pS) && !strings.Contains(cs, "strconv.ParseFloat(") {
						opaque = exprStr(is.Cond)
					}
				}
				if opaque != "" {
					c.undecided("C17.R4", "the number return of "+cls.Name+" ("+w.Pos(ret.Pos())+") is guarded by "+shorten(opaque, 80)+", a test of the word that is not a match against a constant regular expression: it cannot be evaluated on the probe set")
					return true
				}
				c.ob("C17.R4", key, w.Pos(ret.Pos()), false, "a word becomes a number whenever strconv.ParseFloat accepts it (nan, inf, 1e3, 0x10, .5, 5., +1 would be numbers): no syntactic guard on the word")
				return true
			}
			okG, how := e.Prove(ret, e.cond(k, guard, 0))
			c.ob("C17.R4", key, w.Pos(ret.Pos()), okVal && okG, map[bool]string{true: "a number only under the guard " + gdesc + " (" + how + "), with the value ParseFloat gives for the same word", false: "the number return is not dominated by the syntactic guard " + gdesc + " or does not parse the word itself (value: " + s + "): " + how}[okVal && okG])
		default:
			c.ob("C17.R4", key, w.Pos(ret.Pos()), false, "unrecognised constructor "+callee.Name())
		}
		return true
	})
	// the guard's pattern on the probe set
	if guard, _ := findNumberGuard(w, cls, param); guard != nil {
		pat, ok := guardPattern(w, tp.TypesInfo, guard)
		if !ok {
			c.undecided("C17.R4", "the syntactic guard "+exprStr(guard)+" ("+w.Pos(guard.Pos())+") is not a match against a constant regular expression: it cannot be evaluated on the probe set (a hand-written predicate is not interpreted)")
		} else {
			re, err := regexp.Compile(pat)
			if err != nil {
				c.ob("C17.R4", cls.Name+"/guard-pattern", w.Pos(guard.Pos()), false, "the guard's pattern does not compile: "+err.Error())
			} else {
				var wrong []string
				for _, s := range numberAccept {
					if !re.MatchString(s) {
						wrong = append(wrong, "rejects "+s)
					}
				}
				for _, s := range numberReject {
					if re.MatchString(s) {
						wrong = append(wrong, "accepts "+strconvQuote(s))
					}
				}
				c.ob("C17.R4", cls.Name+"/guard-pattern", w.Pos(guard.Pos()), len(wrong) == 0, map[bool]string{true: "pattern " + pat + " accepts the " + itoa(len(numberAccept)) + " decimal probes and rejects the " + itoa(len(numberReject)) + " others", false: "pattern " + pat + " " + strings.Join(wrong, ", ") + " (only optionally negative decimal literals are numbers)"}[len(wrong) == 0])
			}
		}
	}
	// empty words are skipped by the splitter
	var split *Func
	for _, f := range w.FuncsIn(tp) {
		if f.Body == nil {
			continue
		}
		walkNoLit(f.Body, func(n ast.Node) bool {
			if call, ok := n.(*ast.CallExpr); ok {
				if callee := calleeOf(info, call); callee != nil && w.byObj[callee] == cls {
					split = f
					se := w.ent(f)
					// word != ""
					var cmp *ast.BinaryExpr
					walkNoLit(f.Body, func(q ast.Node) bool {
						if b, ok := q.(*ast.BinaryExpr); ok && (b.Op == token.EQL || b.Op == token.NEQ) {
							if cv, ok := info.Types[b.Y]; ok && cv.Value != nil && cv.Value.Kind() == constant.String && constant.StringVal(cv.Value) == "" && exprStr(b.X) == exprStr(call.Args[0]) {
								cmp = b
							}
						}
						return true
					})
					byFields := false
					walkNoLit(f.Body, func(q ast.Node) bool {
						if fc, ok := q.(*ast.CallExpr); ok && fieldsOnSpace(info, fc) {
							byFields = true
						}
						return true
					})
					if cmp == nil && byFields {
						c.ob("C17.R4", f.Name+"/empty-words-skipped", w.Pos(call.Pos()), true, "the words are the fields between runs of spaces (strings.Fields / FieldsFunc on ' '): none is empty")
					} else if cmp == nil {
						c.ob("C17.R4", f.Name+"/empty-words-skipped", w.Pos(call.Pos()), false, "empty words are not skipped: extra spaces between the words of a command would produce empty string arguments")
					} else {
						at := site{pos: call.Pos(), anc: call}
						goal := se.cond(keyCtx{e: se, s: &at}, cmp, 0)
						if cmp.Op == token.EQL {
							goal = Not{goal}
						}
						ok, how := se.Prove(call, goal)
						c.ob("C17.R4", f.Name+"/empty-words-skipped", w.Pos(call.Pos()), ok, map[bool]string{true: "a word is classified only if it is not empty (" + how + ")", false: "an empty word can reach the classifier: " + how}[ok])
					}
				}
			}
			return true
		})
	}
	if split == nil {
		c.undecided("C17.R4", "no caller of the word classifier found")
	} else {
		c.fn(split)
		// every element the splitter builds carries the classifier's verdict on its word: no word is typed by its position
		{
			sx := w.expander(split)
			clsName := cls.Name
			if i := strings.LastIndex(clsName, "."); i >= 0 {
				clsName = clsName[i+1:]
			}
			nEl := 0
			walkNoLit(split.Body, func(n ast.Node) bool {
				cl, ok := n.(*ast.CompositeLit)
				if !ok {
					return true
				}
				tv, ok := info.Types[cl]
				if !ok || !strings.HasSuffix(typeStr(tv.Type), "CommandStatementElement") {
					return true
				}
				nEl++
				ex := litField(cl, "Expression")
				es := ""
				if ex != nil {
					es = sx.str(ex)
				}
				okEl := strings.Contains(es, "."+clsName+"(") || strings.HasPrefix(es, clsName+"(")
				c.ob("C17.R4", split.Name+"/every-word-classified#"+itoa(nEl), w.Pos(cl.Pos()), okEl, map[bool]string{true: "the element's value is the classifier's verdict on the word", false: "an element is built as " + shorten(es, 90) + ", without the word classifier: the type a word is delivered with would depend on where it stands (the text of a command is split once per run of text between its {expressions}), not on what was written"}[okEl])
				return true
			})
		}
		// words come from splitting on a single space
		okSplit := false
		walkNoLit(split.Body, func(n ast.Node) bool {
			if call, ok := n.(*ast.CallExpr); ok {
				if callee := calleeOf(info, call); callee != nil {
					switch funcFullName(callee) {
					case "strings.Split":
						if tv, ok := info.Types[call.Args[1]]; ok && tv.Value != nil && constant.StringVal(tv.Value) == " " {
							okSplit = true
						}
					case "strings.Fields", "strings.FieldsFunc":
						if fieldsOnSpace(info, call) {
							okSplit = true
						}
					}
				}
			}
			return true
		})
		c.ob("C17.R4", split.Name+"/whitespace-separated", w.Pos(split.Decl.Pos()), okSplit, map[bool]string{true: "words are the space-separated pieces of the command text", false: "the command text is not split on spaces"}[okSplit])
	}
}

// fieldsOnSpace: call is strings.Fields(x) or strings.FieldsFunc(x, func(r rune) bool { return r == ' ' }): the pieces between
// (runs of) spaces, none of them empty.
func fieldsOnSpace(info *types.Info, call *ast.CallExpr) bool {
	callee := calleeOf(info, call)
	if callee == nil {
		return false
	}
	switch funcFullName(callee) {
	case "strings.Fields":
		return true
	case "strings.FieldsFunc":
		if len(call.Args) != 2 {
			return false
		}
		lit, ok := unparen(call.Args[1]).(*ast.FuncLit)
		if !ok || len(lit.Body.List) != 1 || lit.Type.Params == nil || len(lit.Type.Params.List) != 1 || len(lit.Type.Params.List[0].Names) != 1 {
			return false
		}
		ret, ok := lit.Body.List[0].(*ast.ReturnStmt)
		if !ok || len(ret.Results) != 1 {
			return false
		}
		b, ok := unparen(ret.Results[0]).(*ast.BinaryExpr)
		if !ok || b.Op != token.EQL {
			return false
		}
		pobj := info.Defs[lit.Type.Params.List[0].Names[0]]
		for _, side := range [][2]ast.Expr{{b.X, b.Y}, {b.Y, b.X}} {
			if id := identOf(side[0]); id != nil && info.Uses[id] == pobj {
				if tv, ok := info.Types[side[1]]; ok && tv.Value != nil {
					if v, ok := constant.Int64Val(constant.ToInt(tv.Value)); ok && v == ' ' {
						return true
					}
				}
			}
		}
	}
	return false
}

func strconvQuote(s string) string { return "\"" + s + "\"" }

// findNumberGuard: a call of the form X.MatchString(param) (or a module predicate on param) in the classifier.
func findNumberGuard(w *World, cls *Func, param *types.Var) (ast.Expr, string) {
	info := cls.Pkg.TypesInfo
	var guard ast.Expr
	desc := ""
	walkNoLit(cls.Body, func(n ast.Node) bool {
		call, ok := n.(*ast.CallExpr)
		if !ok || len(call.Args) != 1 {
			return true
		}
		id := identOf(call.Args[0])
		if id == nil || info.Uses[id] != param {
			return true
		}
		callee := calleeOf(info, call)
		if callee == nil {
			return true
		}
		if funcFullName(callee) == "(*regexp.Regexp).MatchString" {
			guard, desc = call, exprStr(call)
		}
		// a hand-written predicate of the module on the word
		if g := w.byObj[callee]; g != nil && guard == nil && g.Sig().Results().Len() == 1 && typeStr(g.Sig().Results().At(0).Type()) == "bool" {
			guard, desc = call, exprStr(call)
		}
		return true
	})
	return guard, desc
}

// guardPattern: the constant pattern of the regexp the guard matches against (a package-level regexp.MustCompile).
func guardPattern(w *World, info *types.Info, guard ast.Expr) (string, bool) {
	call := guard.(*ast.CallExpr)
	sel, ok := unparen(call.Fun).(*ast.SelectorExpr)
	if !ok {
		return "", false
	}
	id := identOf(sel.X)
	if id == nil {
		return "", false
	}
	obj, ok := info.Uses[id].(*types.Var)
	if !ok {
		return "", false
	}
	// find its declaration
	for _, p := range w.Pkgs {
		for _, file := range p.Syntax {
			var pat string
			found := false
			ast.Inspect(file, func(n ast.Node) bool {
				vs, ok := n.(*ast.ValueSpec)
				if !ok {
					return true
				}
				for i, nm := range vs.Names {
					if p.TypesInfo.Defs[nm] == obj && i < len(vs.Values) {
						if c2, ok := vs.Values[i].(*ast.CallExpr); ok && len(c2.Args) == 1 {
							if callee := calleeOf(p.TypesInfo, c2); callee != nil && (funcFullName(callee) == "regexp.MustCompile" || funcFullName(callee) == "regexp.MustCompilePOSIX") {
								if tv, ok := p.TypesInfo.Types[c2.Args[0]]; ok && tv.Value != nil && tv.Value.Kind() == constant.String {
									pat, found = constant.StringVal(tv.Value), true
								}
							}
						}
					}
				}
				return true
			})
			if found {
				return pat, true
			}
		}
	}
	return "", false
}

func c17R5(c *Ctx) {
	w := c.W
	tp := w.Pkg("internal/tree")
	info := tp.TypesInfo
	// rearrange: the method of *CommandStatement with no parameters/results that assigns Elements
	var f *Func
	for _, g := range w.FuncsIn(tp) {
		if g.Decl == nil || g.Decl.Recv == nil || typeStr(g.Sig().Recv().Type()) != "*tree.CommandStatement" {
			continue
		}
		if g.Sig().Params().Len() == 0 && g.Sig().Results().Len() == 0 {
			f = g
		}
	}
	if f == nil {
		c.undecided("C17.R5", "the re-arranging method of *CommandStatement was not found")
		return
	}
	c.fn(f)
	x := w.expander(f)
	recv := "$" + recvName(f)
	var loop *ast.RangeStmt
	walkNoLit(f.Body, func(n ast.Node) bool {
		if r, ok := n.(*ast.RangeStmt); ok && x.str(r.X) == recv+".Elements" {
			loop = r
		}
		return true
	})
	if loop == nil {
		c.ob("C17.R5", f.Name+"/loop", w.Pos(f.Decl.Pos()), false, "no range loop over the command's elements")
		return
	}
	// events inside one iteration, decided structurally on the loop body with the automaton over the whole function
	elemText := func(e ast.Expr) bool { // element.text
		s := x.str(e)
		return s == recv+".Elements[range].text"
	}
	// the accumulator: the variable that receives += element.text (or WriteString(element.text))
	var accObj types.Object
	accIsBuilder := false
	walkNoLit(loop.Body, func(n ast.Node) bool {
		switch n := n.(type) {
		case *ast.AssignStmt:
			if n.Tok == token.ADD_ASSIGN && len(n.Lhs) == 1 && elemText(n.Rhs[0]) {
				if id := identOf(n.Lhs[0]); id != nil {
					accObj = info.Uses[id]
				}
			}
		case *ast.CallExpr:
			if sel, ok := unparen(n.Fun).(*ast.SelectorExpr); ok && sel.Sel.Name == "WriteString" && len(n.Args) == 1 && elemText(n.Args[0]) {
				if id := identOf(sel.X); id != nil {
					accObj = info.Uses[id]
					accIsBuilder = true
				}
			}
		}
		return true
	})
	if accObj == nil {
		c.ob("C17.R5", f.Name+"/accumulate", w.Pos(loop.Pos()), false, "text elements are not accumulated: the words of a command would be lost")
		return
	}
	c.ob("C17.R5", f.Name+"/accumulate", w.Pos(loop.Pos()), true, "text elements are appended to the accumulator "+accObj.Name())
	isAcc := func(e ast.Expr) bool {
		id := identOf(e)
		return id != nil && info.Uses[id] == accObj
	}
	usesAcc := func(n ast.Node) bool {
		found := false
		ast.Inspect(n, func(q ast.Node) bool {
			if id, ok := q.(*ast.Ident); ok && info.Uses[id] == accObj {
				found = true
			}
			return true
		})
		return found
	}
	// automaton over the loop: FLUSH (append of split(acc)), RESET (acc = "" / acc.Reset()), ACC, KEEP (append of the element)
	r := evtRule{
		start: "clean",
		prim: func(n ast.Node) []string {
			switch n := n.(type) {
			case *ast.AssignStmt:
				if n.Tok == token.ADD_ASSIGN && len(n.Lhs) == 1 && isAcc(n.Lhs[0]) {
					return []string{"ACC"}
				}
				if n.Tok == token.ASSIGN && len(n.Lhs) == 1 && isAcc(n.Lhs[0]) {
					if tv, ok := info.Types[n.Rhs[0]]; ok && tv.Value != nil && tv.Value.Kind() == constant.String && constant.StringVal(tv.Value) == "" {
						return []string{"RESET"}
					}
					return []string{"ACC"}
				}
			case *ast.CallExpr:
				if sel, ok := unparen(n.Fun).(*ast.SelectorExpr); ok && isAcc(sel.X) {
					switch sel.Sel.Name {
					case "WriteString", "WriteRune", "WriteByte":
						return []string{"ACC"}
					case "Reset":
						return []string{"RESET"}
					}
				}
				if isBuiltin(info, n, "append") && len(n.Args) >= 2 {
					for _, a := range n.Args[1:] {
						if usesAcc(a) {
							// a flush that happens only in the last iteration (every enclosing condition up to the loop
							// includes the conjunct `key == len(elements)-1`): nothing of the loop runs after it
							for q := w.parent[ast.Node(n)]; q != nil && q != ast.Node(loop); q = w.parent[q] {
								is, ok := q.(*ast.IfStmt)
								if !ok {
									continue
								}
								var conj []ast.Expr
								var split func(e ast.Expr)
								split = func(e ast.Expr) {
									if b, ok := unparen(e).(*ast.BinaryExpr); ok && b.Op == token.LAND {
										split(b.X)
										split(b.Y)
										return
									}
									conj = append(conj, unparen(e))
								}
								split(is.Cond)
								inBody := false
								for p2 := ast.Node(n); p2 != nil && p2 != ast.Node(is); p2 = w.parent[p2] {
									if p2 == ast.Node(is.Body) {
										inBody = true
									}
								}
								for _, d := range conj {
									if b, ok := d.(*ast.BinaryExpr); ok && b.Op == token.EQL && inBody {
										kid := identOf(loop.Key)
										if id := identOf(b.X); id != nil && kid != nil && info.Uses[id] == info.Defs[kid] && x.str(b.Y) == "(len("+recv+".Elements)-1)" {
											return []string{"FLUSHLAST"}
										}
									}
								}
							}
							return []string{"FLUSH"}
						}
					}
					if len(n.Args) == 2 && x.str(n.Args[1]) == recv+".Elements[range]" {
						return []string{"KEEP"}
					}
				}
			case *pseudo:
				if n.kind == "BACKEDGE" && n.stmt == ast.Node(loop) {
					return []string{"NEXT"}
				}
			}
			return nil
		},
		step: func(st, ev string) string {
			switch ev {
			case "ACC":
				return "dirty"
			case "FLUSH":
				if st == "dirty" || st == "clean" {
					return "flushed"
				}
			case "RESET":
				return "clean"
			}
			return ""
		},
		bad: func(st, ev string) string {
			if ev == "ACC" && st == "dirty" {
				return ""
			}
			return ""
		},
	}
	// "flushed" followed by another ACC without RESET means the flushed text is emitted again
	r.step = func(st, ev string) string {
		if st == "final" {
			return ""
		}
		switch ev {
		case "FLUSHLAST":
			if st == "stale" {
				return "stale-flushed"
			}
			return "final"
		case "ACC":
			if st == "flushed" || st == "stale" {
				return "stale"
			}
			return "dirty"
		case "FLUSH":
			if st == "stale" {
				return "stale-flushed"
			}
			return "flushed"
		case "RESET":
			return "clean"
		}
		return ""
	}
	r.bad = func(st, ev string) string {
		if st == "final" {
			return ""
		}
		if ev == "KEEP" && (st == "dirty" || st == "stale") {
			return "an expression element is kept while the text before it has not been flushed: the arguments would be reordered"
		}
		if st == "stale-flushed" && ev == "FLUSH" {
			return "text that was already flushed is flushed again (the accumulator is not reset after a flush): the command's name and leading words would be repeated in its arguments"
		}
		return ""
	}
	_ = accIsBuilder
	// the text accumulated at the end is flushed: a flush after the loop, or a flush condition with the disjunct
	// `loop index == len(elements)-1`
	lastFlush := false
	walkNoLit(f.Body, func(n ast.Node) bool {
		call, ok := n.(*ast.CallExpr)
		if !ok || !isBuiltin(info, call, "append") || len(call.Args) < 2 {
			return true
		}
		flush := false
		for _, a := range call.Args[1:] {
			if usesAcc(a) {
				flush = true
			}
		}
		if !flush {
			return true
		}
		if call.Pos() > loop.End() {
			lastFlush = true
			return true
		}
		for q := w.parent[call]; q != nil && q != ast.Node(loop); q = w.parent[q] {
			is, ok := q.(*ast.IfStmt)
			if !ok {
				continue
			}
			var disj []ast.Expr
			var split func(e ast.Expr)
			split = func(e ast.Expr) {
				if b, ok := unparen(e).(*ast.BinaryExpr); ok && b.Op == token.LOR {
					split(b.X)
					split(b.Y)
					return
				}
				disj = append(disj, unparen(e))
			}
			split(is.Cond)
			for _, d := range disj {
				if b, ok := d.(*ast.BinaryExpr); ok && b.Op == token.EQL {
					kid := identOf(loop.Key)
					if id := identOf(b.X); id != nil && kid != nil && info.Uses[id] == info.Defs[kid] {
						if x.str(b.Y) == "(len("+recv+".Elements)-1)" {
							lastFlush = true
						}
					}
				}
			}
		}
		return true
	})
	c.ob("C17.R5", f.Name+"/last-words-flushed", w.Pos(loop.Pos()), lastFlush, map[bool]string{true: "the accumulated text is flushed at the last element (or after the loop)", false: "nothing flushes the text accumulated when the last element is reached: the last words of a command would be lost"}[lastFlush])
	fs := runEVT(w, f, r)
	if len(fs) == 0 {
		c.ob("C17.R5", f.Name+"/flush-and-reset", w.Pos(loop.Pos()), true, "accumulated text is flushed before the function ends and the accumulator is reset after every flush")
	}
	for i, fd := range fs {
		c.ob("C17.R5", f.Name+"/flush-and-reset#"+itoa(i+1), w.Pos(fd.pos), false, fd.msg)
	}
	// expression elements are kept, after a flush, in the same iteration
	e := w.ent(f)
	kept := 0
	walkNoLit(loop.Body, func(n ast.Node) bool {
		call, ok := n.(*ast.CallExpr)
		if !ok || !isBuiltin(info, call, "append") || len(call.Args) != 2 {
			return true
		}
		if x.str(call.Args[1]) == recv+".Elements[range]" {
			kept++
		}
		return true
	})
	c.ob("C17.R5", f.Name+"/expressions-kept", w.Pos(loop.Pos()), kept == 1, map[bool]string{true: "a non-text element is appended once per iteration", false: itoa(kept) + " appends of the element itself in the loop (want exactly one: expression elements must be kept, once)"}[kept == 1])
	_ = e
	// the result replaces Elements
	okAssign := false
	walkNoLit(f.Body, func(n ast.Node) bool {
		if as, ok := n.(*ast.AssignStmt); ok && len(as.Lhs) == 1 && x.str(as.Lhs[0]) == recv+".Elements" && as.Pos() > loop.End() {
			okAssign = true
		}
		return true
	})
	c.ob("C17.R5", f.Name+"/result-installed", w.Pos(f.Decl.Pos()), okAssign, map[bool]string{true: "the re-arranged list replaces the command's elements after the loop", false: "the re-arranged list is not installed"}[okAssign])
}
