package main

// c16.go — C16: converted host functions/commands: accepted means callable without panics.

import (
	"go/ast"
	"go/constant"
	"go/token"
	"go/types"
	"sort"
	"strings"
)

func init() {
	registry["C16"] = &propCheck{
		meta: propMeta{
			Level: "other",
			Explanation: "Decides the agreement between the registration gate and the reflection bridge: (R1) every use of reflect.TypeOf's result is entailed non-nil and of kind Func before methods that need it; (R2) every reflect.Value appended to the argument list of the handler call is Convert-ed to the declared parameter type at the same index (or the variadic element type); " +
				"(R3) the kind tables agree: each parameter kind the bridge accepts has a converter that tests and reads the value alternative of that kind's category, no accepted kind lies outside the three categories, and every result kind the gate accepts is handled by the kind-based result converter; " +
				"(R4) each outputParameters[k] is evaluated only under return signatures the gate produces for NumOut > k; (R5) argument-count and index guards entail every index, converter slices are filled by the identical counted loop; (R6) the bridge closure is returned only after both gates succeeded; " +
				"(R7) reflect accessors with kind preconditions (Float, Int, Bool, IsNil, …) are entailed by the matching Can*/Kind guard or by a return signature the gate grants only for such kinds.",
			NotDecided:  "numeric fidelity of the conversions (Go conversion semantics); behaviour of the host function itself",
			Assumptions: []string{"A1", "A4 (reflect.Value.Call returns NumOut values; Convert between values of one kind category never panics)", "A6"},
			Trusted:     []string{"go/types", "golang.org/x/tools/go/cfg", "go/packages loader", "the table of reflect accessor preconditions"},
		},
		run: checkC16,
	}
}

var kindCategory = map[string]string{
	"Int": "Number", "Int8": "Number", "Int16": "Number", "Int32": "Number", "Int64": "Number",
	"Uint": "Number", "Uint8": "Number", "Uint16": "Number", "Uint32": "Number", "Uint64": "Number",
	"Float32": "Number", "Float64": "Number", "Bool": "Boolean", "String": "String",
}

// kinds covered by a reflect.Value capability test
var canCovers = map[string][]string{
	"CanInt":   {"Int", "Int8", "Int16", "Int32", "Int64"},
	"CanUint":  {"Uint", "Uint8", "Uint16", "Uint32", "Uint64", "Uintptr"},
	"CanFloat": {"Float32", "Float64"},
}

// reflect.Value accessors with a kind precondition -> the guard that establishes it
var accessorNeeds = map[string]string{
	"Float": "CanFloat", "Int": "CanInt", "Uint": "CanUint", "Bool": "Kind==Bool", "IsNil": "nillable", "Len": "Kind==sized", "Elem": "Kind==Interface|Pointer",
	"Complex": "CanComplex", "Bytes": "Kind==Slice", "MapKeys": "Kind==Map", "NumField": "Kind==Struct", "Field": "Kind==Struct",
	// Type panics on the zero Value, which is what reflect.ValueOf(nil) returns
	"Type": "IsValid",
}

func reflectKindName(info *types.Info, e ast.Expr) string {
	if sel, ok := unparen(e).(*ast.SelectorExpr); ok {
		if obj, ok := info.Uses[sel.Sel].(*types.Const); ok && obj.Pkg() != nil && obj.Pkg().Path() == "reflect" {
			return obj.Name()
		}
	}
	return ""
}

func checkC16(c *Ctx) {
	w := c.W
	wGlobal = w
	c.rule("C16.R1", "every method call on (and every hand-over of) the result of reflect.TypeOf is entailed by a nil test of that result; functions that need a Func type receive it only under Kind() == reflect.Func", 6)
	c.rule("C16.R2", "every value appended to the handler's argument list is <converted value>.Convert(T) with T the declared parameter type at the same index (variadic tail: its element type)", 3)
	c.rule("C16.R3", "kind tables agree: every key of the argument-converter table is a kind of the Number/Boolean/String categories and its converter tests and reads that category's alternative; every result kind the gate accepts is covered by the kind-based result converter", 12)
	c.rule("C16.R4", "outputParameters[k] is evaluated only under return signatures that the gate produces for NumOut > k", 5)
	c.rule("C16.R5", "indices into the argument and converter slices are entailed by the length guards / filled by the identical counted loop; converters test the alternative before dereferencing it", 12)
	c.rule("C16.R6", "the bridging closure is returned only on paths where the output gate and the input-converter construction both succeeded", 2)
	c.rule("C16.R8", "registration reaches the table: every public function-registration call that returns without error has stored the (converted) function once in the dispatch table under the given name; nothing is stored when it fails", 2)
	c.rule("C16.R9", "a nil function value is refused: each bridge constructor returns its closure only under a failed reflect.ValueOf(<argument>).IsNil() test (a typed nil has a non-nil Func type and passes the type gate; reflect.Value.Call panics on it)", 2)
	c.rule("C16.R7", "reflect accessors with kind preconditions are entailed by the matching Can*/Kind test, or by a return signature the gate grants only to such kinds", 4)
	p := w.Pkg("")
	info := p.TypesInfo
	// bridge constructors: func(any) (YarnSpinnerFunction|YarnSpinnerCommand, error)
	var ctors []*Func
	for _, f := range w.FuncsIn(p) {
		if f.Decl == nil || f.Decl.Recv != nil {
			continue
		}
		sig := f.Sig()
		if sig.Params().Len() == 1 && sig.Results().Len() == 2 {
			if _, isIface := sig.Params().At(0).Type().Underlying().(*types.Interface); isIface {
				rt := typeStr(sig.Results().At(0).Type())
				if rt == "ysgo.YarnSpinnerFunction" || rt == "ysgo.YarnSpinnerCommand" {
					ctors = append(ctors, f)
				}
			}
		}
	}
	if len(ctors) != 2 {
		c.undecided("C16.R1", "expected two bridge constructors (function, command), found "+itoa(len(ctors)))
		return
	}
	sort.Slice(ctors, func(i, j int) bool { return ctors[i].Name < ctors[j].Name })

	for _, ctor := range ctors {
		c.fn(ctor)
		c16Ctor(c, ctor)
	}
	checkRegistration(c, "C16.R8", "function", 2)
	c16Converters(c)
	c16KindTables(c, ctors)
	c16Accessors(c, ctors)
	c16ChanAgreement(c, ctors)
	_ = info
}

func c16Ctor(c *Ctx, ctor *Func) {
	w := c.W
	info := ctor.Pkg.TypesInfo
	x := w.expander(ctor)
	e := w.ent(ctor)
	param := "$" + ctor.Sig().Params().At(0).Name()
	typeOf := "reflect.TypeOf(" + param + ")"
	// ----- R1
	var kindCmp *ast.BinaryExpr
	walkNoLit(ctor.Body, func(n ast.Node) bool {
		if b, ok := n.(*ast.BinaryExpr); ok && (b.Op == token.NEQ || b.Op == token.EQL) && reflectKindName(info, b.Y) == "Func" {
			if call, ok := unparen(b.X).(*ast.CallExpr); ok {
				if sel, ok := unparen(call.Fun).(*ast.SelectorExpr); ok && sel.Sel.Name == "Kind" && x.str(sel.X) == typeOf {
					kindCmp = b
				}
			}
		}
		return true
	})
	n1 := 0
	ast.Inspect(ctor.Body, func(n ast.Node) bool {
		call, ok := n.(*ast.CallExpr)
		if !ok {
			return true
		}
		// (a) method call on the TypeOf result
		if sel, ok := unparen(call.Fun).(*ast.SelectorExpr); ok {
			if _, isMethod := info.Selections[sel]; isMethod && x.str(sel.X) == typeOf {
				n1++
				at := site{pos: call.Pos(), anc: call}
				ok, how := e.Prove(call, e.nn(keyCtx{e: e, s: &at}, sel.X))
				c.ob("C16.R1", ctor.Name+"/"+sel.Sel.Name+"()#"+itoa(n1), w.Pos(call.Pos()), ok, map[bool]string{true: "the type is entailed non-nil (" + how + ")", false: "a method is called on reflect.TypeOf's result without a nil test: registering nil (whose type is nil) panics instead of being refused: " + how}[ok])
			}
		}
		// (b) handed over to a module function
		if callee := calleeOf(info, call); callee != nil && w.byObj[callee] != nil {
			for _, a := range call.Args {
				if x.str(a) == typeOf {
					n1++
					at := site{pos: call.Pos(), anc: call}
					k := keyCtx{e: e, s: &at}
					ok, how := e.Prove(call, e.nn(k, a))
					okK, howK := false, "the constructor never compares Kind() with reflect.Func"
					if kindCmp != nil {
						goal := e.cond(k, kindCmp, 0)
						if kindCmp.Op == token.NEQ {
							goal = Not{goal}
						}
						okK, howK = e.Prove(call, goal)
					}
					c.ob("C16.R1", ctor.Name+"/hand-over to "+callee.Name()+"#"+itoa(n1), w.Pos(call.Pos()), ok && okK, map[bool]string{true: "the type handed to " + callee.Name() + " is entailed non-nil and of kind Func", false: "the type handed to " + callee.Name() + " (which calls NumIn/NumOut/In/Out on it) is not entailed to be a non-nil function type: nil " + how + "; kind " + howK}[ok && okK])
				}
			}
		}
		return true
	})
	if n1 == 0 {
		c.undecided("C16.R1", "no use of reflect.TypeOf's result found in "+ctor.Name)
	}
	// ----- R6
	var gateErrs []Formula
	var descs []string
	walkNoLit(ctor.Body, func(n ast.Node) bool {
		as, ok := n.(*ast.AssignStmt)
		if !ok || len(as.Lhs) != 2 || len(as.Rhs) != 1 {
			return true
		}
		call, ok := as.Rhs[0].(*ast.CallExpr)
		if !ok {
			return true
		}
		callee := calleeOf(info, call)
		if callee == nil || w.byObj[callee] == nil {
			return true
		}
		errID := identOf(as.Lhs[1])
		if errID == nil || errID.Name == "_" {
			c.ob("C16.R6", ctor.Name+"/"+callee.Name()+"-error-dropped", w.Pos(as.Pos()), false, "the error of "+callee.Name()+" is discarded: an unsupported signature would be registered")
			return true
		}
		after := site{pos: as.End(), anc: w.parent[as]}
		gateErrs = append(gateErrs, Not{e.nn(keyCtx{e: e, s: &after}, errID)})
		descs = append(descs, callee.Name())
		return true
	})
	nRet := 0
	walkNoLit(ctor.Body, func(n ast.Node) bool {
		ret, ok := n.(*ast.ReturnStmt)
		if !ok || len(ret.Results) != 2 {
			return true
		}
		if _, isLit := unparen(ret.Results[0]).(*ast.FuncLit); !isLit {
			return true
		}
		nRet++
		okAll := len(gateErrs) >= 2
		how := itoa(len(gateErrs)) + " gate calls found (want the output gate and the input-converter construction)"
		if okAll {
			for i, g := range gateErrs {
				ok, h := e.Prove(ret, g)
				if !ok {
					okAll = false
					how = "the closure can be returned although " + descs[i] + " failed: " + h
				}
			}
			if okAll {
				how = "entailed: " + strings.Join(descs, " and ") + " returned no error"
			}
		}
		c.ob("C16.R6", ctor.Name+"/closure-after-gates", w.Pos(ret.Pos()), okAll, how)
		return true
	})
	if nRet == 0 {
		c.ob("C16.R6", ctor.Name+"/closure-after-gates", w.Pos(ctor.Decl.Pos()), false, "the constructor returns no bridging closure")
	}
	// ----- R9: a nil function value (a typed nil: var f func(int) int) has a non-nil Func type; calling it panics
	valueOf := "reflect.ValueOf(" + param + ")"
	var isNilCalls []*ast.CallExpr
	walkNoLit(ctor.Body, func(n ast.Node) bool {
		if call, ok := n.(*ast.CallExpr); ok && len(call.Args) == 0 {
			if sel, ok := unparen(call.Fun).(*ast.SelectorExpr); ok && sel.Sel.Name == "IsNil" && x.str(sel.X) == valueOf {
				isNilCalls = append(isNilCalls, call)
			}
		}
		return true
	})
	walkNoLit(ctor.Body, func(n ast.Node) bool {
		ret, ok := n.(*ast.ReturnStmt)
		if !ok || len(ret.Results) != 2 {
			return true
		}
		if _, isLit := unparen(ret.Results[0]).(*ast.FuncLit); !isLit {
			return true
		}
		okNil, how := false, "the constructor never tests reflect.ValueOf("+param[1:]+").IsNil()"
		at := site{pos: ret.Pos(), anc: ret}
		for _, call := range isNilCalls {
			if ok, h := e.Prove(ret, Not{e.cond(keyCtx{e: e, s: &at}, call, 0)}); ok {
				okNil, how = true, h
			} else {
				how = h
			}
		}
		c.ob("C16.R9", ctor.Name+"/nil-function-value-refused", w.Pos(ret.Pos()), okNil, map[bool]string{true: "the bridging closure is returned only for a function value that is not nil (" + how + ")", false: "the bridging closure can be returned for a nil function value (var f func(int) int has a non-nil Func type): the registration succeeds and every script-side call panics in reflect.Value.Call: " + how}[okNil])
		return true
	})
	// ----- R4: outputParameters[k]
	gate, sigObj := gateOf(w, ctor)
	if gate == nil {
		c.undecided("C16.R4", "output gate of "+ctor.Name+" not resolved")
		return
	}
	c.fn(gate)
	numOutOf := gateNumOut(w, gate) // signature constant -> set of NumOut values under which it is returned
	uses := map[gateUse]token.Pos{}
	for _, lit := range w.Lits(ctor) {
		le := w.ent(lit)
		ast.Inspect(lit.Body, func(n ast.Node) bool {
			ix, ok := n.(*ast.IndexExpr)
			if !ok {
				return true
			}
			tv, ok := info.Types[ix.X]
			if !ok || typeStr(tv.Type) != "[]reflect.Value" {
				return true
			}
			// only results of Call
			lx := w.expander(lit)
			if !strings.Contains(lx.str(ix.X), ".Call(") {
				return true
			}
			kv, ok := info.Types[ix.Index]
			if !ok || kv.Value == nil {
				c.ob("C16.R4", lit.Name+"/"+exprStr(ix), w.Pos(ix.Pos()), false, "a result is indexed by a non-constant")
				return true
			}
			k, _ := constant.Int64Val(kv.Value)
			// which signature constants are possible here?
			// any mention of the signature variable will do to name it (it is tested where the closure is built as
			// well as inside it; facts of the creation point hold inside for variables never assigned afterwards)
			var sigUse ast.Expr
			ast.Inspect(ctor.Body, func(q ast.Node) bool {
				if id, ok := q.(*ast.Ident); ok && info.Uses[id] == sigObj && sigUse == nil {
					sigUse = id
				}
				return true
			})
			okIx := false
			why := "the return signature is not inspected"
			if sigUse != nil {
				at := site{pos: ix.Pos(), anc: ix}
				kc := keyCtx{e: le, s: &at}
				// possible = constants c such that facts do not exclude sig == c ; require NumOut(c) > k for all of them
				var possible []string
				okIx = true
				for cv, name := range numOutOf.names {
					if excl, _ := le.Prove(ix, Not{le.intEq(kc, sigUse, cv)}); excl {
						continue
					}
					possible = append(possible, name)
					for _, n := range numOutOf.numOut[cv] {
						if n <= k {
							okIx = false
							why = "reachable under return signature " + name + ", which the gate produces for functions with " + itoa(int(n)) + " result(s): index " + itoa(int(k)) + " is out of range"
						}
					}
				}
				sort.Strings(possible)
				if okIx {
					why = "evaluated only under {" + strings.Join(possible, ", ") + "}, produced by the gate for NumOut > " + itoa(int(k))
				}
			}
			c.ob("C16.R4", lit.Name+"/"+exprStr(ix), w.Pos(ix.Pos()), okIx, why)
			// how the bridge uses this result under those signatures -> what the gate must have tested
			usage := ""
			switch par := w.parent[ix].(type) {
			case *ast.CallExpr:
				if callee := calleeOf(info, par); callee != nil && w.byObj[callee] != nil {
					usage = "value"
					// a helper that turns the result into the error to report uses it as an error
					if rs := w.byObj[callee].Sig().Results(); rs.Len() == 1 && typeStr(rs.At(0).Type()) == "error" {
						usage = "error"
					}
				}
			case *ast.SelectorExpr:
				switch par.Sel.Name {
				case "Interface":
					usage = "error"
				case "IsNil":
					usage = "chan"
				}
			}
			if usage != "" && sigUse != nil {
				at := site{pos: ix.Pos(), anc: ix}
				kc := keyCtx{e: le, s: &at}
				for cv := range numOutOf.names {
					if excl, _ := le.Prove(ix, Not{le.intEq(kc, sigUse, cv)}); excl {
						continue
					}
					u := usage
					if usage == "error" {
						if _, _, chanConst, ok := commandGate(w, ctor); ok && cv == chanConst {
							u = "chan"
						}
					}
					uses[gateUse{cv, k, u}] = ix.Pos()
				}
			}
			return true
		})
	}
	// the gate: each signature constant is returned only after the type tests its uses need
	ge := w.ent(gate)
	gx := w.expander(gate)
	tparam := "$" + gate.Sig().Params().At(0).Name()
	var keys []gateUse
	for u := range uses {
		keys = append(keys, u)
	}
	sort.Slice(keys, func(i, j int) bool {
		if keys[i].c != keys[j].c {
			return keys[i].c < keys[j].c
		}
		if keys[i].k != keys[j].k {
			return keys[i].k < keys[j].k
		}
		return keys[i].usage < keys[j].usage
	})
	for _, u := range keys {
		name := numOutOf.names[u.c]
		outK := tparam + ".Out(" + itoa(int(u.k)) + ")"
		// candidate test calls in the gate on Out(k)
		var tests []ast.Expr
		walkNoLit(gate.Body, func(n ast.Node) bool {
			call, ok := n.(*ast.CallExpr)
			if !ok {
				return true
			}
			switch u.usage {
			case "value", "chan":
				if callee := calleeOf(info, call); callee != nil && len(call.Args) == 1 && gx.str(call.Args[0]) == outK {
					if g := w.byObj[callee]; g != nil && typeStr(g.Sig().Results().At(0).Type()) == "bool" {
						isChanPred := mentionsChanKind(g)
						if (u.usage == "chan") == isChanPred {
							tests = append(tests, call)
						}
					}
				}
			case "error":
				if sel, ok := unparen(call.Fun).(*ast.SelectorExpr); ok && (sel.Sel.Name == "ConvertibleTo" || sel.Sel.Name == "Implements" || sel.Sel.Name == "AssignableTo") && gx.str(sel.X) == outK {
					tests = append(tests, call)
				}
			}
			return true
		})
		walkNoLit(gate.Body, func(n ast.Node) bool {
			ret, ok := n.(*ast.ReturnStmt)
			if !ok || len(ret.Results) != 2 || !isNilExpr(info, ret.Results[1]) {
				return true
			}
			tv, ok := info.Types[ret.Results[0]]
			if !ok || tv.Value == nil {
				return true
			}
			if cv, _ := constant.Int64Val(tv.Value); cv != u.c {
				return true
			}
			proved, how := false, "the gate performs no "+u.usage+"-type test on result "+itoa(int(u.k))
			for _, t := range tests {
				at := site{pos: ret.Pos(), anc: ret}
				// the test's verdict kept in a boolean local assigned once: the local is what the path tests
				if as, ok := w.parent[t].(*ast.AssignStmt); ok && len(as.Lhs) == 1 && len(as.Rhs) == 1 && as.Rhs[0] == t {
					if id := identOf(as.Lhs[0]); id != nil {
						if obj := info.Defs[id]; obj != nil && len(ge.assigns[obj]) == 1 {
							use := &ast.Ident{NamePos: id.Pos(), Name: id.Name}
							info.Uses[use] = obj
							if ok, h := ge.Prove(ret, ge.cond(keyCtx{e: ge, s: &at}, use, 0)); ok {
								proved, how = true, "entailed by "+exprStr(t)+", kept in "+id.Name+" ("+h+")"
								break
							}
						}
					}
				}
				if ok, h := ge.Prove(ret, ge.cond(keyCtx{e: ge, s: &at}, t, 0)); ok {
					proved, how = true, "entailed by "+exprStr(t)+" ("+h+")"
					break
				} else {
					how = "not entailed by " + exprStr(t) + ": " + h
				}
			}
			c.ob("C16.R4", gate.Name+"/"+name+" needs "+u.usage+"-typed result "+itoa(int(u.k)), w.Pos(ret.Pos()), proved, map[bool]string{true: "signature " + name + " is granted only when result " + itoa(int(u.k)) + " passed the " + u.usage + " test: " + how, false: "signature " + name + " is granted although result " + itoa(int(u.k)) + " (used by the bridge as " + u.usage + ") was not tested: a signature that cannot be bridged is accepted at registration (" + how + ")"}[proved])
			return true
		})
	}
}

type gateUse struct {
	c, k  int64
	usage string
}

// gateOf: the output gate called by a bridge constructor and the variable holding its result.
func gateOf(w *World, ctor *Func) (*Func, types.Object) {
	info := ctor.Pkg.TypesInfo
	var gate *Func
	var sigObj types.Object
	walkNoLit(ctor.Body, func(n ast.Node) bool {
		as, ok := n.(*ast.AssignStmt)
		if !ok || len(as.Rhs) != 1 {
			return true
		}
		call, ok := as.Rhs[0].(*ast.CallExpr)
		if !ok {
			return true
		}
		if callee := calleeOf(info, call); callee != nil {
			if g := w.byObj[callee]; g != nil && isOutputGate(g) {
				gate = g
				if id := identOf(as.Lhs[0]); id != nil {
					sigObj = info.Defs[id]
				}
			}
		}
		return true
	})
	return gate, sigObj
}

type gateTable struct {
	names  map[int64]string
	numOut map[int64][]int64
}

// gateNumOut: for each signature constant the gate returns with a nil error, the NumOut case(s) it is returned under.
func gateNumOut(w *World, gate *Func) gateTable {
	info := gate.Pkg.TypesInfo
	t := gateTable{names: map[int64]string{}, numOut: map[int64][]int64{}}
	walkNoLit(gate.Body, func(n ast.Node) bool {
		ret, ok := n.(*ast.ReturnStmt)
		if !ok || len(ret.Results) != 2 || !isNilExpr(info, ret.Results[1]) {
			return true
		}
		tv, ok := info.Types[ret.Results[0]]
		if !ok || tv.Value == nil {
			return true
		}
		cv, _ := constant.Int64Val(tv.Value)
		t.names[cv] = exprStr(ret.Results[0])
		// enclosing case of a switch over NumOut()
		for q := w.parent[ret]; q != nil && q != gate.Node(); q = w.parent[q] {
			cc, ok := q.(*ast.CaseClause)
			if !ok {
				continue
			}
			sw, ok := w.parent[w.parent[cc]].(*ast.SwitchStmt)
			if !ok || sw.Tag == nil {
				continue
			}
			if call, ok := unparen(sw.Tag).(*ast.CallExpr); ok {
				if sel, ok := unparen(call.Fun).(*ast.SelectorExpr); ok && sel.Sel.Name == "NumOut" {
					for _, x := range cc.List {
						if kv, ok := info.Types[x]; ok && kv.Value != nil {
							n, _ := constant.Int64Val(kv.Value)
							t.numOut[cv] = append(t.numOut[cv], n)
						}
					}
					if cc.List == nil {
						t.numOut[cv] = append(t.numOut[cv], -1) // default: unknown count
					}
				}
			}
		}
		if len(t.numOut[cv]) == 0 {
			// not a case of a switch over NumOut(): ask the entailment engine which count holds at the return
			// (if chains, guard clauses, a local holding NumOut())
			e := w.ent(gate)
			x := w.expander(gate)
			var cands []ast.Expr
			walkNoLit(gate.Body, func(q ast.Node) bool {
				switch y := q.(type) {
				case *ast.CallExpr:
					if sel, ok := unparen(y.Fun).(*ast.SelectorExpr); ok && sel.Sel.Name == "NumOut" && len(y.Args) == 0 {
						cands = append(cands, y)
					}
				case *ast.Ident:
					if v, ok := info.Uses[y].(*types.Var); ok && !v.IsField() {
						if rhs, idx, _, ok := x.def(v); ok && rhs != nil && idx < 0 {
							if c2, ok := unparen(rhs).(*ast.CallExpr); ok {
								if sel, ok := unparen(c2.Fun).(*ast.SelectorExpr); ok && sel.Sel.Name == "NumOut" {
									cands = append(cands, y)
								}
							}
						}
					}
				}
				return true
			})
			at := site{pos: ret.Pos(), anc: ret}
			kc := keyCtx{e: e, s: &at}
			for k := int64(0); k <= 4 && len(t.numOut[cv]) == 0; k++ {
				for _, cand := range cands {
					if ok, _ := e.Prove(ret, e.intEq(kc, cand, k)); ok {
						t.numOut[cv] = append(t.numOut[cv], k)
						break
					}
				}
			}
		}
		if len(t.numOut[cv]) == 0 {
			// by elimination: NumOut() is one of 0, 1, 2, … ; if the path refutes every count up to 8 but one, and refutes
			// "greater than" that one through a count test of the form n > c / n >= c, that one holds
			e := w.ent(gate)
			x := w.expander(gate)
			at := site{pos: ret.Pos(), anc: ret}
			kc := keyCtx{e: e, s: &at}
			var cands []ast.Expr
			walkNoLit(gate.Body, func(q ast.Node) bool {
				switch y := q.(type) {
				case *ast.CallExpr:
					if sel, ok := unparen(y.Fun).(*ast.SelectorExpr); ok && sel.Sel.Name == "NumOut" && len(y.Args) == 0 {
						cands = append(cands, y)
					}
				case *ast.Ident:
					if v, ok := info.Uses[y].(*types.Var); ok && !v.IsField() {
						if rhs, idx, _, ok := x.def(v); ok && rhs != nil && idx < 0 {
							if c2, ok := unparen(rhs).(*ast.CallExpr); ok {
								if sel, ok := unparen(c2.Fun).(*ast.SelectorExpr); ok && sel.Sel.Name == "NumOut" {
									cands = append(cands, y)
								}
							}
						}
					}
				}
				return true
			})
			for _, cand := range cands {
				var possible []int64
				for k := int64(0); k <= 8; k++ {
					if ok, _ := e.Prove(ret, Not{e.intEq(kc, cand, k)}); !ok {
						possible = append(possible, k)
					}
				}
				// an upper bound test refuted on the path: some comparison cand > c (or >= c+1) entailed false
				bounded := int64(-1)
				walkNoLit(gate.Body, func(q ast.Node) bool {
					b, ok := q.(*ast.BinaryExpr)
					if !ok || (b.Op != token.GTR && b.Op != token.GEQ) || exprStr(b.X) != exprStr(cand) {
						return true
					}
					tv, ok := info.Types[b.Y]
					if !ok || tv.Value == nil {
						return true
					}
					cst, _ := constant.Int64Val(tv.Value)
					if b.Op == token.GEQ {
						cst--
					}
					if ok, _ := e.Prove(ret, Not{e.cond(kc, b, 0)}); ok && (bounded < 0 || cst < bounded) {
						bounded = cst // cand <= cst
					}
					return true
				})
				if bounded >= 0 {
					var within []int64
					for _, k := range possible {
						if k <= bounded {
							within = append(within, k)
						}
					}
					if len(within) == 1 {
						t.numOut[cv] = append(t.numOut[cv], within[0])
						break
					}
				}
			}
		}
		if len(t.numOut[cv]) == 0 {
			t.numOut[cv] = append(t.numOut[cv], -1)
		}
		return true
	})
	return t
}

// ---------- input converters: R2, R5 ----------

func c16Converters(c *Ctx) {
	w := c.W
	p := w.Pkg("")
	info := p.TypesInfo
	// constructors of input converters: func(reflect.Type) (func([]*Value) ([]reflect.Value, error), error)
	var makers []*Func
	for _, f := range w.FuncsIn(p) {
		if f.Decl == nil || f.Decl.Recv != nil {
			continue
		}
		sig := f.Sig()
		if sig.Params().Len() == 1 && typeStr(sig.Params().At(0).Type()) == "reflect.Type" && sig.Results().Len() == 2 {
			if _, isFn := sig.Results().At(0).Type().Underlying().(*types.Signature); isFn {
				makers = append(makers, f)
			}
		}
	}
	if len(makers) == 0 {
		c.undecided("C16.R2", "no input-converter constructor found")
		return
	}
	sort.Slice(makers, func(i, j int) bool { return makers[i].Name < makers[j].Name })
	nAppend := 0
	for _, mk := range makers {
		c.fn(mk)
		tparam := "$" + mk.Sig().Params().At(0).Name()
		for _, lit := range w.Lits(mk) {
			if lit.Parent != mk {
				continue
			}
			c.fn(lit)
			lx := w.expander(lit)
			le := w.ent(lit)
			// R2: appends to the []reflect.Value result
			walkNoLit(lit.Body, func(n ast.Node) bool {
				// what is handed to the handler: appended to, or stored at an index of, the []reflect.Value list
				var call ast.Node
				var handed ast.Expr
				switch y := n.(type) {
				case *ast.CallExpr:
					if !isBuiltin(info, y, "append") || len(y.Args) != 2 {
						return true
					}
					tv, ok := info.Types[y.Args[0]]
					if !ok || typeStr(tv.Type) != "[]reflect.Value" {
						return true
					}
					call, handed = y, y.Args[1]
				case *ast.AssignStmt:
					if len(y.Lhs) != 1 || len(y.Rhs) != 1 || y.Tok != token.ASSIGN {
						return true
					}
					ix, ok := unparen(y.Lhs[0]).(*ast.IndexExpr)
					if !ok {
						return true
					}
					tv, ok := info.Types[ix.X]
					if !ok || typeStr(tv.Type) != "[]reflect.Value" {
						return true
					}
					call, handed = y, y.Rhs[0]
				default:
					return true
				}
				nAppend++
				key := lit.Name + "/append#" + itoa(nAppend)
				appended := unparen(handed)
				for k := 0; k < 4; k++ { // a local bound once to the converted value
					id := identOf(appended)
					if id == nil {
						break
					}
					rhs, idx, _, okd := lx.def(info.Uses[id])
					if !okd || rhs == nil || idx >= 0 {
						break
					}
					appended = unparen(rhs)
				}
				conv, ok := appended.(*ast.CallExpr)
				okC, why := false, "the appended argument is "+lx.str(handed)+", not a value converted to the declared parameter type: a parameter of a named type (type Level int) would make reflect.Value.Call panic"
				if ok {
					if sel, ok := unparen(conv.Fun).(*ast.SelectorExpr); ok && sel.Sel.Name == "Convert" && len(conv.Args) == 1 {
						src := lx.str(sel.X)        // <converter>(args[i])#0
						typ := lx.str(conv.Args[0]) // functionType.In(i) or In(numIn-1).Elem()
						// the index used for the argument
						idx := ""
						if i := strings.Index(src, "["); i >= 0 {
							// find the index of $args[...]
							if j := strings.LastIndex(src, "]("); j >= 0 {
								_ = j
							}
						}
						// extract "$args[IDX]" occurrence: first by the name of the closure's argument list
						if ls := lit.Sig(); ls != nil && ls.Params().Len() == 1 {
							pat := "($" + ls.Params().At(0).Name() + "["
							if a := strings.LastIndex(src, pat); a >= 0 {
								rest := src[a+len(pat):]
								if e2 := strings.Index(rest, "])"); e2 >= 0 {
									idx = rest[:e2]
								}
							}
						}
						if a := strings.Index(src, "($"); a >= 0 && idx == "" {
							rest := src[a+1:]
							if b := strings.Index(rest, "["); b >= 0 {
								if e2 := strings.Index(rest[b:], "])"); e2 >= 0 {
									idx = rest[b+1 : b+e2]
								}
							}
						}
						wantPlain := tparam + ".In(" + idx + ")"
						isVariadicTail := strings.HasSuffix(typ, ".Elem()")
						switch {
						case idx == "":
							why = "the converted value is " + src + ": no argument index recognised"
						case typ == wantPlain:
							okC, why = true, "argument "+idx+" is converted to "+typ
						case isVariadicTail && strings.HasPrefix(typ, tparam+".In(") && strings.Contains(typ, "NumIn()") && strings.Contains(typ, "-1)"):
							okC, why = true, "a variadic argument is converted to the variadic element type "+typ
						default:
							why = "argument " + idx + " is converted to " + typ + ", not to the declared type of parameter " + idx + " (" + wantPlain + ")"
							// a table of the parameter types, filled as T[j] = functionType.In(j) by every store to it, read at the argument's index
							if tix, ok := unparen(conv.Args[0]).(*ast.IndexExpr); ok && lx.str(tix.Index) == idx {
								if tid := identOf(tix.X); tid != nil && unparen(tix.X) == ast.Expr(tid) {
									tobj := info.Uses[tid]
									mx := w.expander(mk)
									stores, good := 0, true
									ast.Inspect(mk.Body, func(q ast.Node) bool {
										as, ok := q.(*ast.AssignStmt)
										if !ok {
											return true
										}
										for i, l := range as.Lhs {
											six, ok := unparen(l).(*ast.IndexExpr)
											if !ok {
												continue
											}
											sid := identOf(six.X)
											if sid == nil || unparen(six.X) != ast.Expr(sid) || info.Uses[sid] != tobj {
												continue
											}
											stores++
											if len(as.Rhs) != len(as.Lhs) || mx.str(as.Rhs[i]) != tparam+".In("+mx.str(six.Index)+")" {
												good = false
											}
										}
										return true
									})
									if tobj != nil && stores > 0 && good {
										okC, why = true, "argument "+idx+" is converted to "+exprStr(conv.Args[0])+", a table every store of which is T[j] = "+tparam[1:]+".In(j)"
									}
								}
							}
						}
					}
				}
				c.ob("C16.R2", key, w.Pos(call.Pos()), okC, why)
				return true
			})
			// R5: indices into args / converter slices
			ast.Inspect(lit.Body, func(n ast.Node) bool {
				ix, ok := n.(*ast.IndexExpr)
				if !ok {
					return true
				}
				tv, ok := info.Types[ix.X]
				if !ok {
					return true
				}
				ts := structuralTypeStr(tv.Type)
				switch {
				case ts == "[]*variable.Value":
					ok, how := le.proveIndexBelowLen(ix)
					if !ok {
						if ok3, how3 := liaBounds(w, lit, ix); ok3 {
							ok, how = true, how3
						}
					}
					if !ok {
						// args[i] with i the key of a range over the converter slice: i < len(converters) = the filling
						// loop's bound, and the length guard entails len(args) >= that bound
						if ok2, how2 := argIndexByConverterRange(w, mk, lit, le, ix); ok2 {
							ok, how = true, how2
						} else if how2 != "" {
							how += "; " + how2
						}
					}
					c.ob("C16.R5", lit.Name+"/"+exprStr(ix), w.Pos(ix.Pos()), ok, map[bool]string{true: how, false: "an argument is indexed without an entailing length guard (a call with too few arguments would panic instead of returning an error): " + how}[ok])
				case strings.HasPrefix(ts, "[]func("):
					ok, how := sameCountedLoop(w, mk, lit, ix)
					c.ob("C16.R5", lit.Name+"/"+exprStr(ix), w.Pos(ix.Pos()), ok, how)
				}
				return true
			})
		}
	}
	if nAppend < 3 {
		c.undecided("C16.R2", "only "+itoa(nAppend)+" appends to handler argument lists found (expected 3)")
	}
	// converters test before dereferencing: the table's literals
	var convLits []*Func
	for _, f := range w.Funcs {
		if f.Pkg == p && f.Lit != nil && f.Parent == nil {
			convLits = append(convLits, f)
		}
	}
	valueObligations(c, "C16.R5", "", convLits)
}

// sameCountedLoop: conv[i] where conv was filled by one append per iteration of `for i := 0; i < B; i++` in the
// constructor and is indexed inside a loop with the same bound expression B.
func sameCountedLoop(w *World, mk, lit *Func, ix *ast.IndexExpr) (bool, string) {
	info := mk.Pkg.TypesInfo
	id := identOf(ix.X)
	if id == nil {
		return false, "converter slice not a variable"
	}
	obj := info.Uses[id]
	mx := w.expander(mk)
	lx := w.expander(lit)
	// fill loop in the constructor
	var fillBound string
	fillOK := false
	walkNoLit(mk.Body, func(n ast.Node) bool {
		fs, ok := n.(*ast.ForStmt)
		if !ok || fs.Cond == nil {
			return true
		}
		appends, exits := 0, 0
		ast.Inspect(fs.Body, func(q ast.Node) bool {
			switch q := q.(type) {
			case *ast.CallExpr:
				if isBuiltin(info, q, "append") && len(q.Args) == 2 {
					if a := identOf(q.Args[0]); a != nil && info.Uses[a] == obj {
						appends++
					}
				}
			case *ast.BranchStmt:
				exits++
			}
			return true
		})
		if appends == 1 && exits == 0 {
			if b, ok := unparen(fs.Cond).(*ast.BinaryExpr); ok && b.Op == token.LSS && startsAtZero(info, fs) {
				// the append must be a top-level statement of the loop body (every non-returning iteration appends)
				top := false
				for _, st := range fs.Body.List {
					if as, ok := st.(*ast.AssignStmt); ok && len(as.Rhs) == 1 {
						if call, ok := as.Rhs[0].(*ast.CallExpr); ok && isBuiltin(info, call, "append") {
							top = true
						}
					}
				}
				if top {
					fillBound = mx.str(b.Y)
					fillOK = true
				}
			}
		}
		return true
	})
	if !fillOK {
		return false, "the converter slice is not filled by exactly one append per iteration of a counted loop from 0"
	}
	// the use loop
	for q := w.parent[ix]; q != nil && q != lit.Node(); q = w.parent[q] {
		if fs, ok := q.(*ast.ForStmt); ok && fs.Cond != nil {
			if b, ok := unparen(fs.Cond).(*ast.BinaryExpr); ok && b.Op == token.LSS && startsAtZero(info, fs) {
				if iv := identOf(b.X); iv != nil && identOf(ix.Index) != nil && info.Uses[iv] == info.Uses[identOf(ix.Index)] {
					if lx.str(b.Y) == fillBound {
						return true, "filled by one append per iteration of `for i := 0; i < " + exprStr(b.Y) + "`, indexed inside the loop with the identical bound"
					}
					return false, "the converter slice was filled up to " + fillBound + " but is indexed up to " + lx.str(b.Y)
				}
			}
		}
	}
	return false, "the converter slice is indexed outside a counted loop with the filling loop's bound"
}

// converterFillBound: the bound expression N of the constructor's `for i := 0; i < N; i++` loop that appends exactly once
// per non-returning iteration to the converter slice obj (so that the slice holds exactly N elements afterwards).
func converterFillBound(w *World, mk *Func, obj types.Object) ast.Expr {
	info := mk.Pkg.TypesInfo
	// the slice may reach its final name through locals assigned once (converters := found)
	mxp := w.expander(mk)
	for depth := 0; depth < 4; depth++ {
		v, ok := obj.(*types.Var)
		if !ok {
			break
		}
		rhs, idx, _, ok := mxp.def(v)
		if !ok || rhs == nil || idx >= 0 {
			break
		}
		id := identOf(rhs)
		if id == nil || info.Uses[id] == nil {
			break
		}
		obj = info.Uses[id]
	}
	var bound ast.Expr
	loops := 0
	walkNoLit(mk.Body, func(n ast.Node) bool {
		fs, ok := n.(*ast.ForStmt)
		if !ok || fs.Cond == nil {
			return true
		}
		appends, exits := 0, 0
		ast.Inspect(fs.Body, func(q ast.Node) bool {
			switch q := q.(type) {
			case *ast.CallExpr:
				if isBuiltin(info, q, "append") && len(q.Args) == 2 {
					if a := identOf(q.Args[0]); a != nil && info.Uses[a] == obj {
						appends++
					}
				}
			case *ast.BranchStmt:
				exits++
			}
			return true
		})
		if appends == 0 {
			return true
		}
		loops++
		if appends == 1 && exits == 0 {
			if b, ok := unparen(fs.Cond).(*ast.BinaryExpr); ok && b.Op == token.LSS && startsAtZero(info, fs) {
				for _, st := range fs.Body.List {
					if as, ok := st.(*ast.AssignStmt); ok && len(as.Rhs) == 1 {
						if call, ok := as.Rhs[0].(*ast.CallExpr); ok && isBuiltin(info, call, "append") {
							bound = b.Y
						}
					}
				}
			}
		}
		return true
	})
	// no other append to the slice anywhere in the constructor
	total := 0
	ast.Inspect(mk.Body, func(q ast.Node) bool {
		if call, ok := q.(*ast.CallExpr); ok && isBuiltin(info, call, "append") && len(call.Args) >= 1 {
			if a := identOf(call.Args[0]); a != nil && info.Uses[a] == obj {
				total++
			}
		}
		return true
	})
	if loops != 1 || total != 1 {
		return nil
	}
	return bound
}

func argIndexByConverterRange(w *World, mk, lit *Func, le *entFn, ix *ast.IndexExpr) (bool, string) {
	info := mk.Pkg.TypesInfo
	iv := identOf(ix.Index)
	if iv == nil {
		return false, ""
	}
	iobj := info.Uses[iv]
	for q := w.parent[ix]; q != nil && q != lit.Node(); q = w.parent[q] {
		rs, ok := q.(*ast.RangeStmt)
		if !ok || rs.Key == nil || identOf(rs.Key) == nil || info.Defs[identOf(rs.Key)] != iobj {
			continue
		}
		if len(le.assigns[iobj]) != 1 {
			return false, "the range key is reassigned"
		}
		sid := identOf(rs.X)
		if sid == nil {
			return false, ""
		}
		if tv, ok := info.Types[rs.X]; !ok || !strings.HasPrefix(structuralTypeStr(tv.Type), "[]func(") {
			return false, ""
		}
		sobj := info.Uses[sid]
		// the converter slice is not written in the literal
		written := false
		ast.Inspect(lit.Body, func(n ast.Node) bool {
			if as, ok := n.(*ast.AssignStmt); ok {
				for _, l := range as.Lhs {
					if r := identOfRoot(l); r != nil && info.Uses[r] == sobj {
						written = true
					}
				}
			}
			return true
		})
		bound := converterFillBound(w, mk, sobj)
		if bound == nil || written {
			return false, "the ranged converter slice is not filled by a single counted loop"
		}
		// a guard of the literal whose failure (entailed at the index) gives len(args) >= bound:
		// len(args) != bound, len(args) < bound, or their mirror images
		mx, lx := w.expander(mk), w.expander(lit)
		want := mx.str(bound)
		at := site{pos: ix.Pos(), anc: ix}
		kc := keyCtx{e: le, s: &at}
		why := "no guard compares len(" + exprStr(ix.X) + ") with " + exprStr(bound)
		proved := false
		ast.Inspect(lit.Body, func(n ast.Node) bool {
			b, ok := n.(*ast.BinaryExpr)
			if !ok || proved {
				return !proved
			}
			isLen := func(e ast.Expr) bool {
				call, ok := unparen(e).(*ast.CallExpr)
				return ok && isBuiltin(info, call, "len") && len(call.Args) == 1 && exprStr(call.Args[0]) == exprStr(ix.X)
			}
			var other ast.Expr
			op := b.Op
			switch {
			case isLen(b.X):
				other = b.Y
			case isLen(b.Y):
				other = b.X
				op = map[token.Token]token.Token{token.LSS: token.GTR, token.GTR: token.LSS, token.LEQ: token.GEQ, token.GEQ: token.LEQ, token.NEQ: token.NEQ, token.EQL: token.EQL}[op]
			default:
				return true
			}
			if lx.str(other) != want {
				return true
			}
			var goal Formula
			switch op {
			case token.NEQ, token.LSS:
				goal = Not{le.cond(kc, b, 0)} // len == bound, or len >= bound
			case token.EQL, token.GEQ:
				goal = le.cond(kc, b, 0)
			default:
				return true
			}
			if ok, how := le.Prove(ix, goal); ok {
				proved = true
				why = "the index ranges over the converter slice, which holds exactly " + exprStr(bound) + " elements (one append per iteration of the counted loop), and the guard `" + exprStr(b) + "` entails len(" + exprStr(ix.X) + ") >= " + exprStr(bound) + " here (" + how + ")"
			} else {
				why = "the guard `" + exprStr(b) + "` is not entailed to have failed at the index: " + how
			}
			return true
		})
		return proved, why
	}
	return false, ""
}

func startsAtZero(info *types.Info, fs *ast.ForStmt) bool {
	as, ok := fs.Init.(*ast.AssignStmt)
	if !ok || len(as.Rhs) != 1 {
		return false
	}
	tv, ok := info.Types[as.Rhs[0]]
	return ok && tv.Value != nil && tv.Value.ExactString() == "0"
}

// ---------- kind tables: R3 ----------

func c16KindTables(c *Ctx, ctors []*Func) {
	w := c.W
	p := w.Pkg("")
	info := p.TypesInfo
	// the argument converter table: package-level map[reflect.Kind]func(*Value)(reflect.Value, error)
	var table *ast.CompositeLit
	for _, file := range p.Syntax {
		ast.Inspect(file, func(n ast.Node) bool {
			cl, ok := n.(*ast.CompositeLit)
			if !ok {
				return true
			}
			if tv, ok := info.Types[cl]; ok && strings.HasPrefix(structuralTypeStr(tv.Type), "map[reflect.Kind]func(") {
				table = cl
			}
			return true
		})
	}
	if table == nil {
		c.undecided("C16.R3", "argument converter table (map[reflect.Kind]func…) not found")
		return
	}
	for _, el := range table.Elts {
		kv, ok := el.(*ast.KeyValueExpr)
		if !ok {
			continue
		}
		kind := reflectKindName(info, kv.Key)
		key := "arg-kind " + kind
		cat, known := kindCategory[kind]
		if !known {
			c.ob("C16.R3", key, w.Pos(kv.Pos()), false, "parameters of kind "+kind+" are accepted, but no Yarn value can be converted to every type of that kind: some accepted signature panics in reflect.Value.Convert at call time (accepted kinds must be numeric, Bool or String)")
			continue
		}
		lit, ok := unparen(kv.Value).(*ast.FuncLit)
		if !ok {
			c.ob("C16.R3", key, w.Pos(kv.Pos()), false, "the converter is not a function literal")
			continue
		}
		// the literal dereferences exactly the category's alternative and wraps a value of that category
		var alts []string
		ast.Inspect(lit.Body, func(q ast.Node) bool {
			if se, ok := q.(*ast.StarExpr); ok {
				if sel, ok := unparen(se.X).(*ast.SelectorExpr); ok {
					if tv, ok := info.Types[sel.X]; ok && isValuePtr(tv.Type) {
						alts = append(alts, sel.Sel.Name)
					}
				}
			}
			return true
		})
		okAlt := len(alts) > 0
		for _, a := range alts {
			if a != cat {
				okAlt = false
			}
		}
		// produced Go kind
		produced := ""
		ast.Inspect(lit.Body, func(q ast.Node) bool {
			call, ok := q.(*ast.CallExpr)
			if !ok || len(call.Args) != 1 {
				return true
			}
			if callee := calleeOf(info, call); callee != nil && funcFullName(callee) == "reflect.ValueOf" {
				arg := unparen(call.Args[0])
				// reflect.ValueOf(any(x)) reflects x: look through conversions to interface types
				for {
					cv, ok := arg.(*ast.CallExpr)
					if !ok || len(cv.Args) != 1 {
						break
					}
					ft, ok := info.Types[cv.Fun]
					if !ok || !ft.IsType() {
						break
					}
					if _, isIface := ft.Type.Underlying().(*types.Interface); !isIface {
						break
					}
					arg = unparen(cv.Args[0])
				}
				if tv, ok := info.Types[arg]; ok {
					if b, ok := tv.Type.Underlying().(*types.Basic); ok {
						produced = strings.Title(b.Name())
					}
				}
			}
			return true
		})
		okProd := kindCategory[produced] == cat
		c.ob("C16.R3", key, w.Pos(kv.Pos()), okAlt && okProd, map[bool]string{true: "tests and reads ." + cat + ", produces a " + strings.ToLower(produced) + " (same category; Convert to the declared type cannot panic)", false: "the converter for kind " + kind + " reads " + strings.Join(alts, ",") + " and produces " + produced + ": not the " + cat + " category of that kind (wrong meaning, or a panic in Convert)"}[okAlt && okProd])
	}
	// result kinds: gate predicate vs result converter
	var pred, conv *Func
	for _, f := range w.FuncsIn(p) {
		if f.Decl == nil || f.Decl.Recv != nil {
			continue
		}
		sig := f.Sig()
		if sig.Params().Len() == 1 && typeStr(sig.Params().At(0).Type()) == "reflect.Type" && sig.Results().Len() == 1 && typeStr(sig.Results().At(0).Type()) == "bool" {
			// the predicate with a switch on Kind() listing several kinds
			n := 0
			walkNoLit(f.Body, func(q ast.Node) bool {
				if reflectKindName(info, exprOf(q)) != "" {
					n++
				}
				return true
			})
			if n >= 3 {
				pred = f
			}
		}
		if sig.Params().Len() == 1 && typeStr(sig.Params().At(0).Type()) == "reflect.Value" && sig.Results().Len() == 2 && isValuePtr(sig.Results().At(0).Type()) {
			conv = f
		}
	}
	if pred == nil || conv == nil {
		c.undecided("C16.R3", "result-kind predicate or result converter not found")
		return
	}
	c.fn(pred)
	c.fn(conv)
	accepted := map[string]bool{}
	walkNoLit(pred.Body, func(q ast.Node) bool {
		cc, ok := q.(*ast.CaseClause)
		if !ok {
			return true
		}
		returnsTrue := false
		for _, st := range cc.Body {
			if r, ok := st.(*ast.ReturnStmt); ok && len(r.Results) == 1 {
				if tv, ok := info.Types[r.Results[0]]; ok && tv.Value != nil && tv.Value.ExactString() == "true" {
					returnsTrue = true
				}
			}
		}
		if returnsTrue {
			for _, x := range cc.List {
				if k := reflectKindName(info, x); k != "" {
					accepted[k] = true
				}
			}
		}
		return true
	})
	handled := map[string]string{}
	usesTypeSwitch := false
	ast.Inspect(conv.Body, func(q ast.Node) bool {
		switch q := q.(type) {
		case *ast.TypeSwitchStmt:
			usesTypeSwitch = true
		case *ast.TypeAssertExpr:
			usesTypeSwitch = true
		case *ast.CaseClause:
			for _, x := range q.List {
				// v.CanX()
				if call, ok := unparen(x).(*ast.CallExpr); ok {
					if sel, ok := unparen(call.Fun).(*ast.SelectorExpr); ok {
						for _, k := range canCovers[sel.Sel.Name] {
							handled[k] = sel.Sel.Name + "()"
						}
					}
				}
				if b, ok := unparen(x).(*ast.BinaryExpr); ok && b.Op == token.EQL {
					if k := reflectKindName(info, b.Y); k != "" {
						handled[k] = "Kind() == reflect." + k
					}
				}
				if k := reflectKindName(info, x); k != "" {
					handled[k] = "case reflect." + k
				}
			}
		case *ast.IfStmt:
			if call, ok := unparen(q.Cond).(*ast.CallExpr); ok {
				if sel, ok := unparen(call.Fun).(*ast.SelectorExpr); ok {
					for _, k := range canCovers[sel.Sel.Name] {
						handled[k] = sel.Sel.Name + "()"
					}
				}
			}
			if b, ok := unparen(q.Cond).(*ast.BinaryExpr); ok && b.Op == token.EQL {
				if k := reflectKindName(info, b.Y); k != "" {
					handled[k] = "Kind() == reflect." + k
				}
			}
		}
		return true
	})
	var kinds []string
	for k := range accepted {
		kinds = append(kinds, k)
	}
	sort.Strings(kinds)
	for _, k := range kinds {
		h, ok := handled[k]
		if _, known := kindCategory[k]; !known {
			c.ob("C16.R3", "result-kind "+k, w.Pos(pred.Decl.Pos()), false, "the gate accepts results of kind "+k+", which is outside the Number/Boolean/String categories")
			continue
		}
		if usesTypeSwitch && !ok {
			c.ob("C16.R3", "result-kind "+k, w.Pos(conv.Decl.Pos()), false, "the gate accepts results by kind ("+k+"), but the result converter classifies by exact Go type: a result of a named type of that kind (type Level int) passes registration and then fails at every call")
			continue
		}
		c.ob("C16.R3", "result-kind "+k, w.Pos(conv.Decl.Pos()), ok, map[bool]string{true: "accepted by the gate and converted under " + h, false: "the gate accepts results of kind " + k + " but the result converter has no branch for that kind: registration succeeds and every call fails"}[ok])
	}
	if len(kinds) < 5 {
		c.undecided("C16.R3", "only "+itoa(len(kinds))+" accepted result kinds read from the gate")
	}
}

func exprOf(n ast.Node) ast.Expr {
	e, _ := n.(ast.Expr)
	if e == nil {
		return &ast.BadExpr{}
	}
	return e
}

// ---------- R7: accessor preconditions ----------

func c16Accessors(c *Ctx, ctors []*Func) {
	w := c.W
	p := w.Pkg("")
	info := p.TypesInfo
	n := 0
	for _, f := range w.FuncsIn(p) {
		if f.Body == nil {
			continue
		}
		var e *entFn
		walkNoLit(f.Body, func(q ast.Node) bool {
			call, ok := q.(*ast.CallExpr)
			if !ok {
				return true
			}
			callee := calleeOf(info, call)
			if callee == nil || callee.Pkg() == nil || callee.Pkg().Path() != "reflect" {
				return true
			}
			sig, _ := callee.Type().(*types.Signature)
			if sig == nil || sig.Recv() == nil || typeStr(sig.Recv().Type()) != "reflect.Value" {
				return true
			}
			need, has := accessorNeeds[callee.Name()]
			if !has {
				return true
			}
			n++
			c.fn(f)
			if e == nil {
				e = w.ent(f)
			}
			sel := unparen(call.Fun).(*ast.SelectorExpr)
			recv := exprStr(sel.X)
			key := f.Name + "/" + recv + "." + callee.Name() + "()"
			at := site{pos: call.Pos(), anc: call}
			kc := keyCtx{e: e, s: &at}
			proved, how := false, "no dominating "+need+" test on "+recv
			// look for guard expressions on the same receiver
			walkNoLit(w.rootOf(f).Body, func(g ast.Node) bool {
				if proved {
					return false
				}
				switch g := g.(type) {
				case *ast.CallExpr:
					if gs, ok := unparen(g.Fun).(*ast.SelectorExpr); ok && exprStr(gs.X) == recv && gs.Sel.Name == need {
						if ok, h := e.Prove(call, e.cond(kc, g, 0)); ok {
							proved, how = true, "entailed by "+recv+"."+need+"() ("+h+")"
						}
					}
				case *ast.BinaryExpr:
					if g.Op == token.EQL {
						if gc, ok := unparen(g.X).(*ast.CallExpr); ok {
							if gs, ok := unparen(gc.Fun).(*ast.SelectorExpr); ok && exprStr(gs.X) == recv && gs.Sel.Name == "Kind" {
								k := reflectKindName(info, g.Y)
								okKind := false
								switch need {
								case "Kind==Bool":
									okKind = k == "Bool"
								case "nillable":
									okKind = k == "Chan" || k == "Func" || k == "Interface" || k == "Map" || k == "Pointer" || k == "Ptr" || k == "Slice"
								case "Kind==Interface|Pointer":
									okKind = k == "Interface" || k == "Pointer" || k == "Ptr"
								}
								if okKind {
									if ok, h := e.Prove(call, e.cond(kc, g, 0)); ok {
										proved, how = true, "entailed by "+recv+".Kind() == reflect."+k+" ("+h+")"
									}
								}
							}
						}
					}
				}
				return true
			})
			// the call sits in a case of `switch recv.Kind()` all of whose kinds satisfy the accessor's requirement
			if !proved {
				okKinds := kindsSatisfying(need)
				child := ast.Node(call)
				for pnode := w.parent[call]; pnode != nil && pnode != f.Node() && !proved; child, pnode = pnode, w.parent[pnode] {
					cc, ok := pnode.(*ast.CaseClause)
					if !ok || len(cc.List) == 0 {
						continue
					}
					inBody := false
					for _, st := range cc.Body {
						if ast.Node(st) == child {
							inBody = true
						}
					}
					sw, ok2 := w.parent[w.parent[cc]].(*ast.SwitchStmt)
					if !inBody || !ok2 || sw.Tag == nil || sw.Init != nil {
						continue
					}
					tc, ok := unparen(sw.Tag).(*ast.CallExpr)
					if !ok || len(tc.Args) != 0 {
						continue
					}
					ts, ok := unparen(tc.Fun).(*ast.SelectorExpr)
					if !ok || ts.Sel.Name != "Kind" || exprStr(ts.X) != recv {
						continue
					}
					all := okKinds != nil
					var names []string
					for _, cx := range cc.List {
						k := reflectKindName(info, cx)
						names = append(names, k)
						if k == "" || !okKinds[k] {
							all = false
						}
					}
					// the receiver is a variable that is not reassigned (its kind at the call is the kind switched on)
					rid := identOf(sel.X)
					if all && rid != nil {
						if obj, ok := info.Uses[rid].(*types.Var); ok && len(e.assigns[obj]) <= 1 && !e.addrOf[obj] {
							proved, how = true, "inside case "+strings.Join(names, ", ")+" of switch "+recv+".Kind(): every listed kind satisfies "+need
						}
					}
				}
			}
			// IsNil on reflect.ValueOf(p) under an entailed reflect.TypeOf(p).Kind() == <nillable kind>: the value's kind is its type's kind
			if !proved && need == "nillable" {
				fx := w.expander(f)
				rs := fx.str(sel.X)
				if strings.HasPrefix(rs, "reflect.ValueOf(") && strings.HasSuffix(rs, ")") {
					wantType := "reflect.TypeOf(" + strings.TrimSuffix(strings.TrimPrefix(rs, "reflect.ValueOf("), ")") + ")"
					walkNoLit(f.Body, func(g ast.Node) bool {
						b, ok := g.(*ast.BinaryExpr)
						if !ok || proved || (b.Op != token.EQL && b.Op != token.NEQ) {
							return true
						}
						gc, ok := unparen(b.X).(*ast.CallExpr)
						if !ok {
							return true
						}
						gs, ok := unparen(gc.Fun).(*ast.SelectorExpr)
						if !ok || gs.Sel.Name != "Kind" || fx.str(gs.X) != wantType {
							return true
						}
						switch k := reflectKindName(info, b.Y); k {
						case "Func", "Chan", "Map", "Pointer", "Ptr", "Interface", "Slice", "UnsafePointer":
							goal := e.cond(kc, b, 0)
							if b.Op == token.NEQ {
								goal = Not{goal}
							}
							if ok, h := e.Prove(call, goal); ok {
								proved, how = true, "entailed: the argument's type has kind "+k+" ("+h+"), and reflect.ValueOf(v).Kind() is reflect.TypeOf(v).Kind()"
							}
						}
						return true
					})
				}
			}
			// IsNil on a call result under the channel-returning signature
			if !proved && need == "nillable" {
				for _, ctor := range ctors {
					inCtor := false
					for g := f; g != nil; g = g.Parent {
						if g == ctor {
							inCtor = true
						}
					}
					if !inCtor {
						continue
					}
					_, consts, chanConst, okGate := commandGate(w, ctor)
					_, sigObj := gateOf(w, ctor)
					if !okGate || sigObj == nil {
						continue
					}
					_ = consts
					var sigUse ast.Expr
					ast.Inspect(w.rootOf(f).Body, func(q ast.Node) bool {
						if id, ok := q.(*ast.Ident); ok && info.Uses[id] == sigObj && sigUse == nil {
							sigUse = id
						}
						return true
					})
					if sigUse != nil {
						if ok, h := e.Prove(call, e.intEq(kc, sigUse, chanConst)); ok {
							proved, how = true, "entailed by the channel-returning signature, which the gate grants only to results of kind Chan ("+h+")"
						}
					}
				}
			}
			c.ob("C16.R7", key, w.Pos(call.Pos()), proved, map[bool]string{true: how, false: "reflect.Value." + callee.Name() + " panics unless " + need + " holds, and nothing entails it here: a signature the gate accepts (e.g. a struct or named-string error type) would panic at call time (" + how + ")"}[proved])
			return true
		})
	}
	if n < 3 {
		c.undecided("C16.R7", "only "+itoa(n)+" reflect accessor calls found")
	}
}

// isOutputGate: func(reflect.Type) (E, error) with E an integer-based named type of the same package — the registration
// gate that classifies a handler's results (recognised by shape: names are free to change).
func isOutputGate(g *Func) bool {
	sig := g.Sig()
	if sig == nil || sig.Params().Len() != 1 || sig.Results().Len() != 2 {
		return false
	}
	if typeStr(sig.Params().At(0).Type()) != "reflect.Type" || typeStr(sig.Results().At(1).Type()) != "error" {
		return false
	}
	n, ok := sig.Results().At(0).Type().(*types.Named)
	if !ok || n.Obj().Pkg() == nil || n.Obj().Pkg() != g.Pkg.Types {
		return false
	}
	b, ok := n.Underlying().(*types.Basic)
	return ok && b.Info()&types.IsInteger != 0
}

// kindsSatisfying: the reflect kinds for which an accessor's requirement holds (nil: not expressible by kind).
func kindsSatisfying(need string) map[string]bool {
	set := func(ks ...string) map[string]bool {
		m := map[string]bool{}
		for _, k := range ks {
			m[k] = true
		}
		return m
	}
	switch need {
	case "CanFloat":
		return set("Float32", "Float64")
	case "CanInt":
		return set("Int", "Int8", "Int16", "Int32", "Int64")
	case "CanUint":
		return set("Uint", "Uint8", "Uint16", "Uint32", "Uint64", "Uintptr")
	case "CanComplex":
		return set("Complex64", "Complex128")
	case "Kind==Bool":
		return set("Bool")
	case "nillable":
		return set("Chan", "Func", "Interface", "Map", "Pointer", "Ptr", "Slice", "UnsafePointer")
	case "Kind==Interface|Pointer":
		return set("Interface", "Pointer", "Ptr")
	case "Kind==Slice":
		return set("Slice")
	case "Kind==Map":
		return set("Map")
	case "Kind==Struct":
		return set("Struct")
	case "Kind==sized":
		return set("Array", "Chan", "Map", "Slice", "String")
	}
	return nil
}
