package main

// world.go — loading /repo from its working tree and the indexes every rule uses.

import (
	"fmt"
	"go/ast"
	"go/token"
	"go/types"
	"os"
	"path/filepath"
	"sort"
	"strings"

	"golang.org/x/tools/go/packages"
	"golang.org/x/tools/go/ssa"
	"golang.org/x/tools/go/ssa/ssautil"
)

const modPath = "github.com/remieven/ysgo"

// The eight packages of the module; fewer or more is "cannot decide".
var expectedPkgs = []string{
	modPath,
	modPath + "/internal/container",
	modPath + "/internal/parser",
	modPath + "/internal/rng",
	modPath + "/internal/testutils",
	modPath + "/internal/tree",
	modPath + "/markup",
	modPath + "/variable",
}

type Func struct {
	Pkg    *packages.Package
	Decl   *ast.FuncDecl // nil for literals
	Lit    *ast.FuncLit  // nil for declarations
	Obj    *types.Func   // nil for literals
	Body   *ast.BlockStmt
	Name   string // stable, line-independent: pkg.Recv.Name or parent$k
	Parent *Func  // enclosing function of a literal (nil for package-level literals)
	Type   *ast.FuncType
}

func (f *Func) Node() ast.Node {
	if f.Decl != nil {
		return f.Decl
	}
	return f.Lit
}

func (f *Func) Sig() *types.Signature {
	if f.Obj != nil {
		return f.Obj.Type().(*types.Signature)
	}
	if tv, ok := f.Pkg.TypesInfo.Types[f.Lit]; ok {
		if s, ok := tv.Type.(*types.Signature); ok {
			return s
		}
	}
	return nil
}

type World struct {
	Repo    string
	Fset    *token.FileSet
	Pkgs    []*packages.Package
	byPath  map[string]*packages.Package
	parent  map[ast.Node]ast.Node
	Funcs   []*Func
	funcOf  map[ast.Node]*Func // FuncDecl/FuncLit node -> Func
	byObj   map[*types.Func]*Func
	overlay map[string][]byte
	env     []string
	// set by the normalisation pass: rewritten file -> per line, the position in the working tree it stems from
	lineMaps map[string][]origPos
	norm     *normLog

	prog    *ssa.Program
	ssaPkgs map[string]*ssa.Package
	whole   bool // SSA built for the whole program
}

func goEnv() []string {
	env := []string{}
	for _, e := range os.Environ() {
		k := strings.SplitN(e, "=", 2)[0]
		switch k {
		case "GOFLAGS", "GOPROXY", "GOSUMDB", "GOTOOLCHAIN", "GOWORK":
			continue
		}
		env = append(env, e)
	}
	return append(env, "GOFLAGS=-mod=mod", "GOPROXY=off", "GOSUMDB=off", "GOTOOLCHAIN=local", "GOWORK=off")
}

// loadWorld loads the module packages (no tests). all=true loads the dependencies' syntax too.
func loadWorld(repo string, overlay map[string][]byte, all bool) (*World, error) {
	mode := packages.LoadSyntax
	if all {
		mode = packages.LoadAllSyntax
	}
	w := &World{Repo: repo, overlay: overlay, env: goEnv(), whole: all}
	cfg := &packages.Config{Mode: mode | packages.NeedModule, Dir: repo, Env: w.env, Overlay: overlay, Tests: false}
	pkgs, err := packages.Load(cfg, "./...")
	if err != nil {
		return nil, fmt.Errorf("packages.Load: %v", err)
	}
	var errs []string
	packages.Visit(pkgs, nil, func(p *packages.Package) {
		for _, e := range p.Errors {
			errs = append(errs, e.Error())
		}
	})
	if len(errs) > 0 {
		if len(errs) > 8 {
			errs = errs[:8]
		}
		return nil, fmt.Errorf("load/type errors: %s", strings.Join(errs, "; "))
	}
	sort.Slice(pkgs, func(i, j int) bool { return pkgs[i].PkgPath < pkgs[j].PkgPath })
	got := []string{}
	for _, p := range pkgs {
		got = append(got, p.PkgPath)
	}
	if strings.Join(got, ",") != strings.Join(expectedPkgs, ",") {
		return nil, fmt.Errorf("unexpected package set %v (want %v)", got, expectedPkgs)
	}
	w.Pkgs = pkgs
	w.Fset = pkgs[0].Fset
	w.byPath = map[string]*packages.Package{}
	for _, p := range pkgs {
		w.byPath[p.PkgPath] = p
	}
	w.index()
	return w, nil
}

func (w *World) Pkg(suffix string) *packages.Package {
	if suffix == "" {
		return w.byPath[modPath]
	}
	return w.byPath[modPath+"/"+suffix]
}

func (w *World) index() {
	w.parent = map[ast.Node]ast.Node{}
	w.funcOf = map[ast.Node]*Func{}
	w.byObj = map[*types.Func]*Func{}
	for _, pkg := range w.Pkgs {
		for _, file := range pkg.Syntax {
			fn := w.Fset.Position(file.Pos()).Filename
			if strings.HasSuffix(fn, "_test.go") {
				continue
			}
			var stack []ast.Node
			var fstack []*Func
			counter := map[*Func]int{}
			pkgLits := 0
			ast.Inspect(file, func(n ast.Node) bool {
				if n == nil {
					top := stack[len(stack)-1]
					stack = stack[:len(stack)-1]
					if len(fstack) > 0 && fstack[len(fstack)-1].Node() == top {
						fstack = fstack[:len(fstack)-1]
					}
					return true
				}
				if len(stack) > 0 {
					w.parent[n] = stack[len(stack)-1]
				}
				stack = append(stack, n)
				switch n := n.(type) {
				case *ast.FuncDecl:
					obj, _ := pkg.TypesInfo.Defs[n.Name].(*types.Func)
					f := &Func{Pkg: pkg, Decl: n, Obj: obj, Body: n.Body, Type: n.Type}
					f.Name = shortPkg(pkg.PkgPath) + "." + declName(n)
					w.Funcs = append(w.Funcs, f)
					w.funcOf[n] = f
					if obj != nil {
						w.byObj[obj] = f
					}
					fstack = append(fstack, f)
				case *ast.FuncLit:
					f := &Func{Pkg: pkg, Lit: n, Body: n.Body, Type: n.Type}
					if len(fstack) > 0 {
						f.Parent = fstack[len(fstack)-1]
						counter[f.Parent]++
						f.Name = fmt.Sprintf("%s$%d", f.Parent.Name, counter[f.Parent])
					} else {
						pkgLits++
						f.Name = fmt.Sprintf("%s.init$%d", shortPkg(pkg.PkgPath), pkgLits)
					}
					w.Funcs = append(w.Funcs, f)
					w.funcOf[n] = f
					fstack = append(fstack, f)
				}
				return true
			})
		}
	}
}

func shortPkg(path string) string {
	if path == modPath {
		return "ysgo"
	}
	return strings.TrimPrefix(path, modPath+"/")
}

func declName(fd *ast.FuncDecl) string {
	if fd.Recv != nil && len(fd.Recv.List) == 1 {
		t := fd.Recv.List[0].Type
		star := ""
		if s, ok := t.(*ast.StarExpr); ok {
			t = s.X
			star = "*"
		}
		if ix, ok := t.(*ast.IndexExpr); ok {
			t = ix.X
		}
		if id, ok := t.(*ast.Ident); ok {
			return "(" + star + id.Name + ")." + fd.Name.Name
		}
	}
	return fd.Name.Name
}

// Enclosing returns the innermost function (declaration or literal) containing n.
func (w *World) Enclosing(n ast.Node) *Func {
	for p := n; p != nil; p = w.parent[p] {
		if f := w.funcOf[p]; f != nil && p != n {
			return f
		}
		if f := w.funcOf[p]; f != nil && p == n {
			// n itself is a function node: its encloser is further up
			continue
		}
	}
	return nil
}

// EnclosingOrSelf returns the function whose body contains n (n may be the function node itself).
func (w *World) EnclosingOrSelf(n ast.Node) *Func {
	for p := n; p != nil; p = w.parent[p] {
		if f := w.funcOf[p]; f != nil {
			return f
		}
	}
	return nil
}

func (w *World) Pos(p token.Pos) string {
	if !p.IsValid() {
		return "-"
	}
	q := w.Fset.Position(p)
	if lm, ok := w.lineMaps[q.Filename]; ok && q.Line >= 1 && q.Line <= len(lm) {
		q.Filename, q.Line = lm[q.Line-1].File, lm[q.Line-1].Line
	}
	rel, err := filepath.Rel(w.Repo, q.Filename)
	if err != nil || strings.HasPrefix(rel, "..") {
		rel = q.Filename
	}
	return fmt.Sprintf("%s:%d", rel, q.Line)
}

func (w *World) PosCol(p token.Pos) string {
	q := w.Fset.Position(p)
	rel, err := filepath.Rel(w.Repo, q.Filename)
	if err != nil || strings.HasPrefix(rel, "..") {
		rel = q.Filename
	}
	return fmt.Sprintf("%s:%d:%d", rel, q.Line, q.Column)
}

// FuncsIn returns the functions (declarations and literals) of a module package.
func (w *World) FuncsIn(pkg *packages.Package) []*Func {
	var out []*Func
	for _, f := range w.Funcs {
		if f.Pkg == pkg {
			out = append(out, f)
		}
	}
	return out
}

// DeclByName finds a package-level function or a method "T.m" in a package (API anchors and fallbacks only).
func (w *World) DeclByName(pkg *packages.Package, name string) *Func {
	for _, f := range w.Funcs {
		if f.Pkg != pkg || f.Decl == nil {
			continue
		}
		dn := declName(f.Decl)
		dn = strings.NewReplacer("(", "", ")", "", "*", "").Replace(dn)
		if dn == name {
			return f
		}
	}
	return nil
}

// MethodsWithParam returns the methods/functions of pkg having a parameter whose type string (package-qualified by
// last path element) equals typ, e.g. "*tree.JumpStatement".
func (w *World) FuncsWithParam(pkg *packages.Package, typ string) []*Func {
	var out []*Func
	for _, f := range w.Funcs {
		if f.Pkg != pkg || f.Decl == nil || f.Obj == nil {
			continue
		}
		sig := f.Sig()
		for i := 0; i < sig.Params().Len(); i++ {
			if typeStr(sig.Params().At(i).Type()) == typ {
				out = append(out, f)
				break
			}
		}
	}
	return out
}

func typeStr(t types.Type) string {
	return types.TypeString(t, func(p *types.Package) string { return p.Name() })
}

// Lits returns the function literals directly or transitively nested in f.
func (w *World) Lits(f *Func) []*Func {
	var out []*Func
	for _, g := range w.Funcs {
		for p := g.Parent; p != nil; p = p.Parent {
			if p == f {
				out = append(out, g)
				break
			}
		}
	}
	return out
}

// ---------- SSA ----------

func (w *World) SSA() *ssa.Program {
	if w.prog != nil {
		return w.prog
	}
	mode := ssa.InstantiateGenerics
	if w.whole {
		prog, _ := ssautil.AllPackages(w.Pkgs, mode)
		w.prog = prog
	} else {
		prog, _ := ssautil.Packages(w.Pkgs, mode)
		w.prog = prog
	}
	w.prog.Build()
	w.ssaPkgs = map[string]*ssa.Package{}
	for _, p := range w.Pkgs {
		w.ssaPkgs[p.PkgPath] = w.prog.Package(p.Types)
	}
	return w.prog
}

func (w *World) SSAPkg(suffix string) *ssa.Package {
	w.SSA()
	if suffix == "" {
		return w.ssaPkgs[modPath]
	}
	return w.ssaPkgs[modPath+"/"+suffix]
}

// SSAFunc returns the SSA function of a declaration or literal.
func (w *World) SSAFunc(f *Func) *ssa.Function {
	prog := w.SSA()
	if f.Obj != nil {
		return prog.FuncValue(f.Obj)
	}
	// literal: find through the parent chain by position
	var root *Func
	for root = f; root.Parent != nil; root = root.Parent {
	}
	var candidates []*ssa.Function
	if root.Obj != nil {
		if rf := prog.FuncValue(root.Obj); rf != nil {
			candidates = append(candidates, rf)
		}
	} else {
		// package-level literal: lives in the package initialiser
		if sp := prog.Package(f.Pkg.Types); sp != nil {
			candidates = append(candidates, sp.Func("init"))
		}
	}
	var find func(fn *ssa.Function) *ssa.Function
	find = func(fn *ssa.Function) *ssa.Function {
		if fn == nil {
			return nil
		}
		for _, a := range fn.AnonFuncs {
			if a.Pos() == f.Lit.Type.Func || (a.Syntax() != nil && a.Syntax().Pos() == f.Lit.Pos()) {
				return a
			}
			if r := find(a); r != nil {
				return r
			}
		}
		return nil
	}
	for _, c := range candidates {
		if r := find(c); r != nil {
			return r
		}
	}
	return nil
}

// ModuleSSAFuncs lists every SSA function that belongs to the module (declarations, literals, instantiations, wrappers excluded).
func (w *World) ModuleSSAFuncs() []*ssa.Function {
	prog := w.SSA()
	var out []*ssa.Function
	for f := range ssautil.AllFunctions(prog) {
		if f.Blocks == nil {
			continue
		}
		r := f
		for r.Parent() != nil {
			r = r.Parent()
		}
		p := r.Pkg
		if p == nil && r.Origin() != nil {
			p = r.Origin().Pkg
		}
		if p == nil || !strings.HasPrefix(p.Pkg.Path(), modPath) {
			continue
		}
		if f.Synthetic != "" && !strings.HasPrefix(f.Synthetic, "instance of") && f.Synthetic != "package initializer" {
			continue
		}
		out = append(out, f)
	}
	sort.Slice(out, func(i, j int) bool {
		if out[i].String() != out[j].String() {
			return out[i].String() < out[j].String()
		}
		return out[i].Pos() < out[j].Pos()
	})
	return out
}

// ---------- small AST/type helpers ----------

func unparen(e ast.Expr) ast.Expr {
	for {
		p, ok := e.(*ast.ParenExpr)
		if !ok {
			return e
		}
		e = p.X
	}
}

func isNilExpr(info *types.Info, e ast.Expr) bool {
	if id, ok := unparen(e).(*ast.Ident); ok {
		_, isNil := info.Uses[id].(*types.Nil)
		return isNil
	}
	return false
}

// calleeOf resolves the static callee of a call (function, method, or interface method).
func calleeOf(info *types.Info, call *ast.CallExpr) *types.Func {
	switch fun := unparen(call.Fun).(type) {
	case *ast.Ident:
		f, _ := info.Uses[fun].(*types.Func)
		return f
	case *ast.SelectorExpr:
		if sel, ok := info.Selections[fun]; ok {
			f, _ := sel.Obj().(*types.Func)
			return f
		}
		f, _ := info.Uses[fun.Sel].(*types.Func)
		return f
	case *ast.IndexExpr: // explicit instantiation
		if id, ok := fun.X.(*ast.Ident); ok {
			f, _ := info.Uses[id].(*types.Func)
			return f
		}
	}
	return nil
}

func isBuiltin(info *types.Info, call *ast.CallExpr, name string) bool {
	if id, ok := unparen(call.Fun).(*ast.Ident); ok {
		if b, ok := info.Uses[id].(*types.Builtin); ok {
			return b.Name() == name
		}
	}
	return false
}

// funcFullName renders a *types.Func like "(*strings.Reader).ReadRune" or "fmt.Errorf" (origin of generic methods).
func funcFullName(f *types.Func) string {
	if f == nil {
		return ""
	}
	return f.Origin().FullName()
}

// fieldChain decomposes x.a.b into the root expression and the field objects (nil if not a pure field chain).
func fieldChain(info *types.Info, e ast.Expr) (root ast.Expr, fields []*types.Var) {
	e = unparen(e)
	switch x := e.(type) {
	case *ast.SelectorExpr:
		if sel, ok := info.Selections[x]; ok && sel.Kind() == types.FieldVal {
			r, fs := fieldChain(info, x.X)
			if r == nil {
				return nil, nil
			}
			return r, append(fs, sel.Obj().(*types.Var))
		}
		return nil, nil
	case *ast.StarExpr:
		return fieldChain(info, x.X)
	default:
		return e, nil
	}
}

// lastField returns the final field object of a selector chain, or nil.
func lastField(info *types.Info, e ast.Expr) *types.Var {
	_, fs := fieldChain(info, e)
	if len(fs) == 0 {
		return nil
	}
	return fs[len(fs)-1]
}

// structField finds a field of a named struct by a predicate on its type; returns nil if none or ambiguous.
func structFieldByType(named *types.Named, typ string) *types.Var {
	st, ok := named.Underlying().(*types.Struct)
	if !ok {
		return nil
	}
	var found *types.Var
	for i := 0; i < st.NumFields(); i++ {
		if typeStr(st.Field(i).Type()) == typ {
			if found != nil {
				return nil
			}
			found = st.Field(i)
		}
	}
	return found
}

func structFieldByName(named *types.Named, name string) *types.Var {
	st, ok := named.Underlying().(*types.Struct)
	if !ok {
		return nil
	}
	for i := 0; i < st.NumFields(); i++ {
		if st.Field(i).Name() == name {
			return st.Field(i)
		}
	}
	return nil
}

func namedType(pkg *packages.Package, name string) *types.Named {
	if pkg == nil {
		return nil
	}
	obj := pkg.Types.Scope().Lookup(name)
	if obj == nil {
		return nil
	}
	n, _ := obj.Type().(*types.Named)
	return n
}

func exprStr(e ast.Expr) string { return types.ExprString(e) }

// walkNoLit walks n without descending into function literals.
func walkNoLit(n ast.Node, fn func(ast.Node) bool) {
	ast.Inspect(n, func(c ast.Node) bool {
		if c == nil {
			return false
		}
		if _, ok := c.(*ast.FuncLit); ok && c != n {
			return false
		}
		return fn(c)
	})
}

// builtFields: v is a local holding an object under construction — created by new(T), &T{…}, T{…} or `var v T` and then
// completed by stores v.f = e at the top level of f's body. Returns, per field name, the expression stored last (a
// literal element or a later store). ok is false if v is not such a local, or a field is stored inside a branch or loop
// (its final value then depends on the path).
func (w *World) builtFields(f *Func, v types.Object) (map[string]ast.Expr, bool) {
	if v == nil || f.Body == nil {
		return nil, false
	}
	info := f.Pkg.TypesInfo
	fields := map[string]ast.Expr{}
	created := false
	fromLit := func(e ast.Expr) bool {
		e = unparen(e)
		if u, ok := e.(*ast.UnaryExpr); ok && u.Op == token.AND {
			e = unparen(u.X)
		}
		switch x := e.(type) {
		case *ast.CompositeLit:
			for _, el := range x.Elts {
				kv, ok := el.(*ast.KeyValueExpr)
				if !ok {
					return false
				}
				if id, ok := kv.Key.(*ast.Ident); ok {
					fields[id.Name] = kv.Value
				}
			}
			return true
		case *ast.CallExpr:
			return isBuiltin(info, x, "new")
		}
		return false
	}
	okAll := true
	for _, st := range f.Body.List {
		switch s := st.(type) {
		case *ast.AssignStmt:
			if len(s.Lhs) != len(s.Rhs) {
				break
			}
			for i, l := range s.Lhs {
				if id := identOf(l); id != nil && (info.Defs[id] == v || info.Uses[id] == v) {
					if created || !fromLit(s.Rhs[i]) {
						okAll = false
					}
					created = true
					continue
				}
				if se, ok := unparen(l).(*ast.SelectorExpr); ok {
					if id := identOf(se.X); id != nil && info.Uses[id] == v && created {
						fields[se.Sel.Name] = s.Rhs[i]
					}
				}
			}
		case *ast.DeclStmt:
			if gd, ok := s.Decl.(*ast.GenDecl); ok {
				for _, sp := range gd.Specs {
					if vs, ok := sp.(*ast.ValueSpec); ok {
						for i, nm := range vs.Names {
							if info.Defs[nm] == v {
								if len(vs.Values) == 0 {
									created = true
								} else if i < len(vs.Values) && fromLit(vs.Values[i]) {
									created = true
								} else {
									okAll = false
								}
							}
						}
					}
				}
			}
		}
	}
	if !created || !okAll {
		return nil, false
	}
	// no store to a field of v below the top level
	nested := false
	for _, st := range f.Body.List {
		if _, isAssign := st.(*ast.AssignStmt); isAssign {
			continue
		}
		walkNoLit(st, func(n ast.Node) bool {
			if as, ok := n.(*ast.AssignStmt); ok {
				for _, l := range as.Lhs {
					if se, ok := unparen(l).(*ast.SelectorExpr); ok {
						if id := identOf(se.X); id != nil && info.Uses[id] == v {
							nested = true
						}
					}
				}
			}
			return true
		})
	}
	if nested {
		return nil, false
	}
	return fields, true
}

// readOnlyTable: obj is an unexported package-level variable initialised by a map (or slice/array) composite literal that
// nothing in its package writes: every use is an index read t[k] (not assigned to, not incremented, its address not
// taken) — the table is never passed on, ranged with mutation, deleted from or replaced. Returns the literal.
func readOnlyTable(w *World, pkg *packages.Package, obj types.Object) (*ast.CompositeLit, string) {
	v, ok := obj.(*types.Var)
	if !ok || v.Parent() != pkg.Types.Scope() {
		return nil, "not a package-level variable"
	}
	if ast.IsExported(v.Name()) {
		return nil, "exported: other packages can write it"
	}
	info := pkg.TypesInfo
	var lit *ast.CompositeLit
	for _, file := range pkg.Syntax {
		for _, d := range file.Decls {
			gd, ok := d.(*ast.GenDecl)
			if !ok || gd.Tok != token.VAR {
				continue
			}
			for _, sp := range gd.Specs {
				vs := sp.(*ast.ValueSpec)
				for i, nm := range vs.Names {
					if info.Defs[nm] == obj && len(vs.Values) == len(vs.Names) {
						lit, _ = unparen(vs.Values[i]).(*ast.CompositeLit)
					}
				}
			}
		}
	}
	if lit == nil {
		return nil, "not initialised by a composite literal"
	}
	bad := ""
	for _, file := range pkg.Syntax {
		ast.Inspect(file, func(n ast.Node) bool {
			id, ok := n.(*ast.Ident)
			if !ok || info.Uses[id] != obj || bad != "" {
				return true
			}
			ix, isIx := w.parent[id].(*ast.IndexExpr)
			if !isIx || ix.X != ast.Expr(id) {
				bad = "used other than by indexing at " + w.Pos(id.Pos())
				return true
			}
			switch p := w.parent[ix].(type) {
			case *ast.AssignStmt:
				for _, l := range p.Lhs {
					if l == ast.Expr(ix) {
						bad = "an element is assigned at " + w.Pos(id.Pos())
					}
				}
			case *ast.IncDecStmt:
				bad = "an element is modified at " + w.Pos(id.Pos())
			case *ast.UnaryExpr:
				if p.Op == token.AND {
					bad = "the address of an element is taken at " + w.Pos(id.Pos())
				}
			}
			return true
		})
	}
	if bad != "" {
		return nil, bad
	}
	return lit, ""
}

// structuralTypeStr renders a type with named function types replaced by their signatures (a named func type is an
// interchangeable spelling of the signature): []argConverterFunc reads as []func(*variable.Value) (reflect.Value, error).
func structuralTypeStr(t types.Type) string {
	switch x := t.(type) {
	case *types.Slice:
		return "[]" + structuralTypeStr(x.Elem())
	case *types.Map:
		return "map[" + typeStr(x.Key()) + "]" + structuralTypeStr(x.Elem())
	case *types.Named:
		if _, isSig := x.Underlying().(*types.Signature); isSig {
			return typeStr(x.Underlying())
		}
	case *types.Alias:
		return structuralTypeStr(types.Unalias(x))
	}
	return typeStr(t)
}
