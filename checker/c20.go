package main

// c20.go — C20 (second sentence): indentation tokens are balanced, never close more than was opened, one EOF after the drain.
// c08.go's rules on the same lexer live in c08.go.

import (
	"go/ast"
	"go/constant"
	"go/token"
	"go/types"
	"strings"
)

func init() {
	registry["C20"] = &propCheck{
		meta: propMeta{
			Level: "other",
			Explanation: "Decides the second sentence of the property on the indentation-aware lexer: (R1) INDENT tokens and pushes on the indent stack, DEDENT tokens and pops, come in pairs on every path (path automaton: a push without its INDENT, a DEDENT without its pop, etc. cannot reach a return or a loop back-edge), nothing else pushes or pops that stack, so #INDENT - #DEDENT equals the stack depth and is never negative; each pop is entailed by a non-empty stack (or by the reviewed width argument); " +
				"(R2) the EOF token is enqueued exactly once per EOF of the base lexer, and only when the indent stack is entailed empty (after the draining loop); " +
				"(R3) of the first sentence only a shape condition it depends on: the queue wraps indices modulo cap(buffer) and addresses elements within len(buffer), so every value stored in the buffer field must have len == cap (a two-argument make) — a re-sliced or appended buffer loses elements or panics after the next wrap; " +
				"(R4) a second shape condition: wherever elements are copied out of the ring buffer into another one (growth, shrinking), the copies tile the ring in order — base[head:N] to the start, the wrapped segment base[0:head] right behind it (destination offset N − head, compared as affine forms over head and N = len = cap), and the head is reset to 0; a lone copy of base[head:] drops the wrapped elements.",
			NotDecided:  "the first sentence beyond R3 and R4: exact FIFO/LIFO behaviour of Queue and Stack over all operation histories depends on the index arithmetic of the ordinary enqueue/dequeue/size steps, a state space static rules do not bound (needs model checking or exhaustive exploration, a different family); a carry-over written as a loop is undecided",
			Assumptions: []string{"A3 (the base lexer delivers one EOF token)", "A4"},
			Trusted:     []string{"go/types", "golang.org/x/tools/go/cfg", "go/packages loader"},
		},
		run: checkC20,
	}
}

// countedDrain: rs is `for range S.Size()` (the count is evaluated once, before the first turn) on the indent stack S, and its
// body pops S exactly once per turn, straight-line (no push, no other pop, no break/continue/return/goto, no nested loop around
// the pop): the loop pops exactly as many levels as were open when it started — every pop meets a non-empty stack and the
// stack is empty after the loop.
func countedDrain(w *World, lx *lexerModel, rs *ast.RangeStmt) bool {
	info := lx.pkg.TypesInfo
	if rs.Key != nil && !(isBlankIdent(rs.Key)) || rs.Value != nil {
		return false
	}
	call, ok := unparen(rs.X).(*ast.CallExpr)
	if !ok {
		return false
	}
	if name, on := methodCallOn(info, call, lx.fIndents); !on || name != "Size" {
		return false
	}
	pops, bad := 0, false
	for _, st := range rs.Body.List {
		// the pop must be in a top-level statement of the body (executed on every turn)
		ast.Inspect(st, func(n ast.Node) bool {
			switch q := n.(type) {
			case *ast.FuncLit:
				return false
			case *ast.BranchStmt, *ast.ReturnStmt, *ast.ForStmt, *ast.RangeStmt, *ast.IfStmt, *ast.SwitchStmt, *ast.SelectStmt, *ast.TypeSwitchStmt:
				bad = true
			case *ast.CallExpr:
				if name, on := methodCallOn(info, q, lx.fIndents); on {
					switch name {
					case "Pop":
						pops++
					case "Peek", "Size":
					default:
						bad = true
					}
				}
			}
			return true
		})
	}
	return pops == 1 && !bad
}

func isBlankIdent(e ast.Expr) bool {
	id, ok := unparen(e).(*ast.Ident)
	return ok && id.Name == "_"
}

func tokenKindOfInsert(info *types.Info, lx *lexerModel, call *ast.CallExpr) string {
	callee := calleeOf(info, call)
	if callee == nil || lx.insert == nil || callee != lx.insert.Obj || len(call.Args) != 2 {
		return ""
	}
	if sel := identOf(call.Args[1]); sel != nil {
		if c, ok := info.Uses[sel].(*types.Const); ok {
			switch {
			case strings.HasSuffix(c.Name(), "INDENT") && !strings.HasSuffix(c.Name(), "DEDENT"):
				return "INDENT"
			case strings.HasSuffix(c.Name(), "DEDENT"):
				return "DEDENT"
			}
			return "OTHER:" + c.Name()
		}
	}
	if tv, ok := info.Types[call.Args[1]]; ok && tv.Value != nil && tv.Value.Kind() == constant.Int {
		return "OTHER"
	}
	return "UNKNOWN"
}

func checkC20(c *Ctx) {
	w := c.W
	wGlobal = w
	lx := w.lexer()
	c.rule("C20.R1", "INDENT <-> push and DEDENT <-> pop are paired on every path of the lexer's handlers; no other push/pop of the indent stack; every pop is entailed by a non-empty stack or the reviewed width argument", 5)
	c.rule("C20.R2", "the EOF token is enqueued exactly once per EOF, entailed by an empty indent stack (after the drain)", 2)
	c.rule("C20.R3", "ring buffer shape: where the queue's index arithmetic is modulo cap(buffer) while elements are addressed through the buffer (bounded by len), every value ever stored in the buffer field has len == cap (a two-argument make), so that the two agree", 1)
	c20R3(c)
	c20R4(c)
	if !lx.ok(c, "C20") {
		return
	}
	info := lx.pkg.TypesInfo
	// ----- R1: pairing automaton in every method of the lexer
	for _, f := range w.FuncsIn(lx.pkg) {
		if f.Decl == nil || f.Decl.Recv == nil || f.Body == nil || typeStr(f.Sig().Recv().Type()) != "*parser.IndentAwareLexer" {
			continue
		}
		touches := false
		walkNoLit(f.Body, func(n ast.Node) bool {
			if call, ok := n.(*ast.CallExpr); ok {
				if name, on := methodCallOn(info, call, lx.fIndents); on && (name == "Push" || name == "Pop" || name == "Clear" || name == "PushAll") {
					touches = true
				}
				if k := tokenKindOfInsert(info, lx, call); k == "INDENT" || k == "DEDENT" {
					touches = true
				}
			}
			return true
		})
		if !touches {
			continue
		}
		c.fn(f)
		okSite := f == lx.newline || f == lx.eof
		c.obN("C20.R1", f.Name+"/site", w.Pos(f.Decl.Pos()), okSite, map[bool]string{true: "indentation handler", false: "the indent stack or INDENT/DEDENT tokens are manipulated outside the NEWLINE and EOF handlers"}[okSite], false)
		r := evtRule{
			start: "idle",
			prim: func(n ast.Node) []string {
				switch n := n.(type) {
				case *ast.CallExpr:
					if name, on := methodCallOn(info, n, lx.fIndents); on {
						switch name {
						case "Push":
							return []string{"PUSH"}
						case "Pop":
							return []string{"POP"}
						case "Clear", "PushAll":
							return []string{"OTHERSTACK"}
						}
					}
					switch tokenKindOfInsert(info, lx, n) {
					case "INDENT":
						return []string{"INDENT"}
					case "DEDENT":
						return []string{"DEDENT"}
					}
				case *pseudo:
					if n.kind == "BACKEDGE" {
						return []string{"BOUNDARY"}
					}
				}
				return nil
			},
			step: func(st, ev string) string {
				if strings.HasPrefix(st, "bad:") {
					return "" // absorbing
				}
				switch ev {
				case "PUSH":
					switch st {
					case "idle":
						return "need-INDENT"
					case "need-push":
						return "idle"
					}
					return "bad:push while " + st
				case "INDENT":
					switch st {
					case "idle":
						return "need-push"
					case "need-INDENT":
						return "idle"
					}
					return "bad:INDENT while " + st
				case "POP":
					switch st {
					case "idle":
						return "need-DEDENT"
					case "need-pop":
						return "idle"
					}
					return "bad:pop while " + st
				case "DEDENT":
					switch st {
					case "idle":
						return "need-pop"
					case "need-DEDENT":
						return "idle"
					}
					return "bad:DEDENT while " + st
				case "OTHERSTACK":
					return "bad:the indent stack is cleared or bulk-pushed"
				case "BOUNDARY":
					if st != "idle" && !strings.HasPrefix(st, "bad:") {
						return "bad:loop iteration ends with " + st
					}
				}
				return ""
			},
			bad: func(st, ev string) string {
				if strings.HasPrefix(st, "bad:") {
					return "indentation tokens and the indent stack get out of step (" + strings.TrimPrefix(st, "bad:") + "): DEDENT and INDENT counts would no longer match the nesting"
				}
				return ""
			},
			ret: func(st string, ret *ast.ReturnStmt, kind string) string {
				if st != "idle" && !strings.HasPrefix(st, "bad:") {
					return "the handler returns with " + st + ": a level was opened or closed on the stack without its token (or vice versa)"
				}
				return ""
			},
		}
		fs := runEVT(w, f, r)
		if len(fs) == 0 {
			c.ob("C20.R1", f.Name+"/paired", w.Pos(f.Decl.Pos()), true, "every push has its INDENT and every pop its DEDENT before the handler returns or the loop iterates")
		}
		seen := map[string]bool{}
		n := 0
		for _, fd := range fs {
			if seen[fd.msg] {
				continue
			}
			seen[fd.msg] = true
			n++
			c.ob("C20.R1", f.Name+"/paired#"+itoa(n), w.Pos(fd.pos), false, fd.msg)
		}
		// pops are entailed non-empty
		e := w.ent(f)
		np := 0
		walkNoLit(f.Body, func(q ast.Node) bool {
			call, ok := q.(*ast.CallExpr)
			if !ok {
				return true
			}
			name, on := methodCallOn(info, call, lx.fIndents)
			if !on || (name != "Pop" && name != "Peek") {
				return true
			}
			np++
			sel := unparen(call.Fun).(*ast.SelectorExpr)
			at := site{pos: call.Pos(), anc: call}
			kc := keyCtx{e: e, s: &at}
			goal := gtAtom(linForm{terms: map[string]int64{kc.key(sel.X) + ".Size()": 1}}, 0)
			ok2, how := e.Prove(call, goal)
			key := f.Name + "/" + name + "#" + itoa(np)
			if ok2 {
				c.ob("C20.R1", key, w.Pos(call.Pos()), true, "entailed: Size() > 0 ("+how+")")
				return true
			}
			// reviewed: the dedent loop pops only while width < previousIndent, previousIndent being 0 exactly when the stack is
			// empty and widths being sums of positive constants (C08.R1)
			drained := false
			for q := w.parent[call]; q != nil && q != f.Node(); q = w.parent[q] {
				if rs, ok := q.(*ast.RangeStmt); ok && countedDrain(w, lx, rs) {
					drained = true
				}
			}
			if drained && name == "Pop" {
				c.ob("C20.R1", key, w.Pos(call.Pos()), true, "counted drain: `for range S.Size()` evaluates the count once and the body pops exactly once per turn, so every pop meets a non-empty stack")
				return true
			}
			if f == lx.newline && dedentLoopShape(w, lx, call) {
				c.ob("C20.R1", key, w.Pos(call.Pos()), true, "reviewed: popped only while width < previousIndent; previousIndent is 0 exactly when the stack is empty and widths are non-negative (C08.R1), so the stack is not empty [shape re-checked]")
				return true
			}
			c.ob("C20.R1", key, w.Pos(call.Pos()), false, name+" on the indent stack without an entailing non-empty test: the lexer could close more levels than it opened (and panic): "+how)
			return true
		})
	}

	// ----- R2
	f := lx.eof
	e := w.ent(f)
	param := f.Sig().Params().At(0)
	nEnq := 0
	var enq *ast.CallExpr
	walkNoLit(f.Body, func(q ast.Node) bool {
		call, ok := q.(*ast.CallExpr)
		if !ok || len(call.Args) != 1 {
			return true
		}
		if name, on := methodCallOn(info, call, lx.fPending); on && name == "Enqueue" {
			if id := identOf(call.Args[0]); id != nil && info.Uses[id] == param {
				nEnq++
				enq = call
			}
		}
		return true
	})
	if enq == nil {
		c.ob("C20.R2", f.Name+"/eof-enqueued", w.Pos(f.Decl.Pos()), false, "the EOF handler never enqueues the EOF token: the token stream would not end")
		return
	}
	at := site{pos: enq.Pos(), anc: enq}
	kc := keyCtx{e: e, s: &at}
	var stackExpr ast.Expr
	walkNoLit(f.Body, func(q ast.Node) bool {
		if se, ok := q.(*ast.SelectorExpr); ok && stackExpr == nil && lastField(info, se) == lx.fIndents {
			if _, isField := info.Selections[se]; isField {
				stackExpr = se
			}
		}
		return true
	})
	if stackExpr == nil {
		c.ob("C20.R2", f.Name+"/drained-before-eof", w.Pos(enq.Pos()), false, "the EOF handler never looks at the indent stack: open levels would not be closed before EOF")
	} else {
		goal := Not{gtAtom(linForm{terms: map[string]int64{kc.key(stackExpr) + ".Size()": 1}}, 0)}
		ok, how := e.Prove(enq, goal)
		if !ok {
			// after a counted drain at the top level of the handler, with no push in between, the stack is empty
			for _, st := range f.Body.List {
				if rs, isRange := st.(*ast.RangeStmt); isRange && rs.End() < enq.Pos() && countedDrain(w, lx, rs) {
					pushed := false
					ast.Inspect(f.Body, func(n ast.Node) bool {
						if cl, isCall := n.(*ast.CallExpr); isCall && cl.Pos() > rs.End() && cl.Pos() < enq.Pos() {
							if name, on := methodCallOn(info, cl, lx.fIndents); on && (name == "Push" || name == "PushAll") {
								pushed = true
							}
						}
						return true
					})
					// the enqueue itself is a top-level statement after the loop (not inside a branch that could skip the loop)
					topLevel := false
					for _, st2 := range f.Body.List {
						if st2.Pos() <= enq.Pos() && enq.End() <= st2.End() {
							if _, isExpr := st2.(*ast.ExprStmt); isExpr {
								topLevel = true
							}
						}
					}
					if !pushed && topLevel {
						ok, how = true, "after the counted drain `for range S.Size()`, which pops every level that was open"
					}
				}
			}
		}
		c.ob("C20.R2", f.Name+"/drained-before-eof", w.Pos(enq.Pos()), ok, map[bool]string{true: "the EOF token is enqueued only when the indent stack is entailed empty (" + how + ")", false: "the EOF token can be enqueued while levels are still open on the indent stack: fewer DEDENT than INDENT tokens would be emitted (" + how + ")"}[ok])
	}
	// exactly once per call
	r := evtRule{
		start: "",
		prim: func(n ast.Node) []string {
			if call, ok := n.(*ast.CallExpr); ok && len(call.Args) == 1 {
				if name, on := methodCallOn(info, call, lx.fPending); on && name == "Enqueue" {
					if id := identOf(call.Args[0]); id != nil && info.Uses[id] == param {
						return []string{"EOF"}
					}
				}
			}
			return nil
		},
		step: func(st, ev string) string { return addTok(st, ev) },
		ret: func(st string, ret *ast.ReturnStmt, kind string) string {
			if st != "EOF" {
				return "the EOF handler enqueues the EOF token " + itoa(strings.Count(" "+st+" ", " EOF ")) + " times on a path (want exactly once)"
			}
			return ""
		},
	}
	fs := runEVT(w, f, r)
	if len(fs) == 0 {
		c.ob("C20.R2", f.Name+"/single-eof", w.Pos(f.Decl.Pos()), true, "every path enqueues the EOF token exactly once")
	}
	for i, fd := range fs {
		c.ob("C20.R2", f.Name+"/single-eof#"+itoa(i+1), w.Pos(fd.pos), false, fd.msg)
	}
	// the dispatcher hands EOF tokens to the EOF handler and NEWLINE tokens to the NEWLINE handler
	var dispatcher *Func
	for _, g := range w.FuncsIn(lx.pkg) {
		if g.Body == nil || g.Decl == nil {
			continue
		}
		callsEOF, callsNL := false, false
		walkNoLit(g.Body, func(q ast.Node) bool {
			if call, ok := q.(*ast.CallExpr); ok {
				if callee := calleeOf(info, call); callee != nil {
					if callee == lx.eof.Obj {
						callsEOF = true
					}
					if callee == lx.newline.Obj {
						callsNL = true
					}
				}
			}
			return true
		})
		if callsEOF && callsNL {
			dispatcher = g
		}
	}
	if dispatcher == nil {
		c.undecided("C20.R2", "the token dispatcher (calls both handlers) was not found")
		return
	}
	c.fn(dispatcher)
	okDisp := false
	eachTagBranch(w, w.expander(dispatcher), dispatcher.Body, func(node ast.Node, tag string, arms []tagArm) {
		for _, a := range arms {
			for _, v := range a.vals {
				if sel, ok := unparen(v).(*ast.SelectorExpr); ok && sel.Sel.Name == "TokenEOF" {
					for _, st := range a.body {
						if es, ok := st.(*ast.ExprStmt); ok {
							if call, ok := es.X.(*ast.CallExpr); ok {
								if callee := calleeOf(info, call); callee != nil && callee == lx.eof.Obj {
									okDisp = true
								}
							}
						}
					}
				}
			}
		}
	})
	c.ob("C20.R2", dispatcher.Name+"/eof-dispatch", w.Pos(dispatcher.Decl.Pos()), okDisp, map[bool]string{true: "EOF tokens of the base lexer go to the EOF handler", false: "EOF tokens of the base lexer are not handed to the draining EOF handler"}[okDisp])
}

// dedentLoopShape: the pop is the first statement of `for width < previous { previous = Pop(); …; previous = Peek()|0 }`
// where previous was initialised to 0 / Peek() under Size() > 0.
func dedentLoopShape(w *World, lx *lexerModel, pop *ast.CallExpr) bool {
	info := lx.pkg.TypesInfo
	var loop *ast.ForStmt
	for q := w.parent[pop]; q != nil; q = w.parent[q] {
		if fs, ok := q.(*ast.ForStmt); ok {
			loop = fs
			break
		}
	}
	if loop == nil || loop.Cond == nil {
		return false
	}
	b, ok := unparen(loop.Cond).(*ast.BinaryExpr)
	if !ok || (b.Op.String() != "<" && b.Op.String() != ">") {
		return false
	}
	// one side is the measured width (result of the measuring function), the other a local that is only ever assigned
	// 0, Peek() or Pop() of the indent stack
	isWidth := func(e ast.Expr) bool {
		x := w.expander(lx.newline)
		return strings.Contains(x.str(e), "."+lx.measure.Decl.Name.Name+"(")
	}
	isPrev := func(e ast.Expr) bool {
		// a call of a lexer method that is "top of the indent stack, or 0 when it is empty"
		if call, ok := unparen(e).(*ast.CallExpr); ok {
			if callee := calleeOf(info, call); callee != nil {
				if g := w.byObj[callee]; g != nil && topOrZero(w, lx, g) {
					return true
				}
			}
			return false
		}
		id := identOf(e)
		if id == nil {
			return false
		}
		obj := info.Uses[id]
		en := w.ent(lx.newline)
		if len(en.assigns[obj]) == 0 {
			return false
		}
		for _, a := range en.assigns[obj] {
			if vs, isVS := a.(*ast.ValueSpec); isVS {
				// var previousIndent int (zero), or = 0
				okZero := len(vs.Values) == 0
				if len(vs.Values) == 1 && len(vs.Names) == 1 {
					if tv, ok := info.Types[vs.Values[0]]; ok && tv.Value != nil && tv.Value.ExactString() == "0" {
						okZero = true
					}
				}
				if !okZero {
					return false
				}
				continue
			}
			as, ok := a.(*ast.AssignStmt)
			if !ok || len(as.Rhs) != 1 {
				return false
			}
			if tv, ok := info.Types[as.Rhs[0]]; ok && tv.Value != nil && tv.Value.ExactString() == "0" {
				continue
			}
			if call, ok := unparen(as.Rhs[0]).(*ast.CallExpr); ok {
				if name, on := methodCallOn(info, call, lx.fIndents); on && (name == "Peek" || name == "Pop") {
					continue
				}
			}
			return false
		}
		return true
	}
	if b.Op.String() == "<" {
		return isWidth(b.X) && isPrev(b.Y)
	}
	return isWidth(b.Y) && isPrev(b.X)
}

// c20R3: a necessary condition of the first sentence that is visible in the shape of the code. The ring arithmetic of
// Queue wraps indices modulo cap(base) and addresses elements as base[i], which Go bounds by len(base). The two agree
// only while len(base) == cap(base); a buffer that is re-sliced, appended to, or made with a separate capacity breaks
// that, and with it the queue (lost elements or a run-time panic after the first wrap). Decides this shape only — not
// FIFO order, which depends on the joint values of head, tail and capacity over histories.
func c20R3(c *Ctx) {
	w := c.W
	cp := w.Pkg("internal/container")
	if cp == nil {
		c.undecided("C20.R3", "package internal/container not found")
		return
	}
	info := cp.TypesInfo
	// slice-typed fields of generic struct types of the package that are used under cap(…) in a modulus
	usesCap := map[*types.Var]token.Pos{}
	for _, f := range w.FuncsIn(cp) {
		if f.Body == nil {
			continue
		}
		ast.Inspect(f.Body, func(n ast.Node) bool {
			b, ok := n.(*ast.BinaryExpr)
			if !ok || b.Op != token.REM {
				return true
			}
			if call, ok := unparen(b.Y).(*ast.CallExpr); ok && isBuiltin(info, call, "cap") && len(call.Args) == 1 {
				if fld := lastField(info, call.Args[0]); fld != nil {
					fld = fld.Origin() // one field, whatever the method's receiver type parameters
					if _, ok := usesCap[fld]; !ok {
						usesCap[fld] = call.Pos()
					}
				}
			}
			return true
		})
	}
	if len(usesCap) == 0 {
		c.ob("C20.R3", "internal/container/ring-arithmetic", "-", true, "no index arithmetic modulo cap(buffer) in the package: the rule has nothing to require")
		return
	}
	for fld, pos := range usesCap {
		n := 0
		for _, f := range w.FuncsIn(cp) {
			if f.Body == nil {
				continue
			}
			c.fn(f)
			ast.Inspect(f.Body, func(q ast.Node) bool {
				as, ok := q.(*ast.AssignStmt)
				if !ok {
					return true
				}
				for i, l := range as.Lhs {
					if _, isSel := unparen(l).(*ast.SelectorExpr); !isSel || lastField(info, l) == nil || lastField(info, l).Origin() != fld {
						continue
					}
					n++
					key := f.Name + "/" + fld.Name() + "#" + itoa(n)
					if len(as.Rhs) != len(as.Lhs) {
						c.ob("C20.R3", key, w.Pos(as.Pos()), false, "the buffer is assigned from a multi-value expression")
						continue
					}
					ok, why := fullLengthSlice(w, f, as.Rhs[i], 0)
					c.ob("C20.R3", key, w.Pos(as.Pos()), ok, map[bool]string{true: "the buffer receives " + why + " (len == cap)", false: "the buffer receives " + why + ": its length and capacity can differ, while indices wrap modulo cap (" + w.Pos(pos) + ") and elements are addressed within len — elements would be lost or the queue would panic after the next wrap-around"}[ok])
				}
				return true
			})
			// appends through the field, or its address escaping, also change len independently of cap
			ast.Inspect(f.Body, func(q ast.Node) bool {
				if u, ok := q.(*ast.UnaryExpr); ok && u.Op == token.AND && lastField(info, u.X) != nil && lastField(info, u.X).Origin() == fld {
					if _, isSel := unparen(u.X).(*ast.SelectorExpr); isSel {
						n++
						c.ob("C20.R3", f.Name+"/"+fld.Name()+"#"+itoa(n), w.Pos(u.Pos()), false, "the address of the buffer field is taken: its length can change out of sight of this rule")
					}
				}
				return true
			})
		}
		if n == 0 {
			c.ob("C20.R3", "container/"+fld.Name(), w.Pos(pos), false, "the buffer field is never assigned a made slice")
		}
	}
}

// fullLengthSlice: make([]T, n) (two arguments), nil, or a local assigned once to such a value.
func fullLengthSlice(w *World, f *Func, e ast.Expr, depth int) (bool, string) {
	info := f.Pkg.TypesInfo
	switch x := unparen(e).(type) {
	case *ast.CallExpr:
		if isBuiltin(info, x, "make") {
			if len(x.Args) == 2 {
				return true, "make with a length only"
			}
			if len(x.Args) == 3 && exprStr(x.Args[1]) == exprStr(x.Args[2]) && simpleExpr(info, x.Args[1]) {
				return true, "make with identical length and capacity"
			}
			return false, "make with a capacity different from its length"
		}
		if isBuiltin(info, x, "append") {
			return false, "the result of append (capacity chosen by the runtime)"
		}
	case *ast.Ident:
		if x.Name == "nil" {
			return true, "nil"
		}
		if obj, ok := info.Uses[x].(*types.Var); ok && depth < 3 {
			xp := w.expander(f)
			if rhs, _, _, ok := xp.def(obj); ok && rhs != nil {
				// the local must not be re-sliced or appended to in between: it is assigned exactly once (def) and slices
				// are values — only an append/reslice assigned back would change it, which def excludes
				return fullLengthSlice(w, f, rhs, depth+1)
			}
		}
	case *ast.SliceExpr:
		// x[:cap(x)] (or x[0:cap(x)]): the length is the capacity by construction
		if x.High != nil && !x.Slice3 && (x.Low == nil || exprStr(x.Low) == "0") {
			if call, ok := unparen(x.High).(*ast.CallExpr); ok && isBuiltin(info, call, "cap") && len(call.Args) == 1 && exprStr(call.Args[0]) == exprStr(x.X) && simpleExpr(info, x.X) {
				return true, "a re-slice up to its own capacity " + exprStr(x)
			}
		}
		return false, "a re-slice " + exprStr(x)
	}
	return false, exprStr(e)
}

// topOrZero: the function's body is `if S.Size() > 0 { return S.Peek() }; return 0` on the indent stack (in either
// arrangement of the two returns): its result is 0 exactly when the stack is empty (widths on the stack are positive).
func topOrZero(w *World, lx *lexerModel, g *Func) bool {
	if g.Body == nil || g.Sig().Params().Len() != 0 || g.Sig().Results().Len() != 1 {
		return false
	}
	info := g.Pkg.TypesInfo
	e := w.ent(g)
	okAll, nret, sawPeek, sawZero := true, 0, false, false
	walkNoLit(g.Body, func(n ast.Node) bool {
		switch x := n.(type) {
		case *ast.ReturnStmt:
			nret++
			if len(x.Results) != 1 {
				okAll = false
				return true
			}
			if tv, ok := info.Types[x.Results[0]]; ok && tv.Value != nil && tv.Value.ExactString() == "0" {
				// 0 only where the stack is known empty
				var sizeX ast.Expr
				walkNoLit(g.Body, func(q ast.Node) bool {
					if call, ok := q.(*ast.CallExpr); ok {
						if name, on := methodCallOn(info, call, lx.fIndents); on && name == "Size" {
							sizeX = unparen(call.Fun).(*ast.SelectorExpr).X
						}
					}
					return true
				})
				if sizeX == nil {
					okAll = false
					return true
				}
				at := site{pos: x.Pos(), anc: x}
				kc := keyCtx{e: e, s: &at}
				if ok, _ := e.Prove(x, Not{gtAtom(linForm{terms: map[string]int64{kc.key(sizeX) + ".Size()": 1}}, 0)}); !ok {
					okAll = false
				}
				sawZero = true
				return true
			}
			if call, ok := unparen(x.Results[0]).(*ast.CallExpr); ok {
				if name, on := methodCallOn(info, call, lx.fIndents); on && name == "Peek" {
					sawPeek = true
					return true
				}
			}
			okAll = false
		case *ast.AssignStmt, *ast.IncDecStmt, *ast.ForStmt, *ast.RangeStmt, *ast.GoStmt, *ast.DeferStmt:
			okAll = false
		}
		return true
	})
	return okAll && nret == 2 && sawPeek && sawZero
}
