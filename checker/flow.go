package main

// flow.go — FLOW: provenance helpers on SSA (field-sensitive, object-insensitive; no pointer analysis is available).

import (
	"go/token"
	"go/types"
	"strings"

	"golang.org/x/tools/go/ssa"
)

// fieldOfAddr returns the struct field addressed by v (FieldAddr) or loaded by v (load of a FieldAddr, or Field).
func fieldOfAddr(v ssa.Value) *types.Var {
	switch x := v.(type) {
	case *ssa.FieldAddr:
		st, ok := x.X.Type().Underlying().(*types.Pointer)
		if !ok {
			return nil
		}
		s, ok := st.Elem().Underlying().(*types.Struct)
		if !ok {
			return nil
		}
		return s.Field(x.Field)
	case *ssa.Field:
		s, ok := x.X.Type().Underlying().(*types.Struct)
		if !ok {
			return nil
		}
		return s.Field(x.Field)
	}
	return nil
}

// loadedField: v is a load (*addr) of a struct field, or a Field extraction; returns the field.
func loadedField(v ssa.Value) *types.Var {
	switch x := v.(type) {
	case *ssa.UnOp:
		if x.Op == token.MUL {
			return fieldOfAddr(x.X)
		}
	case *ssa.Field:
		return fieldOfAddr(x)
	}
	return nil
}

// ownerOfAddr describes the object a store address belongs to: the chain of field/index steps down from its base.
type addrPath struct {
	base   ssa.Value    // Alloc, Parameter, Global, call result, load of another path, ...
	fields []*types.Var // fields traversed from the base, outermost first
	loads  int          // number of pointer loads traversed
}

func pathOfAddr(v ssa.Value) addrPath {
	var p addrPath
	for depth := 0; depth < 32; depth++ {
		switch x := v.(type) {
		case *ssa.FieldAddr:
			if f := fieldOfAddr(x); f != nil {
				p.fields = append([]*types.Var{f}, p.fields...)
			}
			v = x.X
			continue
		case *ssa.IndexAddr:
			v = x.X
			continue
		case *ssa.UnOp:
			if x.Op == token.MUL {
				p.loads++
				v = x.X
				continue
			}
		case *ssa.Slice:
			v = x.X
			continue
		case *ssa.ChangeType:
			v = x.X
			continue
		case *ssa.Convert:
			v = x.X
			continue
		case *ssa.Field:
			if f := fieldOfAddr(x); f != nil {
				p.fields = append([]*types.Var{f}, p.fields...)
			}
			v = x.X
			continue
		case *ssa.Index:
			v = x.X
			continue
		}
		break
	}
	p.base = v
	return p
}

func pkgPathOfVar(v *types.Var) string {
	if v == nil || v.Pkg() == nil {
		return ""
	}
	return v.Pkg().Path()
}

func ssaFuncPkgPath(f *ssa.Function) string {
	r := f
	for r.Parent() != nil {
		r = r.Parent()
	}
	if r.Pkg != nil {
		return r.Pkg.Pkg.Path()
	}
	if r.Origin() != nil && r.Origin().Pkg != nil {
		return r.Origin().Pkg.Pkg.Path()
	}
	return ""
}

func ssaFuncName(f *ssa.Function) string {
	s := f.String()
	s = strings.ReplaceAll(s, modPath+"/", "")
	s = strings.ReplaceAll(s, modPath, "ysgo")
	return s
}

// derivesFromValue: v is reached from root through field/index/load/slice steps only.
func derivesFromValue(v, root ssa.Value, depth int) bool {
	if v == root {
		return true
	}
	if depth > 12 {
		return false
	}
	switch x := v.(type) {
	case *ssa.FieldAddr:
		return derivesFromValue(x.X, root, depth+1)
	case *ssa.IndexAddr:
		return derivesFromValue(x.X, root, depth+1)
	case *ssa.UnOp:
		return derivesFromValue(x.X, root, depth+1)
	case *ssa.Slice:
		return derivesFromValue(x.X, root, depth+1)
	case *ssa.Field:
		return derivesFromValue(x.X, root, depth+1)
	case *ssa.Index:
		return derivesFromValue(x.X, root, depth+1)
	case *ssa.ChangeType:
		return derivesFromValue(x.X, root, depth+1)
	case *ssa.Phi:
		for _, e := range x.Edges {
			if derivesFromValue(e, root, depth+1) {
				return true
			}
		}
	}
	return false
}

// globalRoot returns the package-level variable an address or loaded value is rooted at, or nil.
func globalRoot(v ssa.Value, depth int) *ssa.Global {
	if depth > 12 {
		return nil
	}
	switch x := v.(type) {
	case *ssa.Global:
		return x
	case *ssa.FieldAddr:
		return globalRoot(x.X, depth+1)
	case *ssa.IndexAddr:
		return globalRoot(x.X, depth+1)
	case *ssa.UnOp:
		return globalRoot(x.X, depth+1)
	case *ssa.Field:
		return globalRoot(x.X, depth+1)
	case *ssa.Index:
		return globalRoot(x.X, depth+1)
	case *ssa.Slice:
		return globalRoot(x.X, depth+1)
	case *ssa.Lookup:
		return globalRoot(x.X, depth+1)
	}
	return nil
}

// reachSSA computes the module functions reachable from roots through static calls, closures created and function
// values that escape (the bridge calls host and base functions through reflect, which no call graph sees).
func reachSSA(roots ...*ssa.Function) map[*ssa.Function]bool {
	seen := map[*ssa.Function]bool{}
	var visit func(f *ssa.Function)
	visit = func(f *ssa.Function) {
		if f == nil || seen[f] || f.Blocks == nil {
			return
		}
		if !strings.HasPrefix(ssaFuncPkgPath(f), modPath) {
			return
		}
		seen[f] = true
		for _, b := range f.Blocks {
			for _, in := range b.Instrs {
				if c, ok := in.(ssa.CallInstruction); ok {
					if callee := c.Common().StaticCallee(); callee != nil {
						visit(callee)
					}
				}
				if mc, ok := in.(*ssa.MakeClosure); ok {
					visit(mc.Fn.(*ssa.Function))
				}
				for _, op := range in.Operands(nil) {
					if fn, ok := (*op).(*ssa.Function); ok {
						visit(fn)
					}
				}
			}
		}
	}
	for _, r := range roots {
		visit(r)
	}
	return seen
}

// reachInvoke extends reachSSA with CHA-style resolution of interface method calls to module types.
func (w *World) reachModule(roots ...*ssa.Function) map[*ssa.Function]bool {
	prog := w.SSA()
	seen := map[*ssa.Function]bool{}
	var work []*ssa.Function
	push := func(f *ssa.Function) {
		if f != nil && !seen[f] && f.Blocks != nil && strings.HasPrefix(ssaFuncPkgPath(f), modPath) {
			seen[f] = true
			work = append(work, f)
		}
	}
	for _, r := range roots {
		push(r)
	}
	// module named types (for invoke resolution)
	var modTypes []types.Type
	for _, p := range w.Pkgs {
		sc := p.Types.Scope()
		for _, name := range sc.Names() {
			if tn, ok := sc.Lookup(name).(*types.TypeName); ok && !tn.IsAlias() {
				if _, isIface := tn.Type().Underlying().(*types.Interface); !isIface {
					if n, ok := tn.Type().(*types.Named); ok && n.TypeParams().Len() == 0 {
						modTypes = append(modTypes, tn.Type(), types.NewPointer(tn.Type()))
					}
				}
			}
		}
	}
	for len(work) > 0 {
		f := work[0]
		work = work[1:]
		for _, b := range f.Blocks {
			for _, in := range b.Instrs {
				if c, ok := in.(ssa.CallInstruction); ok {
					cc := c.Common()
					if callee := cc.StaticCallee(); callee != nil {
						push(callee)
					} else if cc.IsInvoke() {
						for _, t := range modTypes {
							ms := prog.MethodSets.MethodSet(t)
							if sel := ms.Lookup(cc.Method.Pkg(), cc.Method.Name()); sel != nil {
								if types.Implements(t, cc.Value.Type().Underlying().(*types.Interface)) {
									push(prog.MethodValue(sel))
								}
							}
						}
					}
				}
				if mc, ok := in.(*ssa.MakeClosure); ok {
					push(mc.Fn.(*ssa.Function))
				}
				// a module value converted to an interface may be called back by code we do not see (ANTLR runtime, reflect):
				// every method of its type is reachable (RTA)
				if mi, ok := in.(*ssa.MakeInterface); ok {
					t := mi.X.Type()
					ms := prog.MethodSets.MethodSet(t)
					for i := 0; i < ms.Len(); i++ {
						if mf := prog.MethodValue(ms.At(i)); mf != nil {
							if strings.HasPrefix(ssaFuncPkgPath(mf), modPath) {
								push(mf)
							} else if mf.Synthetic != "" {
								// promoted-method wrapper: follow it to the module method it forwards to
								for _, bb := range mf.Blocks {
									for _, ii := range bb.Instrs {
										if cc, ok := ii.(ssa.CallInstruction); ok {
											if callee := cc.Common().StaticCallee(); callee != nil {
												push(callee)
											}
										}
									}
								}
							}
						}
					}
				}
				for _, op := range in.Operands(nil) {
					if fn, ok := (*op).(*ssa.Function); ok {
						push(fn)
					}
				}
			}
		}
	}
	return seen
}
