package main

// c04.go — C04: line/option rendering (the option-group sentence, the order of concatenation, the display form of values).

import (
	"go/ast"
	"go/constant"
	"go/token"
	"go/types"
	"strings"
)

func init() {
	registry["C04"] = &propCheck{
		meta: propMeta{
			Level: "other",
			Explanation: "Decides: (R1) no option is dropped or reordered — the option loop is a range over the group's options, every iteration that does not return an error appends exactly one entry, and the appended slice is what is returned; (R2) Disabled is false without a condition and otherwise the negation of the evaluated condition's boolean; " +
				"(R3) concatenation order — one ascending pass over the text elements, each writing at most once (its literal, or the display form of its evaluated expression) to one builder whose content is exactly what is parsed for markup; in the tree builder every TEXT token reaches the text callback, which either extends the last literal element or appends a new one, and hashtags are appended in order without the '#'; " +
				"(R4) display form — integral numbers through an integer formatter under an integrality guard, other numbers through a shortest-round-trip float64 formatter, booleans as the constants True/False, strings verbatim; (R5) the markup stage unescapes nothing but \\[ and \\] (shared with C13.R5).",
			NotDecided:  "which characters survive lexing, escape resolution, comment removal and '#' recognition (TextMode/TextEscapedMode live in the ATN, assumption A3); stripping of surrounding whitespace beyond the fact that the text is trimmed (C15.R4)",
			Assumptions: []string{"A3", "A4 (fmt.Sprint / FormatFloat(…, -1, 64) print the shortest representation that round-trips)"},
			Trusted:     []string{"go/types", "golang.org/x/tools/go/cfg", "go/packages loader"},
		},
		run: checkC04,
	}
}

func checkC04(c *Ctx) {
	w := c.W
	wGlobal = w
	m := w.runner()
	c.rule("C04.R1", "option loop: range over the group's options; exactly one append per non-failing iteration; the appended slice is returned as the element's Options", 3)
	c.rule("C04.R2", "Disabled: constant false without a condition; otherwise the negation of the dereferenced boolean of the evaluated condition", 2)
	c.rule("C04.R3", "concatenation: one ascending pass, at most one write per element (literal or ToString of the evaluated expression), the builder's content is what is parsed; TEXT tokens and hashtags are forwarded in order", 6)
	c.rule("C04.R4", "display form: integer formatter under an integrality guard, shortest-round-trip float64 formatter otherwise, True/False constants, strings verbatim", 4)
	c.rule("C04.R5", "the markup stage unescapes only \\[ and \\] (C13.R5)", 1)
	c04Display(c) // Value.ToString: independent of the runner's representation (and a premise of C19.R3)
	if !m.ok(c, "C04") {
		return
	}
	info := m.pkg.TypesInfo
	f := m.next
	c.fn(f)
	x := w.expander(f)
	// ----- R1
	var loop *ast.RangeStmt
	walkNoLit(f.Body, func(n ast.Node) bool {
		if r, ok := n.(*ast.RangeStmt); ok && strings.HasSuffix(x.str(r.X), ".ShortcutOptionStatement.Options") {
			loop = r
		}
		return true
	})
	if loop == nil {
		c.ob("C04.R1", f.Name+"/option-loop", w.Pos(f.Decl.Pos()), false, "no range loop over the option group's options in Next")
		return
	}
	// "the statement just fetched" is whatever Next stores as lastStatement (fetch method or fetch written out)
	fetched := ""
	walkNoLit(f.Body, func(n ast.Node) bool {
		if as, ok := n.(*ast.AssignStmt); ok && len(as.Lhs) == len(as.Rhs) {
			for i, l := range as.Lhs {
				if _, isSel := unparen(l).(*ast.SelectorExpr); isSel && lastField(info, l) == m.fLast && !isNilExpr(info, as.Rhs[i]) {
					fetched = x.str(as.Rhs[i])
				}
			}
		}
		return true
	})
	okSrc := fetched != "" && strings.Contains(fetched, "."+m.fStack.Name()+".Peek()") && x.str(loop.X) == fetched+".ShortcutOptionStatement.Options"
	c.ob("C04.R1", f.Name+"/option-loop", w.Pos(loop.Pos()), okSrc, map[bool]string{true: "range over the options of the statement just fetched (document order, A4)", false: "the loop ranges over " + x.str(loop.X) + ", not the options of the statement just fetched"}[okSrc])
	// the slice appended to
	var sliceObj types.Object
	walkNoLit(loop.Body, func(n ast.Node) bool {
		if call, ok := n.(*ast.CallExpr); ok && isBuiltin(info, call, "append") && len(call.Args) == 2 {
			if tv, ok := info.Types[call.Args[0]]; ok && typeStr(tv.Type) == "[]ysgo.DialogueOption" {
				if id := identOf(call.Args[0]); id != nil {
					sliceObj = info.Uses[id]
				}
			}
		}
		return true
	})
	if sliceObj == nil {
		c.ob("C04.R1", f.Name+"/one-append-per-option", w.Pos(loop.Pos()), false, "the option loop appends nothing to a []DialogueOption")
		return
	}
	r := evtRule{
		start: "out",
		prim: func(n ast.Node) []string {
			switch n := n.(type) {
			case *ast.AssignStmt:
				for i, l := range n.Lhs {
					if id := identOf(l); id != nil && (info.Uses[id] == sliceObj || info.Defs[id] == sliceObj) && len(n.Rhs) == len(n.Lhs) {
						if call, ok := unparen(n.Rhs[i]).(*ast.CallExpr); ok && isBuiltin(info, call, "append") && len(call.Args) == 2 && !call.Ellipsis.IsValid() {
							return []string{"APPEND"}
						}
						if call, ok := unparen(n.Rhs[i]).(*ast.CallExpr); ok && isBuiltin(info, call, "make") {
							return []string{"MAKE"}
						}
						return []string{"OTHERWRITE"}
					}
				}
			case *ast.CallExpr:
				// sorting or deleting from the slice
				for _, a := range n.Args {
					if id := identOf(a); id != nil && info.Uses[id] == sliceObj && !isBuiltin(info, n, "append") && !isBuiltin(info, n, "len") && !isBuiltin(info, n, "cap") {
						return []string{"OTHERWRITE"}
					}
				}
			case *pseudo:
				if n.stmt == ast.Node(loop) {
					if n.kind == "ENTERLOOP" {
						return []string{"ENTER"}
					}
					if n.kind == "BACKEDGE" {
						return []string{"NEXT"}
					}
				}
			}
			return nil
		},
		step: func(st, ev string) string {
			if strings.HasPrefix(st, "bad") {
				return ""
			}
			switch ev {
			case "ENTER":
				return "in0"
			case "APPEND":
				switch st {
				case "in0":
					return "in1"
				case "in1":
					return "bad:two entries are appended for one option"
				}
				return "bad:an entry is appended outside the option loop"
			case "NEXT":
				switch st {
				case "in1":
					return "in0"
				case "in0":
					return "bad:an iteration ends without appending its option (a disabled or conditional option would be dropped from the list)"
				}
			case "OTHERWRITE":
				return "bad:the option list is rewritten, sorted or filtered"
			}
			return ""
		},
		bad: func(st, ev string) string {
			if strings.HasPrefix(st, "bad:") {
				return strings.TrimPrefix(st, "bad:")
			}
			return ""
		},
	}
	fs := runEVT(w, f, r)
	seen := map[string]bool{}
	nf := 0
	for _, fd := range fs {
		if seen[fd.msg] {
			continue
		}
		seen[fd.msg] = true
		nf++
		c.ob("C04.R1", f.Name+"/one-append-per-option#"+itoa(nf), w.Pos(fd.pos), false, fd.msg)
	}
	if nf == 0 {
		c.ob("C04.R1", f.Name+"/one-append-per-option", w.Pos(loop.Pos()), true, "every iteration that does not return an error appends exactly one entry; nothing else writes the list")
	}
	// returned as Options
	okRet := false
	walkNoLit(f.Body, func(n ast.Node) bool {
		if cl, ok := n.(*ast.CompositeLit); ok {
			if tv, ok := info.Types[cl]; ok && typeStr(tv.Type) == "ysgo.DialogueElement" {
				if v := litField(cl, "Options"); v != nil {
					if id := identOf(v); id != nil && aliasOf(info, x, id, sliceObj, 0) && cl.Pos() > loop.End() {
						okRet = true
					}
				}
			}
		}
		return true
	})
	c.ob("C04.R1", f.Name+"/options-returned", w.Pos(loop.Pos()), okRet, map[bool]string{true: "the list built by the loop is returned unmodified as the element's Options", false: "the element's Options is not the list built by the option loop"}[okRet])
	// each entry's line comes from the option being visited
	var optLit *ast.CompositeLit
	walkNoLit(loop.Body, func(n ast.Node) bool {
		if cl, ok := n.(*ast.CompositeLit); ok {
			if tv, ok := info.Types[cl]; ok && typeStr(tv.Type) == "ysgo.DialogueOption" {
				optLit = cl
			}
		}
		return true
	})

	// ----- R2
	if optLit == nil {
		c.ob("C04.R2", f.Name+"/disabled", w.Pos(loop.Pos()), false, "no DialogueOption literal in the option loop")
	} else {
		dv := litField(optLit, "Disabled")
		did := identOf(dv)
		if did == nil {
			c.ob("C04.R2", f.Name+"/disabled", w.Pos(optLit.Pos()), false, "Disabled is not a local computed in the loop")
		} else {
			dobj := info.Uses[did]
			opt := x.str(loop.X) + "[range]"
			cond := opt + ".LineStatement.Condition"
			// path rule: where the literal is built, the flag holds false if the condition is nil and the negation of the
			// evaluated condition's boolean otherwise
			classify := func(rhs ast.Expr) string {
				if rhs == nil {
					return "F" // var disabled bool
				}
				if tv, ok := info.Types[rhs]; ok && tv.Value != nil {
					if tv.Value.ExactString() == "false" {
						return "F"
					}
					return "X:the disabled flag is set to the constant true"
				}
				u, ok := unparen(rhs).(*ast.UnaryExpr)
				if !ok || u.Op != token.NOT {
					return "X:the disabled flag is assigned " + shorten(x.str(rhs), 80) + ", not the negation of the condition's boolean"
				}
				se, ok := unparen(u.X).(*ast.StarExpr)
				if !ok {
					return "X:the disabled flag is not the negation of a dereferenced boolean"
				}
				sv := x.str(se.X)
				if strings.Contains(sv, "evaluateExpression("+cond+",") && strings.HasSuffix(sv, "#0.Boolean") {
					return "N"
				}
				return "X:the disabled flag negates " + shorten(sv, 80) + ", not the boolean of the option's evaluated condition"
			}
			r2 := evtRule{
				start: "?|none",
				prim: func(n ast.Node) []string {
					switch n := n.(type) {
					case *ast.AssignStmt:
						for i, l := range n.Lhs {
							if id := identOf(l); id != nil && (info.Uses[id] == dobj || info.Defs[id] == dobj) {
								if len(n.Rhs) != len(n.Lhs) {
									return []string{"X:unrecognised assignment to the disabled flag"}
								}
								return []string{classify(n.Rhs[i])}
							}
						}
					case *ast.ValueSpec:
						for i, nm := range n.Names {
							if info.Defs[nm] == dobj {
								if i < len(n.Values) {
									return []string{classify(n.Values[i])}
								}
								return []string{classify(nil)}
							}
						}
					case *ast.CallExpr:
						if optLit.Pos() >= n.Pos() && optLit.End() <= n.End() && isBuiltin(info, n, "append") {
							return []string{"USE"}
						}
					case *ast.UnaryExpr:
						if n.Op == token.AND && dobj != nil {
							if id := identOf(n.X); id != nil && info.Uses[id] == dobj {
								return []string{"X:the address of the disabled flag is taken"}
							}
						}
					case *pseudo:
						if n.stmt == ast.Node(loop) && (n.kind == "ENTERLOOP" || n.kind == "BACKEDGE") {
							return []string{"RESET"}
						}
					}
					return nil
				},
				edge: func(ei edgeInfo) []string {
					b, ok := unparen(ei.Cond).(*ast.BinaryExpr)
					if !ok || ei.Tag != nil || (b.Op != token.NEQ && b.Op != token.EQL) {
						return nil
					}
					var other ast.Expr
					if isNilExpr(info, b.Y) {
						other = b.X
					} else if isNilExpr(info, b.X) {
						other = b.Y
					}
					if other == nil || x.str(other) != cond {
						return nil
					}
					if (b.Op == token.NEQ) == ei.Branch {
						return []string{"NN"}
					}
					return []string{"NIL"}
				},
				step: func(st, ev string) string {
					if st == "dead" {
						return ""
					}
					k, l := st[:strings.Index(st, "|")], st[strings.Index(st, "|")+1:]
					switch {
					case ev == "RESET":
						return "?|none"
					case ev == "NN":
						if k == "nil" {
							return "dead"
						}
						return "nn|" + l
					case ev == "NIL":
						if k == "nn" {
							return "dead"
						}
						return "nil|" + l
					case ev == "F" || ev == "N" || strings.HasPrefix(ev, "X:"):
						return k + "|" + ev
					}
					return ""
				},
				bad: func(st, ev string) string {
					if ev != "USE" || st == "dead" {
						return ""
					}
					k, l := st[:strings.Index(st, "|")], st[strings.Index(st, "|")+1:]
					switch {
					case strings.HasPrefix(l, "X:"):
						return strings.TrimPrefix(l, "X:")
					case l == "none":
						return "the disabled flag is read before it is set"
					case k == "nn" && l != "N":
						return "an option whose condition is present can be listed with Disabled = false without the condition being consulted"
					case k == "nil" && l != "F":
						return "an option without a condition gets a Disabled value that is not the constant false"
					case k == "?" && l == "F":
						return "a path reaches the option entry with Disabled = false although the option's condition was never tested for presence"
					}
					return ""
				},
			}
			fs2 := runEVT(w, f, r2)
			seen2 := map[string]bool{}
			for _, fd := range fs2 {
				if !seen2[fd.msg] {
					seen2[fd.msg] = true
					c.ob("C04.R2", f.Name+"/disabled#"+itoa(len(seen2)), w.Pos(fd.pos), false, fd.msg)
				}
			}
			if len(seen2) == 0 {
				c.ob("C04.R2", f.Name+"/disabled", w.Pos(optLit.Pos()), true, "on every path to the option entry: false when the option has no condition, the negation of the evaluated condition's boolean when it has one")
			}
		}
		// the option's text and tags come from the option being visited
		lv := litField(optLit, "Line")
		ls := ""
		if lv != nil {
			ls = x.str(lv)
		}
		opt := x.str(loop.X) + "[range]"
		// the text: the rendering method applied to this option's elements, or — when the rendering is written out — the
		// markup parse of a builder that is filled by a loop over this option's elements inside the option loop
		okText := false
		for _, rf := range w.FuncsWithParam(m.pkg, "[]*tree.LineFormattedTextElement") {
			if rf.Decl != nil && strings.Contains(ls, "."+rf.Decl.Name.Name+"("+opt+".LineStatement.Text.Elements)#0") {
				okText = true
			}
		}
		if !okText && lv != nil {
			var parse *ast.CallExpr
			var find func(e ast.Node, depth int)
			find = func(e ast.Node, depth int) {
				ast.Inspect(e, func(q ast.Node) bool {
					switch y := q.(type) {
					case *ast.CallExpr:
						if sel, ok := unparen(y.Fun).(*ast.SelectorExpr); ok && sel.Sel.Name == "ParseMarkup" && len(y.Args) == 1 {
							parse = y
						}
					case *ast.Ident:
						if v, ok := info.Uses[y].(*types.Var); ok && !v.IsField() && depth < 6 {
							if rhs, _, _, ok := x.def(v); ok && rhs != nil {
								find(rhs, depth+1)
							}
						}
					}
					return true
				})
			}
			find(lv, 0)
			if parse != nil {
				if inner, ok := unparen(parse.Args[0]).(*ast.CallExpr); ok && len(inner.Args) == 0 {
					if sel, ok := unparen(inner.Fun).(*ast.SelectorExpr); ok && sel.Sel.Name == "String" {
						if bid := identOf(sel.X); bid != nil {
							bobj := info.Uses[bid]
							// a loop over this option's elements, inside the option loop, writing to that builder
							walkNoLit(loop.Body, func(q ast.Node) bool {
								r, ok := q.(*ast.RangeStmt)
								if !ok || x.str(r.X) != opt+".LineStatement.Text.Elements" {
									return true
								}
								walkNoLit(r.Body, func(z ast.Node) bool {
									if call, ok := z.(*ast.CallExpr); ok {
										if ws, ok := unparen(call.Fun).(*ast.SelectorExpr); ok && strings.HasPrefix(ws.Sel.Name, "Write") {
											if id := identOf(ws.X); id != nil && info.Uses[id] == bobj {
												okText = true
											}
										}
									}
									return true
								})
								return true
							})
						}
					}
				}
			}
		}
		okLine := okText && strings.Contains(ls, "Tags:"+opt+".LineStatement.Tags")
		c.ob("C04.R2", f.Name+"/option-line-source", w.Pos(optLit.Pos()), okLine, map[bool]string{true: "each entry shows the text and tags of the option being visited", false: "an entry's line is " + shorten(ls, 120) + ", not the rendered text and tags of the option being visited"}[okLine])
	}

	// ----- R3
	c04Concat(c, m)
	// ----- R4
	// ----- R5
	tmp := newCtx(c.Prop, c.Tier, w)
	tmp.rule("C13.R5", "", 0)
	c13Escapes(tmp)
	for _, o := range tmp.Obs {
		c.ob("C04.R5", o.Key, o.Pos, o.OK, o.How)
	}
}

func c04Concat(c *Ctx, m *runnerModel) {
	w := c.W
	info := m.pkg.TypesInfo
	// every range loop over a line's text elements in the runner package (one in the rendering method today; one per
	// use if the rendering is written out at its uses)
	type rl struct {
		f    *Func
		loop *ast.RangeStmt
	}
	var loops []rl
	for _, f := range w.FuncsIn(m.pkg) {
		if f.Body == nil || f.Lit != nil {
			continue
		}
		walkNoLit(f.Body, func(n ast.Node) bool {
			if r, ok := n.(*ast.RangeStmt); ok {
				if tv, ok := info.Types[r.X]; ok && typeStr(tv.Type) == "[]*tree.LineFormattedTextElement" {
					loops = append(loops, rl{f, r})
				}
			}
			return true
		})
	}
	if len(loops) == 0 {
		c.undecided("C04.R3", "no loop over a line's text elements was found in the runner package")
		return
	}
	for li, l := range loops {
		suffix := ""
		if len(loops) > 1 {
			suffix = "@" + itoa(li+1)
		}
		c04RenderLoop(c, m, l.f, l.loop, suffix)
	}

	// tree builder: TEXT tokens, text callback, hashtags
	tp := w.Pkg("internal/tree")
	tinfo := tp.TypesInfo
	vt := w.DeclByName(tp, "parserListener.VisitTerminal")
	if vt == nil {
		c.undecided("C04.R3", "VisitTerminal not found")
		return
	}
	c.fn(vt)
	okText := false
	vx := w.expander(vt)
	eachTagBranch(w, vx, vt.Body, func(node ast.Node, tag string, arms []tagArm) {
		if !strings.HasSuffix(tag, ".GetTokenType()") {
			return
		}
		for _, a := range arms {
			for _, cx := range a.vals {
				if sel, ok := unparen(cx).(*ast.SelectorExpr); ok && strings.HasSuffix(sel.Sel.Name, "LexerTEXT") {
					for _, st := range a.body {
						if es, ok := st.(*ast.ExprStmt); ok {
							if call, ok := es.X.(*ast.CallExpr); ok && len(call.Args) == 1 {
								// the argument: the text of the terminal's own symbol
								if fld := lastField(tinfo, call.Fun); fld != nil && fld.Name() == "textCallback" && strings.HasSuffix(vx.str(call.Args[0]), ".GetSymbol().GetText()") {
									okText = true
								}
							}
						}
					}
				}
			}
		}
	})
	c.ob("C04.R3", vt.Name+"/text-forwarded", w.Pos(vt.Decl.Pos()), okText, map[bool]string{true: "every TEXT terminal's text is handed to the text callback unconditionally", false: "TEXT terminals are not forwarded unconditionally to the text callback: text would be lost"}[okText])
	// the text callback: two exits — extend last literal element or append a new one
	for _, f := range w.FuncsWithParam(tp, "*parser.Line_formatted_textContext") {
		if !strings.Contains(f.Name, "Enter") {
			continue
		}
		c.fn(f)
		for _, lit := range w.Lits(f) {
			if lit.Parent != f || lit.Sig().Params().Len() != 1 || typeStr(lit.Sig().Params().At(0).Type()) != "string" {
				continue
			}
			p := lit.Sig().Params().At(0)
			extends, appends, other := 0, 0, 0
			ast.Inspect(lit.Body, func(n ast.Node) bool {
				switch n := n.(type) {
				case *ast.AssignStmt:
					if n.Tok == token.ADD_ASSIGN && len(n.Rhs) == 1 {
						if id := identOf(n.Rhs[0]); id != nil && tinfo.Uses[id] == p && strings.HasSuffix(exprStr(n.Lhs[0]), ".Text") {
							extends++
						} else {
							other++
						}
					}
				case *ast.CompositeLit:
					if tv, ok := tinfo.Types[n]; ok && typeStr(tv.Type) == "tree.LineFormattedTextElement" {
						if v := litField(n, "Text"); v != nil {
							if id := identOf(v); id != nil && tinfo.Uses[id] == p {
								appends++
							}
						}
					}
				}
				return true
			})
			ok := extends == 1 && appends == 1 && other == 0
			c.ob("C04.R3", lit.Name+"/text-callback", w.Pos(lit.Node().Pos()), ok, map[bool]string{true: "the text callback either appends the token's text to the last literal element or starts a new element with it", false: "the text callback does not (only) extend the last literal element or append a new one: token text could be dropped, duplicated or reordered"}[ok])
		}
	}
	// hashtags
	for _, f := range w.FuncsWithParam(tp, "*parser.HashtagContext") {
		c.fn(f)
		ok := false
		walkNoLit(f.Body, func(n ast.Node) bool {
			if call, ok2 := n.(*ast.CallExpr); ok2 && len(call.Args) == 1 {
				if fld := lastField(tinfo, call.Fun); fld != nil && fld.Name() == "hashtagCallback" {
					if se, ok3 := unparen(call.Args[0]).(*ast.SliceExpr); ok3 && se.Low != nil && exprStr(se.Low) == "1" && se.High == nil && strings.HasSuffix(exprStr(se.X), ".GetText()") {
						ok = true
					}
				}
			}
			return true
		})
		c.ob("C04.R3", f.Name+"/hashtag-text", w.Pos(f.Decl.Pos()), ok, map[bool]string{true: "each hashtag is delivered as its text without the leading '#'", false: "a hashtag is not delivered as its text minus the leading '#'"}[ok])
	}
	for _, f := range w.FuncsWithParam(tp, "*parser.Line_statementContext") {
		if !strings.Contains(f.Name, "Enter") {
			continue
		}
		ok := false
		for _, lit := range w.Lits(f) {
			ast.Inspect(lit.Body, func(n ast.Node) bool {
				if as, ok2 := n.(*ast.AssignStmt); ok2 && len(as.Lhs) == 1 && len(as.Rhs) == 1 && strings.HasSuffix(exprStr(as.Lhs[0]), ".Tags") {
					if call, ok3 := as.Rhs[0].(*ast.CallExpr); ok3 && isBuiltin(tinfo, call, "append") && len(call.Args) == 2 && exprStr(call.Args[0]) == exprStr(as.Lhs[0]) {
						if id := identOf(call.Args[1]); id != nil && lit.Sig().Params().Len() == 1 && tinfo.Uses[id] == lit.Sig().Params().At(0) {
							ok = true
						}
					}
				}
				return true
			})
		}
		c.ob("C04.R3", f.Name+"/tags-in-order", w.Pos(f.Decl.Pos()), ok, map[bool]string{true: "tags are appended to the line's tag list in the order they are met", false: "tags are not simply appended in order"}[ok])
	}
}

func c04Display(c *Ctx) {
	w := c.W
	vp := w.Pkg("variable")
	info := vp.TypesInfo
	f := w.DeclByName(vp, "Value.ToString")
	if f == nil {
		c.undecided("C04.R4", "variable.(*Value).ToString not found")
		return
	}
	c.fn(f)
	recv := recvName(f)
	x := w.expander(f)
	e := w.ent(f)
	// every return is attributed to the alternative that is entailed present where it stands (switch arm, if chain,
	// guard clauses: the shape does not matter)
	altExpr := map[string]ast.Expr{}
	walkNoLit(f.Body, func(n ast.Node) bool {
		if sel, ok := n.(*ast.SelectorExpr); ok && exprStr(sel.X) == recv {
			if _, have := altExpr[sel.Sel.Name]; !have {
				altExpr[sel.Sel.Name] = sel
			}
		}
		return true
	})
	type armT struct {
		rets []*ast.ReturnStmt
		pos  token.Pos
	}
	arms := map[string]*armT{}
	walkNoLit(f.Body, func(n ast.Node) bool {
		r, ok := n.(*ast.ReturnStmt)
		if !ok || len(r.Results) != 1 {
			return true
		}
		at := site{pos: r.Pos(), anc: r}
		kc := keyCtx{e: e, s: &at}
		for _, alt := range []string{"Number", "Boolean", "String"} {
			if ae := altExpr[alt]; ae != nil {
				if ok, _ := e.Prove(r, e.nn(kc, ae)); ok {
					if arms[alt] == nil {
						arms[alt] = &armT{pos: r.Pos()}
					}
					arms[alt].rets = append(arms[alt].rets, r)
					break
				}
			}
		}
		return true
	})
	for _, alt := range []string{"Number", "Boolean", "String"} {
		if arms[alt] == nil {
			c.ob("C04.R4", f.Name+"/"+alt, w.Pos(f.Decl.Pos()), false, "ToString has no return under a test that the "+alt+" alternative is present")
		}
	}
	// Number
	if cc := arms["Number"]; cc != nil {
		var floatRets, intRets []*ast.ReturnStmt
		for _, r := range cc.rets {
			s := x.str(r.Results[0])
			if strings.HasPrefix(s, "strconv.Itoa(") || strings.HasPrefix(s, "strconv.FormatInt(") {
				intRets = append(intRets, r)
			} else {
				floatRets = append(floatRets, r)
			}
		}
		num := "$" + recv + ".Number"
		// integer branch under the integrality guard
		okInt := false
		whyInt := "no integer-formatted branch"
		for _, r := range intRets {
			s := x.str(r.Results[0])
			if s != "strconv.Itoa(conv:int("+num+"))" && s != "strconv.FormatInt(conv:int64("+num+"),10)" {
				whyInt = "the integer branch prints " + s
				continue
			}
			// guard: n == float64(int(n))
			var guard *ast.BinaryExpr
			walkNoLit(f.Body, func(n ast.Node) bool {
				if b, ok := n.(*ast.BinaryExpr); ok && (b.Op == token.EQL || b.Op == token.NEQ) {
					l, rr := x.str(b.X), x.str(b.Y)
					// the guard must be the round trip through the very integer type that is printed: n == float64(T(n)) is
					// false whenever T(n) does not hold n (beyond T's range, infinities, NaN), which a test of wholeness
					// alone (math.Trunc) does not give
					conv := "conv:int("
					if strings.HasPrefix(s, "strconv.FormatInt(") {
						conv = "conv:int64("
					}
					want := "conv:float64(" + conv + num + "))"
					// a number that survives the round trip through int fits in int64 as well (never the other way round)
					alt := want
					if conv == "conv:int64(" {
						alt = "conv:float64(conv:int(" + num + "))"
					}
					if (l == num && (rr == want || rr == alt)) || (rr == num && (l == want || l == alt)) {
						guard = b
					}
				}
				return true
			})
			if guard == nil {
				whyInt = "the integer branch is not guarded by the round trip n == float64(T(n)) through the integer type T that is printed: a whole number beyond T's range (or an infinity) would print as a wrapped integer"
				continue
			}
			at := site{pos: r.Pos(), anc: r}
			// e.cond gives the formula of the comparison as written (== or !=): the integer branch needs equality
			var goal Formula = e.cond(keyCtx{e: e, s: &at}, guard, 0)
			if guard.Op == token.NEQ {
				goal = Not{goal}
			}
			if ok, how := e.Prove(r, goal); ok {
				okInt, whyInt = true, "integral numbers print through an integer formatter, entailed by the integrality guard ("+how+")"
			} else {
				whyInt = "the integer branch is not entailed by the integrality guard: " + how
			}
		}
		c.ob("C04.R4", f.Name+"/integral-numbers", w.Pos(cc.pos), okInt, whyInt)
		okFloat := len(floatRets) > 0
		whyFloat := "no branch for non-integral numbers"
		for _, r := range floatRets {
			ok, why := shortestRoundTrip(info, x, r.Results[0], num)
			if !ok {
				okFloat = false
			}
			whyFloat = why
		}
		c.ob("C04.R4", f.Name+"/other-numbers", w.Pos(cc.pos), okFloat, whyFloat)
	}
	if cc := arms["Boolean"]; cc != nil {
		// the dereferenced boolean as a condition somewhere in the function
		var bcond ast.Expr
		walkNoLit(f.Body, func(n ast.Node) bool {
			switch q := n.(type) {
			case *ast.IfStmt:
				if cnd := stripNot(q.Cond); x.str(cnd) == "$"+recv+".Boolean" {
					bcond = cnd
				}
			case *ast.CaseClause:
				for _, cx := range q.List {
					if cnd := stripNot(cx); x.str(cnd) == "$"+recv+".Boolean" {
						bcond = cnd
					}
				}
			}
			return true
		})
		vals := map[string]bool{}
		okPol, whyPol := bcond != nil, "the boolean's value is never tested"
		for _, r := range cc.rets {
			tv, ok := info.Types[r.Results[0]]
			if !ok || tv.Value == nil || tv.Value.Kind() != constant.String {
				vals["?"] = true
				continue
			}
			word := constant.StringVal(tv.Value)
			vals[word] = true
			if bcond == nil {
				continue
			}
			at := site{pos: r.Pos(), anc: r}
			goal := e.cond(keyCtx{e: e, s: &at}, bcond, 0)
			if word == "False" {
				goal = Not{goal}
			}
			if ok, how := e.Prove(r, goal); !ok {
				okPol, whyPol = false, word+" is returned without the boolean's value entailing it: "+how
			}
		}
		okB := len(vals) == 2 && vals["True"] && vals["False"]
		c.ob("C04.R4", f.Name+"/booleans", w.Pos(cc.pos), okB && okPol, map[bool]string{true: "booleans print as the constants True (entailed by the value being true) and False (by its being false)", false: "booleans do not print as True for true and False for false (" + whyPol + ")"}[okB && okPol])
	}
	if cc := arms["String"]; cc != nil {
		okS := len(cc.rets) > 0
		for _, r := range cc.rets {
			if x.str(r.Results[0]) != "$"+recv+".String" {
				okS = false
			}
		}
		c.ob("C04.R4", f.Name+"/strings", w.Pos(cc.pos), okS, map[bool]string{true: "strings print verbatim", false: "strings are not printed verbatim"}[okS])
	}
}

// shortestRoundTrip: the expression formats the float64 num with a shortest-representation formatter.
func shortestRoundTrip(info *types.Info, x *expander, e ast.Expr, num string) (bool, string) {
	call, ok := unparen(e).(*ast.CallExpr)
	if !ok {
		return false, "non-integral numbers are printed by " + x.str(e)
	}
	callee := calleeOf(info, call)
	if callee == nil {
		return false, "non-integral numbers are printed by " + x.str(e)
	}
	argIs := func(a ast.Expr) bool {
		s := x.str(a)
		return s == num || s == "conv:float64("+num+")"
	}
	switch funcFullName(callee) {
	case "fmt.Sprint":
		if len(call.Args) == 1 && argIs(call.Args[0]) {
			return true, "fmt.Sprint of the float64: shortest decimal that round-trips (A4)"
		}
	case "fmt.Sprintf":
		if len(call.Args) == 2 && argIs(call.Args[1]) {
			if tv, ok := info.Types[call.Args[0]]; ok && tv.Value != nil {
				f := constant.StringVal(tv.Value)
				if f == "%v" || f == "%g" {
					return true, "fmt.Sprintf(" + f + ") of the float64: shortest decimal that round-trips (A4)"
				}
				return false, "non-integral numbers are printed with the verb " + f + ": a precision-limited or padded form, not the shortest decimal that round-trips"
			}
		}
	case "strconv.FormatFloat":
		if len(call.Args) == 4 && argIs(call.Args[0]) {
			prec, ok1 := info.Types[call.Args[2]]
			bits, ok2 := info.Types[call.Args[3]]
			if ok1 && ok2 && prec.Value != nil && bits.Value != nil {
				p, b := prec.Value.ExactString(), bits.Value.ExactString()
				if p == "-1" && b == "64" {
					return true, "strconv.FormatFloat(…, -1, 64): shortest decimal that round-trips"
				}
				return false, "non-integral numbers are printed by strconv.FormatFloat with precision " + p + " and bit size " + b + ": not the shortest decimal that round-trips a float64 (e.g. 1/3 prints as 0.33333334 with bit size 32)"
			}
		}
	}
	return false, "non-integral numbers are printed by " + shorten(x.str(e), 80) + ", not by a shortest-round-trip float64 formatter"
}

// stripNot removes leading negations (the entailment engine handles polarity itself).
func stripNot(e ast.Expr) ast.Expr {
	for {
		u, ok := unparen(e).(*ast.UnaryExpr)
		if !ok || u.Op != token.NOT {
			return unparen(e)
		}
		e = u.X
	}
}

func c04RenderLoop(c *Ctx, m *runnerModel, render *Func, loop *ast.RangeStmt, suffix string) {
	w := c.W
	info := m.pkg.TypesInfo
	c.fn(render)
	x := w.expander(render)
	param := x.str(loop.X)
	c.ob("C04.R3", render.Name+suffix+"/element-loop", w.Pos(loop.Pos()), true, "one range loop over the line's elements (ascending, A4)")
	// the builder
	var builder types.Object
	walkNoLit(loop.Body, func(n ast.Node) bool {
		if call, ok := n.(*ast.CallExpr); ok {
			if sel, ok := unparen(call.Fun).(*ast.SelectorExpr); ok && strings.HasPrefix(sel.Sel.Name, "Write") {
				if id := identOf(sel.X); id != nil {
					builder = info.Uses[id]
				}
			}
		}
		return true
	})
	if builder == nil {
		c.ob("C04.R3", render.Name+suffix+"/writes", w.Pos(loop.Pos()), false, "the element loop writes nothing")
		return
	}
	elem := param + "["
	idx := ""
	if id := identOf(loop.Key); id != nil && id.Name != "_" {
		idx = "$" + id.Name
	}
	elemI := elem + idx + "]"
	elemR := param + "[range]"
	// each write: literal text of the element, or ToString of its evaluated expression
	nW := 0
	walkNoLit(render.Body, func(n ast.Node) bool {
		call, ok := n.(*ast.CallExpr)
		if !ok {
			return true
		}
		sel, ok := unparen(call.Fun).(*ast.SelectorExpr)
		if !ok || !strings.HasPrefix(sel.Sel.Name, "Write") {
			return true
		}
		if id := identOf(sel.X); id == nil || info.Uses[id] != builder {
			return true
		}
		nW++
		key := render.Name + "/write#" + itoa(nW)
		inside := call.Pos() > loop.Body.Pos() && call.End() < loop.Body.End()
		s := ""
		if len(call.Args) == 1 {
			s = x.str(call.Args[0])
		}
		okW := inside && (s == elemI+".Text" || s == elemR+".Text" ||
			(strings.HasSuffix(s, "#0.ToString()") && (strings.Contains(s, "evaluateExpression("+elemI+".Expression,") || strings.Contains(s, "evaluateExpression("+elemR+".Expression,"))))
		why := "writes " + shorten(s, 90)
		if !inside {
			why = "a write to the text builder outside the element loop"
		} else if !okW {
			why = "writes " + shorten(s, 90) + ": neither the element's literal text nor the display form of its evaluated expression"
		}
		c.ob("C04.R3", key, w.Pos(call.Pos()), okW, why)
		return true
	})
	// at most one write per iteration
	r := evtRule{
		start: "idle",
		prim: func(n ast.Node) []string {
			switch n := n.(type) {
			case *ast.CallExpr:
				if sel, ok := unparen(n.Fun).(*ast.SelectorExpr); ok && strings.HasPrefix(sel.Sel.Name, "Write") {
					if id := identOf(sel.X); id != nil && info.Uses[id] == builder {
						return []string{"WRITE"}
					}
				}
			case *pseudo:
				if n.stmt == ast.Node(loop) && (n.kind == "BACKEDGE" || n.kind == "ENTERLOOP") {
					return []string{"NEXT"}
				}
			}
			return nil
		},
		step: func(st, ev string) string {
			switch ev {
			case "WRITE":
				if st == "written" || st == "twice" {
					return "twice"
				}
				return "written"
			case "NEXT":
				return "idle"
			}
			return ""
		},
		bad: func(st, ev string) string {
			if st == "twice" && ev == "WRITE" {
				return "an element can be written twice in one iteration"
			}
			return ""
		},
	}
	fs := runEVT(w, render, r)
	if len(fs) == 0 {
		c.ob("C04.R3", render.Name+suffix+"/one-write-per-element", w.Pos(loop.Pos()), true, "at most one write per element")
	}
	for i, fd := range fs {
		c.ob("C04.R3", render.Name+suffix+"/one-write-per-element#"+itoa(i+1), w.Pos(fd.pos), false, fd.msg)
	}
	// what is parsed is the builder's content
	okParse := false
	got := ""
	walkNoLit(render.Body, func(n ast.Node) bool {
		call, ok := n.(*ast.CallExpr)
		if !ok || len(call.Args) != 1 {
			return true
		}
		isParse := false
		if m.fLP != nil {
			if name, on := methodCallOn(info, call, m.fLP); on && name == "ParseMarkup" {
				isParse = true
			}
		} else if sel, ok := unparen(call.Fun).(*ast.SelectorExpr); ok && sel.Sel.Name == "ParseMarkup" {
			isParse = true
		}
		if isParse {
			got = exprStr(call.Args[0])
			if inner, ok := unparen(call.Args[0]).(*ast.CallExpr); ok && len(inner.Args) == 0 {
				if sel, ok := unparen(inner.Fun).(*ast.SelectorExpr); ok && sel.Sel.Name == "String" {
					if id := identOf(sel.X); id != nil && info.Uses[id] == builder {
						okParse = true
					}
				}
			}
		}
		return true
	})
	c.ob("C04.R3", render.Name+suffix+"/parsed-text", w.Pos(render.Decl.Pos()), okParse, map[bool]string{true: "the markup parser receives exactly the builder's content", false: "the markup parser receives " + got + ", not the builder's content as written element by element (text could be substituted or rewritten after concatenation)"}[okParse])
}

// aliasOf: the identifier denotes obj, or a local assigned exactly once from (an alias of) obj.
func aliasOf(info *types.Info, x *expander, id *ast.Ident, obj types.Object, depth int) bool {
	o := info.Uses[id]
	if o == obj {
		return true
	}
	v, ok := o.(*types.Var)
	if !ok || depth > 4 || v.IsField() {
		return false
	}
	rhs, idx, _, ok := x.def(v)
	if !ok || rhs == nil || idx >= 0 {
		return false
	}
	if rid := identOf(rhs); rid != nil {
		return aliasOf(info, x, rid, obj, depth+1)
	}
	return false
}
