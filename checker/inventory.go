package main

// inventory.go — thorough tier: whole-program load (module + ANTLR runtime + standard library), VTA call graph from
// the public API, and (a) a consistency check of the quick tier's reachability (every module function VTA reaches must
// be in the quick tier's reachable set), (b) the dependency-side inventory of panics, global writes, nondeterminism
// sources and blocking operations reachable from the API, listed in the evidence as trusted base (never gating).
// Runs in a sub-process so that the per-process analysis caches of the rule engine are not shared between two loads.

import (
	"encoding/json"
	"fmt"
	"go/token"
	"os"
	"os/exec"
	"sort"
	"strings"

	"golang.org/x/tools/go/callgraph"
	"golang.org/x/tools/go/callgraph/cha"
	"golang.org/x/tools/go/callgraph/vta"
	"golang.org/x/tools/go/ssa"
	"golang.org/x/tools/go/ssa/ssautil"
)

type inventoryResult struct {
	AllFunctions        int            `json:"all_functions"`
	VTAReachable        int            `json:"vta_reachable_from_api"`
	ModuleReachableVTA  int            `json:"module_functions_reachable_vta"`
	ModuleReachableFast int            `json:"module_functions_reachable_quick_tier"`
	MissingInQuick      []string       `json:"module_functions_vta_reaches_but_quick_tier_does_not"`
	Dependency          map[string]int `json:"dependency_inventory_reachable_from_api"`
	DependencyExamples  []string       `json:"dependency_examples"`
	Error               string         `json:"error,omitempty"`
}

func runInventory(repo string) inventoryResult {
	var res inventoryResult
	w, err := loadWorld(repo, nil, true)
	if err != nil {
		res.Error = err.Error()
		return res
	}
	prog := w.SSA()
	all := ssautil.AllFunctions(prog)
	res.AllFunctions = len(all)
	cg := vta.CallGraph(all, cha.CallGraph(prog))
	roots := w.apiRoots()
	reach := map[*ssa.Function]bool{}
	var work []*ssa.Function
	for _, r := range roots {
		if !reach[r] {
			reach[r] = true
			work = append(work, r)
		}
	}
	for len(work) > 0 {
		f := work[0]
		work = work[1:]
		node := cg.Nodes[f]
		if node == nil {
			continue
		}
		for _, e := range node.Out {
			if callee := e.Callee.Func; callee != nil && !reach[callee] {
				reach[callee] = true
				work = append(work, callee)
			}
		}
		// closures created here are reachable (VTA resolves their calls only where the value flows)
		for _, a := range f.AnonFuncs {
			if !reach[a] {
				reach[a] = true
				work = append(work, a)
			}
		}
	}
	_ = callgraph.CalleesOf
	res.VTAReachable = len(reach)
	quick := w.reachModule(roots...)
	for _, f := range w.escapingFuncs() {
		for g := range reachSSA(f) {
			quick[g] = true
		}
	}
	res.ModuleReachableFast = len(quick)
	res.Dependency = map[string]int{}
	for f := range reach {
		if f.Blocks == nil {
			continue
		}
		inModule := strings.HasPrefix(ssaFuncPkgPath(f), modPath)
		if inModule {
			res.ModuleReachableVTA++
			if !quick[f] && f.Synthetic == "" {
				res.MissingInQuick = append(res.MissingInQuick, ssaFuncName(f))
			}
			continue
		}
		pkg := ssaFuncPkgPath(f)
		isAntlr := strings.Contains(pkg, "antlr")
		for _, b := range f.Blocks {
			for _, in := range b.Instrs {
				switch x := in.(type) {
				case *ssa.Panic:
					if isAntlr {
						res.Dependency["antlr: explicit panics"]++
						if len(res.DependencyExamples) < 12 {
							res.DependencyExamples = append(res.DependencyExamples, "panic in "+f.String())
						}
					} else {
						res.Dependency["other dependencies and standard library: explicit panics"]++
					}
				case *ssa.Store:
					if g := globalRoot(x.Addr, 0); g != nil && isAntlr && f.Name() != "init" {
						res.Dependency["antlr: run-time stores rooted at package-level variables"]++
						if len(res.DependencyExamples) < 12 {
							res.DependencyExamples = append(res.DependencyExamples, "store to "+g.Name()+" in "+f.String())
						}
					}
				case *ssa.Go:
					if isAntlr {
						res.Dependency["antlr: go statements"]++
					}
				case *ssa.UnOp:
					if x.Op == token.ARROW && isAntlr {
						res.Dependency["antlr: channel receives"]++
					}
				case ssa.CallInstruction:
					if isAntlr {
						if src := nondetSource(x.Common().StaticCallee()); src != "" {
							res.Dependency["antlr: calls to nondeterminism sources ("+src+")"]++
						}
						if callee := x.Common().StaticCallee(); callee != nil && (callee.String() == "(*sync.Mutex).Lock" || callee.String() == "(*sync.RWMutex).Lock" || callee.String() == "(*sync.RWMutex).RLock") {
							res.Dependency["antlr: mutex acquisitions (synchronised shared caches)"]++
						}
					}
				}
			}
		}
	}
	sort.Strings(res.MissingInQuick)
	sort.Strings(res.DependencyExamples)
	return res
}

// inventoryInSubprocess runs the inventory in a child process and returns its result.
func inventoryInSubprocess(repo string) (inventoryResult, error) {
	var res inventoryResult
	self, _ := os.Executable()
	cmd := exec.Command(self, "-inventory", "-repo", repo)
	cmd.Env = os.Environ()
	out, err := cmd.Output()
	if err != nil {
		return res, fmt.Errorf("inventory sub-process: %v", err)
	}
	for _, line := range strings.Split(string(out), "\n") {
		if strings.HasPrefix(line, "{") {
			if err := json.Unmarshal([]byte(line), &res); err != nil {
				return res, err
			}
			return res, nil
		}
	}
	return res, fmt.Errorf("inventory sub-process printed no result")
}
