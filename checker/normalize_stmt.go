package main

// normalize_stmt.go — statement contexts of an inlined call and the elimination of the helper's return statements.

import (
	"go/ast"
	"go/token"
	"go/types"
	"strconv"
)

// tryStmt replaces s (and possibly the statement after it, when that is the test of the call's results) by the helper's
// statements.
func (c *inlCtx) tryStmt(s ast.Stmt, next ast.Stmt) ([]ast.Stmt, bool, bool) {
	switch st := s.(type) {
	case *ast.ExprStmt:
		if call, f := c.candidate(st.X); call != nil {
			if r, ok := c.inline(call, f, inlMode{kind: mStmt}); ok {
				return r, false, true
			}
		}
	case *ast.ReturnStmt:
		if len(st.Results) == 1 {
			if call, f := c.candidate(st.Results[0]); call != nil {
				if f.Sig().Results().Len() == c.resultsN[len(c.resultsN)-1] && !namedResults(f) {
					if r, ok := c.inline(call, f, inlMode{kind: mTail}); ok {
						return r, false, true
					}
				}
			}
		}
		// return f(args), simple…  ->  tmp := f(args); return tmp, simple…
		if len(st.Results) > 1 {
			for i, r := range st.Results {
				call, f := c.candidate(r)
				if call == nil {
					if !simpleExpr(c.info, r) {
						break
					}
					continue
				}
				othersSimple := true
				for j, o := range st.Results {
					if j != i && !simpleExpr(c.info, o) {
						othersSimple = false
					}
				}
				if !othersSimple || f.Sig().Results().Len() != 1 || namedResults(f) {
					break
				}
				rt := f.Sig().Results().At(0).Type()
				te := typeExpr(rt, c.pkg.Types, c.file, c.info)
				if te == nil {
					break
				}
				tmp := "ret_i" + strconv.Itoa(c.n.fresh())
				c.names[tmp] = true
				mode := inlMode{kind: mAssign, lhs: []ast.Expr{ast.NewIdent(tmp)}, tok: token.DEFINE, lhsObjs: []types.Object{nil}, tmpName: tmp, tmpType: te, tmpT: rt, dead: []bool{false}}
				if repl, ok := c.inline(call, f, mode); ok {
					st.Results[i] = ast.NewIdent(tmp)
					return append(repl, st), false, true
				}
				break
			}
		}
	case *ast.AssignStmt:
		if len(st.Rhs) != 1 || (st.Tok != token.DEFINE && st.Tok != token.ASSIGN) {
			return nil, false, false
		}
		call, f := c.candidate(st.Rhs[0])
		if call == nil || f.Sig().Results().Len() != len(st.Lhs) || namedResults(f) {
			return nil, false, false
		}
		mode := inlMode{kind: mAssign, lhs: st.Lhs, tok: st.Tok}
		for _, l := range st.Lhs {
			id, ok := l.(*ast.Ident)
			if !ok {
				mode.lhsObjs = append(mode.lhsObjs, nil)
				continue
			}
			obj := c.info.Defs[id]
			if obj == nil {
				obj = c.info.Uses[id]
			}
			mode.lhsObjs = append(mode.lhsObjs, obj)
		}
		usedNext := false
		if is, ok := next.(*ast.IfStmt); ok && is.Init == nil && c.mentions(is.Cond, mode.lhsObjs) {
			if _, isClone := c.n.back[is]; !isClone {
				mode.consumer = is
				usedNext = true
			}
		}
		mode.dead = make([]bool, len(st.Lhs))
		if mode.consumer != nil {
			for i, l := range st.Lhs {
				id, ok := l.(*ast.Ident)
				if !ok || id.Name == "_" || c.info.Defs[id] == nil {
					continue
				}
				obj := c.info.Defs[id]
				outside := 0
				ast.Inspect(c.root, func(n ast.Node) bool {
					if n == ast.Node(mode.consumer) || n == ast.Node(mode.consumer.Cond) || n == ast.Node(mode.consumer.Body) || (mode.consumer.Else != nil && n == ast.Node(mode.consumer.Else)) {
						return false
					}
					if u, ok := n.(*ast.Ident); ok && c.info.Uses[u] == obj {
						outside++
					}
					return true
				})
				mode.dead[i] = outside == 0 // uses in the branch taken are looked at per return
			}
		}
		if r, ok := c.inline(call, f, mode); ok {
			return r, usedNext, true
		}
		if mode.consumer != nil {
			mode.consumer, mode.dead = nil, make([]bool, len(st.Lhs))
			if r, ok := c.inline(call, f, mode); ok {
				return r, false, true
			}
		}
	case *ast.IfStmt:
		// if x := f(); cond {…}  ->  { x := f(); if cond {…} }
		if as, ok := st.Init.(*ast.AssignStmt); ok && len(as.Rhs) == 1 {
			if call, _ := c.candidate(as.Rhs[0]); call != nil {
				inner := &ast.IfStmt{If: st.If, Cond: st.Cond, Body: st.Body, Else: st.Else}
				l := c.list([]ast.Stmt{as, inner})
				if len(l) == 2 && l[0] == ast.Stmt(as) {
					return nil, false, false // nothing happened: keep the original statement
				}
				declares := false
				for _, x := range l {
					switch y := x.(type) {
					case *ast.DeclStmt, *ast.LabeledStmt:
						declares = true
					case *ast.AssignStmt:
						if y.Tok == token.DEFINE {
							declares = true
						}
					}
				}
				if !declares {
					return l, false, true // nothing is declared at the top: the block is not needed for scoping
				}
				return []ast.Stmt{&ast.BlockStmt{Lbrace: st.Pos(), List: l}}, false, true
			}
		}
		// if f() {…} / if !f() {…} with a helper of several statements
		cond := unparen(st.Cond)
		if u, ok := cond.(*ast.UnaryExpr); ok && u.Op == token.NOT {
			cond = unparen(u.X)
		}
		if call, f := c.candidate(cond); call != nil && st.Init == nil && f.Sig().Results().Len() == 1 {
			if bt, ok := f.Sig().Results().At(0).Type().Underlying().(*types.Basic); ok && bt.Kind() == types.Bool && !namedResults(f) {
				tmp := "cond_i" + strconv.Itoa(c.n.fresh())
				c.names[tmp] = true
				tid := ast.NewIdent(tmp)
				var ncond ast.Expr = ast.NewIdent(tmp)
				if unparen(st.Cond) != cond {
					ncond = &ast.UnaryExpr{Op: token.NOT, X: ncond}
				}
				consumer := &ast.IfStmt{If: st.If, Cond: ncond, Body: st.Body, Else: st.Else}
				mode := inlMode{kind: mAssign, lhs: []ast.Expr{tid}, tok: token.DEFINE, consumer: consumer, lhsObjs: []types.Object{nil}}
				mode.tmpName = tmp
				mode.tmpType = ast.NewIdent("bool")
				mode.tmpT = types.Typ[types.Bool]
				if r, ok := c.inline(call, f, mode); ok {
					return r, false, true
				}
			}
		}
	case *ast.DeferStmt:
		// defer f(args)  ->  defer func() { <body of f> }()   in one step: a recover() in f is called directly by the
		// deferred function before and after. Arguments are evaluated at the defer statement: only substitutable ones.
		c.allowRecover = true
		call, f := c.candidate(st.Call)
		c.allowRecover = false
		if call != nil {
			b := c.newBuilder(call, f)
			if b == nil {
				return nil, false, false
			}
			for _, p := range b.params {
				if !p.subst && !p.drop {
					c.skip(call, f, "deferred call with an argument that must be evaluated at the defer statement")
					return nil, false, false
				}
				// &x evaluated now or later denotes the same variable; a plain variable must be stable
				if id, ok := unparen(p.arg).(*ast.Ident); ok && !c.stable(id) {
					c.skip(call, f, "deferred call with an argument that may change before the function returns")
					return nil, false, false
				}
			}
			b.mode = inlMode{kind: mStmt}
			b.useTok = token.ASSIGN
			body := b.build()
			if b.fail != "" {
				c.skip(call, f, b.fail)
				return nil, false, false
			}
			lit := &ast.FuncLit{Type: &ast.FuncType{Params: &ast.FieldList{}}, Body: &ast.BlockStmt{List: body}}
			c.done(call, f, "deferred call inlined into a deferred literal")
			return []ast.Stmt{&ast.DeferStmt{Defer: st.Defer, Call: &ast.CallExpr{Fun: lit}}}, false, true
		}
	case *ast.GoStmt:
		if call, f := c.candidate(st.Call); call != nil {
			okArgs := true
			for _, a := range call.Args {
				switch x := unparen(a).(type) {
				case *ast.Ident:
					if !c.stable(x) {
						okArgs = false
					}
				case *ast.BasicLit:
				default:
					okArgs = false
				}
			}
			if sel, ok := unparen(call.Fun).(*ast.SelectorExpr); ok {
				if _, isPkg := c.info.Uses[identOfRoot(sel)].(*types.PkgName); !isPkg {
					if id, ok := unparen(sel.X).(*ast.Ident); !ok || !c.stable(id) {
						okArgs = false
					}
				}
			}
			if !okArgs {
				c.skip(call, f, "go statement whose arguments are not stable locals")
				return nil, false, false
			}
			lit := &ast.FuncLit{Type: &ast.FuncType{Params: &ast.FieldList{}}, Body: &ast.BlockStmt{List: []ast.Stmt{&ast.ExprStmt{X: call}}}}
			c.done(call, f, "go statement wrapped in a literal")
			return []ast.Stmt{&ast.GoStmt{Go: st.Go, Call: &ast.CallExpr{Fun: lit}}}, false, true
		}
	}
	return nil, false, false
}

func namedResults(f *Func) bool {
	if f.Type == nil || f.Type.Results == nil {
		return false
	}
	for _, fl := range f.Type.Results.List {
		if len(fl.Names) > 0 {
			return true
		}
	}
	return false
}

func (c *inlCtx) mentions(e ast.Expr, objs []types.Object) bool {
	found := false
	ast.Inspect(e, func(n ast.Node) bool {
		if id, ok := n.(*ast.Ident); ok {
			o := c.info.Uses[id]
			for _, x := range objs {
				if x != nil && x == o {
					found = true
				}
			}
		}
		return !found
	})
	return found
}

// inline builds the replacement of one call statement.
func (c *inlCtx) inline(call *ast.CallExpr, f *Func, mode inlMode) ([]ast.Stmt, bool) {
	b := c.newBuilder(call, f)
	if b == nil {
		return nil, false
	}
	b.mode = mode
	savedTmp := c.n.tmpN
	// first build: count the points at which control leaves the helper for the statements after the call
	b.useTok = token.ASSIGN
	first := b.build()
	if b.fail != "" {
		c.skip(call, f, b.fail)
		return nil, false
	}
	_ = first
	if mode.consumer != nil && mode.tmpName == "" && b.knownFolds == 0 {
		// no return decides the test of the results: copying it to every return would only duplicate it
		return nil, false
	}
	var pre []ast.Stmt
	useTok := token.ASSIGN
	if mode.kind == mAssign && mode.tok == token.DEFINE {
		if b.exits == 1 && b.exitTop {
			useTok = token.DEFINE
		} else {
			// the variables the statement defines must exist before the spliced statements
			for i, l := range mode.lhs {
				id, ok := l.(*ast.Ident)
				if !ok || id.Name == "_" || !b.varAssigned[i] {
					continue
				}
				var te ast.Expr
				if mode.tmpName != "" {
					te = mode.tmpType
				} else {
					def := c.info.Defs[id]
					if def == nil {
						continue // already declared: plain assignment
					}
					te = typeExpr(def.Type(), c.pkg.Types, c.file, c.info)
					_ = i
				}
				if te == nil {
					c.skip(call, f, "the type of "+id.Name+" cannot be written")
					return nil, false
				}
				pre = append(pre, &ast.DeclStmt{Decl: &ast.GenDecl{Tok: token.VAR, TokPos: call.Pos(), Specs: []ast.Spec{&ast.ValueSpec{Names: []*ast.Ident{ast.NewIdent(id.Name)}, Type: te}}}})
				pre = append(pre, &ast.AssignStmt{Lhs: []ast.Expr{ast.NewIdent("_")}, Tok: token.ASSIGN, Rhs: []ast.Expr{ast.NewIdent(id.Name)}, TokPos: call.Pos()})
			}
		}
	}
	c.n.tmpN = savedTmp
	b2 := c.newBuilder(call, f)
	b2.mode = mode
	b2.useTok = useTok
	out := b2.build()
	if b2.fail != "" {
		c.skip(call, f, b2.fail)
		return nil, false
	}
	if useTok == token.DEFINE {
		// a variable defined by the statement and read only by the test that was specialised away would be unused
		for i, l := range mode.lhs {
			if id, ok := l.(*ast.Ident); ok && id.Name != "_" && (c.info.Defs[id] != nil || mode.tmpName != "") && b2.varAssigned[i] {
				out = append(out, &ast.AssignStmt{Lhs: []ast.Expr{ast.NewIdent("_")}, Tok: token.ASSIGN, Rhs: []ast.Expr{ast.NewIdent(id.Name)}, TokPos: call.Pos()})
			}
		}
	}
	how := map[int]string{mStmt: "statement", mTail: "tail call", mAssign: "assignment"}[mode.kind]
	if mode.consumer != nil {
		how += ", result test specialised per return"
	}
	c.done(call, f, how)
	for nm := range b2.declared {
		c.names[nm] = true
	}
	return append(pre, out...), true
}

// build clones the helper's body and eliminates its return statements according to the mode.
func (b *builder) build() []ast.Stmt {
	b.exits, b.exitTop, b.emitted, b.knownFolds = 0, false, 0, 0
	b.declared = map[string]bool{}
	b.varAssigned = map[int]bool{}
	body := b.cloneBody()
	if b.fail != "" {
		return nil
	}
	binds := b.bindings()
	if b.fail != "" {
		return nil
	}
	for _, nm := range b.rename {
		b.declared[nm] = true
	}
	var stmts []ast.Stmt
	if b.mode.kind == mTail {
		stmts = body.List
	} else {
		stmts = b.elim(body.List, nil, nil, 0)
	}
	if b.fail != "" {
		return nil
	}
	return append(binds, stmts...)
}

func concatStmts(a, b []ast.Stmt) []ast.Stmt {
	out := make([]ast.Stmt, 0, len(a)+len(b))
	out = append(out, a...)
	return append(out, b...)
}

func (b *builder) cloneList(l []ast.Stmt) []ast.Stmt {
	out := make([]ast.Stmt, len(l))
	for i, s := range l {
		out[i] = cloneAST(s, b.c.n.back).(ast.Stmt)
	}
	return out
}

// elim rewrites list so that no return of the helper remains: a return becomes the assignment of the results (and the
// specialised test) and, where control must then continue after the call, everything that followed it in the helper is
// moved into the other branch of the enclosing if. k is what follows list in the helper.
func (b *builder) elim(list []ast.Stmt, k []ast.Stmt, guards []guard, depth int) []ast.Stmt {
	var out []ast.Stmt
	if b.fail != "" {
		return nil
	}
	b.emitted += len(list)
	if b.emitted > 6*b.calleeSz+40 {
		b.fail = "the helper's early returns would duplicate too much code"
		return nil
	}
	for i, s := range list {
		if !containsReturn(s) {
			out = append(out, s)
			guards = invalidate(guards, s)
			continue
		}
		rest := list[i+1:]
		// a switch some of whose clauses return: what follows the switch moves to the end of every clause that falls
		// out of it (and into a default clause if there is none), like the branches of an if
		if sw, ok := s.(*ast.SwitchStmt); ok && b.anyExit([]ast.Stmt{sw}, guards) {
			K := concatStmts(rest, k)
			structured := !containsBranch(sw) && !(b.mode.consumer != nil && containsBranch(b.mode.consumer))
			ast.Inspect(sw, func(n ast.Node) bool {
				if br, ok := n.(*ast.BranchStmt); ok && (br.Tok == token.FALLTHROUGH || br.Tok == token.GOTO) {
					structured = false
				}
				return structured
			})
			for _, ks := range K {
				if containsBranch(ks) {
					structured = false
				}
			}
			if structured {
				g := guards
				if sw.Init != nil {
					g = invalidate(g, sw.Init)
				}
				hasDefault := false
				for _, cl := range sw.Body.List {
					cc := cl.(*ast.CaseClause)
					if cc.List == nil {
						hasDefault = true
					}
					cc.Body = b.elim(cc.Body, b.cloneList(K), append([]guard{}, g...), depth+1)
				}
				if !hasDefault {
					if body := b.elim(nil, b.cloneList(K), append([]guard{}, g...), depth+1); len(body) > 0 {
						sw.Body.List = append(sw.Body.List, &ast.CaseClause{Case: sw.Body.Rbrace, Body: body})
					}
				}
				out = append(out, sw)
				return out
			}
		}
		switch st := s.(type) {
		case *ast.ReturnStmt:
			r, kind := b.replaceReturn(st, guards)
			out = append(out, r...)
			if kind == retExit {
				b.exits++
				if depth == 0 {
					b.exitTop = true
				}
			}
			return out
		case *ast.BlockStmt:
			if !b.anyExit(st.List, guards) {
				st.List = b.termOnlyList(st.List, guards)
				out = append(out, st)
				continue
			}
			inner := b.elim(st.List, concatStmts(rest, k), guards, depth+1)
			out = append(out, &ast.BlockStmt{Lbrace: st.Lbrace, List: inner})
			return out
		case *ast.IfStmt:
			if !b.anyExit([]ast.Stmt{st}, guards) {
				out = append(out, b.termOnlyStmt(st, guards))
				guards = invalidate(guards, s)
				continue
			}
			K := concatStmts(rest, k)
			g := guards
			if st.Init != nil {
				g = invalidate(g, st.Init)
			}
			then := b.elim(st.Body.List, b.cloneList(K), append(append([]guard{}, g...), condGuards(st.Cond, true)...), depth+1)
			eg := append(append([]guard{}, g...), condGuards(st.Cond, false)...)
			var els []ast.Stmt
			switch e := st.Else.(type) {
			case nil:
				els = b.elim(nil, b.cloneList(K), eg, depth+1)
			case *ast.BlockStmt:
				els = b.elim(e.List, b.cloneList(K), eg, depth+1)
			case *ast.IfStmt:
				els = b.elim([]ast.Stmt{e}, b.cloneList(K), eg, depth+1)
			}
			nif := &ast.IfStmt{If: st.If, Init: st.Init, Cond: st.Cond, Body: &ast.BlockStmt{Lbrace: st.Body.Lbrace, List: then}}
			if len(els) == 1 {
				if ei, ok := els[0].(*ast.IfStmt); ok {
					nif.Else = ei
				}
			}
			if nif.Else == nil && len(els) > 0 {
				nif.Else = &ast.BlockStmt{List: els}
			}
			if len(then) == 0 && nif.Else != nil {
				// `if c {} else {B}` reads better, to people and to the rules, as `if !c {B}`
				if eb, ok := nif.Else.(*ast.BlockStmt); ok {
					nif.Cond, nif.Body, nif.Else = negateCond(st.Cond), eb, nil
				}
			}
			out = append(out, nif)
			return out
		default:
			if b.mode.consumer != nil && containsBranch(b.mode.consumer) {
				switch s.(type) {
				case *ast.ForStmt, *ast.RangeStmt, *ast.SwitchStmt, *ast.TypeSwitchStmt, *ast.SelectStmt:
					b.fail = "the test of the results contains break or continue and would move into a loop or switch of the helper"
					return nil
				}
			}
			if !b.anyExit([]ast.Stmt{s}, nil) {
				out = append(out, b.termOnlyStmt(s, nil))
				guards = invalidate(guards, s)
				continue
			}
			// a return inside a loop, switch or select that continues after the call: record that the helper is done,
			// leave the statement, and run what followed it in the helper only if it is not
			switch s.(type) {
			case *ast.ForStmt, *ast.RangeStmt, *ast.SwitchStmt, *ast.TypeSwitchStmt, *ast.SelectStmt:
			default:
				b.fail = "a return inside a labelled statement of the helper continues after the call"
				return nil
			}
			if b.mode.consumer != nil && containsBranch(b.mode.consumer) {
				b.fail = "the test of the results contains break or continue and would move into a loop of the helper"
				return nil
			}
			K := concatStmts(rest, k)
			k1 := strconv.Itoa(b.c.n.fresh())
			flag, label := "done_i"+k1, "exit_i"+k1
			if len(K) == 0 {
				flag = "" // nothing follows in the helper: no need to remember how the statement was left
			} else {
				b.declared[flag] = true
			}
			needLabel := false
			ns := b.breakOutStmt(s, flag, label, 0, &needLabel)
			if b.fail != "" {
				return nil
			}
			if flag != "" {
				out = append(out, &ast.AssignStmt{Lhs: []ast.Expr{ast.NewIdent(flag)}, Tok: token.DEFINE, Rhs: []ast.Expr{ast.NewIdent("false")}, TokPos: b.call.Pos()})
			}
			if needLabel {
				out = append(out, &ast.LabeledStmt{Label: ast.NewIdent(label), Stmt: ns})
			} else {
				out = append(out, ns)
			}
			if len(K) > 0 {
				inner := b.elim(K, nil, nil, depth+1)
				out = append(out, &ast.IfStmt{If: b.call.Pos(), Cond: &ast.UnaryExpr{Op: token.NOT, X: ast.NewIdent(flag)}, Body: &ast.BlockStmt{List: inner}})
			}
			return out
		}
	}
	if len(k) > 0 {
		out = append(out, b.elim(k, nil, guards, depth)...)
	}
	return out
}

// anyExit: some return in list, once replaced, lets control continue after the call.
func (b *builder) anyExit(list []ast.Stmt, guards []guard) bool {
	found := false
	b.visitReturns(list, guards, func(r *ast.ReturnStmt, g []guard) {
		if b.classify(r, g) == retExit {
			found = true
		}
	})
	return found
}

func (b *builder) visitReturns(list []ast.Stmt, guards []guard, fn func(*ast.ReturnStmt, []guard)) {
	for _, s := range list {
		switch st := s.(type) {
		case *ast.ReturnStmt:
			fn(st, guards)
			return
		case *ast.BlockStmt:
			b.visitReturns(st.List, guards, fn)
		case *ast.IfStmt:
			g := guards
			if st.Init != nil {
				g = invalidate(g, st.Init)
			}
			b.visitReturns(st.Body.List, append(append([]guard{}, g...), condGuards(st.Cond, true)...), fn)
			eg := append(append([]guard{}, g...), condGuards(st.Cond, false)...)
			switch e := st.Else.(type) {
			case *ast.BlockStmt:
				b.visitReturns(e.List, eg, fn)
			case *ast.IfStmt:
				b.visitReturns([]ast.Stmt{e}, eg, fn)
			}
		case *ast.ForStmt:
			b.visitReturns(st.Body.List, nil, fn)
		case *ast.RangeStmt:
			b.visitReturns(st.Body.List, nil, fn)
		case *ast.SwitchStmt:
			for _, cl := range st.Body.List {
				b.visitReturns(cl.(*ast.CaseClause).Body, nil, fn)
			}
		case *ast.TypeSwitchStmt:
			for _, cl := range st.Body.List {
				b.visitReturns(cl.(*ast.CaseClause).Body, nil, fn)
			}
		case *ast.SelectStmt:
			for _, cl := range st.Body.List {
				b.visitReturns(cl.(*ast.CommClause).Body, nil, fn)
			}
		case *ast.LabeledStmt:
			b.visitReturns([]ast.Stmt{st.Stmt}, nil, fn)
		}
		guards = invalidate(guards, s)
	}
}

// termOnlyList replaces returns that all end the caller (no control transfer needed).
func (b *builder) termOnlyList(list []ast.Stmt, guards []guard) []ast.Stmt {
	var out []ast.Stmt
	for _, s := range list {
		if r, ok := s.(*ast.ReturnStmt); ok {
			repl, kind := b.replaceReturn(r, guards)
			if kind != retTerm {
				b.fail = "internal: a continuing return where only ending ones were expected"
			}
			return append(out, repl...)
		}
		if containsReturn(s) {
			out = append(out, b.termOnlyStmt(s, guards))
		} else {
			out = append(out, s)
		}
		guards = invalidate(guards, s)
	}
	return out
}

func (b *builder) termOnlyStmt(s ast.Stmt, guards []guard) ast.Stmt {
	switch st := s.(type) {
	case *ast.BlockStmt:
		st.List = b.termOnlyList(st.List, guards)
	case *ast.IfStmt:
		g := guards
		if st.Init != nil {
			g = invalidate(g, st.Init)
		}
		st.Body.List = b.termOnlyList(st.Body.List, append(append([]guard{}, g...), condGuards(st.Cond, true)...))
		eg := append(append([]guard{}, g...), condGuards(st.Cond, false)...)
		switch e := st.Else.(type) {
		case *ast.BlockStmt:
			e.List = b.termOnlyList(e.List, eg)
		case *ast.IfStmt:
			st.Else = b.termOnlyStmt(e, eg)
		}
	case *ast.ForStmt:
		st.Body.List = b.termOnlyList(st.Body.List, nil)
	case *ast.RangeStmt:
		st.Body.List = b.termOnlyList(st.Body.List, nil)
	case *ast.SwitchStmt:
		for _, cl := range st.Body.List {
			cc := cl.(*ast.CaseClause)
			cc.Body = b.termOnlyList(cc.Body, nil)
		}
	case *ast.TypeSwitchStmt:
		for _, cl := range st.Body.List {
			cc := cl.(*ast.CaseClause)
			cc.Body = b.termOnlyList(cc.Body, nil)
		}
	case *ast.SelectStmt:
		for _, cl := range st.Body.List {
			cc := cl.(*ast.CommClause)
			cc.Body = b.termOnlyList(cc.Body, nil)
		}
	case *ast.LabeledStmt:
		st.Stmt = b.termOnlyStmt(st.Stmt, nil)
	}
	return s
}

func containsBranch(n ast.Node) bool {
	found := false
	ast.Inspect(n, func(x ast.Node) bool {
		switch y := x.(type) {
		case *ast.FuncLit:
			return false
		case *ast.BranchStmt:
			if y.Tok == token.BREAK || y.Tok == token.CONTINUE {
				found = true
			}
		}
		return !found
	})
	return found
}

// breakOutList rewrites the returns inside a loop, switch or select of the helper: a return that continues after the
// call sets the flag and breaks out of that statement (with the label when another breakable statement is in between).
// nb counts the breakable statements entered, the outermost included.
func (b *builder) breakOutList(list []ast.Stmt, flag, label string, nb int, needLabel *bool, tail bool) []ast.Stmt {
	var out []ast.Stmt
	for _, s := range list {
		if r, ok := s.(*ast.ReturnStmt); ok {
			repl, kind := b.replaceReturn(r, nil)
			out = append(out, repl...)
			if kind == retExit {
				b.exits++
				if flag != "" {
					out = append(out, &ast.AssignStmt{Lhs: []ast.Expr{ast.NewIdent(flag)}, Tok: token.ASSIGN, Rhs: []ast.Expr{ast.NewIdent("true")}, TokPos: b.call.Pos()})
				}
				if tail && nb == 1 {
					return out // the end of a clause of the statement being left: nothing to jump over
				}
				br := &ast.BranchStmt{Tok: token.BREAK, TokPos: b.call.Pos()}
				if nb > 1 {
					br.Label = ast.NewIdent(label)
					*needLabel = true
				}
				out = append(out, br)
			}
			return out
		}
		if containsReturn(s) {
			out = append(out, b.breakOutStmt(s, flag, label, nb, needLabel))
		} else {
			out = append(out, s)
		}
	}
	return out
}

func (b *builder) breakOutStmt(s ast.Stmt, flag, label string, nb int, needLabel *bool) ast.Stmt {
	switch st := s.(type) {
	case *ast.BlockStmt:
		st.List = b.breakOutList(st.List, flag, label, nb, needLabel, false)
	case *ast.IfStmt:
		st.Body.List = b.breakOutList(st.Body.List, flag, label, nb, needLabel, false)
		switch e := st.Else.(type) {
		case *ast.BlockStmt:
			e.List = b.breakOutList(e.List, flag, label, nb, needLabel, false)
		case *ast.IfStmt:
			st.Else = b.breakOutStmt(e, flag, label, nb, needLabel)
		}
	case *ast.ForStmt:
		st.Body.List = b.breakOutList(st.Body.List, flag, label, nb+1, needLabel, false)
	case *ast.RangeStmt:
		st.Body.List = b.breakOutList(st.Body.List, flag, label, nb+1, needLabel, false)
	case *ast.SwitchStmt:
		for _, cl := range st.Body.List {
			cc := cl.(*ast.CaseClause)
			cc.Body = b.breakOutList(cc.Body, flag, label, nb+1, needLabel, true)
		}
	case *ast.TypeSwitchStmt:
		for _, cl := range st.Body.List {
			cc := cl.(*ast.CaseClause)
			cc.Body = b.breakOutList(cc.Body, flag, label, nb+1, needLabel, true)
		}
	case *ast.SelectStmt:
		for _, cl := range st.Body.List {
			cc := cl.(*ast.CommClause)
			cc.Body = b.breakOutList(cc.Body, flag, label, nb+1, needLabel, true)
		}
	case *ast.LabeledStmt:
		b.fail = "labelled statement in the helper"
	}
	return s
}

func negateCond(e ast.Expr) ast.Expr {
	switch x := unparen(e).(type) {
	case *ast.UnaryExpr:
		if x.Op == token.NOT {
			return x.X
		}
	case *ast.BinaryExpr:
		// orderings are not negated by flipping the operator (NaN)
		neg := map[token.Token]token.Token{token.EQL: token.NEQ, token.NEQ: token.EQL}
		if op, ok := neg[x.Op]; ok {
			return &ast.BinaryExpr{X: x.X, OpPos: x.OpPos, Op: op, Y: x.Y}
		}
		// De Morgan (both operands are evaluated in the same order and under the same short-circuit condition)
		if x.Op == token.LAND || x.Op == token.LOR {
			op := token.LOR
			if x.Op == token.LOR {
				op = token.LAND
			}
			l, r := negateCond(x.X), negateCond(x.Y)
			par := func(e ast.Expr) ast.Expr {
				if b, ok := e.(*ast.BinaryExpr); ok && (b.Op == token.LAND || b.Op == token.LOR) && b.Op != op {
					return &ast.ParenExpr{X: e}
				}
				return e
			}
			return &ast.BinaryExpr{X: par(l), OpPos: x.OpPos, Op: op, Y: par(r)}
		}
	}
	return &ast.UnaryExpr{Op: token.NOT, X: &ast.ParenExpr{X: e}}
}
