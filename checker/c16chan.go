package main

// c16chan.go — C16.R10: the channel gate of the command bridge and the call-time hand-over of the channel agree.
//
// The gate predicate (the module function that tests reflect.Chan and guards the channel-returning signature) is
// evaluated abstractly on a fixed set of probe channel types (chan error, <-chan error, chan<- error, a named chan
// error, chan of a pointer type that implements error, chan int), over a small model of reflect.Type (Kind, Elem,
// ChanDir, ==, ConvertibleTo, AssignableTo, Implements, following Go's assignability and convertibility rules for
// channels). The call-time code of the bridging closure is read for the channel types it can take the result as (cases
// of a type switch / type assertions on the result's Interface(), or reflect.Value.Convert(T) followed by an assertion).
// Every probe the gate admits must be handled at call time; otherwise a signature is accepted at registration although
// every call of it yields an error (or panics in Convert).

import (
	"go/ast"
	"go/token"
	"go/types"
)

type rT struct {
	kind    string // "chan", "error", "ptr", "int", "other"
	dir     int    // chan: 1 recv, 2 send, 3 both
	elem    *rT
	named   string // non-empty: a named (defined) type
	implErr bool   // implements error
}

func (t *rT) String() string {
	if t == nil {
		return "?"
	}
	if t.named != "" {
		return t.named
	}
	switch t.kind {
	case "chan":
		return map[int]string{1: "<-chan ", 2: "chan<- ", 3: "chan "}[t.dir] + t.elem.String()
	case "ptr":
		return "*" + t.elem.String()
	}
	return t.kind
}

func rtIdentical(a, b *rT) bool {
	if a == nil || b == nil {
		return false
	}
	if a.named != "" || b.named != "" {
		return a.named == b.named
	}
	if a.kind != b.kind {
		return false
	}
	switch a.kind {
	case "chan":
		return a.dir == b.dir && rtIdentical(a.elem, b.elem)
	case "ptr":
		return rtIdentical(a.elem, b.elem)
	}
	return true
}

func rtAssignable(v, t *rT) bool {
	if rtIdentical(v, t) {
		return true
	}
	if v.kind == "chan" && t.kind == "chan" && rtIdentical(v.elem, t.elem) && v.dir == 3 && (v.named == "" || t.named == "") {
		return true
	}
	if t.kind == "error" && t.named == "" && (v.implErr || v.kind == "error") {
		return true
	}
	return false
}

func rtConvertible(v, t *rT) bool {
	if rtAssignable(v, t) {
		return true
	}
	// identical underlying types
	if v.kind == t.kind {
		switch v.kind {
		case "chan":
			return v.dir == t.dir && rtIdentical(v.elem, t.elem)
		case "int":
			return true
		}
	}
	return false
}

func rtFromGoType(t types.Type) *rT {
	var named string
	if n, ok := t.(*types.Named); ok {
		if n.Obj().Pkg() == nil && n.Obj().Name() == "error" {
			return &rT{kind: "error", implErr: true}
		}
		named = n.Obj().Name()
	}
	switch u := t.Underlying().(type) {
	case *types.Chan:
		d := map[types.ChanDir]int{types.SendRecv: 3, types.SendOnly: 2, types.RecvOnly: 1}[u.Dir()]
		return &rT{kind: "chan", dir: d, elem: rtFromGoType(u.Elem()), named: named}
	case *types.Pointer:
		return &rT{kind: "ptr", elem: rtFromGoType(u.Elem()), named: named}
	case *types.Basic:
		if u.Info()&types.IsInteger != 0 {
			return &rT{kind: "int", named: named}
		}
	case *types.Interface:
		if u.NumMethods() == 1 && u.Method(0).Name() == "Error" {
			return &rT{kind: "error", implErr: true, named: named}
		}
	}
	return &rT{kind: "other", named: named}
}

type rtEval struct {
	w    *World
	info *types.Info
	env  map[types.Object]*rT
	bad  string
}

// typeExpr evaluates an expression of type reflect.Type
func (ev *rtEval) typeExpr(e ast.Expr) *rT {
	e = unparen(e)
	switch n := e.(type) {
	case *ast.Ident:
		obj := ev.info.Uses[n]
		if t, ok := ev.env[obj]; ok {
			return t
		}
		if pv, ok := obj.(*types.Var); ok && pv.Pkg() != nil && pv.Parent() == pv.Pkg().Scope() {
			ne := &nEval{w: ev.w}
			if init, pinfo := ne.pkgVarInit(pv); init != nil {
				sub := &rtEval{w: ev.w, info: pinfo, env: map[types.Object]*rT{}}
				t := sub.typeExpr(init)
				if sub.bad != "" {
					ev.bad = sub.bad
				}
				return t
			}
		}
	case *ast.CallExpr:
		if callee := calleeOf(ev.info, n); callee != nil && callee.Pkg() != nil && callee.Pkg().Path() == "reflect" {
			sig, _ := callee.Type().(*types.Signature)
			if sig != nil && sig.Recv() == nil && callee.Name() == "TypeOf" && len(n.Args) == 1 {
				// reflect.TypeOf((T)(nil)): the static type of the argument
				if at := ev.info.TypeOf(n.Args[0]); at != nil {
					if _, isIface := at.Underlying().(*types.Interface); !isIface {
						return rtFromGoType(at)
					}
				}
			}
			if sig != nil && sig.Recv() != nil && callee.Name() == "Elem" {
				if sel, ok := unparen(n.Fun).(*ast.SelectorExpr); ok {
					if rt := ev.typeExpr(sel.X); rt != nil {
						if rt.elem != nil {
							return rt.elem
						}
						ev.bad = "Elem() of a type without an element type"
					}
				}
			}
		}
	}
	if ev.bad == "" {
		ev.bad = "type expression " + exprStr(e) + " is not modelled"
	}
	return nil
}

// boolExpr: 1 true, 0 false, -1 not modelled
func (ev *rtEval) boolExpr(e ast.Expr) int {
	e = unparen(e)
	if tv, ok := ev.info.Types[e]; ok && tv.Value != nil {
		if tv.Value.String() == "true" {
			return 1
		}
		if tv.Value.String() == "false" {
			return 0
		}
	}
	switch n := e.(type) {
	case *ast.UnaryExpr:
		if n.Op == token.NOT {
			if v := ev.boolExpr(n.X); v >= 0 {
				return 1 - v
			}
		}
	case *ast.BinaryExpr:
		switch n.Op {
		case token.LAND:
			l := ev.boolExpr(n.X)
			if l == 0 {
				return 0
			}
			r := ev.boolExpr(n.Y)
			if l == 1 {
				return r
			}
		case token.LOR:
			l := ev.boolExpr(n.X)
			if l == 1 {
				return 1
			}
			r := ev.boolExpr(n.Y)
			if l == 0 {
				return r
			}
		case token.EQL, token.NEQ:
			res := -1
			// Kind() == reflect.K
			if k := reflectKindName(ev.info, n.Y); k != "" {
				if call, ok := unparen(n.X).(*ast.CallExpr); ok {
					if sel, ok := unparen(call.Fun).(*ast.SelectorExpr); ok {
						switch sel.Sel.Name {
						case "Kind":
							if t := ev.typeExpr(sel.X); t != nil {
								kindOf := map[string]string{"chan": "Chan", "error": "Interface", "ptr": "Pointer", "int": "Int"}[t.kind]
								res = b2i(kindOf == k || k == "Ptr" && kindOf == "Pointer")
							}
						case "ChanDir":
							if t := ev.typeExpr(sel.X); t != nil && t.kind == "chan" {
								res = b2i(map[int]string{1: "RecvDir", 2: "SendDir", 3: "BothDir"}[t.dir] == k)
							}
						}
					}
				}
			} else if lt := ev.info.TypeOf(n.X); lt != nil && typeStr(lt) == "reflect.Type" {
				a, b := ev.typeExpr(n.X), ev.typeExpr(n.Y)
				if a != nil && b != nil {
					res = b2i(rtIdentical(a, b))
				}
			} else if be, ok := unparen(n.X).(*ast.BinaryExpr); ok && be.Op == token.AND {
				// t.ChanDir() & reflect.RecvDir != 0
				if call, ok := unparen(be.X).(*ast.CallExpr); ok {
					if sel, ok := unparen(call.Fun).(*ast.SelectorExpr); ok && sel.Sel.Name == "ChanDir" {
						if t := ev.typeExpr(sel.X); t != nil && t.kind == "chan" {
							bit := map[string]int{"RecvDir": 1, "SendDir": 2, "BothDir": 3}[reflectKindName(ev.info, be.Y)]
							if tv, ok := ev.info.Types[n.Y]; ok && tv.Value != nil && bit != 0 {
								if tv.Value.String() == "0" {
									res = b2i(t.dir&bit == 0)
								} else if reflectKindName(ev.info, n.Y) == reflectKindName(ev.info, be.Y) {
									res = b2i(t.dir&bit == bit)
								}
							}
						}
					}
				}
			}
			if res >= 0 {
				if n.Op == token.NEQ {
					return 1 - res
				}
				return res
			}
		}
	case *ast.CallExpr:
		if sel, ok := unparen(n.Fun).(*ast.SelectorExpr); ok && len(n.Args) == 1 {
			switch sel.Sel.Name {
			case "ConvertibleTo", "AssignableTo", "Implements":
				a, b := ev.typeExpr(sel.X), ev.typeExpr(n.Args[0])
				if a != nil && b != nil {
					if sel.Sel.Name == "ConvertibleTo" {
						return b2i(rtConvertible(a, b))
					}
					return b2i(rtAssignable(a, b))
				}
			}
		}
		// a module predicate over a type
		if callee := calleeOf(ev.info, n); callee != nil {
			if g := ev.w.byObj[callee]; g != nil && g.Body != nil && len(n.Args) == 1 && g.Sig().Params().Len() == 1 {
				if t := ev.typeExpr(n.Args[0]); t != nil {
					sub := &rtEval{w: ev.w, info: g.Pkg.TypesInfo, env: map[types.Object]*rT{g.Sig().Params().At(0): t}}
					v := sub.fn(g.Body.List)
					if sub.bad != "" && ev.bad == "" {
						ev.bad = sub.bad
					}
					return v
				}
			}
		}
	}
	if ev.bad == "" {
		ev.bad = "condition " + exprStr(e) + " is not modelled"
	}
	return -1
}

func b2i(b bool) int {
	if b {
		return 1
	}
	return 0
}

// fn evaluates a predicate body made of if/return statements
func (ev *rtEval) fn(stmts []ast.Stmt) int {
	for _, s := range stmts {
		switch n := s.(type) {
		case *ast.ReturnStmt:
			if len(n.Results) == 1 {
				return ev.boolExpr(n.Results[0])
			}
		case *ast.IfStmt:
			if n.Init == nil {
				switch ev.boolExpr(n.Cond) {
				case 1:
					if v := ev.fn(n.Body.List); v != -2 {
						return v
					}
					continue
				case 0:
					if n.Else == nil {
						continue
					}
					if b, ok := n.Else.(*ast.BlockStmt); ok {
						if v := ev.fn(b.List); v != -2 {
							return v
						}
						continue
					}
				}
			}
		}
		if ev.bad == "" {
			ev.bad = "statement form in the gate predicate is not modelled"
		}
		return -1
	}
	return -2 // fell off the end of a block
}

func c16ChanAgreement(c *Ctx, ctors []*Func) {
	w := c.W
	c.rule("C16.R10", "channel gate and call-time hand-over agree: on each probe channel type (chan error, <-chan error, chan<- error, named chan error, chan of an error implementation, chan int) the gate predicate, evaluated over a model of reflect.Type, admits the type only if the bridging closure can take the result as a channel it receives errors from (type switch / assertion on Interface(), or Convert to such a type)", 6)
	var ctor *Func
	for _, f := range ctors {
		if typeStr(f.Sig().Results().At(0).Type()) == "ysgo.YarnSpinnerCommand" {
			ctor = f
		}
	}
	if ctor == nil {
		c.undecided("C16.R10", "command bridge constructor not found")
		return
	}
	info := ctor.Pkg.TypesInfo
	gate, _, _, okGate := commandGate(w, ctor)
	if !okGate {
		c.undecided("C16.R10", "the gate granting the channel-returning signature was not found")
		return
	}
	// the predicate: the module function mentioning reflect.Chan that guards the channel constant
	var pred *Func
	walkNoLit(gate.Body, func(n ast.Node) bool {
		if call, ok := n.(*ast.CallExpr); ok {
			if callee := calleeOf(info, call); callee != nil {
				if g := w.byObj[callee]; g != nil && mentionsChanKind(g) && g.Sig().Params().Len() == 1 && g.Sig().Results().Len() == 1 {
					pred = g
				}
			}
		}
		return true
	})
	if pred == nil {
		c.undecided("C16.R10", "the predicate that recognises channel results was not found in the gate")
		return
	}
	c.fn(pred)
	// call-time: channel types the closure takes the result as
	errT := &rT{kind: "error", implErr: true}
	var handled []*rT   // identical match required
	var convertTo []*rT // Convert(T) targets (any probe convertible to T is handled when T is asserted)
	lits := w.Lits(ctor)
	for _, lit := range lits {
		ast.Inspect(lit.Body, func(n ast.Node) bool {
			switch q := n.(type) {
			case *ast.TypeSwitchStmt:
				for _, cs := range q.Body.List {
					for _, te := range cs.(*ast.CaseClause).List {
						if t := info.TypeOf(te); t != nil {
							if _, isChan := t.Underlying().(*types.Chan); isChan {
								handled = append(handled, rtFromGoType(t))
							}
						}
					}
				}
			case *ast.TypeAssertExpr:
				if q.Type == nil {
					return true
				}
				t := info.TypeOf(q.Type)
				if t == nil {
					return true
				}
				if _, isChan := t.Underlying().(*types.Chan); !isChan {
					return true
				}
				at := rtFromGoType(t)
				// x.Convert(T).Interface().(A), possibly through locals assigned once
				conv := false
				lx := w.expander(lit)
				resolve := func(e ast.Expr) ast.Expr {
					for d := 0; d < 4; d++ {
						id, ok := unparen(e).(*ast.Ident)
						if !ok {
							break
						}
						v, isVar := info.Uses[id].(*types.Var)
						if !isVar || v.IsField() {
							break
						}
						rhs, idx, _, okd := lx.def(v)
						if !okd || rhs == nil || idx >= 0 {
							break
						}
						e = rhs
					}
					return unparen(e)
				}
				if call, ok := resolve(q.X).(*ast.CallExpr); ok {
					if sel, ok := unparen(call.Fun).(*ast.SelectorExpr); ok && sel.Sel.Name == "Interface" {
						if inner, ok := resolve(sel.X).(*ast.CallExpr); ok {
							if isel, ok := unparen(inner.Fun).(*ast.SelectorExpr); ok && isel.Sel.Name == "Convert" && len(inner.Args) == 1 {
								ev := &rtEval{w: w, info: info, env: map[types.Object]*rT{}}
								if tt := ev.typeExpr(inner.Args[0]); tt != nil && rtIdentical(tt, at) {
									convertTo = append(convertTo, tt)
									conv = true
								}
							}
						}
					}
				}
				if !conv {
					handled = append(handled, at)
				}
			}
			return true
		})
	}
	if len(handled)+len(convertTo) == 0 {
		c.undecided("C16.R10", "no channel type switch / assertion on the command's result found in the bridging closure")
		return
	}
	canReceiveErr := func(t *rT) bool { return t.kind == "chan" && t.dir&1 != 0 && rtIdentical(t.elem, errT) }
	probes := []*rT{
		{kind: "chan", dir: 3, elem: errT},
		{kind: "chan", dir: 1, elem: errT},
		{kind: "chan", dir: 2, elem: errT},
		{kind: "chan", dir: 3, elem: errT, named: "doneChan (type doneChan chan error)"},
		{kind: "chan", dir: 3, elem: &rT{kind: "ptr", elem: &rT{kind: "other", named: "myErr"}, implErr: true}},
		{kind: "chan", dir: 3, elem: &rT{kind: "int"}},
	}
	for _, p := range probes {
		ev := &rtEval{w: w, info: pred.Pkg.TypesInfo, env: map[types.Object]*rT{pred.Sig().Params().At(0): p}}
		adm := ev.fn(pred.Body.List)
		key := pred.Name + "/probe " + p.String()
		pos := w.Pos(pred.Decl.Pos())
		if adm < 0 || ev.bad != "" {
			c.undecided("C16.R10", "gate predicate "+pred.Name+" on "+p.String()+": "+ev.bad)
			continue
		}
		if adm == 0 {
			c.ob("C16.R10", key, pos, true, "refused at registration")
			continue
		}
		ok := false
		for _, h := range handled {
			if rtIdentical(p, h) && canReceiveErr(h) {
				ok = true
			}
		}
		for _, t := range convertTo {
			if rtConvertible(p, t) && canReceiveErr(t) {
				ok = true
			}
		}
		c.ob("C16.R10", key, pos, ok, map[bool]string{true: "admitted by the gate and received from at call time", false: "a command returning " + p.String() + " is accepted at registration, but the bridging closure cannot take its result as a channel to receive errors from: every call of it fails (or panics in Convert)"}[ok])
	}
}
