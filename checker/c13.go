package main

// c13.go — C13: markup parsing recovers the plain text and exactly the enclosed ranges (the clauses with a structural
// necessary condition). The unit rule is shared with C15.

import (
	"go/ast"
	"go/constant"
	"go/token"
	"go/types"
	"regexp"
	"sort"
	"strconv"
	"strings"

	"golang.org/x/tools/go/ssa"
)

func init() {
	registry["C13"] = &propCheck{
		meta: propMeta{
			Level: "other",
			Explanation: "Decides the clauses of the property that are visible in the shape of the code: (R1) units — byte quantities (len of strings, Builder.Len, regexp/strings offsets) and character quantities (len of []rune, RuneCount, attribute and marker positions) never meet: positions never receive bytes, strings are never sliced by characters nor []rune by bytes, no comparison or sum mixes them (two-colour taint on SSA); " +
				"(R2) the close-by-name pattern of replacement markers, folded from its constant parts with a sample name, matches [/name], [ / name ] and [/] and rejects [/other] and [name]; a spliced name is quoted; (R3) the processor registry has exactly the four names the property lists; " +
				"(R4) property words become booleans only by exact (case-folded) comparison with true/false; (R5) only \\[ and \\] are unescaped by the markup parser; (R6) the marker position equals the character count of the text built so far: it is measured from the builder at each marker, or every write to the builder is paired with the matching increment; " +
				"(R7) the ordinal/plural category guards, evaluated as extracted pure integer expressions over 0…999 by the checker's own evaluator, select CLDR's English categories.",
			NotDecided:  "value parsing of decimals, pairing policy of close markers (which open marker a close pairs with), nesting/overlap arithmetic beyond units, replacement texts — all value-level; the behaviour as a whole",
			Assumptions: []string{"A4 (regexp offsets are byte offsets; RuneCount and len([]rune) count characters)"},
			Trusted:     []string{"go/types", "golang.org/x/tools/go/ssa", "golang.org/x/tools/go/cfg", "Go's regexp (to evaluate the folded pattern)", "go/packages loader"},
		},
		run: checkC13,
	}
}

type colour int

const (
	neutral colour = iota
	bytesC
	runesC
	mixedC
)

func (c colour) String() string { return [...]string{"neutral", "bytes", "characters", "MIXED"}[c] }

func joinColour(a, b colour) colour {
	switch {
	case a == neutral:
		return b
	case b == neutral || a == b:
		return a
	}
	return mixedC
}

func isRuneField(f *types.Var) bool {
	if f == nil || f.Pkg() == nil || f.Pkg().Path() != modPath+"/markup" {
		return false
	}
	switch f.Name() {
	case "Position", "Length", "position":
		return isIntType(f.Type())
	}
	return false
}

func colourOf(v ssa.Value, memo map[ssa.Value]colour, depth int) colour {
	if c, ok := memo[v]; ok {
		return c
	}
	if depth > 14 {
		return neutral
	}
	memo[v] = neutral
	var c colour
	switch x := v.(type) {
	case *ssa.Call:
		if b, ok := x.Call.Value.(*ssa.Builtin); ok {
			switch b.Name() {
			case "len":
				switch t := x.Call.Args[0].Type().Underlying().(type) {
				case *types.Basic:
					if t.Info()&types.IsString != 0 {
						c = bytesC
					}
				case *types.Slice:
					if bt, ok := t.Elem().Underlying().(*types.Basic); ok && bt.Kind() == types.Int32 {
						c = runesC
					} else if ok && bt.Kind() == types.Uint8 {
						c = bytesC
					}
				}
			case "min", "max":
				for _, a := range x.Call.Args {
					c = joinColour(c, colourOf(a, memo, depth+1))
				}
			}
		} else if callee := x.Call.StaticCallee(); callee != nil {
			// a function of the markup package: what it returns
			if ssaFuncPkgPath(callee) == modPath+"/markup" && callee.Blocks != nil && callee.Signature.Results().Len() == 1 && isIntType(callee.Signature.Results().At(0).Type()) {
				for _, cb := range callee.Blocks {
					for _, ci := range cb.Instrs {
						if r, ok := ci.(*ssa.Return); ok && len(r.Results) == 1 {
							c = joinColour(c, colourOf(r.Results[0], memo, depth+1))
						}
					}
				}
			}
			switch callee.String() {
			case "unicode/utf8.RuneCountInString", "unicode/utf8.RuneCount":
				c = runesC
			case "(*strings.Builder).Len", "strings.Index", "strings.IndexByte", "strings.IndexRune", "strings.LastIndex", "strings.IndexAny", "strings.IndexFunc", "(*strings.Reader).Len", "unicode/utf8.RuneLen":
				c = bytesC
			}
			if strings.HasPrefix(callee.String(), "(*regexp.Regexp).Find") && strings.HasSuffix(callee.Name(), "Index") {
				c = bytesC
			}
		}
	case *ssa.UnOp:
		if x.Op == token.MUL {
			if fld := fieldOfAddr(x.X); fld != nil && isRuneField(fld) {
				c = runesC
			} else if fld != nil && isIntType(fld.Type()) && pkgPathOfVar(fld) == modPath+"/markup" {
				// an integer field of the package: it counts whatever is stored in it anywhere in the package
				c = fieldColour(fld, memo, depth)
			} else if ia, ok := x.X.(*ssa.IndexAddr); ok {
				c = colourOf(ia.X, memo, depth+1)
			} else if a, ok := x.X.(*ssa.Alloc); ok {
				for _, ref := range *a.Referrers() {
					if st, ok := ref.(*ssa.Store); ok && st.Addr == ssa.Value(a) {
						c = joinColour(c, colourOf(st.Val, memo, depth+1))
					}
				}
			}
		} else {
			c = colourOf(x.X, memo, depth+1)
		}
	case *ssa.Field:
		if fld := fieldOfAddr(x); fld != nil && isRuneField(fld) {
			c = runesC
		}
	case *ssa.Index:
		c = colourOf(x.X, memo, depth+1)
	case *ssa.BinOp:
		switch x.Op {
		case token.ADD, token.SUB:
			c = joinColour(colourOf(x.X, memo, depth+1), colourOf(x.Y, memo, depth+1))
		}
	case *ssa.Phi:
		for _, e := range x.Edges {
			c = joinColour(c, colourOf(e, memo, depth+1))
		}
	case *ssa.Convert:
		c = colourOf(x.X, memo, depth+1)
	case *ssa.ChangeType:
		c = colourOf(x.X, memo, depth+1)
	case *ssa.Extract:
		c = colourOf(x.Tuple, memo, depth+1)
	case *ssa.Parameter:
		// parameters named after a unit by the callers' arguments: resolved at call sites (arguments are checked there)
	}
	memo[v] = c
	return c
}

func isRuneSlice(t types.Type) bool {
	if s, ok := t.Underlying().(*types.Slice); ok {
		if bt, ok := s.Elem().Underlying().(*types.Basic); ok && bt.Kind() == types.Int32 {
			return true
		}
	}
	return false
}

// unitRule: two-colour taint over the markup package; filter selects the functions reported under rule.
func unitRule(c *Ctx, rule string, filter func(f *ssa.Function) bool) {
	unitRuleMin(c, rule, 10, filter)
}

func unitRuleMin(c *Ctx, rule string, minSites int, filter func(f *ssa.Function) bool) {
	w := c.W
	memo := map[ssa.Value]colour{}
	n := 0
	// parameter colours from call sites (one round): a parameter receives the join of its arguments' colours
	paramColour := map[*ssa.Parameter]colour{}
	var fns []*ssa.Function
	for _, f := range w.ModuleSSAFuncs() {
		if ssaFuncPkgPath(f) == modPath+"/markup" {
			fns = append(fns, f)
		}
	}
	for _, f := range fns {
		for _, b := range f.Blocks {
			for _, in := range b.Instrs {
				if call, ok := in.(ssa.CallInstruction); ok {
					if callee := call.Common().StaticCallee(); callee != nil && ssaFuncPkgPath(callee) == modPath+"/markup" {
						for i, a := range call.Common().Args {
							if i < len(callee.Params) && isIntType(a.Type()) {
								paramColour[callee.Params[i]] = joinColour(paramColour[callee.Params[i]], colourOf(a, memo, 0))
							}
						}
					}
				}
			}
		}
	}
	for p, col := range paramColour {
		memo[p] = col
	}
	// recompute with parameter colours
	memo2 := map[ssa.Value]colour{}
	for p, col := range paramColour {
		memo2[p] = col
	}
	memo = memo2
	for _, f := range fns {
		if !filter(f) {
			continue
		}
		c.Funcs[ssaFuncName(f)] = true
		for _, b := range f.Blocks {
			for _, in := range b.Instrs {
				switch x := in.(type) {
				case *ssa.Store:
					if fld := fieldOfAddr(x.Addr); fld != nil && isRuneField(fld) {
						n++
						col := colourOf(x.Val, memo, 0)
						ok := col != bytesC && col != mixedC
						key := ssaFuncName(f) + "/store " + fld.Name() + "#" + itoa(n)
						c.ob(rule, key, w.Pos(x.Pos()), ok, map[bool]string{true: fld.Name() + " receives a " + col.String() + " quantity", false: fld.Name() + " is counted in characters but receives a " + col.String() + " quantity: with multi-byte text the range would be too long or misplaced"}[ok])
					}
				case *ssa.BinOp:
					switch x.Op {
					case token.LSS, token.GTR, token.LEQ, token.GEQ, token.EQL, token.NEQ, token.ADD, token.SUB:
						if !isIntType(x.X.Type()) {
							continue
						}
						a, bcol := colourOf(x.X, memo, 0), colourOf(x.Y, memo, 0)
						if a == neutral && bcol == neutral {
							continue
						}
						n++
						ok := joinColour(a, bcol) != mixedC
						key := ssaFuncName(f) + "/" + x.Op.String() + "#" + itoa(n)
						c.ob(rule, key, w.Pos(x.Pos()), ok, map[bool]string{true: "operands agree (" + joinColour(a, bcol).String() + ")", false: "`" + x.Op.String() + "` mixes a " + a.String() + " quantity with a " + bcol.String() + " quantity: the result is only right for single-byte text"}[ok])
					}
				case *ssa.Slice:
					isString := false
					if bt, ok := x.X.Type().Underlying().(*types.Basic); ok && bt.Info()&types.IsString != 0 {
						isString = true
					}
					for _, idx := range []ssa.Value{x.Low, x.High} {
						if idx == nil {
							continue
						}
						col := colourOf(idx, memo, 0)
						if col == neutral {
							continue
						}
						n++
						bad := (isString && (col == runesC || col == mixedC)) || (!isString && isRuneSlice(x.X.Type()) && (col == bytesC || col == mixedC))
						key := ssaFuncName(f) + "/slice#" + itoa(n)
						what := "a string"
						if !isString {
							what = "a []rune"
						}
						c.ob(rule, key, w.Pos(x.Pos()), !bad, map[bool]string{true: what + " is sliced by a " + col.String() + " quantity", false: what + " is sliced by a " + col.String() + " quantity: multi-byte text would be cut at the wrong place"}[!bad])
					}
				case *ssa.Return:
					// a function whose result feeds rune fields must not return bytes: checked at the store
				}
			}
		}
	}
	if n < minSites {
		c.undecided(rule, "only "+itoa(n)+" unit-carrying sites found in markup")
	}
}

func checkC13(c *Ctx) {
	w := c.W
	wGlobal = w
	c.rule("C13.R1", "units: byte quantities and character quantities never meet in markup (stores to positions, comparisons, sums, slicing)", 10)
	c.rule("C13.R2", "close-by-name pattern: folded with the sample name `select` it matches [/select], [ / select ], [/] and rejects [/plural], [select]; a spliced name is quoted", 2)
	c.rule("C13.R3", "processor registry: exactly nomarkup, select, plural, ordinal", 4)
	c.rule("C13.R4", "property words become booleans only by exact comparison of the case-folded word with true/false", 2)
	c.rule("C13.R5", "only \\[ and \\] are unescaped by the markup parser", 1)
	c.rule("C13.R6", "the marker position is the character count of the text built so far (measured from the builder, or every builder write paired with its increment)", 1)
	c.rule("C13.R7", "ordinal/plural category guards select CLDR's English categories on 0…999 (constant evaluation of the extracted guard expressions)", 1)
	c.rule("C13.R9", "TextForAttribute answers with its constant (empty) result for no attribute whose range lies inside the text: the guard's conditions, evaluated on every position/length/text length up to 3, never hold for a valid range", 1)
	c.rule("C13.R10", "select, plural and ordinal answer with the chosen replacement's text in which the placeholders were replaced by the value's text: every successful return is replacePlaceholders(<property chosen>.toString(), <property \"value\">.toString())", 3)
	c.rule("C13.R11", "no failure is reported on behalf of a call that succeeded: every error variable handed to fmt.Errorf in package markup is entailed non-nil there", 5)
	c.rule("C13.R12", "what a lookup hands back is used only where it is known to have been found: every use of v after `v, ok := f(…)` on a (T, bool) function of package markup is entailed by ok", 1)
	c.rule("C13.R13", "the text of a markup value: true/false are spelled under the matching test of BoolValue; a float is rendered through its integer part only where it equals it", 2)
	c.rule("C13.R14", "the implicit character attribute (`Name: ` prefix) is appended only on paths where a presence test — a flag set true only under X.Name == character, slices.ContainsFunc with that predicate, or the found flag of a lookup by that name — is false", 1)
	c.rule("C13.R15", "close-all closes every open marker once: the arm that appends one attribute per open marker empties the list of open markers afterwards", 1)
	c.rule("C13.R8", "a decimal property value is a function of the fraction's digits as written: the float stored for a decimal literal depends on a string read from the line (not only on integers parsed from it, which cannot tell 05 from 5)", 1)
	mp := w.Pkg("markup")
	if mp == nil {
		c.undecided("C13", "package markup not loaded")
		return
	}
	unitRule(c, "C13.R1", func(f *ssa.Function) bool { return true })
	c13Pattern(c)
	c13Registry(c)
	c13BoolWords(c)
	c13Escapes(c)
	c13Position(c)
	c13Ordinal(c)
	c13Cardinal(c)
	c13TextExact(c)
	c13Placeholders(c)
	checkWrapNonNil(c, "C13.R11", "markup")
	c13ValueText(c)
	c13ImplicitCharacter(c)
	c13CloseAll(c)
	checkFoundFlag(c, "C13.R12", "markup")
	c13Decimal(c)
}

// ---------- R2 ----------

func c13Pattern(c *Ctx) {
	w := c.W
	mp := w.Pkg("markup")
	info := mp.TypesInfo
	n := 0
	for _, f := range w.FuncsIn(mp) {
		if f.Body == nil {
			continue
		}
		walkNoLit(f.Body, func(q ast.Node) bool {
			call, ok := q.(*ast.CallExpr)
			if !ok || len(call.Args) != 1 {
				return true
			}
			callee := calleeOf(info, call)
			if callee == nil || (funcFullName(callee) != "regexp.Compile" && funcFullName(callee) != "regexp.MustCompile") {
				return true
			}
			if tv, ok := info.Types[call.Args[0]]; ok && tv.Value != nil {
				return true // constant pattern: nothing spliced
			}
			n++
			c.fn(f)
			// fold the concatenation: constants stay, QuoteMeta(v)/v become the sample
			quoted := true
			var fold func(e ast.Expr) (string, bool)
			fold = func(e ast.Expr) (string, bool) {
				e = unparen(e)
				if tv, ok := info.Types[e]; ok && tv.Value != nil && tv.Value.Kind() == constant.String {
					return constant.StringVal(tv.Value), true
				}
				switch x := e.(type) {
				case *ast.BinaryExpr:
					if x.Op == token.ADD {
						l, ok1 := fold(x.X)
						r, ok2 := fold(x.Y)
						return l + r, ok1 && ok2
					}
				case *ast.CallExpr:
					if cal := calleeOf(info, x); cal != nil && funcFullName(cal) == "regexp.QuoteMeta" && len(x.Args) == 1 {
						return regexp.QuoteMeta("select"), true
					}
				case *ast.Ident:
					if tv, ok := info.Types[x]; ok && typeStr(tv.Type) == "string" {
						quoted = false
						return "select", true
					}
				}
				return "", false
			}
			pat, ok := fold(call.Args[0])
			key := f.Name + "/close-pattern#" + itoa(n)
			if !ok {
				c.ob("C13.R2", key, w.Pos(call.Pos()), false, "the pattern is not a concatenation of constants and the marker name: it cannot be folded")
				return true
			}
			re, err := regexp.Compile(pat)
			if err != nil {
				c.ob("C13.R2", key, w.Pos(call.Pos()), false, "the folded pattern "+pat+" does not compile: "+err.Error())
				return true
			}
			var wrong []string
			for _, s := range []string{"[/select]", "[ / select ]", "[/]", "[ /  ]"} {
				if !re.MatchString(s) {
					wrong = append(wrong, "does not match "+s)
				}
			}
			for _, s := range []string{"[/plural]", "[select]", "[/selected]", "[select /]"} {
				if loc := re.FindString(s); loc != "" {
					wrong = append(wrong, "matches "+s)
				}
			}
			c.ob("C13.R2", key, w.Pos(call.Pos()), len(wrong) == 0, map[bool]string{true: "folded pattern " + pat + " passes the probes", false: "folded pattern " + pat + " " + strings.Join(wrong, ", ") + ": a replacement marker closed by name would be reported unterminated, or closed by another marker's close tag"}[len(wrong) == 0])
			c.ob("C13.R2", key+"/quoted", w.Pos(call.Pos()), quoted, map[bool]string{true: "the spliced name goes through regexp.QuoteMeta", false: "the marker name is spliced into the pattern unquoted: a name containing regular-expression syntax changes the pattern"}[quoted])
			return true
		})
	}
	if n == 0 {
		c.undecided("C13.R2", "no regular expression assembled from a marker name found")
	}
}

// ---------- R3 ----------

func c13Registry(c *Ctx) {
	w := c.W
	mp := w.Pkg("markup")
	info := mp.TypesInfo
	want := map[string]bool{"nomarkup": true, "select": true, "plural": true, "ordinal": true}
	var reg *Func
	names := map[string]string{}
	for _, f := range w.FuncsIn(mp) {
		if f.Decl == nil || f.Body == nil {
			continue
		}
		sig := f.Sig()
		if sig.Params().Len() == 1 && typeStr(sig.Params().At(0).Type()) == "string" && sig.Results().Len() == 1 && typeStr(sig.Results().At(0).Type()) == "markup.markerProcessor" {
			reg = f
		}
	}
	if reg == nil {
		c.undecided("C13.R3", "processor registry (func(string) markerProcessor) not found")
		return
	}
	c.fn(reg)
	// a registry kept as a package-level table: return table[name]
	walkNoLit(reg.Body, func(q ast.Node) bool {
		r, ok := q.(*ast.ReturnStmt)
		if !ok || len(r.Results) != 1 {
			return true
		}
		ix, ok := unparen(r.Results[0]).(*ast.IndexExpr)
		if !ok {
			return true
		}
		id := identOf(ix.X)
		pid := identOf(ix.Index)
		if id == nil || pid == nil || info.Uses[pid] != types.Object(reg.Sig().Params().At(0)) {
			return true
		}
		lit, why := readOnlyTable(w, mp, info.Uses[id])
		if lit == nil {
			c.ob("C13.R3", reg.Name+"/table", w.Pos(r.Pos()), false, "the processor table "+id.Name+" is not a read-only package-level map literal: "+why)
			return true
		}
		for _, el := range lit.Elts {
			kv, ok := el.(*ast.KeyValueExpr)
			if !ok {
				continue
			}
			if tv, ok := info.Types[kv.Key]; ok && tv.Value != nil && tv.Value.Kind() == constant.String {
				names[constant.StringVal(tv.Value)] = exprStr(kv.Value)
			}
		}
		return true
	})
	walkNoLit(reg.Body, func(q ast.Node) bool {
		cc, ok := q.(*ast.CaseClause)
		if !ok {
			return true
		}
		for _, x := range cc.List {
			if tv, ok := info.Types[x]; ok && tv.Value != nil && tv.Value.Kind() == constant.String {
				ret := ""
				for _, st := range cc.Body {
					if r, ok := st.(*ast.ReturnStmt); ok && len(r.Results) == 1 {
						ret = exprStr(r.Results[0])
					}
				}
				names[constant.StringVal(tv.Value)] = ret
			}
		}
		return true
	})
	var all []string
	for n := range names {
		all = append(all, n)
	}
	for n := range want {
		if _, ok := names[n]; !ok {
			all = append(all, n)
		}
	}
	sort.Strings(all)
	c13ProcessorOf = names
	seenProc := map[string]string{}
	for _, n := range all {
		proc, has := names[n]
		ok := has && want[n] && proc != "" && proc != "nil"
		why := "\"" + n + "\" is handled by " + proc
		switch {
		case !has:
			why = "replacement marker \"" + n + "\" has no processor: it would be left in the text as an ordinary attribute"
		case !want[n]:
			why = "\"" + n + "\" is treated as a replacement marker although the property lists only nomarkup, select, plural, ordinal"
		case proc == "" || proc == "nil":
			why = "\"" + n + "\" maps to no processor"
		}
		if ok {
			if other, dup := seenProc[proc]; dup {
				ok, why = false, "\""+n+"\" and \""+other+"\" share the processor "+proc
			}
			seenProc[proc] = n
		}
		c.ob("C13.R3", reg.Name+"/"+n, w.Pos(reg.Decl.Pos()), ok, why)
	}
}

// ---------- R4 ----------

func c13BoolWords(c *Ctx) {
	w := c.W
	mp := w.Pkg("markup")
	info := mp.TypesInfo
	n := 0
	for _, f := range w.FuncsIn(mp) {
		if f.Body == nil || f.Decl == nil {
			continue
		}
		x := w.expander(f)
		walkNoLit(f.Body, func(q ast.Node) bool {
			cl, ok := q.(*ast.CompositeLit)
			if !ok {
				return true
			}
			if tv, ok := info.Types[cl]; !ok || typeStr(tv.Type) != "markup.Value" {
				return true
			}
			vt := litField(cl, "ValueType")
			if vt == nil || exprStr(vt) != "ValueTypeBool" {
				return true
			}
			n++
			c.fn(f)
			bv := litField(cl, "BoolValue")
			key := f.Name + "/bool-literal#" + itoa(n)
			tvb, okb := info.Types[bv]
			if bv == nil || !okb || tvb.Value == nil {
				c.ob("C13.R4", key, w.Pos(cl.Pos()), false, "a boolean property value is not a constant chosen by comparing the word with true/false (e.g. it is what a lenient parser such as strconv.ParseBool returned: t, T, 1 would be booleans and tRuE a string)")
				return true
			}
			word := tvb.Value.ExactString()
			// enclosing case clause of a switch over ToLower(word) / comparison
			ok2, how := false, "not under `case \""+word+"\"` of a switch over the case-folded word"
			for p := w.parent[ast.Node(cl)]; p != nil && p != f.Node(); p = w.parent[p] {
				cc, isCC := p.(*ast.CaseClause)
				if !isCC {
					continue
				}
				sw, isSw := w.parent[w.parent[cc]].(*ast.SwitchStmt)
				if !isSw || sw.Tag == nil {
					continue
				}
				tag := x.str(sw.Tag)
				folded := strings.HasPrefix(tag, "strings.ToLower(") || strings.HasPrefix(tag, "strings.ToUpper(") == false && strings.Contains(tag, "parseID")
				for _, cx := range cc.List {
					if cv, ok := info.Types[cx]; ok && cv.Value != nil && cv.Value.Kind() == constant.String && constant.StringVal(cv.Value) == word && len(cc.List) == 1 {
						if strings.HasPrefix(tag, "strings.ToLower(") || folded {
							ok2, how = true, "under case \""+word+"\" of a switch over "+exprStrShort(sw.Tag)
						}
					}
				}
			}
			c.ob("C13.R4", key, w.Pos(cl.Pos()), ok2, map[bool]string{true: "the boolean " + word + " " + how, false: "the boolean " + word + " is produced " + how}[ok2])
			return true
		})
	}
	if n < 2 {
		c.ob("C13.R4", "markup/bool-literals", "-", false, "fewer than two boolean property literals (true and false) are produced by exact word comparison")
	}
}

// ---------- R5 ----------

func c13Escapes(c *Ctx) {
	w := c.W
	mp := w.Pkg("markup")
	info := mp.TypesInfo
	entry := w.DeclByName(mp, "LineParser.parseMarkup")
	if entry == nil {
		entry = w.DeclByName(mp, "LineParser.ParseMarkup")
	}
	if entry == nil {
		c.undecided("C13.R5", "parseMarkup not found")
		return
	}
	// the if whose condition tests a rune against '\\'; inside it, the comparisons of the peeked rune
	found := false
	walkNoLit(entry.Body, func(q ast.Node) bool {
		is, ok := q.(*ast.IfStmt)
		if !ok {
			return true
		}
		b, ok := unparen(is.Cond).(*ast.BinaryExpr)
		if !ok || b.Op != token.EQL {
			return true
		}
		tv, ok := info.Types[b.Y]
		if !ok || tv.Value == nil || tv.Value.ExactString() != "92" {
			return true
		}
		found = true
		// semantic reading, when the conditions can be evaluated: the characters for which the write of the escaped
		// character is reached are exactly [ and ] (whatever the arrangement of the tests: positive, negated, switch)
		{
			var write *ast.CallExpr
			walkNoLit(is.Body, func(n ast.Node) bool {
				if call, ok := n.(*ast.CallExpr); ok && write == nil {
					if sel, ok := unparen(call.Fun).(*ast.SelectorExpr); ok && (sel.Sel.Name == "WriteRune" || sel.Sel.Name == "WriteString" || sel.Sel.Name == "WriteByte") {
						write = call
					}
				}
				return true
			})
			isRuneVar := func(e ast.Expr) bool {
				id := identOf(e)
				if id == nil {
					return false
				}
				v, ok := info.Uses[id].(*types.Var)
				if !ok {
					return false
				}
				b, ok := v.Type().Underlying().(*types.Basic)
				return ok && b.Kind() == types.Int32
			}
			if write != nil {
				if all, okg := pathGuardsTo(w, info, is.Body, write); okg {
					var guards []pathGuard
					for _, g := range all {
						mentions := false
						check := func(e ast.Expr) {
							if e == nil {
								return
							}
							ast.Inspect(e, func(q ast.Node) bool {
								if x, ok := q.(ast.Expr); ok && isRuneVar(x) {
									mentions = true
								}
								return !mentions
							})
						}
						check(g.cond)
						check(g.tag)
						if mentions {
							guards = append(guards, g)
						}
					}
					if len(guards) > 0 {
						var wrong []string
						evaluable := true
						for _, ch := range []int64{'[', ']', '\\', 'n', '"', '{', '}', ' ', 'a', '/'} {
							reach, ok := reachableUnder(info, guards, func(e ast.Expr) (int64, bool) {
								if isRuneVar(e) {
									return ch, true
								}
								return 0, false
							})
							if !ok {
								evaluable = false
								break
							}
							if reach != (ch == '[' || ch == ']') {
								wrong = append(wrong, strconv.QuoteRune(rune(ch))+map[bool]string{true: " is unescaped", false: " is not unescaped"}[reach])
							}
						}
						if evaluable {
							ok2 := len(wrong) == 0
							why := "after a backslash exactly [ and ] are treated as escaped (the conditions on the way to the write, evaluated on 10 characters)"
							if !ok2 {
								why = "after a backslash " + strings.Join(wrong, ", ") + ": the script lexer has already resolved all other escapes, so such characters would be dropped from (or kept in) the text wrongly"
							}
							c.ob("C13.R5", entry.Name+"/escapable-characters", w.Pos(is.Pos()), ok2, why)
							return true
						}
					}
				}
			}
		}
		consts := map[int64]bool{}
		ast.Inspect(is.Body, func(n ast.Node) bool {
			if bb, ok := n.(*ast.BinaryExpr); ok && bb.Op == token.EQL {
				if cv, ok := info.Types[bb.Y]; ok && cv.Value != nil && cv.Value.Kind() == constant.Int {
					v, _ := constant.Int64Val(cv.Value)
					consts[v] = true
				}
			}
			return true
		})
		var extra, missing []string
		for v := range consts {
			if v != '[' && v != ']' {
				extra = append(extra, string(rune(v)))
			}
		}
		for _, v := range []int64{'[', ']'} {
			if !consts[v] {
				missing = append(missing, string(rune(v)))
			}
		}
		sort.Strings(extra)
		ok2 := len(extra) == 0 && len(missing) == 0
		why := "after a backslash only [ and ] are treated as escaped"
		if !ok2 {
			why = "after a backslash the markup parser also unescapes " + strings.Join(extra, " ") + " / misses " + strings.Join(missing, " ") + ": the script lexer has already resolved all other escapes, so such characters would be dropped from the text"
		}
		c.ob("C13.R5", entry.Name+"/escapable-characters", w.Pos(is.Pos()), ok2, why)
		return true
	})
	if !found {
		c.ob("C13.R5", entry.Name+"/escapable-characters", w.Pos(entry.Decl.Pos()), false, "the markup parser has no backslash handling: \\[ and \\] would start markers")
	}
	c.fn(entry)
}

// ---------- R6 ----------

func c13Position(c *Ctx) {
	w := c.W
	mp := w.Pkg("markup")
	info := mp.TypesInfo
	lp := namedType(mp, "LineParser")
	entry := w.DeclByName(mp, "LineParser.parseMarkup")
	if lp == nil || entry == nil {
		c.undecided("C13.R6", "LineParser / parseMarkup not found")
		return
	}
	fPos := structFieldByName(lp, "position")
	if fPos == nil {
		c.undecided("C13.R6", "LineParser.position not found")
		return
	}
	x := w.expander(entry)
	// the text builder: the local strings.Builder whose String() ends up in ParseResult.Text
	var builder types.Object
	walkNoLit(entry.Body, func(q ast.Node) bool {
		if call, ok := q.(*ast.CallExpr); ok {
			if sel, ok := unparen(call.Fun).(*ast.SelectorExpr); ok && (sel.Sel.Name == "WriteRune" || sel.Sel.Name == "WriteString") {
				if id := identOf(sel.X); id != nil {
					// strings.Builder, or a type that wraps one (it writes runes and strings and renders a String)
					if tv, ok := info.Types[sel.X]; ok {
						if strings.HasSuffix(typeStr(tv.Type), "strings.Builder") {
							builder = info.Uses[id]
						} else if ms := types.NewMethodSet(types.NewPointer(tv.Type)); ms.Lookup(mp.Types, "String") != nil || ms.Lookup(nil, "String") != nil {
							builder = info.Uses[id]
						}
					}
				}
			}
		}
		return true
	})
	if builder == nil {
		c.undecided("C13.R6", "text builder not found in parseMarkup")
		return
	}
	// stores to the position field
	measured, incremental := 0, 0
	var stores []ast.Node
	for _, f := range w.FuncsIn(mp) {
		if f.Body == nil {
			continue
		}
		walkNoLit(f.Body, func(q ast.Node) bool {
			switch q := q.(type) {
			case *ast.AssignStmt:
				for i, l := range q.Lhs {
					if _, isSel := unparen(l).(*ast.SelectorExpr); isSel && lastField(info, l) == fPos {
						stores = append(stores, q)
						if q.Tok == token.ASSIGN && len(q.Rhs) == len(q.Lhs) {
							if measuresBuilder(info, q.Rhs[i], builder) {
								measured++
								continue
							}
							if tv, ok := info.Types[q.Rhs[i]]; ok && tv.Value != nil && tv.Value.ExactString() == "0" {
								continue // reset at parse entry
							}
						}
						incremental++
					}
				}
			case *ast.IncDecStmt:
				if _, isSel := unparen(q.X).(*ast.SelectorExpr); isSel && lastField(info, q.X) == fPos {
					stores = append(stores, q)
					incremental++
				}
			}
			return true
		})
	}
	_ = x
	if incremental == 0 && measured > 0 {
		c.ob("C13.R6", entry.Name+"/position-measured", w.Pos(entry.Decl.Pos()), true, "the marker position is measured as the character count of the builder's content at each marker ("+itoa(measured)+" site(s)); nothing else writes it but the reset")
		return
	}
	// incremental counting: every write to the builder must be paired with its increment before the loop iterates
	r := evtRule{
		start: "idle",
		prim: func(n ast.Node) []string {
			switch n := n.(type) {
			case *ast.CallExpr:
				if sel, ok := unparen(n.Fun).(*ast.SelectorExpr); ok {
					if id := identOf(sel.X); id != nil && info.Uses[id] == builder {
						switch sel.Sel.Name {
						case "WriteRune", "WriteByte":
							return []string{"WRITE1"}
						case "WriteString":
							return []string{"WRITEN"}
						}
					}
				}
			case *ast.IncDecStmt:
				if lastField(info, n.X) == fPos && n.Tok == token.INC {
					return []string{"INC1"}
				}
			case *ast.AssignStmt:
				for i, l := range n.Lhs {
					if _, isSel := unparen(l).(*ast.SelectorExpr); isSel && lastField(info, l) == fPos {
						if n.Tok == token.ADD_ASSIGN {
							if tv, ok := info.Types[n.Rhs[i]]; ok && tv.Value != nil && tv.Value.ExactString() == "1" {
								return []string{"INC1"}
							}
							return []string{"INCN"}
						}
						return []string{"SET"}
					}
				}
			case *pseudo:
				if n.kind == "BACKEDGE" {
					return []string{"NEXT"}
				}
			}
			return nil
		},
		step: func(st, ev string) string {
			if strings.HasPrefix(st, "bad") {
				return ""
			}
			switch ev {
			case "WRITE1":
				if st == "idle" {
					return "need1"
				}
				return "bad:a character is written while " + st
			case "WRITEN":
				if st == "idle" {
					return "needN"
				}
				return "bad:text is written while " + st
			case "INC1":
				if st == "need1" {
					return "idle"
				}
				return "bad:the position is incremented while " + st
			case "INCN":
				if st == "needN" {
					return "idle"
				}
				return "bad:the position is advanced while " + st
			case "SET":
				return "idle"
			case "NEXT":
				if st != "idle" {
					return "bad:the loop iterates while " + st
				}
			}
			return ""
		},
		bad: func(st, ev string) string {
			if strings.HasPrefix(st, "bad:") {
				return "the character counter gets out of step with the text (" + strings.TrimPrefix(st, "bad:") + "): markers after that point would be placed at the wrong character"
			}
			return ""
		},
		ret: func(st string, ret *ast.ReturnStmt, kind string) string {
			return ""
		},
	}
	fs := runEVT(w, entry, r)
	seen := map[string]bool{}
	nf := 0
	for _, fd := range fs {
		if seen[fd.msg] {
			continue
		}
		seen[fd.msg] = true
		nf++
		c.ob("C13.R6", entry.Name+"/position-incremental#"+itoa(nf), w.Pos(fd.pos), false, fd.msg)
	}
	if nf == 0 {
		c.ob("C13.R6", entry.Name+"/position-incremental", w.Pos(entry.Decl.Pos()), true, "the position is counted incrementally and every write to the text builder is paired with the matching increment before the loop iterates")
	}
}

// ---------- R7 ----------

var evalLocalDefs = map[types.Object]ast.Expr{}

// evalInt evaluates a pure integer/boolean expression over one integer variable (single-assignment locals are expanded).
// evalVarKey: when the quantity the guards range over is not a local but an expression (value.IntegerValue), its text.
var evalVarKey string

// evalLeaf, when set, gives the value of a variable or field the guards mention (n: the quantity ranged over).
var evalLeaf func(e ast.Expr, n int64) (int64, bool)

func evalIntExpr(info *types.Info, e ast.Expr, v types.Object, n int64) (int64, bool, bool) {
	// returns (int value, bool value, ok) — bool value meaningful for boolean expressions
	e = unparen(e)
	if tv, ok := info.Types[e]; ok && tv.Value != nil {
		switch tv.Value.Kind() {
		case constant.Int:
			x, _ := constant.Int64Val(tv.Value)
			return x, false, true
		case constant.Bool:
			return 0, constant.BoolVal(tv.Value), true
		}
	}
	if evalVarKey != "" && exprStr(e) == evalVarKey {
		return n, false, true
	}
	if evalLeaf != nil {
		switch e.(type) {
		case *ast.Ident, *ast.SelectorExpr, *ast.CallExpr:
			if x, ok := evalLeaf(e, n); ok {
				return x, false, true
			}
		}
	}
	switch x := e.(type) {
	case *ast.Ident:
		if v != nil && info.Uses[x] == v {
			return n, false, true
		}
		if def := evalLocalDefs[info.Uses[x]]; def != nil {
			return evalIntExpr(info, def, v, n)
		}
	case *ast.UnaryExpr:
		a, ab, ok := evalIntExpr(info, x.X, v, n)
		if !ok {
			return 0, false, false
		}
		switch x.Op {
		case token.NOT:
			return 0, !ab, true
		case token.SUB:
			return -a, false, true
		}
	case *ast.BinaryExpr:
		a, ab, ok1 := evalIntExpr(info, x.X, v, n)
		b, bb, ok2 := evalIntExpr(info, x.Y, v, n)
		if !ok1 || !ok2 {
			return 0, false, false
		}
		switch x.Op {
		case token.ADD:
			return a + b, false, true
		case token.SUB:
			return a - b, false, true
		case token.MUL:
			return a * b, false, true
		case token.QUO:
			if b == 0 {
				return 0, false, false
			}
			return a / b, false, true
		case token.REM:
			if b == 0 {
				return 0, false, false
			}
			return a % b, false, true
		case token.EQL:
			return 0, a == b, true
		case token.NEQ:
			return 0, a != b, true
		case token.LSS:
			return 0, a < b, true
		case token.GTR:
			return 0, a > b, true
		case token.LEQ:
			return 0, a <= b, true
		case token.GEQ:
			return 0, a >= b, true
		case token.LAND:
			return 0, ab && bb, true
		case token.LOR:
			return 0, ab || bb, true
		}
	}
	return 0, false, false
}

func c13Ordinal(c *Ctx) {
	w := c.W
	mp := w.Pkg("markup")
	info := mp.TypesInfo
	// plural-category constants by value
	constVal := func(e ast.Expr) string {
		if tv, ok := info.Types[e]; ok && tv.Value != nil && tv.Value.Kind() == constant.String {
			return constant.StringVal(tv.Value)
		}
		return "?"
	}
	// the ordinal processor: a function with a tagless switch assigning a category under conditions on n%10 / n%100
	checked := 0
	for _, f := range w.FuncsIn(mp) {
		if f.Body == nil || f.Decl == nil {
			continue
		}
		walkNoLit(f.Body, func(q ast.Node) bool {
			// the category selection: a tagless switch or an if / else-if chain with at least three guarded arms
			var sw ast.Node
			var branchArms []arm
			switch y := q.(type) {
			case *ast.SwitchStmt:
				if y.Tag == nil {
					sw, branchArms = y, armsOfSwitch(y)
				}
			case *ast.IfStmt:
				if isChainHead(w, y) {
					sw, branchArms = y, armsOfIfChain(y)
				}
			}
			if sw == nil || len(branchArms) < 3 {
				return true
			}
			// all arms assign one variable a constant; conditions over one integer quantity (the operand of %)
			var nObj types.Object
			evalVarKey = ""
			ast.Inspect(f.Body, func(n ast.Node) bool {
				if b, ok := n.(*ast.BinaryExpr); ok && b.Op == token.REM {
					if id := identOf(b.X); id != nil {
						nObj = info.Uses[id]
					} else if evalVarKey == "" {
						evalVarKey = exprStr(b.X)
					}
				}
				return true
			})
			if nObj == nil && evalVarKey == "" {
				return true
			}
			if nObj != nil {
				evalVarKey = ""
			}
			// single-assignment locals defined from call-free expressions
			ef := w.ent(f)
			for obj, as := range ef.assigns {
				if len(as) != 1 {
					continue
				}
				if a, ok := as[0].(*ast.AssignStmt); ok && len(a.Lhs) == len(a.Rhs) {
					for i, l := range a.Lhs {
						if id := identOf(l); id != nil && (info.Defs[id] == obj || info.Uses[id] == obj) && callFree(a.Rhs[i]) && obj != nObj {
							evalLocalDefs[obj] = a.Rhs[i]
						}
					}
				}
			}
			type catArm struct {
				cond ast.Expr
				cat  string
			}
			var arms []catArm
			def := ""
			var catVar types.Object
			for _, ba := range branchArms {
				if len(ba.conds) > 1 || len(ba.body) != 1 {
					return true
				}
				as, ok := ba.body[0].(*ast.AssignStmt)
				if !ok || len(as.Rhs) != 1 || len(as.Lhs) != 1 || identOf(as.Lhs[0]) == nil {
					return true
				}
				if catVar == nil {
					catVar = info.Uses[identOf(as.Lhs[0])]
				}
				if catVar == nil || info.Uses[identOf(as.Lhs[0])] != catVar {
					return true
				}
				if len(ba.conds) == 0 {
					// the default arm (the final else)
					def = constVal(as.Rhs[0])
					continue
				}
				arms = append(arms, catArm{ba.conds[0], constVal(as.Rhs[0])})
			}
			if len(arms) < 3 {
				return true
			}
			// without a default arm, the default category is the value the variable holds when the switch is reached: its
			// latest assignment before the switch, at the same nesting level
			if def == "" {
				def = "?"
				if list := stmtListOf(w, sw); list != nil {
					for _, st := range list {
						if st.End() > sw.Pos() {
							break
						}
						switch a := st.(type) {
						case *ast.AssignStmt:
							for i, l := range a.Lhs {
								if id := identOf(l); id != nil && (info.Defs[id] == catVar || info.Uses[id] == catVar) && len(a.Rhs) == len(a.Lhs) {
									def = constVal(a.Rhs[i])
								}
							}
						case *ast.DeclStmt:
							if gd, ok := a.Decl.(*ast.GenDecl); ok {
								for _, sp := range gd.Specs {
									if vs, ok := sp.(*ast.ValueSpec); ok {
										for i, nm := range vs.Names {
											if info.Defs[nm] == catVar {
												def = "?"
												if i < len(vs.Values) {
													def = constVal(vs.Values[i])
												}
											}
										}
									}
								}
							}
						default:
							// assigned inside a nested statement before the switch: not a single known value
							walkNoLit(st, func(n ast.Node) bool {
								if a, ok := n.(*ast.AssignStmt); ok {
									for _, l := range a.Lhs {
										if id := identOf(l); id != nil && info.Uses[id] == catVar {
											def = "?"
										}
									}
								}
								return true
							})
						}
					}
				}
			}
			checked++
			c.fn(f)
			var wrong []string
			for n := int64(0); n < 1000 && len(wrong) < 4; n++ {
				got := def
				for _, a := range arms {
					_, b, ok := evalIntExpr(info, a.cond, nObj, n)
					if !ok {
						c.ob("C13.R7", f.Name+"/ordinal-categories", w.Pos(sw.Pos()), false, "a category guard is not a pure integer expression in one variable: it cannot be evaluated")
						return true
					}
					if b {
						got = a.cat
						break
					}
				}
				want := "other"
				switch {
				case n%10 == 1 && n%100 != 11:
					want = "one"
				case n%10 == 2 && n%100 != 12:
					want = "two"
				case n%10 == 3 && n%100 != 13:
					want = "few"
				}
				if got != want {
					wrong = append(wrong, itoa(int(n))+" -> "+got+" (CLDR: "+want+")")
				}
			}
			c.ob("C13.R7", f.Name+"/ordinal-categories", w.Pos(sw.Pos()), len(wrong) == 0, map[bool]string{true: "the guards select CLDR's English ordinal categories for every value in 0…999", false: "the ordinal guards select the wrong category: " + strings.Join(wrong, ", ")}[len(wrong) == 0])
			return true
		})
	}
	if checked == 0 {
		c.undecided("C13.R7", "no ordinal category switch found")
	}
}

// measuresBuilder: e is len([]rune(B.String())) or utf8.RuneCountInString(B.String()) for the builder B.
func measuresBuilder(info *types.Info, e ast.Expr, builder types.Object) bool {
	isBString := func(x ast.Expr) bool {
		call, ok := unparen(x).(*ast.CallExpr)
		if !ok || len(call.Args) != 0 {
			return false
		}
		sel, ok := unparen(call.Fun).(*ast.SelectorExpr)
		if !ok || sel.Sel.Name != "String" {
			return false
		}
		id := identOf(sel.X)
		return id != nil && info.Uses[id] == builder
	}
	call, ok := unparen(e).(*ast.CallExpr)
	if !ok || len(call.Args) != 1 {
		return false
	}
	if isBuiltin(info, call, "len") {
		conv, ok := unparen(call.Args[0]).(*ast.CallExpr)
		if !ok || len(conv.Args) != 1 {
			return false
		}
		if tv, ok := info.Types[conv.Fun]; ok && tv.IsType() && isRuneSlice(tv.Type) {
			return isBString(conv.Args[0])
		}
		return false
	}
	if callee := calleeOf(info, call); callee != nil && funcFullName(callee) == "unicode/utf8.RuneCountInString" {
		return isBString(call.Args[0])
	}
	return false
}

// c13Decimal: information flow, not arithmetic. The value of a decimal literal i.f depends on how many leading zeros f
// has; an integer parsed from f has forgotten them. So whatever formula computes the float, it must take in the fraction
// as text: the expression stored in FloatValue must depend (through locals assigned once) on a string-typed result of a
// function of the markup package that reads the line. A formula over parsed integers only (i + f·10^-len(Itoa(f))) is
// wrong on every fraction with a leading zero — 1.05 read as 1.5 — whatever its shape.
func c13Decimal(c *Ctx) {
	w := c.W
	mp := w.Pkg("markup")
	info := mp.TypesInfo
	n := 0
	for _, f := range w.FuncsIn(mp) {
		if f.Body == nil || f.Lit != nil {
			continue
		}
		x := w.expander(f)
		walkNoLit(f.Body, func(q ast.Node) bool {
			cl, ok := q.(*ast.CompositeLit)
			if !ok {
				return true
			}
			if tv, ok := info.Types[cl]; !ok || typeStr(tv.Type) != "markup.Value" {
				return true
			}
			fv := litField(cl, "FloatValue")
			if fv == nil {
				return true
			}
			if tv, ok := info.Types[fv]; ok && tv.Value != nil {
				return true // a constant
			}
			n++
			c.fn(f)
			// dependency closure through locals assigned once
			found := ""
			onlyInts := true
			var visit func(e ast.Node, depth int)
			visit = func(e ast.Node, depth int) {
				ast.Inspect(e, func(z ast.Node) bool {
					switch y := z.(type) {
					case *ast.CallExpr:
						// a string that was read rather than printed from a number: the result of any call that yields a
						// string (a reader of the package, a strings.Builder's String()), except the number formatters
						if tv, ok := info.Types[y]; ok {
							isStr := false
							switch t := tv.Type.(type) {
							case *types.Basic:
								isStr = t.Info()&types.IsString != 0
							case *types.Tuple:
								if t.Len() > 0 {
									if bt, ok := t.At(0).Type().Underlying().(*types.Basic); ok && bt.Info()&types.IsString != 0 {
										isStr = true
									}
								}
							default:
								if bt, ok := tv.Type.Underlying().(*types.Basic); ok && bt.Info()&types.IsString != 0 {
									isStr = true
								}
							}
							if isStr && !tv.IsType() {
								name := ""
								if callee := calleeOf(info, y); callee != nil {
									name = funcFullName(callee)
								}
								switch {
								case name == "strconv.Itoa" || name == "strconv.FormatInt" || name == "strconv.FormatUint" || name == "strconv.FormatFloat" || strings.HasPrefix(name, "fmt.Sprint"):
									// text printed from a number carries no more than the number
								case isTypeConversionCall(info, y):
								default:
									if found == "" {
										found = exprStr(y.Fun)
									}
								}
							}
						}
					case *ast.SliceExpr:
						if tv, ok := info.Types[y]; ok {
							if bt, ok := tv.Type.Underlying().(*types.Basic); ok && bt.Info()&types.IsString != 0 && found == "" {
								found = "a substring " + exprStr(y)
							}
						}
					case *ast.Ident:
						if v, ok := info.Uses[y].(*types.Var); ok && !v.IsField() && depth < 8 {
							if rhs, _, _, ok := x.def(v); ok && rhs != nil {
								visit(rhs, depth+1)
							} else if bt, ok := v.Type().Underlying().(*types.Basic); !ok || bt.Info()&types.IsInteger == 0 {
								onlyInts = false
							}
						}
					}
					return true
				})
			}
			visit(fv, 0)
			ok2 := found != ""
			why := "the decimal value takes in the digits as text (result of " + found + "): leading zeros of the fraction are not lost"
			if !ok2 {
				why = "the decimal value (" + shorten(x.str(fv), 140) + ") is computed from parsed integers only: a fraction's leading zeros are forgotten before the value is formed, so 1.05 reads as 1.5 and 0.001 as 0.1"
			}
			_ = onlyInts
			c.ob("C13.R8", f.Name+"/decimal-value#"+itoa(n), w.Pos(cl.Pos()), ok2, why)
			return true
		})
	}
	if n == 0 {
		c.undecided("C13.R8", "no construction of a decimal markup value (Value{FloatValue: …}) was found")
	}
}

var fieldColourBusy = map[*types.Var]bool{}

// fieldColour: the join of the units of everything the markup package stores into an integer field (a counter that is
// bumped by len(text) in one place counts bytes, whatever else adds to it).
func fieldColour(fld *types.Var, memo map[ssa.Value]colour, depth int) colour {
	if fieldColourBusy[fld] || wGlobal == nil {
		return neutral
	}
	fieldColourBusy[fld] = true
	defer delete(fieldColourBusy, fld)
	var c colour
	for _, f := range wGlobal.ModuleSSAFuncs() {
		if ssaFuncPkgPath(f) != modPath+"/markup" {
			continue
		}
		for _, b := range f.Blocks {
			for _, in := range b.Instrs {
				if st, ok := in.(*ssa.Store); ok && fieldOfAddr(st.Addr) == fld {
					c = joinColour(c, colourOf(st.Val, memo, depth+1))
				}
			}
		}
	}
	return c
}

func isTypeConversionCall(info *types.Info, call *ast.CallExpr) bool {
	tv, ok := info.Types[call.Fun]
	return ok && tv.IsType()
}

// stmtListOf: the statement list (block, case or comm clause body) that directly contains the statement.
func stmtListOf(w *World, st ast.Node) []ast.Stmt {
	switch p := w.parent[st].(type) {
	case *ast.BlockStmt:
		return p.List
	case *ast.CaseClause:
		return p.Body
	case *ast.CommClause:
		return p.Body
	case *ast.LabeledStmt:
		return stmtListOf(w, p)
	}
	return nil
}

// c13Cardinal: the cardinal ("plural") category of English: "one" for the integer 1, "other" for every other integer.
// The processor that assigns the constant "one" without any remainder arithmetic is the cardinal one; the conjunction of
// the conditions under which that assignment is reached — evaluated with the value's type fixed to integer and the
// integer ranging over 0…999 — must hold for 1 and for 1 only, and the variable must hold "other" before.
func c13Cardinal(c *Ctx) {
	w := c.W
	mp := w.Pkg("markup")
	info := mp.TypesInfo
	constStr := func(e ast.Expr) (string, bool) {
		if tv, ok := info.Types[e]; ok && tv.Value != nil && tv.Value.Kind() == constant.String {
			return constant.StringVal(tv.Value), true
		}
		return "", false
	}
	var intType int64 = -1
	if o, ok := mp.Types.Scope().Lookup("ValueTypeInteger").(*types.Const); ok {
		intType, _ = constant.Int64Val(o.Val())
	}
	found := 0
	for _, f := range w.FuncsIn(mp) {
		if f.Body == nil || f.Decl == nil {
			continue
		}
		hasRem := false
		walkNoLit(f.Body, func(q ast.Node) bool {
			if b, ok := q.(*ast.BinaryExpr); ok && b.Op == token.REM {
				hasRem = true
			}
			return true
		})
		if hasRem {
			continue
		}
		walkNoLit(f.Body, func(q ast.Node) bool {
			as, ok := q.(*ast.AssignStmt)
			if !ok || as.Tok != token.ASSIGN || len(as.Lhs) != 1 || len(as.Rhs) != 1 || identOf(as.Lhs[0]) == nil {
				return true
			}
			if v, ok := constStr(as.Rhs[0]); !ok || v != "one" {
				return true
			}
			catVar := info.Uses[identOf(as.Lhs[0])]
			if catVar == nil {
				return true
			}
			found++
			c.fn(f)
			key := f.Name + "/cardinal-categories"
			// the conditions on the way down to the assignment
			type guard struct {
				cond  ast.Expr
				holds bool
				tag   ast.Expr // case of a switch with tag: tag == cond
			}
			var guards []guard
			var child ast.Node = as
			for p := w.parent[as]; p != nil && p != ast.Node(f.Body); child, p = p, w.parent[p] {
				switch y := p.(type) {
				case *ast.IfStmt:
					if child == ast.Node(y.Body) {
						guards = append(guards, guard{cond: y.Cond, holds: true})
					} else if child == y.Else {
						guards = append(guards, guard{cond: y.Cond, holds: false})
					}
				case *ast.CaseClause:
					sw, _ := w.parent[w.parent[y]].(*ast.SwitchStmt)
					if sw == nil || len(y.List) != 1 {
						c.ob("C13.R7", key, w.Pos(as.Pos()), false, "the category \"one\" is chosen in a clause the rule cannot evaluate")
						return true
					}
					guards = append(guards, guard{cond: y.List[0], holds: true, tag: sw.Tag})
				case *ast.ForStmt, *ast.RangeStmt:
					c.ob("C13.R7", key, w.Pos(as.Pos()), false, "the category \"one\" is chosen inside a loop")
					return true
				}
			}
			// single-assignment locals defined from call-free expressions are looked through
			for obj, das := range w.ent(f).assigns {
				if len(das) != 1 || obj == catVar {
					continue
				}
				if a, ok := das[0].(*ast.AssignStmt); ok && len(a.Lhs) == len(a.Rhs) {
					for i, l := range a.Lhs {
						if id := identOf(l); id != nil && (info.Defs[id] == obj || info.Uses[id] == obj) && callFree(a.Rhs[i]) {
							evalLocalDefs[obj] = a.Rhs[i]
						}
					}
				}
			}
			evalLeaf = func(e ast.Expr, n int64) (int64, bool) {
				if id := identOf(e); id != nil && evalLocalDefs[info.Uses[id]] != nil {
					return 0, false
				}
				tv, ok := info.Types[e]
				if !ok || tv.Value != nil {
					return 0, false
				}
				if nt, ok := tv.Type.(*types.Named); ok && nt.Obj().Name() == "ValueType" && intType >= 0 {
					return intType, true
				}
				if b, ok := tv.Type.Underlying().(*types.Basic); ok && b.Kind() == types.Int {
					return n, true
				}
				return 0, false
			}
			defer func() { evalLeaf = nil }()
			var wrong []string
			for n := int64(0); n < 1000 && len(wrong) < 4; n++ {
				all := true
				for _, g := range guards {
					var holds bool
					if g.tag != nil {
						a, _, ok1 := evalIntExpr(info, g.tag, nil, n)
						b, _, ok2 := evalIntExpr(info, g.cond, nil, n)
						if !ok1 || !ok2 {
							c.ob("C13.R7", key, w.Pos(as.Pos()), false, "a condition on the way to the category \"one\" is not a pure expression over the value's type and integer: it cannot be evaluated")
							evalLeaf = nil
							return true
						}
						holds = a == b
					} else {
						_, b, ok := evalIntExpr(info, g.cond, nil, n)
						if !ok {
							c.ob("C13.R7", key, w.Pos(as.Pos()), false, "a condition on the way to the category \"one\" is not a pure expression over the value's type and integer: it cannot be evaluated")
							evalLeaf = nil
							return true
						}
						holds = b == g.holds
					}
					if !holds {
						all = false
					}
				}
				if all != (n == 1) {
					wrong = append(wrong, itoa(int(n))+" -> "+map[bool]string{true: "one", false: "other"}[all])
				}
			}
			evalLeaf = nil
			// the value before: "other"
			before := "?"
			for _, a := range w.ent(f).assigns[catVar] {
				if a.Pos() >= as.Pos() {
					continue
				}
				switch d := a.(type) {
				case *ast.AssignStmt:
					for i, l := range d.Lhs {
						if id := identOf(l); id != nil && (info.Defs[id] == catVar || info.Uses[id] == catVar) && len(d.Rhs) == len(d.Lhs) {
							before, _ = constStr(d.Rhs[i])
						}
					}
				case *ast.ValueSpec:
					for i, nm := range d.Names {
						if info.Defs[nm] == catVar && i < len(d.Values) {
							before, _ = constStr(d.Values[i])
						}
					}
				}
			}
			switch {
			case len(wrong) > 0:
				c.ob("C13.R7", key, w.Pos(as.Pos()), false, "the cardinal category is wrong for the integers "+strings.Join(wrong, ", ")+" (English: one for 1, other otherwise)")
			case before != "other":
				c.ob("C13.R7", key, w.Pos(as.Pos()), false, "the category held when the value is not 1 is \""+before+"\", not \"other\"")
			default:
				c.ob("C13.R7", key, w.Pos(as.Pos()), true, "\"one\" is chosen for the integer 1 and for no other integer in 0…999; \"other\" otherwise")
			}
			return true
		})
	}
	if found == 0 {
		c.undecided("C13.R7", "no cardinal category selection found (an assignment of the category \"one\" outside remainder arithmetic)")
	}
}

// c13ProcessorOf: replacement marker name -> the processor's function name (filled by the registry rule).
var c13ProcessorOf map[string]string

// c13Placeholders: provenance of what select/plural/ordinal return on success, on the SSA form.
func c13Placeholders(c *Ctx) {
	w := c.W
	mp := w.Pkg("markup")
	// the value stored last in a local that is written once (struct locals are allocs in SSA)
	storedIn := func(fn *ssa.Function, a *ssa.Alloc) ssa.Value {
		var v ssa.Value
		n := 0
		for _, b := range fn.Blocks {
			for _, in := range b.Instrs {
				if st, ok := in.(*ssa.Store); ok && st.Addr == ssa.Value(a) {
					n++
					v = st.Val
				}
			}
		}
		if n == 1 {
			return v
		}
		return nil
	}
	// textOf: v is X.toString() where X is result #0 of marker.GetProperty(key); returns the key value
	textOf := func(fn *ssa.Function, v ssa.Value) (ssa.Value, string) {
		call, ok := v.(*ssa.Call)
		if !ok || call.Common().StaticCallee() == nil || call.Common().StaticCallee().Name() != "toString" || len(call.Common().Args) != 1 {
			return nil, "is not the text (toString) of a property"
		}
		recv := call.Common().Args[0]
		if a, ok := recv.(*ssa.Alloc); ok {
			if sv := storedIn(fn, a); sv != nil {
				recv = sv
			} else {
				return nil, "is the text of a variable assigned more than once"
			}
		}
		if u, ok := recv.(*ssa.UnOp); ok && u.Op == token.MUL {
			if a, ok := u.X.(*ssa.Alloc); ok {
				if sv := storedIn(fn, a); sv != nil {
					recv = sv
				}
			}
		}
		ex, ok := recv.(*ssa.Extract)
		if !ok || ex.Index != 0 {
			return nil, "is not the text of a property looked up on the marker"
		}
		gp, ok := ex.Tuple.(*ssa.Call)
		if !ok || gp.Common().StaticCallee() == nil || gp.Common().StaticCallee().Name() != "GetProperty" || len(gp.Common().Args) != 2 {
			return nil, "is not the text of a property looked up on the marker"
		}
		return gp.Common().Args[1], ""
	}
	isConstStr := func(v ssa.Value, want string) bool {
		k, ok := v.(*ssa.Const)
		return ok && k.Value != nil && k.Value.Kind() == constant.String && constant.StringVal(k.Value) == want
	}
	found := 0
	for _, name := range []string{"select", "plural", "ordinal"} {
		pn := c13ProcessorOf[name]
		f := w.DeclByName(mp, pn)
		if pn == "" || f == nil {
			continue
		}
		fn := w.SSAFunc(f)
		if fn == nil {
			c.undecided("C13.R10", "no SSA for "+pn)
			continue
		}
		found++
		c.fn(f)
		bad := ""
		nret := 0
		for _, b := range fn.Blocks {
			for _, in := range b.Instrs {
				ret, ok := in.(*ssa.Return)
				if !ok || len(ret.Results) != 2 {
					continue
				}
				if k, ok := ret.Results[1].(*ssa.Const); !ok || k.Value != nil {
					continue // an error return
				}
				nret++
				call, ok := ret.Results[0].(*ssa.Call)
				if !ok || call.Common().StaticCallee() == nil || call.Common().StaticCallee().Name() != "replacePlaceholders" || len(call.Common().Args) != 2 {
					bad = w.Pos(ret.Pos()) + ": the text returned on success is not the result of replacePlaceholders: a % in the replacement would be left in the line"
					continue
				}
				k0, why0 := textOf(fn, call.Common().Args[0])
				k1, why1 := textOf(fn, call.Common().Args[1])
				switch {
				case k0 == nil:
					bad = w.Pos(ret.Pos()) + ": the replacement handed to replacePlaceholders " + why0
				case k1 == nil && name != "select":
					bad = w.Pos(ret.Pos()) + ": the value handed to replacePlaceholders " + why1
				case isConstStr(k0, "value"):
					bad = w.Pos(ret.Pos()) + ": the replacement handed to replacePlaceholders is the \"value\" property itself, not the replacement chosen for it"
				case k1 != nil && !isConstStr(k1, "value"):
					bad = w.Pos(ret.Pos()) + ": the placeholders are replaced by a property other than \"value\""
				case k1 == nil:
					// select: the value's text is also the key of the replacement; it must be the same SSA value
					if call.Common().Args[1] != k0 {
						if _, why := textOf(fn, call.Common().Args[1]); why != "" && call.Common().Args[1] != k0 {
							bad = w.Pos(ret.Pos()) + ": the value handed to replacePlaceholders " + why + " and is not the text the replacement was chosen by"
						}
					}
				}
			}
		}
		key := f.Name + "/placeholders"
		switch {
		case nret == 0:
			c.ob("C13.R10", key, w.Pos(f.Decl.Pos()), false, "the processor of \""+name+"\" has no successful return")
		case bad != "":
			c.ob("C13.R10", key, w.Pos(f.Decl.Pos()), false, bad)
		default:
			c.ob("C13.R10", key, w.Pos(f.Decl.Pos()), true, "every successful return is replacePlaceholders(text of the chosen replacement, text of the value)")
		}
	}
	if found < 3 {
		c.undecided("C13.R10", "only "+itoa(found)+" of the processors of select, plural, ordinal were found through the registry")
	}
}
