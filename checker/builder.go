package main

// builder.go — completeness of the tree builder (internal/tree parserListener): nothing the parser reports is dropped.
//
//   C01.R11  every callback literal handed to a listener stack or callback field consumes each of its parameters on every
//            path: the parameter reaches a store (assignment, append, composite literal) or a call argument. A callback that
//            ignores what it is given silently loses a statement, a clause body or an operand.
//   C02.R7   every Enter handler of a labelled alternative of grammar rules 'expression' and 'value' reports an
//            expression on every path: it calls the current expression callback, or installs a callback (push / callback
//            field) whose body does. A handler that does neither leaves the surrounding statement without its operand.

import (
	"go/ast"
	"go/types"
	"strings"
)

// listenerSinks: the stack fields and callback fields of parserListener.
func listenerSinks(w *World) (stacks, callbacks []*types.Var) {
	tp := w.Pkg("internal/tree")
	pl := namedType(tp, "parserListener")
	if pl == nil {
		return nil, nil
	}
	st, ok := pl.Underlying().(*types.Struct)
	if !ok {
		return nil, nil
	}
	for i := 0; i < st.NumFields(); i++ {
		f := st.Field(i)
		if strings.HasPrefix(typeStr(f.Type()), "*container.Stack[") {
			stacks = append(stacks, f)
		} else if _, ok := f.Type().Underlying().(*types.Signature); ok {
			callbacks = append(callbacks, f)
		}
	}
	return
}

// installedLiterals: the function literals in the package that are pushed on a listener stack or assigned to a callback
// field, with the name of the sink.
func installedLiterals(w *World) map[*ast.FuncLit]string {
	tp := w.Pkg("internal/tree")
	info := tp.TypesInfo
	stacks, callbacks := listenerSinks(w)
	out := map[*ast.FuncLit]string{}
	for _, file := range tp.Syntax {
		ast.Inspect(file, func(n ast.Node) bool {
			switch x := n.(type) {
			case *ast.CallExpr:
				for _, s := range stacks {
					if name, on := methodCallOn(info, x, s); on && (name == "Push" || name == "PushAll") {
						for _, a := range x.Args {
							if lit, ok := unparen(a).(*ast.FuncLit); ok {
								out[lit] = s.Name()
							}
						}
					}
				}
			case *ast.AssignStmt:
				if len(x.Lhs) != len(x.Rhs) {
					return true
				}
				for i, l := range x.Lhs {
					for _, cb := range callbacks {
						if lastField(info, l) == cb {
							if lit, ok := unparen(x.Rhs[i]).(*ast.FuncLit); ok {
								out[lit] = cb.Name()
							}
						}
					}
				}
			}
			return true
		})
	}
	return out
}

// mentionsObj: the expression mentions the object (outside nested function literals' own parameters).
func mentionsObj(info *types.Info, e ast.Node, obj types.Object) bool {
	found := false
	ast.Inspect(e, func(n ast.Node) bool {
		if id, ok := n.(*ast.Ident); ok && info.Uses[id] == obj {
			found = true
		}
		return !found
	})
	return found
}

func c01R11(c *Ctx) {
	w := c.W
	tp := w.Pkg("internal/tree")
	info := tp.TypesInfo
	lits := installedLiterals(w)
	if len(lits) < 20 {
		c.undecided("C01.R11", "only "+itoa(len(lits))+" callback literals found on the tree builder")
		return
	}
	for _, f := range w.FuncsIn(tp) {
		if f.Lit == nil {
			continue
		}
		sink, ok := lits[f.Lit]
		if !ok {
			continue
		}
		c.fn(f)
		pi := 0
		for _, fl := range f.Lit.Type.Params.List {
			names := fl.Names
			if len(names) == 0 {
				names = []*ast.Ident{nil}
			}
			for _, nm := range names {
				pi++
				key := f.Name + "/consumes parameter " + itoa(pi) + " (" + sink + ")"
				if nm == nil || nm.Name == "_" {
					c.ob("C01.R11", key, w.Pos(f.Lit.Pos()), false, "the callback installed on "+sink+" discards its argument: what the parser hands over here is lost")
					continue
				}
				obj := info.Defs[nm]
				r := evtRule{
					start: "unused",
					prim: func(n ast.Node) []string {
						switch x := n.(type) {
						case *ast.AssignStmt:
							for _, rhs := range x.Rhs {
								if mentionsObj(info, rhs, obj) {
									return []string{"USE"}
								}
							}
						case *ast.CallExpr:
							for _, a := range x.Args {
								if mentionsObj(info, a, obj) {
									return []string{"USE"}
								}
							}
						case *ast.SendStmt:
							if mentionsObj(info, x.Value, obj) {
								return []string{"USE"}
							}
						}
						return nil
					},
					step: func(st, ev string) string {
						if ev == "USE" {
							return "used"
						}
						return ""
					},
					ret: func(st string, ret *ast.ReturnStmt, kind string) string {
						if st == "used" {
							return ""
						}
						for _, res := range ret.Results {
							if mentionsObj(info, res, obj) {
								return ""
							}
						}
						return "the callback installed on " + sink + " can return without having stored or passed on its argument " + nm.Name + ": what the parser hands over here is lost"
					},
				}
				fs := runEVT(w, f, r)
				if len(fs) == 0 {
					c.ob("C01.R11", key, w.Pos(f.Lit.Pos()), true, "on every path "+nm.Name+" reaches a store or a call argument")
				}
				for i, fd := range fs {
					k := key
					if i > 0 {
						k += "#" + itoa(i+1)
					}
					c.ob("C01.R11", k, w.Pos(fd.pos), false, fd.msg)
				}
			}
		}
	}
}

// reportsExpression: on every path that returns, f calls an expression callback or installs one that does.
func reportsExpression(w *World, f *Func, depth int) []evtFinding {
	tp := w.Pkg("internal/tree")
	info := tp.TypesInfo
	stacks, callbacks := listenerSinks(w)
	takesExpression := func(t types.Type) bool {
		sig, ok := t.Underlying().(*types.Signature)
		return ok && sig.Params().Len() == 1 && typeStr(sig.Params().At(0).Type()) == "*tree.Expression"
	}
	// emit: a call of a function value that takes an expression (the value peeked from the expression stack, typically)
	isEmit := func(call *ast.CallExpr) bool {
		if tv, ok := info.Types[call.Fun]; ok && !tv.IsType() && takesExpression(tv.Type) {
			if calleeOf(info, call) == nil { // a function value, not a declared function
				return true
			}
		}
		return false
	}
	containsEmit := func(lit *ast.FuncLit) bool {
		found := false
		ast.Inspect(lit.Body, func(n ast.Node) bool {
			if call, ok := n.(*ast.CallExpr); ok && isEmit(call) {
				found = true
			}
			return !found
		})
		return found
	}
	r := evtRule{
		start: "silent",
		prim: func(n ast.Node) []string {
			switch x := n.(type) {
			case *ast.CallExpr:
				if isEmit(x) {
					return []string{"REPORT"}
				}
				for _, s := range stacks {
					if name, on := methodCallOn(info, x, s); on && name == "Push" && len(x.Args) == 1 {
						if lit, ok := unparen(x.Args[0]).(*ast.FuncLit); ok && containsEmit(lit) {
							return []string{"REPORT"}
						}
					}
				}
				if callee := calleeOf(info, x); callee != nil && depth < 2 {
					if g := w.byObj[callee]; g != nil && g.Pkg == tp && g.Decl != nil && g.Decl.Recv != nil && g.Body != nil && typeStr(g.Sig().Recv().Type()) == "*tree.parserListener" {
						if len(reportsExpression(w, g, depth+1)) == 0 {
							return []string{"REPORT"}
						}
					}
				}
			case *ast.AssignStmt:
				if len(x.Lhs) == len(x.Rhs) {
					for i, l := range x.Lhs {
						for _, cb := range callbacks {
							if lastField(info, l) == cb {
								if lit, ok := unparen(x.Rhs[i]).(*ast.FuncLit); ok && containsEmit(lit) {
									return []string{"REPORT"}
								}
							}
						}
					}
				}
			}
			return nil
		},
		step: func(st, ev string) string {
			if ev == "REPORT" {
				return "reported"
			}
			return ""
		},
		ret: func(st string, ret *ast.ReturnStmt, kind string) string {
			if st == "reported" {
				return ""
			}
			return "this handler can return without reporting an expression to the current expression callback and without installing a callback that does: the statement or operator that contains this alternative is built without its operand"
		},
	}
	return runEVT(w, f, r)
}
