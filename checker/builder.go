package main

// builder.go — completeness of the tree builder (internal/tree parserListener): nothing the parser reports is dropped.
//
//   C01.R11  every callback literal handed to a listener stack or callback field consumes each of its parameters on every
//            path: the parameter reaches a store (assignment, append, composite literal) or a call argument. A callback that
//            ignores what it is given silently loses a statement, a clause body or an operand.
//   C02.R7   every Enter handler of a labelled alternative of grammar rules 'expression' and 'value' reports an
//            expression on every path: it calls the current expression callback, or installs a callback (push / callback
//            field) whose body does. A handler that does neither leaves the surrounding statement without its operand.

import (
	"go/ast"
	"go/types"
	"strings"
)

// listenerSinks: the stack fields and callback fields of parserListener.
func listenerSinks(w *World) (stacks, callbacks []*types.Var) {
	tp := w.Pkg("internal/tree")
	pl := namedType(tp, "parserListener")
	if pl == nil {
		return nil, nil
	}
	st, ok := pl.Underlying().(*types.Struct)
	if !ok {
		return nil, nil
	}
	for i := 0; i < st.NumFields(); i++ {
		f := st.Field(i)
		if strings.HasPrefix(typeStr(f.Type()), "*container.Stack[") {
			stacks = append(stacks, f)
		} else if _, ok := f.Type().Underlying().(*types.Signature); ok {
			callbacks = append(callbacks, f)
		}
	}
	return
}

// installedLiterals: the function literals in the package that are pushed on a listener stack or assigned to a callback
// field, with the name of the sink.
func installedLiterals(w *World) map[*ast.FuncLit]string {
	tp := w.Pkg("internal/tree")
	info := tp.TypesInfo
	stacks, callbacks := listenerSinks(w)
	out := map[*ast.FuncLit]string{}
	for _, file := range tp.Syntax {
		ast.Inspect(file, func(n ast.Node) bool {
			switch x := n.(type) {
			case *ast.CallExpr:
				for _, s := range stacks {
					if name, on := methodCallOn(info, x, s); on && (name == "Push" || name == "PushAll") {
						for _, a := range x.Args {
							if lit, ok := unparen(a).(*ast.FuncLit); ok {
								out[lit] = s.Name()
							}
						}
					}
				}
			case *ast.AssignStmt:
				if len(x.Lhs) != len(x.Rhs) {
					return true
				}
				for i, l := range x.Lhs {
					for _, cb := range callbacks {
						if lastField(info, l) == cb {
							if lit, ok := unparen(x.Rhs[i]).(*ast.FuncLit); ok {
								out[lit] = cb.Name()
							}
						}
					}
				}
			}
			return true
		})
	}
	return out
}

// mentionsObj: the expression mentions the object (outside nested function literals' own parameters).
func mentionsObj(info *types.Info, e ast.Node, obj types.Object) bool {
	found := false
	ast.Inspect(e, func(n ast.Node) bool {
		if id, ok := n.(*ast.Ident); ok && info.Uses[id] == obj {
			found = true
		}
		return !found
	})
	return found
}

func c01R11(c *Ctx) {
	w := c.W
	tp := w.Pkg("internal/tree")
	info := tp.TypesInfo
	lits := installedLiterals(w)
	if len(lits) < 8 {
		c.undecided("C01.R11", "only "+itoa(len(lits))+" callback literals found on the tree builder")
		return
	}
	for _, f := range w.FuncsIn(tp) {
		if f.Lit == nil {
			continue
		}
		sink, ok := lits[f.Lit]
		if !ok {
			continue
		}
		c.fn(f)
		pi := 0
		for _, fl := range f.Lit.Type.Params.List {
			names := fl.Names
			if len(names) == 0 {
				names = []*ast.Ident{nil}
			}
			for _, nm := range names {
				pi++
				key := f.Name + "/consumes parameter " + itoa(pi) + " (" + sink + ")"
				if nm == nil || nm.Name == "_" {
					c.ob("C01.R11", key, w.Pos(f.Lit.Pos()), false, "the callback installed on "+sink+" discards its argument: what the parser hands over here is lost")
					continue
				}
				obj := info.Defs[nm]
				r := evtRule{
					start: "unused",
					prim: func(n ast.Node) []string {
						switch x := n.(type) {
						case *ast.AssignStmt:
							for _, rhs := range x.Rhs {
								if mentionsObj(info, rhs, obj) {
									return []string{"USE"}
								}
							}
						case *ast.CallExpr:
							for _, a := range x.Args {
								if mentionsObj(info, a, obj) {
									return []string{"USE"}
								}
							}
						case *ast.SendStmt:
							if mentionsObj(info, x.Value, obj) {
								return []string{"USE"}
							}
						}
						return nil
					},
					step: func(st, ev string) string {
						if ev == "USE" {
							return "used"
						}
						return ""
					},
					ret: func(st string, ret *ast.ReturnStmt, kind string) string {
						if st == "used" {
							return ""
						}
						for _, res := range ret.Results {
							if mentionsObj(info, res, obj) {
								return ""
							}
						}
						return "the callback installed on " + sink + " can return without having stored or passed on its argument " + nm.Name + ": what the parser hands over here is lost"
					},
				}
				fs := runEVT(w, f, r)
				if len(fs) == 0 {
					c.ob("C01.R11", key, w.Pos(f.Lit.Pos()), true, "on every path "+nm.Name+" reaches a store or a call argument")
				}
				for i, fd := range fs {
					k := key
					if i > 0 {
						k += "#" + itoa(i+1)
					}
					c.ob("C01.R11", k, w.Pos(fd.pos), false, fd.msg)
				}
			}
		}
	}
}

// reportsExpression: on every path that returns, f calls an expression callback or installs one that does.
func reportsExpression(w *World, f *Func, depth int) []evtFinding {
	tp := w.Pkg("internal/tree")
	info := tp.TypesInfo
	stacks, callbacks := listenerSinks(w)
	takesExpression := func(t types.Type) bool {
		sig, ok := t.Underlying().(*types.Signature)
		return ok && sig.Params().Len() == 1 && typeStr(sig.Params().At(0).Type()) == "*tree.Expression"
	}
	// emit: a call of a function value that takes an expression (the value peeked from the expression stack, typically)
	isEmit := func(call *ast.CallExpr) bool {
		if tv, ok := info.Types[call.Fun]; ok && !tv.IsType() && takesExpression(tv.Type) {
			if calleeOf(info, call) == nil { // a function value, not a declared function
				return true
			}
		}
		return false
	}
	containsEmit := func(lit *ast.FuncLit) bool {
		found := false
		ast.Inspect(lit.Body, func(n ast.Node) bool {
			if call, ok := n.(*ast.CallExpr); ok && isEmit(call) {
				found = true
			}
			return !found
		})
		return found
	}
	r := evtRule{
		start: "silent",
		prim: func(n ast.Node) []string {
			switch x := n.(type) {
			case *ast.CallExpr:
				if isEmit(x) {
					return []string{"REPORT"}
				}
				for _, s := range stacks {
					if name, on := methodCallOn(info, x, s); on && name == "Push" && len(x.Args) == 1 {
						if lit, ok := unparen(x.Args[0]).(*ast.FuncLit); ok && containsEmit(lit) {
							return []string{"REPORT"}
						}
					}
				}
				if callee := calleeOf(info, x); callee != nil && depth < 2 {
					if g := w.byObj[callee]; g != nil && g.Pkg == tp && g.Decl != nil && g.Decl.Recv != nil && g.Body != nil && typeStr(g.Sig().Recv().Type()) == "*tree.parserListener" {
						if len(reportsExpression(w, g, depth+1)) == 0 {
							return []string{"REPORT"}
						}
					}
				}
			case *ast.AssignStmt:
				if len(x.Lhs) == len(x.Rhs) {
					for i, l := range x.Lhs {
						for _, cb := range callbacks {
							if lastField(info, l) == cb {
								if lit, ok := unparen(x.Rhs[i]).(*ast.FuncLit); ok && containsEmit(lit) {
									return []string{"REPORT"}
								}
							}
						}
					}
				}
			}
			return nil
		},
		step: func(st, ev string) string {
			if ev == "REPORT" {
				return "reported"
			}
			return ""
		},
		ret: func(st string, ret *ast.ReturnStmt, kind string) string {
			if st == "reported" {
				return ""
			}
			return "this handler can return without reporting an expression to the current expression callback and without installing a callback that does: the statement or operator that contains this alternative is built without its operand"
		},
	}
	return runEVT(w, f, r)
}

// ---------------------------------------------------------------------------------------------------------------------
// registration reaches the dispatch table (C16.R8 for functions, C17.R6 for commands)
//
// A public registration call that succeeds must have put the host's function (or its converted bridge) into the table
// the dispatcher reads, under the name the host gave — exactly once, and nothing when it reports an error. The rule
// follows the relay chain API -> storer method -> map store through resolved callees.

type regTables struct {
	fields map[*types.Var]string // table field -> "function" / "command"
}

func registryTables(w *World) regTables {
	rt := regTables{fields: map[*types.Var]string{}}
	root := w.Pkg("")
	for _, name := range root.Types.Scope().Names() {
		tn, ok := root.Types.Scope().Lookup(name).(*types.TypeName)
		if !ok {
			continue
		}
		st, ok := tn.Type().Underlying().(*types.Struct)
		if !ok {
			continue
		}
		for i := 0; i < st.NumFields(); i++ {
			m, ok := st.Field(i).Type().Underlying().(*types.Map)
			if !ok {
				continue
			}
			switch typeStr(m.Elem()) {
			case "ysgo.YarnSpinnerFunction":
				rt.fields[st.Field(i)] = "function"
			case "ysgo.YarnSpinnerCommand":
				rt.fields[st.Field(i)] = "command"
			}
		}
	}
	return rt
}

// registers: on every path of f that returns without an error, the value parameter valIdx (or its conversion, under a
// nil conversion error) is stored exactly once in a table of the wanted kind under the name parameter idIdx; a path that
// returns an error has stored nothing. Returns the findings (none = holds).
func registers(w *World, rt regTables, f *Func, idIdx, valIdx int, kind string, depth int) []string {
	if f == nil || f.Body == nil || f.Decl == nil || depth > 3 {
		return []string{"registration relayed to a function without a body, or too deep"}
	}
	info := f.Pkg.TypesInfo
	sig := f.Sig()
	if idIdx >= sig.Params().Len() || valIdx >= sig.Params().Len() {
		return []string{"unexpected signature of " + f.Name}
	}
	idP, valP := types.Object(sig.Params().At(idIdx)), types.Object(sig.Params().At(valIdx))
	e := w.ent(f)
	x := w.expander(f)
	isID := func(a ast.Expr) bool {
		id := identOf(a)
		return id != nil && info.Uses[id] == idP
	}
	// the value: the parameter itself, or result #0 of a call on the parameter whose error is entailed nil at the use
	isVal := func(a ast.Expr, at ast.Node) bool {
		id := identOf(a)
		if id == nil {
			return false
		}
		if info.Uses[id] == valP {
			return true
		}
		v, ok := info.Uses[id].(*types.Var)
		if !ok {
			return false
		}
		rhs, idx, _, ok := x.def(v)
		if !ok || rhs == nil || idx != 0 {
			return false
		}
		call, ok := unparen(rhs).(*ast.CallExpr)
		if !ok || len(call.Args) != 1 || identOf(call.Args[0]) == nil || info.Uses[identOf(call.Args[0])] != valP {
			return false
		}
		as, ok := w.parent[call].(*ast.AssignStmt)
		if !ok || len(as.Lhs) != 2 || identOf(as.Lhs[1]) == nil || identOf(as.Lhs[1]).Name == "_" {
			return false
		}
		st := site{pos: at.Pos(), anc: at}
		ok2, _ := e.Prove(at, Not{e.nn(keyCtx{e: e, s: &st}, as.Lhs[1])})
		return ok2
	}
	var relayRet = map[*ast.CallExpr]bool{}
	var notes []string
	r := evtRule{
		start: "idle",
		prim: func(n ast.Node) []string {
			switch y := n.(type) {
			case *ast.AssignStmt:
				if len(y.Lhs) != len(y.Rhs) {
					return nil
				}
				for i, l := range y.Lhs {
					ix, ok := unparen(l).(*ast.IndexExpr)
					if !ok {
						continue
					}
					k, isTable := rt.fields[lastField(info, ix.X)]
					if !isTable {
						continue
					}
					if k == kind && isID(ix.Index) && isVal(y.Rhs[i], y) {
						return []string{"STORE"}
					}
					notes = append(notes, w.Pos(y.Pos())+": stores "+x.str(y.Rhs[i])+" under "+x.str(ix.Index)+" in the "+k+" table")
					return []string{"BADSTORE"}
				}
			case *ast.CallExpr:
				callee := calleeOf(info, y)
				if callee == nil {
					return nil
				}
				g := w.byObj[callee]
				if g == nil || g.Body == nil {
					return nil
				}
				gi, gv := -1, -1
				for i, a := range y.Args {
					if isID(a) {
						gi = i
					} else if isVal(a, y) {
						gv = i
					}
				}
				if gi < 0 || gv < 0 {
					return nil
				}
				if sub := registers(w, rt, g, gi, gv, kind, depth+1); len(sub) == 0 {
					relayRet[y] = true
					return []string{"STORE"}
				} else {
					notes = append(notes, sub...)
				}
			}
			return nil
		},
		step: func(st, ev string) string {
			switch {
			case ev == "BADSTORE":
				return "bad"
			case ev == "STORE" && st == "idle":
				return "stored"
			case ev == "STORE" && st == "stored":
				return "twice"
			}
			return ""
		},
		ret: func(st string, ret *ast.ReturnStmt, k string) string {
			relayed := false
			if len(ret.Results) == 1 {
				if call, ok := unparen(ret.Results[0]).(*ast.CallExpr); ok && relayRet[call] {
					relayed = true
				}
			}
			switch {
			case st == "bad":
				return "a store into the dispatch table that is not (name parameter -> registered value)"
			case st == "twice":
				return "the registration is stored twice"
			case relayed:
				return ""
			case st == "idle" && (k == "nil" || k == "void"):
				return "the registration call can return successfully without having stored anything in the " + kind + " table: the name stays unknown to scripts"
			case st == "idle" && (k == "unknown" || k == "relay"):
				return "the registration call returns a result that is not tied to a store in the " + kind + " table"
			case st == "stored" && k != "nil" && k != "void":
				return "an error can be returned after the " + kind + " table was written: a refused registration must register nothing"
			}
			return ""
		},
	}
	var out []string
	for _, fd := range runEVT(w, f, r) {
		out = append(out, w.Pos(fd.pos)+": "+fd.msg)
	}
	if len(out) > 0 {
		out = append(out, notes...)
	}
	return out
}

// checkRegistration emits one obligation per public registration call of the wanted kind.
func checkRegistration(c *Ctx, rule, kind string, min int) {
	w := c.W
	m := w.runner()
	rt := registryTables(w)
	n := 0
	for _, k := range rt.fields {
		if k == kind {
			n++
		}
	}
	if n == 0 {
		c.undecided(rule, "no "+kind+" dispatch table (map to YarnSpinner"+strings.ToUpper(kind[:1])+kind[1:]+") found")
		return
	}
	found := 0
	for _, f := range w.FuncsIn(m.pkg) {
		if f.Decl == nil || f.Decl.Recv == nil || f.Obj == nil || !f.Obj.Exported() || f.Body == nil {
			continue
		}
		sig := f.Sig()
		if typeStr(sig.Recv().Type()) != "*ysgo.DialogueRunner" || sig.Params().Len() != 2 || typeStr(sig.Params().At(0).Type()) != "string" {
			continue
		}
		pt := typeStr(sig.Params().At(1).Type())
		want := map[string]string{"function": "ysgo.YarnSpinnerFunction", "command": "ysgo.YarnSpinnerCommand"}[kind]
		isAny := pt == "any" || pt == "interface{}"
		if pt != want && !isAny {
			continue
		}
		if isAny && !strings.Contains(strings.ToLower(f.Decl.Name.Name), kind) {
			continue
		}
		found++
		c.fn(f)
		fs := registers(w, rt, f, 0, 1, kind, 0)
		if len(fs) == 0 {
			c.ob(rule, f.Name+"/registers", w.Pos(f.Decl.Pos()), true, "every successful return has stored the (converted) "+kind+" once in the dispatch table under the given name; an error return has stored nothing")
		} else {
			c.ob(rule, f.Name+"/registers", w.Pos(f.Decl.Pos()), false, strings.Join(fs, " | "))
		}
	}
	if found < min {
		c.undecided(rule, "only "+itoa(found)+" public "+kind+" registration calls found on DialogueRunner")
	}
}
