package main

// arms.go — one view of the alternatives of a multi-way branch, whether it is written as a switch or as an
// if / else-if chain (the two are interchangeable refactorings; rules that look for "the arm for X" use this view).

import (
	"go/ast"
	"go/token"
	"go/types"
)

// tagArm: one alternative of a branch on the value of one expression.
type tagArm struct {
	vals []ast.Expr // the values selecting the arm (empty for default / final else)
	body []ast.Stmt
	pos  token.Pos
	dflt bool
}

// tagArmsOf returns the alternatives of node if it branches on one expression compared for equality with values:
//   - switch TAG { case A, B: … default: … }
//   - if E == A {…} else if E == B || E == C {…} else {…}   (E the same expression, by expansion, in every test)
//
// tag is the expansion of the expression branched on. ok is false for any other shape.
func tagArmsOf(x *expander, node ast.Node) (tag string, arms []tagArm, ok bool) {
	switch n := node.(type) {
	case *ast.SwitchStmt:
		if n.Tag == nil {
			return "", nil, false
		}
		tag = x.str(n.Tag)
		for _, cl := range n.Body.List {
			cc := cl.(*ast.CaseClause)
			arms = append(arms, tagArm{vals: cc.List, body: cc.Body, pos: cc.Pos(), dflt: cc.List == nil})
		}
		return tag, arms, true
	case *ast.IfStmt:
		for is := n; is != nil; {
			vals, t, okc := eqTests(x, is.Cond)
			if !okc || (tag != "" && t != tag) {
				return "", nil, false
			}
			tag = t
			arms = append(arms, tagArm{vals: vals, body: is.Body.List, pos: is.Pos()})
			switch e := is.Else.(type) {
			case *ast.IfStmt:
				if e.Init != nil {
					return "", nil, false
				}
				is = e
			case *ast.BlockStmt:
				arms = append(arms, tagArm{body: e.List, pos: e.Pos(), dflt: true})
				is = nil
			default:
				is = nil
			}
		}
		return tag, arms, len(arms) > 0
	}
	return "", nil, false
}

// eqTests: cond is E == V, or a disjunction of such tests on the same E; returns the Vs and the expansion of E.
func eqTests(x *expander, cond ast.Expr) (vals []ast.Expr, tag string, ok bool) {
	cond = unparen(cond)
	b, isBin := cond.(*ast.BinaryExpr)
	if !isBin {
		return nil, "", false
	}
	switch b.Op {
	case token.LOR:
		lv, lt, lok := eqTests(x, b.X)
		rv, rt, rok := eqTests(x, b.Y)
		if !lok || !rok || lt != rt {
			return nil, "", false
		}
		return append(lv, rv...), lt, true
	case token.EQL:
		info := x.f.Pkg.TypesInfo
		// the constant (or package-level constant-like selector) side is the value
		isVal := func(e ast.Expr) bool {
			if tv, ok := info.Types[e]; ok && tv.Value != nil {
				return true
			}
			return false
		}
		switch {
		case isVal(b.Y) && !isVal(b.X):
			return []ast.Expr{b.Y}, x.str(b.X), true
		case isVal(b.X) && !isVal(b.Y):
			return []ast.Expr{b.X}, x.str(b.Y), true
		}
	}
	return nil, "", false
}

// isChainHead: the if statement is not itself the else-branch of another if.
func isChainHead(w *World, is *ast.IfStmt) bool {
	pe, isElse := w.parent[is].(*ast.IfStmt)
	return !isElse || pe.Else != ast.Stmt(is)
}

// eachTagBranch calls fn for every switch-with-tag and every if-chain head in body that branches on one expression.
func eachTagBranch(w *World, x *expander, body ast.Node, fn func(node ast.Node, tag string, arms []tagArm)) {
	walkNoLit(body, func(n ast.Node) bool {
		switch q := n.(type) {
		case *ast.SwitchStmt:
			if tag, arms, ok := tagArmsOf(x, q); ok {
				fn(q, tag, arms)
			}
		case *ast.IfStmt:
			if isChainHead(w, q) {
				if tag, arms, ok := tagArmsOf(x, q); ok {
					fn(q, tag, arms)
				}
			}
		}
		return true
	})
}

// edgeEqConst: taking this control-flow edge means "some expression equals the constant": a case of a tag switch,
// the true edge of E == c, or the false edge of E != c. Returns the constant's exact string.
func edgeEqConst(info *types.Info, e edgeInfo) (string, bool) {
	if e.Tag != nil {
		if !e.Branch {
			return "", false
		}
		if tv, ok := info.Types[e.Cond]; ok && tv.Value != nil {
			return tv.Value.ExactString(), true
		}
		return "", false
	}
	b, ok := unparen(e.Cond).(*ast.BinaryExpr)
	if !ok {
		return "", false
	}
	if (b.Op == token.EQL && e.Branch) || (b.Op == token.NEQ && !e.Branch) {
		for _, side := range []ast.Expr{b.Y, b.X} {
			if tv, ok := info.Types[side]; ok && tv.Value != nil {
				return tv.Value.ExactString(), true
			}
		}
	}
	return "", false
}
