package main

// bce.go — BCE: bounds obligations. With inlining off, the compiler's prove pass lists every index/slice operation it
// cannot show in bounds (-d=ssa/check_bce). Each listed site in hand-written module code is mapped back to its
// construct (function, expression) and must be discharged automatically (range index, guard entailment) or by a
// reviewed table entry whose machine-checkable requirements are re-checked on every run. A site that is neither is a
// violation: a new unguarded index, or one whose guard was removed.

import (
	"bufio"
	"encoding/json"
	"fmt"
	"go/ast"
	"go/constant"
	"go/token"
	"go/types"
	"os"
	"os/exec"
	"path/filepath"
	"regexp"
	"sort"
	"strconv"
	"strings"
)

type bceSite struct {
	File      string // absolute
	Line, Col int
	Kind      string // IsInBounds | IsSliceInBounds
	Fn        *Func
	Node      ast.Expr // *ast.IndexExpr or *ast.SliceExpr (nil: artefact)
	Key       string
}

type boundsEntry struct {
	Func     string   `json:"func"`
	Expr     string   `json:"expr"`
	Reason   string   `json:"reason"`
	Requires []string `json:"requires"`
}

var bceCache []bceSite
var bceErr error
var bceDone bool

func (w *World) bceSites() ([]bceSite, error) {
	if bceDone {
		return bceCache, bceErr
	}
	bceDone = true
	args := []string{"build", "-gcflags=" + modPath + "/...=-l -d=ssa/check_bce/debug=1"}
	var tmpDir string
	if len(w.overlay) > 0 {
		dir, err := os.MkdirTemp("", "ysgocheck-bce-")
		if err != nil {
			bceErr = err
			return nil, err
		}
		tmpDir = dir
		defer os.RemoveAll(tmpDir)
		repl := map[string]string{}
		i := 0
		for path, content := range w.overlay {
			i++
			p := filepath.Join(dir, fmt.Sprintf("o%d_%s", i, filepath.Base(path)))
			if err := os.WriteFile(p, content, 0o644); err != nil {
				bceErr = err
				return nil, err
			}
			repl[path] = p
		}
		b, _ := json.Marshal(map[string]interface{}{"Replace": repl})
		op := filepath.Join(dir, "overlay.json")
		os.WriteFile(op, b, 0o644)
		args = append(args, "-overlay", op)
	}
	args = append(args, "./...")
	cmd := exec.Command("go", args...)
	cmd.Dir = w.Repo
	cmd.Env = w.env
	out, err := cmd.CombinedOutput()
	if err != nil {
		bceErr = fmt.Errorf("go build for the bounds report failed: %v: %s", err, firstLine(string(out)))
		return nil, bceErr
	}
	re := regexp.MustCompile(`^(.+?):(\d+):(\d+): Found (IsInBounds|IsSliceInBounds)`)
	seen := map[string]bool{}
	sc := bufio.NewScanner(strings.NewReader(string(out)))
	for sc.Scan() {
		m := re.FindStringSubmatch(sc.Text())
		if m == nil {
			continue
		}
		file := m[1]
		if !filepath.IsAbs(file) {
			file = filepath.Join(w.Repo, file)
		}
		file = filepath.Clean(file)
		// overlay replacement files are reported under their original path by the go command
		rel, rerr := filepath.Rel(w.Repo, file)
		if rerr != nil || strings.HasPrefix(rel, "..") {
			continue // dependency
		}
		if strings.HasSuffix(file, "_test.go") {
			continue
		}
		if seen[sc.Text()] {
			continue
		}
		seen[sc.Text()] = true
		line, _ := strconv.Atoi(m[2])
		col, _ := strconv.Atoi(m[3])
		bceCache = append(bceCache, bceSite{File: file, Line: line, Col: col, Kind: m[4]})
	}
	// map to syntax
	for i := range bceCache {
		s := &bceCache[i]
		for _, pkg := range w.Pkgs {
			for _, f := range pkg.Syntax {
				if w.Fset.Position(f.Pos()).Filename != s.File {
					continue
				}
				ast.Inspect(f, func(n ast.Node) bool {
					var lb token.Pos
					switch x := n.(type) {
					case *ast.IndexExpr:
						lb = x.Lbrack
					case *ast.SliceExpr:
						lb = x.Lbrack
					default:
						return true
					}
					p := w.Fset.Position(lb)
					if p.Line == s.Line && p.Column == s.Col {
						s.Node = n.(ast.Expr)
						s.Fn = w.EnclosingOrSelf(n)
					}
					return true
				})
				if s.Fn == nil {
					// the enclosing function by line
					for _, fn := range w.Funcs {
						if fn.Body == nil || w.Fset.Position(fn.Body.Pos()).Filename != s.File {
							continue
						}
						if w.Fset.Position(fn.Body.Pos()).Line <= s.Line && s.Line <= w.Fset.Position(fn.Body.End()).Line {
							if s.Fn == nil || fn.Body.Pos() > s.Fn.Body.Pos() {
								s.Fn = fn
							}
						}
					}
				}
			}
		}
		fn := "?"
		if s.Fn != nil {
			fn = s.Fn.Name
		}
		if s.Node != nil {
			s.Key = fn + "|" + exprStr(s.Node)
		} else {
			s.Key = fn + "|(no index expression)"
		}
	}
	sort.Slice(bceCache, func(i, j int) bool {
		if bceCache[i].File != bceCache[j].File {
			return bceCache[i].File < bceCache[j].File
		}
		if bceCache[i].Line != bceCache[j].Line {
			return bceCache[i].Line < bceCache[j].Line
		}
		return bceCache[i].Col < bceCache[j].Col
	})
	return bceCache, nil
}

func loadBoundsTable(verif string) ([]boundsEntry, error) {
	b, err := os.ReadFile(filepath.Join(verif, "tables", "bounds.json"))
	if err != nil {
		return nil, err
	}
	var out []boundsEntry
	if err := json.Unmarshal(b, &out); err != nil {
		return nil, err
	}
	return out, nil
}

var verifDirGlobal = "/verif"

// checkBounds discharges the unproved bounds sites selected by keep.
func checkBounds(c *Ctx, rule string, keep func(s bceSite) bool, contained func(s bceSite) string) {
	w := c.W
	sites, err := w.bceSites()
	if err != nil {
		c.undecided(rule, err.Error())
		return
	}
	table, terr := loadBoundsTable(verifDirGlobal)
	if terr != nil {
		c.undecided(rule, "bounds table: "+terr.Error())
		return
	}
	total := 0
	for _, s := range sites {
		if strings.Contains(s.File, "yarnspinner_") {
			continue // generated recognisers
		}
		total++
	}
	c.Extra["bce_unproved_sites_in_handwritten_code"] = total
	if total < 10 {
		c.undecided(rule, "the compiler reported only "+itoa(total)+" unproved bounds sites in hand-written code: the report was not produced or not parsed")
		return
	}
	dup := map[string]int{}
	for _, s := range sites {
		if strings.Contains(s.File, "yarnspinner_") || !keep(s) {
			continue
		}
		dup[s.Key]++
		key := s.Key
		if dup[s.Key] > 1 {
			key += "#" + itoa(dup[s.Key])
		}
		pos := fmt.Sprintf("%s:%d", relTo(w.Repo, s.File), s.Line)
		if s.Fn != nil {
			c.fn(s.Fn)
		}
		if contained != nil {
			if why := contained(s); why != "" {
				c.obN(rule, key, pos, true, "contained: "+why, false)
				continue
			}
		}
		if s.Node == nil {
			c.obN(rule, key, pos, true, "compiler artefact: no index or slice expression at that position (e.g. a comparison with a constant string)", false)
			continue
		}
		ok, how := autoDischarge(w, s)
		if !ok && s.Fn != nil && s.Node != nil {
			if ok2, how2 := liaBounds(w, s.Fn, s.Node); ok2 {
				ok, how = true, how2
			}
		}
		if !ok {
			// the index is the result of a search over the very slice that is indexed, entailed not to be "not found"
			if ok2, _ := checkRequirement(c, w, s, "index-not-minus-one"); ok2 {
				ok, how = true, "the index is the result of slices.IndexFunc/Index (or a range key) over the indexed slice and is entailed to be a found position"
			}
		}
		if ok {
			c.ob(rule, key, pos, true, how)
			continue
		}
		// reviewed strategies: the table lists, site by site, the argument that was reviewed; what is re-checked here is
		// the argument (its machine-checkable requirements), not the spelling of the site — a renamed variable or an
		// extracted helper changes the spelling, not the argument
		var tried []string
		done := false
		seenStrat := map[string]bool{}
		for i := range table {
			strat := strings.Join(table[i].Requires, ",")
			if seenStrat[strat] || len(table[i].Requires) == 0 {
				continue
			}
			seenStrat[strat] = true
			okAll := true
			why := ""
			for _, req := range table[i].Requires {
				if ok, w1 := checkRequirement(c, w, s, req); !ok {
					okAll = false
					why = req + ": " + w1
					break
				}
			}
			if okAll {
				c.ob(rule, key, pos, true, "reviewed argument ["+strat+"]: "+table[i].Reason)
				done = true
				break
			}
			tried = append(tried, why)
		}
		if !done {
			c.ob(rule, key, pos, false, "index/slice operation the compiler cannot prove in bounds, with no entailing guard ("+how+") and no reviewed argument that applies: "+shorten(strings.Join(tried, " | "), 600))
		}
	}
}

func relTo(base, p string) string {
	r, err := filepath.Rel(base, p)
	if err != nil {
		return p
	}
	return r
}

// autoDischarge: range index, or guard entailment of 0 <= index < len.
func autoDischarge(w *World, s bceSite) (bool, string) {
	if s.Fn == nil {
		return false, "no enclosing function"
	}
	info := s.Fn.Pkg.TypesInfo
	ix, isIndex := s.Node.(*ast.IndexExpr)
	if !isIndex {
		// X[lo:hi]: 0 <= lo <= hi <= len(X) entailed by the guards (len(X) <= cap(X) for slices)
		sl, ok := s.Node.(*ast.SliceExpr)
		if !ok || sl.Slice3 || sl.Low == nil || sl.High == nil {
			return false, "slice expression"
		}
		e := w.ent(s.Fn)
		at := site{pos: sl.Pos(), anc: sl}
		kc := keyCtx{e: e, s: &at}
		var objs []types.Object
		kc.objs = &objs
		lo, hi := kc.norm(sl.Low), kc.norm(sl.High)
		ln := linForm{terms: map[string]int64{"len(" + kc.key(sl.X) + ")": 1}}
		zero := linForm{terms: map[string]int64{}}
		goal := And{e.cmpForms(lo, zero, token.GEQ, objs), And{e.cmpForms(lo, hi, token.LEQ, objs), e.cmpForms(hi, ln, token.LEQ, objs)}}
		if ok, how := e.Prove(sl, goal); ok {
			return true, "guards entail 0 <= low <= high <= len: " + how
		}
		return false, "slice expression"
	}
	tv, ok := info.Types[ix.X]
	if ok {
		if _, isMap := tv.Type.Underlying().(*types.Map); isMap {
			return true, "map index: cannot be out of range"
		}
	}
	// range index: the index is the key of an enclosing range over the same expression, not assigned in the loop
	if id := identOf(ix.Index); id != nil {
		obj := info.Uses[id]
		e := w.ent(s.Fn)
		for q := w.parent[ast.Node(ix)]; q != nil && q != w.rootOf(s.Fn).Node(); q = w.parent[q] {
			rs, ok := q.(*ast.RangeStmt)
			if !ok || rs.Key == nil {
				continue
			}
			// S[i] where i ranges over A and S was made with len(A) slots (S, A and i each assigned once / not resized)
			if kid := identOf(rs.Key); kid != nil && info.Defs[kid] == obj && exprStr(rs.X) != exprStr(ix.X) && len(e.assigns[obj]) == 1 {
				if sid := identOf(ix.X); sid != nil {
					if sobj, ok := info.Uses[sid].(*types.Var); ok && len(e.assigns[sobj]) == 1 && !e.addrOf[sobj] {
						xp := w.expander(s.Fn)
						if rhs, _, _, ok := xp.def(sobj); ok && rhs != nil {
							if mk, ok := unparen(rhs).(*ast.CallExpr); ok && isBuiltin(info, mk, "make") && len(mk.Args) >= 2 {
								sizeArg := unparen(mk.Args[1])
								// n := len(A); S := make(T, n): n assigned once
								if nid := identOf(sizeArg); nid != nil {
									if nobj, ok := info.Uses[nid].(*types.Var); ok && len(e.assigns[nobj]) == 1 && !e.addrOf[nobj] {
										if nrhs, nidx, _, ok := xp.def(nobj); ok && nrhs != nil && nidx < 0 {
											sizeArg = unparen(nrhs)
										}
									}
								}
								if ln, ok := sizeArg.(*ast.CallExpr); ok && isBuiltin(info, ln, "len") && len(ln.Args) == 1 && exprStr(ln.Args[0]) == exprStr(rs.X) {
									// the ranged expression is not assigned anywhere in the function (its length is the same at make and at range)
									reassigned := false
									ast.Inspect(w.rootOf(s.Fn).Node(), func(n ast.Node) bool {
										if as, ok := n.(*ast.AssignStmt); ok {
											for _, l := range as.Lhs {
												if exprStr(l) == exprStr(rs.X) || (identOfRoot(l) != nil && identOfRoot(rs.X) != nil && identOfRoot(l).Name == identOfRoot(rs.X).Name && as.Tok != token.DEFINE) {
													reassigned = true
												}
											}
										}
										return true
									})
									if !reassigned {
										return true, "range index over " + exprStr(rs.X) + " into " + sid.Name + ", which was made with len(" + exprStr(rs.X) + ") elements and is never reassigned"
									}
								}
							}
						}
					}
				}
			}
			if kid := identOf(rs.Key); kid != nil && info.Defs[kid] == obj && exprStr(rs.X) == exprStr(ix.X) {
				if len(e.assigns[obj]) == 1 {
					// the ranged expression must not be reassigned in the loop
					reassigned := false
					ast.Inspect(rs.Body, func(n ast.Node) bool {
						if as, ok := n.(*ast.AssignStmt); ok {
							for _, l := range as.Lhs {
								if exprStr(l) == exprStr(ix.X) {
									reassigned = true
								}
							}
						}
						return true
					})
					if !reassigned {
						return true, "range index: " + id.Name + " is the index variable of a range over " + exprStr(ix.X) + " (callees cannot resize it: the tree is immutable at run time, C01.R9)"
					}
				}
			}
		}
	}
	e := w.ent(s.Fn)
	// constant index under a length guard
	if kv, ok := info.Types[ix.Index]; ok && kv.Value != nil && kv.Value.Kind() == constant.Int {
		k, _ := constant.Int64Val(kv.Value)
		if k < 0 {
			return false, "negative constant index"
		}
		at := site{pos: ix.Pos(), anc: ix}
		kc := keyCtx{e: e, s: &at}
		lenKey := "len(" + kc.key(ix.X) + ")"
		goal := gtAtom(linForm{terms: map[string]int64{lenKey: 1}}, k)
		if ok, how := e.Prove(ix, goal); ok {
			return true, "constant index " + itoa(int(k)) + " with len > " + itoa(int(k)) + " entailed by the dominating guard (" + how + ")"
		}
		return false, "no guard entails len(" + exprStr(ix.X) + ") > " + itoa(int(k))
	}
	// index < len by guards, index >= 0 by shape
	if ok, how := e.proveIndexBelowLen(ix); ok {
		if lowOK, lowHow := nonNegativeIndex(w, s.Fn, ix.Index); lowOK {
			return true, how + "; " + lowHow
		}
		return false, "upper bound entailed, but the index is not known to be non-negative"
	}
	return false, "no guard entails the index to be below the length"
}

// nonNegativeIndex: a counted loop variable starting at a non-negative constant and only incremented, len/cap, or a constant.
func nonNegativeIndex(w *World, f *Func, idx ast.Expr) (bool, string) {
	info := f.Pkg.TypesInfo
	if tv, ok := info.Types[idx]; ok && tv.Value != nil {
		if v, ok := constant.Int64Val(tv.Value); ok && v >= 0 {
			return true, "constant index"
		}
	}
	id := identOf(idx)
	if id == nil {
		return false, ""
	}
	obj := info.Uses[id]
	e := w.ent(f)
	okAll := len(e.assigns[obj]) > 0
	for _, a := range e.assigns[obj] {
		switch a := a.(type) {
		case *ast.IncDecStmt:
			if a.Tok != token.INC {
				okAll = false
			}
		case *ast.AssignStmt:
			if len(a.Rhs) != 1 {
				okAll = false
				break
			}
			if tv, ok := info.Types[a.Rhs[0]]; ok && tv.Value != nil {
				if v, ok := constant.Int64Val(tv.Value); ok && v >= 0 {
					break
				}
			}
			okAll = false
		case *ast.RangeStmt:
			// range key
		default:
			okAll = false
		}
	}
	if okAll {
		return true, "the index starts at a non-negative constant and is only incremented"
	}
	return false, ""
}

// checkRequirement re-checks one machine-checkable requirement of a reviewed table entry.
func checkRequirement(c *Ctx, w *World, s bceSite, req string) (bool, string) {
	info := s.Fn.Pkg.TypesInfo
	e := w.ent(s.Fn)
	x := w.expander(s.Fn)
	at := site{pos: s.Node.Pos(), anc: s.Node}
	kc := keyCtx{e: e, s: &at}
	switch {
	case req == "index<len":
		ix, ok := s.Node.(*ast.IndexExpr)
		if !ok {
			return false, "not an index expression"
		}
		return e.proveIndexBelowLen(ix)
	case strings.HasPrefix(req, "nn:"):
		// the named variable is entailed non-nil at the site
		name := strings.TrimPrefix(req, "nn:")
		var use ast.Expr
		ast.Inspect(s.Node, func(n ast.Node) bool {
			if id, ok := n.(*ast.Ident); ok && id.Name == name && use == nil {
				use = id
			}
			return true
		})
		if use == nil {
			return false, "variable " + name + " does not occur in the expression"
		}
		return e.Prove(s.Node, e.nn(kc, use))
	case req == "regexp-offsets":
		// every index into / slice by an offset: the offsets come from X.FindStringIndex(S), entailed non-nil; a sliced
		// string must be S itself
		var offsets ast.Expr
		switch n := s.Node.(type) {
		case *ast.IndexExpr:
			offsets = n.X
		case *ast.SliceExpr:
			for _, b := range []ast.Expr{n.Low, n.High} {
				if b == nil {
					continue
				}
				if ix, ok := unparen(b).(*ast.IndexExpr); ok {
					offsets = ix.X
				} else if id := identOf(b); id != nil {
					// a local holding offsets[k]
					if obj, ok := info.Uses[id].(*types.Var); ok {
						if rhs, _, _, ok := x.def(obj); ok && rhs != nil {
							if ix, ok := unparen(rhs).(*ast.IndexExpr); ok {
								offsets = ix.X
							}
						}
					}
				}
			}
		}
		if offsets == nil {
			return false, "no offsets slice recognised"
		}
		if ixe, ok := s.Node.(*ast.IndexExpr); ok {
			tv, ok := info.Types[ixe.Index]
			if !ok || tv.Value == nil || (tv.Value.ExactString() != "0" && tv.Value.ExactString() != "1") {
				return false, "FindStringIndex returns a pair: the index must be the constant 0 or 1"
			}
		}
		src := x.str(offsets)
		i := strings.Index(src, ".FindStringIndex(")
		if i < 0 || !strings.HasSuffix(src, ")") {
			return false, "the offsets are " + src + ", not the result of FindStringIndex"
		}
		searched := src[i+len(".FindStringIndex(") : len(src)-1]
		if ok, why := e.Prove(s.Node, e.nn(kc, offsets)); !ok {
			return false, "the offsets are not entailed non-nil: " + why
		}
		if sl, ok := s.Node.(*ast.SliceExpr); ok {
			sliced := x.str(sl.X)
			if sliced != searched && "conv:string("+sliced+")" != searched && sliced != "conv:string("+searched+")" {
				return false, "the sliced string (" + sliced + ") is not the string that was searched (" + searched + ")"
			}
		}
		return true, ""
	case strings.HasPrefix(req, "rule:"):
		// discharged by another rule of the checker: that rule's obligations for this construct must exist and hold
		rule := strings.TrimPrefix(req, "rule:")
		obs := otherRuleObligations(w, rule)
		want := s.Fn.Name + "/" + exprStr(s.Node)
		found, allOK := 0, true
		for _, o := range obs {
			if o.Rule != rule {
				continue
			}
			if o.Key == want || strings.HasPrefix(o.Key, s.Fn.Name+"/") && (rule == "C01.R7") {
				found++
				if !o.OK {
					allOK = false
				}
			}
		}
		if found == 0 {
			return false, "rule " + rule + " has no obligation for " + want
		}
		if !allOK {
			return false, "rule " + rule + " fails for " + want
		}
		return true, ""
	case req == "waiting":
		// the host's choice, used as an index into the presented option group under the waiting predicate
		m := w.runner()
		ix, ok := s.Node.(*ast.IndexExpr)
		if !ok || m.next == nil || m.next.Sig().Params().Len() < 1 {
			return false, "not an index expression in the runner"
		}
		id := identOf(ix.Index)
		if id == nil || info.Uses[id] != types.Object(m.next.Sig().Params().At(0)) {
			return false, "the index is not the choice parameter of Next"
		}
		root, fields := fieldChain(info, ix.X)
		_ = root
		if len(fields) < 3 || fields[len(fields)-1].Name() != "Options" || fields[len(fields)-3] != m.fLast {
			return false, "the indexed slice is not the option list of the statement the runner waits on"
		}
		return underWaitingTest(w, m, s.Node)
	case req == "variadic-numin":
		// the index starts at T.NumIn()-1 and is only incremented, in a function that is only called under T.IsVariadic():
		// a variadic function type has at least one parameter
		ix, ok := s.Node.(*ast.IndexExpr)
		if !ok {
			return false, "not an index expression"
		}
		id := identOf(ix.Index)
		if id == nil {
			return false, "index is not a variable"
		}
		obj := info.Uses[id]
		root := w.rootOf(s.Fn)
		rx := w.expander(root)
		starts := 0
		for _, a := range e.assigns[obj] {
			switch a := a.(type) {
			case *ast.IncDecStmt:
				if a.Tok != token.INC {
					return false, "the index is decremented"
				}
			case *ast.AssignStmt:
				if len(a.Rhs) != 1 || len(a.Lhs) != 1 {
					return false, "unrecognised assignment to the index"
				}
				b, ok := unparen(a.Rhs[0]).(*ast.BinaryExpr)
				if !ok || b.Op != token.SUB {
					return false, "the index does not start at NumIn()-1"
				}
				if tv, ok := info.Types[b.Y]; !ok || tv.Value == nil || tv.Value.ExactString() != "1" {
					return false, "the index does not start at NumIn()-1"
				}
				src := x.str(b.X)
				if !strings.HasSuffix(src, ".NumIn()") {
					src = rx.str(b.X)
				}
				if !strings.HasSuffix(src, ".NumIn()") || !strings.HasPrefix(src, "$") {
					return false, "the index starts at " + src + " - 1, not at a parameter's NumIn()-1"
				}
				starts++
			default:
				return false, "unrecognised assignment to the index"
			}
		}
		if starts != 1 || root.Obj == nil {
			return false, "the index has no single start at NumIn()-1"
		}
		return calledOnlyUnderIsVariadic(w, root)
	case req == "filled-by-range":
		ix, ok := s.Node.(*ast.IndexExpr)
		if !ok {
			return false, "not an index expression"
		}
		return filledByRange(w, s.Fn, ix)
	case req == "index-not-minus-one":
		ix, ok := s.Node.(*ast.IndexExpr)
		if !ok {
			return false, "not an index expression"
		}
		// the index variable is entailed != -1 and otherwise only takes range keys over the indexed slice
		id := identOf(ix.Index)
		if id == nil {
			return false, "index is not a variable"
		}
		var cmp *ast.BinaryExpr
		walkNoLit(s.Fn.Body, func(n ast.Node) bool {
			if b, ok := n.(*ast.BinaryExpr); ok && b.Op == token.EQL {
				if bid := identOf(b.X); bid != nil && info.Uses[bid] == info.Uses[id] {
					if tv, ok := info.Types[b.Y]; ok && tv.Value != nil && tv.Value.ExactString() == "-1" {
						cmp = b
					}
				}
			}
			return true
		})
		proved := false
		why := "no comparison of the index with -1"
		if cmp != nil {
			proved, why = e.Prove(ix, Not{e.cond(kc, cmp, 0)})
		}
		if !proved {
			// or: index >= 0
			var objs []types.Object
			kc2 := kc
			kc2.objs = &objs
			if ok, _ := e.Prove(ix, e.cmpForms(kc2.norm(ix.Index), linForm{terms: map[string]int64{}}, token.GEQ, objs)); ok {
				proved = true
			}
		}
		if !proved {
			return false, "index != -1 is not entailed: " + why
		}
		obj := info.Uses[id]
		for _, a := range e.assigns[obj] {
			switch a := a.(type) {
			case *ast.AssignStmt:
				if len(a.Rhs) != 1 {
					return false, "unrecognised assignment to the index"
				}
				if tv, ok := info.Types[a.Rhs[0]]; ok && tv.Value != nil && tv.Value.ExactString() == "-1" {
					continue
				}
				// = slices.IndexFunc(S, …) / slices.Index(S, …) on the very slice that is indexed (-1 or a valid index, A4),
				// with no assignment to S between the search and the use
				if sc, ok := unparen(a.Rhs[0]).(*ast.CallExpr); ok && len(sc.Args) == 2 {
					if callee := calleeOf(info, sc); callee != nil && (funcFullName(callee) == "slices.IndexFunc" || funcFullName(callee) == "slices.Index") && exprStr(sc.Args[0]) == exprStr(ix.X) {
						clean := true
						ast.Inspect(w.rootOf(s.Fn).Node(), func(n ast.Node) bool {
							if as2, ok := n.(*ast.AssignStmt); ok && as2.Pos() > a.End() && as2.End() <= ix.Pos() {
								for _, l := range as2.Lhs {
									if exprStr(l) == exprStr(ix.X) {
										clean = false
									}
								}
							}
							return true
						})
						if clean {
							continue
						}
						return false, exprStr(ix.X) + " is reassigned between the search and the use of the index"
					}
				}
				// = range key of a loop over the same slice
				rid := identOf(a.Rhs[0])
				okKey := false
				if rid != nil {
					for q := w.parent[ast.Node(a)]; q != nil; q = w.parent[q] {
						if rs, ok := q.(*ast.RangeStmt); ok && rs.Key != nil && identOf(rs.Key) != nil && info.Defs[identOf(rs.Key)] == info.Uses[rid] && exprStr(rs.X) == exprStr(ix.X) {
							okKey = true
						}
					}
				}
				if !okKey {
					return false, "the index is assigned something other than -1 or a range key over " + exprStr(ix.X)
				}
			case *ast.ValueSpec:
			default:
				return false, "unrecognised assignment to the index"
			}
		}
		// no modification of the slice between the search loop and the use: the use follows the loop directly in the same block
		return true, ""
	}
	return false, "unknown requirement " + req
}

// filledByRange: S[k] with constant k where S receives exactly one append per (non-returning) iteration of a range over
// E and len(E) > k is entailed at the site.
func filledByRange(w *World, f *Func, ix *ast.IndexExpr) (bool, string) {
	info := f.Pkg.TypesInfo
	e := w.ent(f)
	sid := identOf(ix.X)
	if sid == nil {
		return false, "the indexed slice is not a local"
	}
	sobj := info.Uses[sid]
	kv, ok := info.Types[ix.Index]
	if !ok || kv.Value == nil {
		return false, "the index is not a constant"
	}
	k, _ := constant.Int64Val(kv.Value)
	var loop *ast.RangeStmt
	nAppends := 0
	walkNoLit(f.Body, func(n ast.Node) bool {
		rs, ok := n.(*ast.RangeStmt)
		if !ok {
			return true
		}
		for _, st := range rs.Body.List {
			if as, ok := st.(*ast.AssignStmt); ok && len(as.Lhs) == 1 && len(as.Rhs) == 1 {
				if call, ok := as.Rhs[0].(*ast.CallExpr); ok && isBuiltin(info, call, "append") && len(call.Args) == 2 {
					if a := identOf(call.Args[0]); a != nil && info.Uses[a] == sobj && identOf(as.Lhs[0]) != nil && info.Uses[identOf(as.Lhs[0])] == sobj {
						loop = rs
						nAppends++
					}
				}
			}
		}
		return true
	})
	if loop == nil || nAppends != 1 {
		return false, "the slice is not filled by exactly one top-level append in a range loop"
	}
	// every other way out of an iteration is a return (no continue/break)
	bad := false
	ast.Inspect(loop.Body, func(n ast.Node) bool {
		if b, ok := n.(*ast.BranchStmt); ok && (b.Tok == token.CONTINUE || b.Tok == token.BREAK || b.Tok == token.GOTO) {
			bad = true
		}
		return true
	})
	if bad {
		return false, "an iteration can be left without appending"
	}
	if loop.End() > ix.Pos() {
		return false, "the slice is indexed before the filling loop ends"
	}
	at := site{pos: ix.Pos(), anc: ix}
	kc := keyCtx{e: e, s: &at}
	lenKey := "len(" + kc.key(loop.X) + ")"
	goal := gtAtom(linForm{terms: map[string]int64{lenKey: 1}}, k)
	if ok, how := e.Prove(ix, goal); !ok {
		return false, "len(" + exprStr(loop.X) + ") > " + itoa(int(k)) + " is not entailed: " + how
	}
	return true, ""
}

var otherRuleCache = map[string][]Obligation{}

// otherRuleObligations evaluates the property owning a rule into a scratch context and returns its obligations.
func otherRuleObligations(w *World, rule string) []Obligation {
	prop := rule[:strings.Index(rule, ".")]
	if obs, ok := otherRuleCache[prop]; ok {
		return obs
	}
	otherRuleCache[prop] = nil
	pc := registry[prop]
	if pc == nil {
		return nil
	}
	tmp := newCtx(prop, "quick", w)
	pc.run(tmp)
	otherRuleCache[prop] = tmp.Obs
	return tmp.Obs
}

// calledOnlyUnderIsVariadic: every call of the declaration sits in the true branch of a T.IsVariadic() test (a variadic
// function type has at least one parameter: T.NumIn() >= 1 inside).
func calledOnlyUnderIsVariadic(w *World, root *Func) (bool, string) {
	if root == nil || root.Obj == nil {
		return false, "not a declared function"
	}
	calls := 0
	for _, g := range w.Funcs {
		if g.Body == nil || g.Pkg != root.Pkg {
			continue
		}
		gx := w.expander(g)
		bad := ""
		walkNoLit(g.Body, func(n ast.Node) bool {
			call, ok := n.(*ast.CallExpr)
			if !ok || calleeOf(g.Pkg.TypesInfo, call) != root.Obj {
				return true
			}
			calls++
			guarded := false
			child := ast.Node(call)
			for p := w.parent[call]; p != nil && p != g.Node(); child, p = p, w.parent[p] {
				if is, ok := p.(*ast.IfStmt); ok && child == ast.Node(is.Body) && strings.HasSuffix(gx.str(is.Cond), ".IsVariadic()") {
					guarded = true
				}
			}
			if !guarded {
				bad = w.Pos(call.Pos())
			}
			return true
		})
		if bad != "" {
			return false, "the enclosing function is called at " + bad + " outside an IsVariadic() test"
		}
	}
	if calls == 0 {
		return false, "no call of the enclosing function found"
	}
	return true, ""
}

// dependsOn makes the verdict of rules of another property part of this one: what they decide is a premise here (Next
// cannot be panic-free if the markup stage it calls is not; a restore cannot be faithful if the script functions read a
// map the restore replaces). Every failing obligation of a premise is reported as a failing obligation of rule `as`,
// naming the premise's construct; a premise with no obligation at all makes this rule undecided.
func dependsOn(c *Ctx, as string, why string, rules ...string) {
	for _, dep := range rules {
		obs := otherRuleObligations(c.W, dep)
		n, bad := 0, 0
		for _, o := range obs {
			if o.Rule != dep {
				continue
			}
			n++
			if !o.OK {
				bad++
				c.ob(as, dep+":"+o.Key, o.Pos, false, "premise "+dep+" fails ("+why+"): "+o.How)
			}
		}
		if n == 0 {
			c.undecided(as, "premise "+dep+" produced no obligation (its anchors were lost): "+why)
			continue
		}
		if bad == 0 {
			c.ob(as, dep, "-", true, "premise "+dep+" holds on "+itoa(n)+" obligations: "+why)
		}
	}
}
