package main

// c07.go — C07: snapshots are self-contained checkpoints; restore resumes from node entry.

import (
	"go/ast"
	"go/token"
	"go/types"
	"sort"
	"strings"

	"golang.org/x/tools/go/ssa"
)

func init() {
	registry["C07"] = &propCheck{
		meta: propMeta{
			Level: "other",
			Explanation: "Decides the structural necessary conditions of self-contained snapshots and faithful restores: (R1) no map crosses the snapshot boundary by reference unless nothing ever mutates it in place (SSA provenance of every map stored into a Snapshot or adopted from one); " +
				"(R2) every runner field that running the dialogue (or taking a snapshot) can write is re-assigned by RestoreAt on every success path — a new state field that RestoreAt forgets is flagged automatically; (R3) no effect precedes an error return of RestoreAt; " +
				"(R4) what RestoreAt installs derives from the snapshot (variables checkpoint, visit counts, node found by the snapshot's name); (R5) the storer is cleared before it is refilled, each alternative through its own setter, and the continuation is cleared before the single push of the found node's statements; " +
				"(R6) every successful jump checkpoints the storer's values; (R7) Snapshot reads the checkpoint, the current node and the visit counts, not live storer state.",
			NotDecided:  "trace equality after a restore (behavioural: needs C01-C03 as a whole); host storers whose GetValues hands out internal state (interface contract, assumption A2)",
			Assumptions: []string{"A2 (Storer.GetValues returns a map the storer does not keep mutating)", "A4", "A5 (object-insensitive provenance)"},
			Trusted:     []string{"go/types", "golang.org/x/tools/go/cfg", "golang.org/x/tools/go/ssa", "go/packages loader"},
		},
		run: checkC07,
	}
}

// mapOrigin classifies where a map value comes from (within one SSA function).
func mapOrigin(v ssa.Value, depth int) (kind string, field *types.Var, desc string) {
	if depth > 10 {
		return "unknown", nil, "?"
	}
	switch x := v.(type) {
	case *ssa.MakeMap:
		return "fresh", nil, "make(map) in this call"
	case *ssa.UnOp:
		if x.Op == token.MUL {
			if f := fieldOfAddr(x.X); f != nil {
				return "field", f, "field " + f.Name()
			}
			if a, ok := x.X.(*ssa.Alloc); ok {
				// local variable: look at what is stored into it
				kinds := map[string]bool{}
				var fld *types.Var
				d := ""
				for _, ref := range *a.Referrers() {
					if st, ok := ref.(*ssa.Store); ok && st.Addr == ssa.Value(a) {
						k, f, dd := mapOrigin(st.Val, depth+1)
						kinds[k] = true
						if f != nil {
							fld = f
						}
						d = dd
					}
				}
				if len(kinds) == 1 {
					for k := range kinds {
						return k, fld, d
					}
				}
				return "unknown", nil, "local with several origins"
			}
		}
	case *ssa.Call:
		if c := x.Common().StaticCallee(); c != nil {
			if c.Pkg != nil && c.Pkg.Pkg.Path() == "maps" && c.Name() == "Clone" {
				return "fresh", nil, "maps.Clone"
			}
			if strings.HasPrefix(c.String(), "maps.Clone") {
				return "fresh", nil, "maps.Clone"
			}
			// module function whose every return is fresh
			if c.Blocks != nil {
				all := true
				n := 0
				for _, b := range c.Blocks {
					for _, in := range b.Instrs {
						if r, ok := in.(*ssa.Return); ok && len(r.Results) > 0 {
							n++
							if k, _, _ := mapOrigin(r.Results[0], depth+1); k != "fresh" {
								all = false
							}
						}
					}
				}
				if all && n > 0 {
					return "fresh", nil, "result of " + c.Name() + " (returns a fresh map)"
				}
			}
			return "unknown", nil, "result of " + c.Name()
		}
		if x.Common().IsInvoke() {
			return "invoke", nil, "result of interface method " + x.Common().Method.Name()
		}
	case *ssa.Phi:
		kinds := map[string]bool{}
		var fld *types.Var
		var descs []string
		for _, e := range x.Edges {
			k, f, d := mapOrigin(e, depth+1)
			kinds[k] = true
			if f != nil {
				fld = f
			}
			descs = append(descs, d)
		}
		if len(kinds) == 1 {
			for k := range kinds {
				return k, fld, strings.Join(descs, " | ")
			}
		}
		if kinds["field"] {
			return "field", fld, strings.Join(descs, " | ")
		}
		return "unknown", nil, strings.Join(descs, " | ")
	case *ssa.Const:
		if x.IsNil() {
			return "fresh", nil, "nil map"
		}
	case *ssa.Parameter:
		return "param", nil, "parameter " + x.Name()
	case *ssa.ChangeType:
		return mapOrigin(x.X, depth+1)
	}
	return "unknown", nil, v.String()
}

// fieldsMutatedInPlace: struct fields (of module types) holding maps that some module function updates in place.
func fieldsMutatedInPlace(w *World) map[*types.Var]string {
	out := map[*types.Var]string{}
	for _, f := range w.ModuleSSAFuncs() {
		for _, b := range f.Blocks {
			for _, in := range b.Instrs {
				var m ssa.Value
				switch x := in.(type) {
				case *ssa.MapUpdate:
					m = x.Map
				case *ssa.Call:
					if bi, ok := x.Call.Value.(*ssa.Builtin); ok && (bi.Name() == "delete" || bi.Name() == "clear") && len(x.Call.Args) > 0 {
						m = x.Call.Args[0]
					}
				}
				if m == nil {
					continue
				}
				if fld := loadedField(m); fld != nil {
					if _, seen := out[fld]; !seen {
						out[fld] = ssaFuncName(f) + " (" + w.Pos(in.Pos()) + ")"
					}
				}
			}
		}
	}
	return out
}

// fieldsWrittenUnder: fields of named struct T written (store, in-place map update, mutating method on the field)
// by functions reachable from roots.
func fieldsWrittenUnder(w *World, T *types.Named, roots ...*ssa.Function) map[*types.Var]string {
	st := T.Underlying().(*types.Struct)
	isT := func(f *types.Var) bool {
		for i := 0; i < st.NumFields(); i++ {
			if st.Field(i) == f {
				return true
			}
		}
		return false
	}
	out := map[*types.Var]string{}
	note := func(f *types.Var, where string) {
		if f != nil && isT(f) {
			if _, ok := out[f]; !ok {
				out[f] = where
			}
		}
	}
	for f := range w.reachModule(roots...) {
		for _, b := range f.Blocks {
			for _, in := range b.Instrs {
				switch x := in.(type) {
				case *ssa.Store:
					note(fieldOfAddr(x.Addr), "store in "+ssaFuncName(f)+" ("+w.Pos(x.Pos())+")")
				case *ssa.MapUpdate:
					note(loadedField(x.Map), "map update in "+ssaFuncName(f)+" ("+w.Pos(x.Pos())+")")
				case ssa.CallInstruction:
					cc := x.Common()
					if callee := cc.StaticCallee(); callee != nil && callee.Signature.Recv() != nil && len(cc.Args) > 0 {
						if fld := fieldOfAddr(cc.Args[0]); fld != nil && isT(fld) && writesThroughReceiver(callee, 0) {
							note(fld, "mutating method "+callee.Name()+" in "+ssaFuncName(f)+" ("+w.Pos(x.Pos())+")")
						}
					}
				}
			}
		}
	}
	return out
}

func writesThroughReceiver(f *ssa.Function, depth int) bool {
	if len(f.Params) == 0 || f.Blocks == nil || depth > 4 {
		return false
	}
	recv := f.Params[0]
	for _, b := range f.Blocks {
		for _, in := range b.Instrs {
			switch x := in.(type) {
			case *ssa.Store:
				if derivesFromValue(x.Addr, recv, 0) {
					return true
				}
			case *ssa.MapUpdate:
				if derivesFromValue(x.Map, recv, 0) {
					return true
				}
			case ssa.CallInstruction:
				cc := x.Common()
				if callee := cc.StaticCallee(); callee != nil && callee != f && callee.Signature.Recv() != nil && len(cc.Args) > 0 && derivesFromValue(cc.Args[0], recv, 0) && writesThroughReceiver(callee, depth+1) {
					return true
				}
			}
		}
	}
	return false
}

func checkC07(c *Ctx) {
	w := c.W
	wGlobal = w
	m := w.runner()
	c.rule("C07.R1", "no live map crosses the snapshot boundary: every map stored into a Snapshot by Snapshot(), or into a runner field by RestoreAt, is fresh (made in that call) or aliases only state that nothing mutates in place", 4)
	c.rule("C07.R2", "RestoreAt re-assigns, on every success path, every DialogueRunner field that Next or Snapshot can write (exception by name: lineParser, stateless by C14)", 5)
	c.rule("C07.R3", "RestoreAt is all-or-nothing: no store to a runner field, storer mutation or stack operation precedes a return that may carry an error", 1)
	c.rule("C07.R4", "what RestoreAt installs derives from the snapshot: the variables checkpoint copies snapshot.Variables, the visit counts copy snapshot.VisitedNodes, the node is the one found under snapshot.CurrentNode", 4)
	c.rule("C07.R5", "restore order and content: Storer.Clear precedes every Set*, each alternative is restored through its own setter under the snapshot's key, the continuation is cleared before the single push", 4)
	c.rule("C07.R6", "every successful jump stores Storer.GetValues() into the variables checkpoint", 1)
	c.rule("C07.R9", "the constructor enters the first node: the variables checkpoint is initialised with GetValues() of the storer the runner keeps (a snapshot taken before any jump is self-contained too)", 1)
	c.rule("C07.R7", "Snapshot() reads the checkpoint: Variables from variableSnapshot, CurrentNode from currentNode, VisitedNodes from visitedNodes", 3)
	c.rule("C07.R8", "premises decided elsewhere: visited()/visited_count() read the runner's live visit map field (C11.R4) — RestoreAt installs a new map; the default storer answers GetValues/GetValue/Contains from its current contents after Clear and Set (C03.R5)", 2)
	dependsOn(c, "C07.R8", "a restored runner must continue exactly as the original: script functions that kept the map RestoreAt replaced would answer from the abandoned history", "C11.R4")
	dependsOn(c, "C07.R8", "RestoreAt clears and refills the storer and the next node entry checkpoints GetValues(): a storer that answers from stale data would put variables from before the restore into later snapshots", "C03.R5")
	if !m.ok(c, "C07") {
		return
	}
	info := m.pkg.TypesInfo
	snapT := namedType(m.pkg, "Snapshot")
	if snapT == nil {
		c.undecided("C07", "type Snapshot not found")
		return
	}
	sVars := structFieldByType(snapT, "map[string]variable.Value")
	sVis := structFieldByType(snapT, "map[string]int")
	sNode := structFieldByType(snapT, "string")
	if sNode == nil {
		sNode = structFieldByName(snapT, "CurrentNode") // more than one string field (e.g. a seed was added): by name
	}
	if sVars == nil || sVis == nil || sNode == nil {
		c.undecided("C07", "Snapshot fields not resolved by type")
		return
	}
	c.fn(m.snapshot)
	c.fn(m.restore)
	c.fn(m.jump)

	// ----- R1
	mutated := fieldsMutatedInPlace(w)
	checkStores := func(f *Func, intoSnapshot bool) {
		sf := w.SSAFunc(f)
		if sf == nil {
			c.undecided("C07.R1", "no SSA for "+f.Name)
			return
		}
		n := 0
		for _, b := range sf.Blocks {
			for _, in := range b.Instrs {
				st, ok := in.(*ssa.Store)
				if !ok {
					continue
				}
				if _, isMap := st.Val.Type().Underlying().(*types.Map); !isMap {
					continue
				}
				dst := fieldOfAddr(st.Addr)
				if dst == nil {
					continue
				}
				if intoSnapshot && dst != sVars && dst != sVis {
					continue
				}
				if !intoSnapshot && dst != m.fVis && dst != m.fSnap {
					continue
				}
				n++
				kind, src, desc := mapOrigin(st.Val, 0)
				key := f.Name + "/" + dst.Name() + " <- " + kind
				switch kind {
				case "fresh":
					c.ob("C07.R1", key, w.Pos(st.Pos()), true, dst.Name()+" receives a "+desc)
				case "invoke":
					c.obN("C07.R1", key, w.Pos(st.Pos()), true, dst.Name()+" receives the "+desc+" (fresh by the storer's contract, A2)", false)
				case "field":
					// aliasing: harmful if either side is mutated in place somewhere
					where, bad := mutated[src]
					where2, bad2 := mutated[dst]
					switch {
					case bad:
						c.ob("C07.R1", key, w.Pos(st.Pos()), false, dst.Name()+" shares the map held by "+src.Name()+", which is updated in place by "+where+": the snapshot and the runner (or two restored runners) would see each other's changes")
					case bad2:
						c.ob("C07.R1", key, w.Pos(st.Pos()), false, dst.Name()+" adopts the map held by "+src.Name()+" and is itself updated in place by "+where2+": the snapshot would change after the fact")
					default:
						c.ob("C07.R1", key, w.Pos(st.Pos()), true, dst.Name()+" shares "+src.Name()+", a map that is only ever replaced wholesale (no in-place update anywhere in the module)")
					}
				default:
					c.ob("C07.R1", key, w.Pos(st.Pos()), false, dst.Name()+" receives "+desc+": not provably fresh")
				}
			}
		}
		if n == 0 {
			c.ob("C07.R1", f.Name+"/map-stores", w.Pos(f.Decl.Pos()), false, "no map is stored (the maps of the snapshot/runner are not set)")
		}
	}
	checkStores(m.snapshot, true)
	checkStores(m.restore, false)
	// the values inside the maps: Value alternatives are never written through (A1 immutability)
	nv := 0
	for _, f := range w.ModuleSSAFuncs() {
		for _, b := range f.Blocks {
			for _, in := range b.Instrs {
				if st, ok := in.(*ssa.Store); ok {
					// *v.Number = … : address is a load of a Value field
					if ld, ok := st.Addr.(*ssa.UnOp); ok && ld.Op == token.MUL {
						if fld := fieldOfAddr(ld.X); fld != nil && immutableOwner(fld) && pkgPathOfVar(fld) == modPath+"/variable" {
							nv++
							c.ob("C07.R1", ssaFuncName(f)+"/write-through "+fld.Name(), w.Pos(st.Pos()), false, "a Value's "+fld.Name()+" is written through its pointer: values are shared by snapshots, storers and the syntax tree and must never change in place")
						}
					}
				}
			}
		}
	}
	if nv == 0 {
		c.obN("C07.R1", "module/values-immutable", "-", true, "no store through a Value alternative pointer anywhere in the module", false)
	}

	// ----- R2
	next := w.SSAFunc(m.next)
	snapF := w.SSAFunc(m.snapshot)
	restoreF := w.SSAFunc(m.restore)
	if next == nil || snapF == nil || restoreF == nil {
		c.undecided("C07.R2", "SSA functions of Next/Snapshot/RestoreAt not found")
		return
	}
	runState := fieldsWrittenUnder(w, m.T, next, snapF)
	// success-path assignment by RestoreAt: automaton collecting stores per path
	assignedOnAll := map[*types.Var]bool{}
	first := true
	var restoreSeqs []string
	r := evtRule{
		start: "",
		prim: func(n ast.Node) []string {
			switch n := n.(type) {
			case *ast.AssignStmt:
				var evs []string
				for _, l := range n.Lhs {
					if _, isSel := unparen(l).(*ast.SelectorExpr); isSel {
						if fld := lastField(info, l); fld != nil {
							evs = append(evs, "ST:"+fld.Name())
						}
					}
				}
				return evs
			case *ast.CallExpr:
				if name, on := methodCallOn(info, n, m.fStack); on && (name == "Clear" || name == "Push") {
					return []string{"ST:" + m.fStack.Name()}
				}
			}
			return nil
		},
		step: func(st, ev string) string {
			if has(st, ev) {
				return st
			}
			toks := append(strings.Fields(st), ev)
			sort.Strings(toks)
			return strings.Join(toks, " ")
		},
		ret: func(st string, ret *ast.ReturnStmt, kind string) string {
			if kind == "nil" || kind == "unknown" {
				restoreSeqs = append(restoreSeqs, st)
				cur := map[*types.Var]bool{}
				sT := m.T.Underlying().(*types.Struct)
				for i := 0; i < sT.NumFields(); i++ {
					if has(st, "ST:"+sT.Field(i).Name()) {
						cur[sT.Field(i)] = true
					}
				}
				if first {
					assignedOnAll = cur
					first = false
				} else {
					for f := range assignedOnAll {
						if !cur[f] {
							delete(assignedOnAll, f)
						}
					}
				}
			}
			return ""
		},
	}
	runEVT(w, m.restore, r)
	var names []string
	byName := map[string]*types.Var{}
	for f := range runState {
		names = append(names, f.Name())
		byName[f.Name()] = f
	}
	sort.Strings(names)
	c.Extra["run_state_fields"] = names
	for _, name := range names {
		f := byName[name]
		key := "DialogueRunner." + name
		if m.fLP != nil && f == m.fLP {
			c.obN("C07.R2", key, w.Pos(m.restore.Decl.Pos()), true, "exception: lineParser carries no state across calls (proved by C14.R1)", false)
			continue
		}
		if f == m.fStore || f == m.fFuncs || f == m.fCmds || f == m.fDlg {
			continue
		}
		c.ob("C07.R2", key, w.Pos(m.restore.Decl.Pos()), assignedOnAll[f], map[bool]string{true: "written while running (" + runState[f] + ") and re-assigned by RestoreAt on every success path", false: "written while running (" + runState[f] + ") but not re-assigned by RestoreAt on every success path: a restored runner would keep stale " + name}[assignedOnAll[f]])
	}
	if len(names) < 5 {
		c.undecided("C07.R2", "only "+itoa(len(names))+" run-state fields found under Next (expected at least 5)")
	}

	// ----- R3 and R5 (automaton over RestoreAt)
	var okIdent *ast.Ident
	r35 := evtRule{
		start: "",
		prim: func(n ast.Node) []string {
			switch n := n.(type) {
			case *ast.AssignStmt, *ast.IncDecStmt:
				for _, fld := range storesTo(info, n) {
					st := m.T.Underlying().(*types.Struct)
					for i := 0; i < st.NumFields(); i++ {
						if st.Field(i) == fld {
							return []string{"STORE"}
						}
					}
				}
			case *ast.CallExpr:
				if name, on := methodCallOn(info, n, m.fStore); on {
					switch {
					case name == "Clear":
						return []string{"CLEARSTORER"}
					case strings.HasPrefix(name, "Set"):
						return []string{"SETSTORER"}
					}
				}
				if name, on := methodCallOn(info, n, m.fStack); on {
					switch name {
					case "Clear":
						return []string{"CLEAR"}
					case "Push":
						return []string{"PUSH"}
					case "Pop":
						return []string{"POP"}
					}
				}
			}
			return nil
		},
		step: func(st, ev string) string {
			switch ev {
			case "SETSTORER":
				if !has(st, "CLEARSTORER") {
					return addTok(st, "SET-BEFORE-CLEAR")
				}
				if has(st, "SETSTORER") {
					return st
				}
			case "PUSH":
				if !has(st, "CLEAR") {
					return addTok(st, "PUSH-BEFORE-CLEAR")
				}
			case "STORE":
				if has(st, "STORE") {
					return st
				}
			}
			return addTok(st, ev)
		},
		ret: func(st string, ret *ast.ReturnStmt, kind string) string {
			if kind != "nil" && st != "" {
				return "a return that may carry an error is reachable after [" + st + "]: a failed restore must change nothing"
			}
			if kind == "nil" {
				switch {
				case has(st, "SET-BEFORE-CLEAR"):
					return "R5: a variable is restored before the storer is cleared (it would be wiped, or stale variables would survive)"
				case !has(st, "CLEARSTORER"):
					return "R5: the storer is never cleared: variables created after the checkpoint survive the restore"
				case has(st, "PUSH-BEFORE-CLEAR"), !has(st, "CLEAR"):
					return "R5: the node's statements are pushed without clearing the continuation first: the abandoned continuation would resume later"
				case strings.Count(" "+st+" ", " PUSH ") != 1:
					return "R5: " + itoa(strings.Count(" "+st+" ", " PUSH ")) + " pushes on the success path (want exactly one)"
				case has(st, "POP"):
					return "R5: the continuation is popped during a restore"
				}
			}
			return ""
		},
	}
	fs := runEVT(w, m.restore, r35)
	r3bad, r5bad := 0, 0
	for _, f := range fs {
		if strings.HasPrefix(f.msg, "R5: ") {
			r5bad++
			c.ob("C07.R5", m.restore.Name+"/order#"+itoa(r5bad), w.Pos(f.pos), false, strings.TrimPrefix(f.msg, "R5: "))
		} else {
			r3bad++
			c.ob("C07.R3", m.restore.Name+"/all-or-nothing#"+itoa(r3bad), w.Pos(f.pos), false, f.msg)
		}
	}
	if r3bad == 0 {
		c.ob("C07.R3", m.restore.Name+"/all-or-nothing", w.Pos(m.restore.Decl.Pos()), true, "every return that may carry an error is reached before any effect")
	}
	if r5bad == 0 {
		c.ob("C07.R5", m.restore.Name+"/order", w.Pos(m.restore.Decl.Pos()), true, "storer cleared before it is refilled; continuation cleared before the single push")
	}
	_ = okIdent

	// ----- R4, R5 content (provenance in RestoreAt)
	x := w.expander(m.restore)
	sp := "$" + m.restore.Sig().Params().At(0).Name()
	recv := "$" + recvName(m.restore)
	copies := mapCopies(w, m.restore)
	wantCopy := func(rule string, dst *types.Var, src *types.Var) {
		got, ok := copies[recv+"."+dst.Name()]
		want := sp + "." + src.Name()
		if !ok {
			// a direct assignment also derives from the snapshot (whether sharing is harmful is R1's question)
			walkNoLit(m.restore.Body, func(n ast.Node) bool {
				if as, isAs := n.(*ast.AssignStmt); isAs && len(as.Lhs) == len(as.Rhs) {
					for i, l := range as.Lhs {
						if _, isSel := unparen(l).(*ast.SelectorExpr); isSel && lastField(info, l) == dst {
							got, ok = x.str(as.Rhs[i]), true
							// a local that was filled by a copy before being stored
							if id := identOf(as.Rhs[i]); id != nil {
								if cp, isCopy := copies["$"+id.Name]; isCopy {
									got = cp
								}
							}
						}
					}
				}
				return true
			})
		}
		c.ob(rule, m.restore.Name+"/"+dst.Name()+"-source", w.Pos(m.restore.Decl.Pos()), ok && got == want, map[bool]string{true: dst.Name() + " is filled entry by entry from " + want, false: dst.Name() + " is not a copy of " + want + " (found: " + got + "): a snapshot taken right after the restore would differ from the restored one"}[ok && got == want])
	}
	wantCopy("C07.R4", m.fSnap, sVars)
	wantCopy("C07.R4", m.fVis, sVis)
	var pushSrc, nodeSrc string
	walkNoLit(m.restore.Body, func(n ast.Node) bool {
		switch n := n.(type) {
		case *ast.CallExpr:
			if name, on := methodCallOn(info, n, m.fStack); on && name == "Push" && len(n.Args) == 1 {
				if v := litField(n.Args[0], "statements"); v != nil {
					pushSrc = x.str(v)
				}
			}
		case *ast.AssignStmt:
			for i, l := range n.Lhs {
				if _, isSel := unparen(l).(*ast.SelectorExpr); isSel && lastField(info, l) == m.fNode && len(n.Rhs) == len(n.Lhs) {
					nodeSrc = x.str(n.Rhs[i])
				}
			}
		}
		return true
	})
	found := recv + "." + m.fDlg.Name() + ".FindNode(" + sp + "." + sNode.Name() + ")#0"
	c.ob("C07.R4", m.restore.Name+"/node-source", w.Pos(m.restore.Decl.Pos()), pushSrc == found+".Statements", map[bool]string{true: "the continuation restarts at the statements of the node found under the snapshot's node name", false: "the continuation restarts at " + pushSrc + ", not at the node the snapshot names"}[pushSrc == found+".Statements"])
	c.ob("C07.R4", m.restore.Name+"/node-name-source", w.Pos(m.restore.Decl.Pos()), nodeSrc == found+".Title()", map[bool]string{true: "currentNode receives the found node's title", false: "currentNode receives " + nodeSrc}[nodeSrc == found+".Title()"])
	// setters: range over snapshot.Variables, each alternative through its own setter
	nSet := 0
	walkNoLit(m.restore.Body, func(n ast.Node) bool {
		call, ok := n.(*ast.CallExpr)
		if !ok {
			return true
		}
		name, on := methodCallOn(info, call, m.fStore)
		if !on || !strings.HasPrefix(name, "Set") || len(call.Args) != 2 {
			return true
		}
		nSet++
		alt := strings.TrimSuffix(strings.TrimPrefix(name, "Set"), "Value")
		keyS, valS := x.str(call.Args[0]), x.str(call.Args[1])
		okK := keyS == "$"+identName(call.Args[0]) && rangeKeyOf(w, m.restore, call.Args[0], sp+"."+sVars.Name())
		okV := valS == sp+"."+sVars.Name()+"[range]."+alt
		e := w.ent(m.restore)
		var sel ast.Expr
		if se, ok := unparen(call.Args[1]).(*ast.StarExpr); ok {
			sel = se.X
		}
		guarded := false
		if sel != nil {
			guarded, _ = e.Prove(call, e.nn(e.k(), sel))
		}
		all := okK && okV && guarded
		why := "restores the " + alt + " alternative through " + name + " under the snapshot's key, only when that alternative is set"
		if !all {
			why = name + "(" + keyS + ", " + valS + "): want the snapshot entry's key and its " + alt + " alternative, guarded by a nil test of that alternative"
		}
		c.ob("C07.R5", m.restore.Name+"/"+name, w.Pos(call.Pos()), all, why)
		return true
	})
	if nSet < 3 {
		c.ob("C07.R5", m.restore.Name+"/setters", w.Pos(m.restore.Decl.Pos()), false, "only "+itoa(nSet)+" of the three value alternatives are restored into the storer")
	}

	// ----- R6
	jf := jumpAutomaton(w, m)
	okSnap := len(jf.successSeqs) > 0
	for seq := range jf.successSeqs {
		if !has(seq, "SNAP") {
			okSnap = false
		}
	}
	jx := w.expander(m.jump)
	snapSrc := ""
	walkNoLit(m.jump.Body, func(n ast.Node) bool {
		if as, ok := n.(*ast.AssignStmt); ok {
			for i, l := range as.Lhs {
				if _, isSel := unparen(l).(*ast.SelectorExpr); isSel && lastField(info, l) == m.fSnap && len(as.Rhs) == len(as.Lhs) {
					snapSrc = jx.str(as.Rhs[i])
				}
			}
		}
		return true
	})
	wantSnap := "$" + recvName(m.jump) + "." + m.fStore.Name() + ".GetValues()"
	okSnap = okSnap && snapSrc == wantSnap
	c.ob("C07.R6", m.jump.Name+"/checkpoint", w.Pos(m.jump.Decl.Pos()), okSnap, map[bool]string{true: "every successful jump stores " + wantSnap + " into the checkpoint", false: "a successful jump does not checkpoint the storer's values (success paths: " + strings.Join(seqList(jf.successSeqs), " / ") + "; stored: " + snapSrc + ")"}[okSnap])

	// ----- R9: the first node is entered by the constructor: the checkpoint starts as the storer's values
	{
		ci := m.ctorInit(w)
		cx := w.expander(m.ctor)
		init := ci.fields[m.fSnap.Name()]
		src := ""
		if init != nil {
			src = cx.str(init)
		}
		storeInit := ci.fields[m.fStore.Name()]
		okInit := false
		why := "the constructor leaves the variables checkpoint empty: a snapshot taken in the first node holds no variable although the storer the runner was given may, and restoring it clears that storer"
		if init != nil && strings.HasSuffix(src, ".GetValues()") {
			recv := strings.TrimSuffix(src, ".GetValues()")
			switch {
			case storeInit != nil && cx.str(storeInit) == recv:
				okInit, why = true, "the checkpoint is initialised with GetValues() of the storer the runner keeps ("+shorten(recv, 40)+")"
			case ci.obj != nil && recv == "$"+ci.obj.Name()+"."+m.fStore.Name():
				okInit, why = true, "the checkpoint is initialised with GetValues() of the runner's storer"
			default:
				why = "the checkpoint is initialised from " + shorten(src, 60) + ", not from the storer the runner keeps"
			}
		} else if init != nil {
			why = "the checkpoint is initialised with " + shorten(src, 60) + ", not with the storer's GetValues()"
		}
		c.ob("C07.R9", m.ctor.Name+"/first-node-checkpoint", w.Pos(ci.pos), okInit, why)
	}

	// ----- R7
	sx := w.expander(m.snapshot)
	srecv := "$" + recvName(m.snapshot)
	scopies := mapCopies(w, m.snapshot)
	var lit *ast.CompositeLit
	walkNoLit(m.snapshot.Body, func(n ast.Node) bool {
		if cl, ok := n.(*ast.CompositeLit); ok {
			if tv, ok := info.Types[cl]; ok && tv.Type == types.Type(snapT) {
				lit = cl
			}
		}
		return true
	})
	// a snapshot built step by step: s := new(Snapshot); s.F = …; return s
	var built map[string]ast.Expr
	builtName := ""
	if lit == nil {
		walkNoLit(m.snapshot.Body, func(n ast.Node) bool {
			if r, ok := n.(*ast.ReturnStmt); ok && len(r.Results) == 1 {
				if id := identOf(r.Results[0]); id != nil {
					if fields, ok := w.builtFields(m.snapshot, info.Uses[id]); ok {
						built, builtName = fields, id.Name
					}
				}
			}
			return true
		})
		if built == nil {
			c.undecided("C07.R7", "no Snapshot literal (nor a Snapshot built field by field) in Snapshot()")
			return
		}
	}
	litPos := m.snapshot.Decl.Pos()
	if lit != nil {
		litPos = lit.Pos()
	}
	srcOf := func(fld *types.Var) string {
		var v ast.Expr
		if lit != nil {
			v = litField(lit, fld.Name())
		} else {
			v = built[fld.Name()]
			if cp, ok := scopies["$"+builtName+"."+fld.Name()]; ok {
				return "copy of " + cp
			}
		}
		if v == nil {
			return "(unset)"
		}
		s := sx.str(v)
		if call, ok := unparen(v).(*ast.CallExpr); ok {
			if src := mapCopyArg(w, info, call, 0); src != nil {
				return "copy of " + sx.str(src)
			}
		}
		// a local map filled by a copy loop
		if id := identOf(v); id != nil {
			if cp, ok := scopies["$"+id.Name]; ok {
				return "copy of " + cp
			}
			if cp, ok := scopies[s]; ok {
				return "copy of " + cp
			}
		}
		return s
	}
	for _, pair := range []struct {
		sf, rf *types.Var
	}{{sVars, m.fSnap}, {sVis, m.fVis}, {sNode, m.fNode}} {
		got := srcOf(pair.sf)
		want := srecv + "." + pair.rf.Name()
		okS := got == want || got == "copy of "+want
		c.ob("C07.R7", m.snapshot.Name+"/"+pair.sf.Name(), w.Pos(litPos), okS, map[bool]string{true: "Snapshot." + pair.sf.Name() + " is " + got, false: "Snapshot." + pair.sf.Name() + " is " + got + ", not the runner's " + pair.rf.Name() + " (the state as of the last node entry)"}[okS])
	}
}

func identName(e ast.Expr) string {
	if id := identOf(e); id != nil {
		return id.Name
	}
	return "?"
}

// rangeKeyOf: e is the key variable of a range loop over the expression that expands to src.
func rangeKeyOf(w *World, f *Func, e ast.Expr, src string) bool {
	id := identOf(e)
	if id == nil {
		return false
	}
	info := f.Pkg.TypesInfo
	obj := info.Uses[id]
	x := w.expander(f)
	ok := false
	walkNoLit(f.Body, func(n ast.Node) bool {
		if r, isR := n.(*ast.RangeStmt); isR && r.Key != nil {
			if kid := identOf(r.Key); kid != nil && info.Defs[kid] == obj && x.str(r.X) == src {
				ok = true
			}
		}
		return true
	})
	return ok
}

// mapCopies finds "dst = make(…); for k, v := range SRC { dst[k] = v }" (and maps.Clone) patterns; returns
// expansion(dst) -> expansion(SRC). dst is a field path ("$dr.f") or a local ("$name").
func mapCopies(w *World, f *Func) map[string]string { return mapCopiesD(w, f, 0) }

// mapCopyArg: the call returns a fresh map holding exactly the entries of its single map argument — maps.Clone, or a
// module helper that makes a map, fills it entry by entry from its parameter and returns it on every return.
func mapCopyArg(w *World, info *types.Info, call *ast.CallExpr, depth int) ast.Expr {
	callee := calleeOf(info, call)
	if callee == nil || len(call.Args) != 1 {
		return nil
	}
	if funcFullName(callee) == "maps.Clone" {
		return call.Args[0]
	}
	g := w.byObj[callee]
	if g == nil || g.Body == nil || depth > 3 || g.Sig().Params().Len() != 1 || g.Sig().Results().Len() != 1 {
		return nil
	}
	if _, isMap := g.Sig().Results().At(0).Type().Underlying().(*types.Map); !isMap {
		return nil
	}
	cp := mapCopiesD(w, g, depth+1)
	want := "$" + g.Sig().Params().At(0).Name()
	n, ok := 0, true
	walkNoLit(g.Body, func(nd ast.Node) bool {
		if r, isR := nd.(*ast.ReturnStmt); isR {
			n++
			var id *ast.Ident
			if len(r.Results) == 1 {
				id = identOf(r.Results[0])
			} else if len(r.Results) == 0 && g.Sig().Results().At(0).Name() != "" {
				id = ast.NewIdent(g.Sig().Results().At(0).Name())
			}
			if id == nil || cp["$"+id.Name] != want {
				ok = false
			}
		}
		return true
	})
	if n == 0 || !ok {
		return nil
	}
	return call.Args[0]
}

func mapCopiesD(w *World, f *Func, depth int) map[string]string {
	info := f.Pkg.TypesInfo
	x := w.expander(f)
	out := map[string]string{}
	name := func(e ast.Expr) string {
		if id := identOf(e); id != nil {
			return "$" + id.Name
		}
		root, fields := fieldChain(info, e)
		if id := identOf(root); id != nil && len(fields) > 0 {
			s := "$" + id.Name
			for _, fl := range fields {
				s += "." + fl.Name()
			}
			return s
		}
		return exprStr(e)
	}
	made := map[string]token.Pos{}
	record := func(dst string, rhs ast.Expr, pos token.Pos) {
		if call, ok := unparen(rhs).(*ast.CallExpr); ok {
			if isBuiltin(info, call, "make") {
				made[dst] = pos
			}
			if src := mapCopyArg(w, info, call, depth); src != nil {
				out[dst] = x.str(src)
			}
		}
		if cl, ok := unparen(rhs).(*ast.CompositeLit); ok && len(cl.Elts) == 0 {
			if tv, ok := info.Types[cl]; ok {
				if _, isMap := tv.Type.Underlying().(*types.Map); isMap {
					made[dst] = pos
				}
			}
		}
	}
	walkNoLit(f.Body, func(n ast.Node) bool {
		switch n := n.(type) {
		case *ast.AssignStmt:
			for i, l := range n.Lhs {
				if len(n.Rhs) != len(n.Lhs) {
					continue
				}
				record(name(l), n.Rhs[i], n.Pos())
			}
		case *ast.ValueSpec:
			for i, nm := range n.Names {
				if len(n.Values) == len(n.Names) {
					record("$"+nm.Name, n.Values[i], n.Pos())
				}
			}
		case *ast.ExprStmt:
			// maps.Copy(dst, src) into a map made just before: entry-by-entry copy
			if call, ok := n.X.(*ast.CallExpr); ok && len(call.Args) == 2 {
				if callee := calleeOf(info, call); callee != nil && funcFullName(callee) == "maps.Copy" {
					dst := name(call.Args[0])
					if pos, ok := made[dst]; ok && pos < n.Pos() {
						out[dst] = x.str(call.Args[1])
					}
				}
			}
		case *ast.RangeStmt:
			if n.Key == nil || n.Value == nil || len(n.Body.List) != 1 {
				return true
			}
			as, ok := n.Body.List[0].(*ast.AssignStmt)
			if !ok || len(as.Lhs) != 1 || len(as.Rhs) != 1 || as.Tok != token.ASSIGN {
				return true
			}
			ix, ok := unparen(as.Lhs[0]).(*ast.IndexExpr)
			if !ok {
				return true
			}
			kid, vid := identOf(n.Key), identOf(n.Value)
			if kid == nil || vid == nil || identOf(ix.Index) == nil || identOf(as.Rhs[0]) == nil {
				return true
			}
			if info.Uses[identOf(ix.Index)] != info.Defs[kid] || info.Uses[identOf(as.Rhs[0])] != info.Defs[vid] {
				return true
			}
			dst := name(ix.X)
			if pos, ok := made[dst]; ok && pos < n.Pos() {
				out[dst] = x.str(n.X)
			}
		}
		return true
	})
	return out
}
