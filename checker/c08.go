package main

// c08.go — C08: layout never changes meaning (the clauses with a structural necessary condition).

import (
	"go/ast"
	"go/constant"
	"go/token"
	"go/types"
	"sort"
	"strconv"
	"strings"

	"golang.org/x/tools/go/ssa"
)

func init() {
	registry["C08"] = &propCheck{
		meta: propMeta{
			Level: "other",
			Explanation: "Decides the layout clauses that have a structural necessary condition: (R1) indentation width/kind — the integer measured from a line's indentation flows only into order comparisons, the indent stack and the debug text of synthetic tokens (forward taint on SSA), and is accumulated by adding positive constants per whitespace character, so the dialogue depends on the order relations between widths, never on their magnitudes; " +
				"(R2) blank, whitespace-only and comment-only lines — a NEWLINE token looks the same before a blank line and before a content line at column 0, so every INDENT/DEDENT decision of the NEWLINE handler must be dominated by a look-ahead test on the input stream, and that test must compare the next character with every line-break character of the grammar's NEWLINE rule and recognise the comment opener; " +
				"(R3) distribution of nodes across readers — each reader is parsed on its own, in argument order, and the node lists concatenated (no reader's tail can leak into the next); (R4) extra spaces inside commands — empty words are skipped.",
			NotDecided:  "CRLF handling inside the lexer rules, operator spellings, redundant parentheses, trailing comments (serialized ATN, assumption A3)",
			Assumptions: []string{"A3 (grammar: one line break per NEWLINE token is re-read from the .g4 on every run)", "A4"},
			Trusted:     []string{"go/types", "golang.org/x/tools/go/ssa", "golang.org/x/tools/go/cfg", "go/packages loader"},
		},
		run: checkC08,
	}
}

func checkC08(c *Ctx) {
	w := c.W
	wGlobal = w
	lx := w.lexer()
	c.rule("C08.R1", "magnitude-blind indentation: the measured width flows only into order comparisons, the indent stack and the text of synthetic tokens; it is accumulated by positive constants per whitespace character", 10)
	c.rule("C08.R2", "look-ahead dependence: every INDENT/DEDENT decision of the NEWLINE handler is dominated by a look-ahead test on the input stream that covers every line-break character of the NEWLINE rule and the comment opener", 4)
	c.rule("C08.R3", "readers are parsed one by one in argument order and their node lists concatenated (shared with C01.R5)", 2)
	c.rule("C08.R4", "extra spaces between the words of a command produce no argument: empty words are skipped (shared with C17.R4)", 1)
	if !lx.ok(c, "C08") {
		return
	}
	c08R1(c, lx)
	c08R2(c, lx)
	// R3
	tmp := newCtx(c.Prop, c.Tier, w)
	tmp.rule("C01.R5", "", 0)
	m := w.runner()
	if m.ok(c, "C08.R3") {
		c01R5(tmp, m)
		for _, o := range tmp.Obs {
			if strings.Contains(o.Key, "FromReaders") {
				c.ob("C08.R3", o.Key, o.Pos, o.OK, o.How)
			}
		}
	}
	// R4
	tmp2 := newCtx(c.Prop, c.Tier, w)
	tmp2.rule("C17.R4", "", 0)
	c17R4(tmp2)
	for _, o := range tmp2.Obs {
		if strings.Contains(o.Key, "empty-words-skipped") || strings.Contains(o.Key, "whitespace-separated") {
			c.ob("C08.R4", o.Key, o.Pos, o.OK, o.How)
		}
	}
}

func c08R1(c *Ctx, lx *lexerModel) {
	w := c.W
	measure := w.SSAFunc(lx.measure)
	if measure == nil {
		c.undecided("C08.R1", "no SSA for the measuring function")
		return
	}
	// (a) accumulation by positive constants
	c.fn(lx.measure)
	info := lx.pkg.TypesInfo
	var lengthObj types.Object
	// the returned local
	walkNoLit(lx.measure.Body, func(n ast.Node) bool {
		if r, ok := n.(*ast.ReturnStmt); ok && len(r.Results) == 1 {
			if id := identOf(r.Results[0]); id != nil {
				lengthObj = info.Uses[id]
			}
		}
		return true
	})
	// the counting form: the width is returned as a sum of per-character counts with positive constant weights
	countForm, countWhy := false, ""
	if lengthObj == nil || len(w.ent(lx.measure).assigns[lengthObj]) == 1 {
		mx := w.expander(lx.measure)
		nRet, okAll := 0, true
		walkNoLit(lx.measure.Body, func(n ast.Node) bool {
			if r, ok := n.(*ast.ReturnStmt); ok && len(r.Results) == 1 {
				nRet++
				fm := affineOf(info, mx, r.Results[0], func(s string) string { return s })
				kinds := 0
				if !fm.ok || fm.c != 0 {
					okAll = false
				}
				for k, v := range fm.coef {
					if v == 0 {
						continue
					}
					if v < 0 || !strings.HasPrefix(k, "strings.Count(") {
						okAll = false
					}
					kinds++
				}
				if kinds < 2 {
					okAll = false
				}
				countWhy = fm.String()
			}
			return true
		})
		countForm = nRet > 0 && okAll
	}
	if countForm {
		c.ob("C08.R1", lx.measure.Name+"/accumulation", w.Pos(lx.measure.Decl.Pos()), true, "the width is a sum of character counts with positive constant weights ("+countWhy+"): strictly monotone in the number of characters of one kind")
	} else if lengthObj == nil {
		c.ob("C08.R1", lx.measure.Name+"/accumulation", w.Pos(lx.measure.Decl.Pos()), false, "the measuring function does not return a local accumulator")
	} else {
		e := w.ent(lx.measure)
		okAcc := true
		why := ""
		incs := 0
		for _, a := range e.assigns[lengthObj] {
			switch a := a.(type) {
			case *ast.IncDecStmt:
				if a.Tok != token.INC {
					okAcc, why = false, "the width is decremented"
				}
				incs++
			case *ast.AssignStmt:
				if a.Tok == token.DEFINE || a.Tok == token.ASSIGN {
					if tv, ok := info.Types[a.Rhs[0]]; ok && tv.Value != nil && tv.Value.ExactString() == "0" {
						continue
					}
					okAcc, why = false, "the width is assigned "+exprStr(a.Rhs[0])
				} else if a.Tok == token.ADD_ASSIGN {
					if tv, ok := info.Types[a.Rhs[0]]; ok && tv.Value != nil && tv.Value.Kind() == constant.Int {
						if v, _ := constant.Int64Val(tv.Value); v > 0 {
							incs++
							continue
						}
					}
					okAcc, why = false, "the width grows by "+exprStr(a.Rhs[0])+", not by a positive constant"
				} else {
					okAcc, why = false, "the width is updated with "+a.Tok.String()
				}
			case *ast.ValueSpec:
			default:
				okAcc, why = false, "unrecognised update of the width"
			}
		}
		if incs < 2 {
			okAcc, why = false, "fewer than two whitespace kinds add to the width"
		}
		c.ob("C08.R1", lx.measure.Name+"/accumulation", w.Pos(lx.measure.Decl.Pos()), okAcc, map[bool]string{true: "starts at 0 and only grows by positive constants per whitespace character: strictly monotone in the number of characters of one kind", false: "the width is not a sum of positive constants per whitespace character: " + why}[okAcc])
	}
	// (b) forward taint of the width through the lexer's methods
	uses := 0
	var widthFns map[*ssa.Function]bool
	for _, f := range w.FuncsIn(lx.pkg) {
		if f.Decl == nil || f.Decl.Recv == nil || f.Body == nil || typeStr(f.Sig().Recv().Type()) != "*parser.IndentAwareLexer" || f == lx.measure {
			continue
		}
		sf := w.SSAFunc(f)
		if sf == nil {
			continue
		}
		tainted := map[ssa.Value]string{}
		isStackFn := func(callee *ssa.Function, prefix string) bool {
			return callee != nil && strings.Contains(callee.String(), "container.Stack[int]") && strings.HasPrefix(callee.Name(), prefix)
		}
		// lexer methods that hand back a width of the stack or 0 ("the current level"): every return is Peek()/Pop() of the
		// indent stack, the constant 0, or a merge of those
		if widthFns == nil {
			widthFns = map[*ssa.Function]bool{}
			for _, g := range w.FuncsIn(lx.pkg) {
				if g.Decl == nil || g.Decl.Recv == nil || g.Body == nil || g == lx.measure || g.Sig().Results().Len() != 1 || !isIntType(g.Sig().Results().At(0).Type()) {
					continue
				}
				sg := w.SSAFunc(g)
				if sg == nil {
					continue
				}
				var fromStack func(v ssa.Value, depth int) bool
				fromStack = func(v ssa.Value, depth int) bool {
					if depth > 4 {
						return false
					}
					switch y := v.(type) {
					case *ssa.Const:
						return y.Value != nil && y.Value.ExactString() == "0"
					case *ssa.Call:
						cal := y.Call.StaticCallee()
						return isStackFn(cal, "Peek") || isStackFn(cal, "Pop")
					case *ssa.Phi:
						for _, e := range y.Edges {
							if !fromStack(e, depth+1) {
								return false
							}
						}
						return true
					}
					return false
				}
				all, nret := true, 0
				for _, b := range sg.Blocks {
					for _, in := range b.Instrs {
						if r, ok := in.(*ssa.Return); ok {
							nret++
							if len(r.Results) != 1 || !fromStack(r.Results[0], 0) {
								all = false
							}
						}
					}
				}
				if all && nret > 0 {
					widthFns[sg] = true
				}
			}
		}
		for changed := true; changed; {
			changed = false
			for _, b := range sf.Blocks {
				for _, in := range b.Instrs {
					v, ok := in.(ssa.Value)
					if !ok || tainted[v] != "" {
						continue
					}
					why := ""
					switch x := in.(type) {
					case *ssa.Call:
						if callee := x.Call.StaticCallee(); callee != nil {
							switch {
							case callee == measure:
								why = "width"
							case isStackFn(callee, "Peek") || isStackFn(callee, "Pop") || widthFns[callee]:
								why = "width(from stack)"
							case callee.String() == "strconv.Itoa" && tainted[x.Call.Args[0]] != "":
								why = "text"
							}
						}
					case *ssa.Phi:
						for _, e := range x.Edges {
							if tainted[e] != "" {
								why = tainted[e]
							}
						}
					case *ssa.BinOp:
						if x.Op == token.ADD && (tainted[x.X] == "text" || tainted[x.Y] == "text") {
							why = "text"
						}
					case *ssa.UnOp:
						// loads of locals that hold a width
						if x.Op == token.MUL {
							if a, ok := x.X.(*ssa.Alloc); ok {
								for _, ref := range *a.Referrers() {
									if st, ok := ref.(*ssa.Store); ok && st.Addr == ssa.Value(a) && tainted[st.Val] != "" {
										why = tainted[st.Val]
									}
								}
							}
						}
					}
					if why != "" {
						tainted[v] = why
						changed = true
					}
				}
			}
		}
		if len(tainted) == 0 {
			continue
		}
		c.fn(f)
		for _, b := range sf.Blocks {
			for _, in := range b.Instrs {
				for _, op := range in.Operands(nil) {
					if *op == nil {
						continue
					}
					kind := tainted[*op]
					if kind == "" {
						continue
					}
					uses++
					ok := false
					how := ""
					switch x := in.(type) {
					case *ssa.BinOp:
						switch x.Op {
						case token.LSS, token.GTR, token.EQL, token.NEQ, token.LEQ, token.GEQ:
							if strings.HasPrefix(kind, "width") {
								// compared with another width or the constant 0
								other := x.X
								if other == *op {
									other = x.Y
								}
								if tainted[other] != "" && strings.HasPrefix(tainted[other], "width") {
									ok, how = true, "order comparison of two widths"
								} else if k, isC := other.(*ssa.Const); isC && k.Value != nil && k.Value.ExactString() == "0" {
									ok, how = true, "comparison with 0"
								}
							}
						case token.ADD:
							if kind == "text" {
								ok, how = true, "debug text concatenation"
							}
						}
					case *ssa.Phi:
						ok, how = true, "merge"
					case *ssa.Store:
						if _, local := x.Addr.(*ssa.Alloc); local {
							ok, how = true, "local variable"
						}
					case *ssa.Call:
						if callee := x.Call.StaticCallee(); callee != nil {
							switch {
							case isStackFn(callee, "Push") && strings.HasPrefix(kind, "width"):
								ok, how = true, "pushed on the indent stack"
							case callee.String() == "strconv.Itoa" && strings.HasPrefix(kind, "width"):
								ok, how = true, "rendered into the synthetic token's debug text"
							case lx.insert != nil && callee == w.SSAFunc(lx.insert) && kind == "text":
								ok, how = true, "text of a synthetic INDENT/DEDENT token"
							}
						}
					case *ssa.If:
						ok, how = true, "branch"
					case *ssa.Return:
						if widthFns[sf] {
							ok, how = true, "handed back by a function that returns the current level (a width of the stack, or 0)"
						}
					case *ssa.DebugRef:
						ok, how = true, "debug"
					}
					key := f.Name + "/" + strings.TrimSpace(strings.SplitN(in.String(), "\n", 2)[0])
					if len(key) > 110 {
						key = key[:107] + "..."
					}
					if ok {
						c.obN("C08.R1", key+"#"+itoa(uses), w.Pos(in.Pos()), true, kind+" value: "+how, true)
					} else {
						c.ob("C08.R1", key+"#"+itoa(uses), w.Pos(in.Pos()), false, "the measured indentation width ("+kind+") is used by `"+in.String()+"`: the token stream would depend on how wide the indentation is, not only on which lines are deeper than which")
					}
				}
			}
		}
	}
	if uses < 8 {
		c.undecided("C08.R1", "only "+itoa(uses)+" uses of width-derived values found in the lexer")
	}
}

func c08R2(c *Ctx, lx *lexerModel) {
	w := c.W
	g := w.grammar()
	info := lx.pkg.TypesInfo
	f := lx.newline
	c.fn(f)
	// premise: one line break per NEWLINE token
	nl, ok := g.lexerBody["NEWLINE"]
	if !ok {
		c.undecided("C08.R2", "NEWLINE rule not found in the lexer grammar")
		return
	}
	body := nl
	if i := strings.Index(body, "->"); i >= 0 {
		body = body[:i]
	}
	body = strings.TrimSpace(body)
	// line-break characters: the quoted literals before the trailing whitespace set
	breakChars := map[rune]bool{}
	lits := regexpFindAll(`'((?:\\.|[^'\\])+)'`, body)
	for _, l := range lits {
		switch l {
		case `\r`:
			breakChars['\r'] = true
		case `\n`:
			breakChars['\n'] = true
		default:
			breakChars[[]rune(l)[0]] = true
		}
	}
	multi := strings.Contains(body, ")+") || strings.Contains(body, "]+ [")
	if multi || len(breakChars) == 0 {
		c.obN("C08.R2", "grammar/NEWLINE", "internal/parser/YarnSpinnerLexer.g4", true, "the NEWLINE rule ("+body+") swallows several line breaks or was not recognised: the look-ahead rule does not apply to this grammar", false)
		c.note("C08.R2 not applicable to the current NEWLINE rule: %s", body)
		return
	}
	var chars []string
	for r := range breakChars {
		chars = append(chars, itoa(int(r)))
	}
	sort.Strings(chars)
	c.obN("C08.R2", "grammar/NEWLINE", "internal/parser/YarnSpinnerLexer.g4", true, "premise re-read: one line break per NEWLINE token ("+body+"); line-break characters "+strings.Join(chars, ","), false)
	// look-ahead calls reachable from the handler (itself and module callees, one level)
	type laTest struct {
		k      int64 // LA(k)
		consts map[int64]bool
	}
	tests := map[int64]map[int64]bool{}
	var guards []*ast.IfStmt
	var scan func(fn *Func, depth int) bool
	scan = func(fn *Func, depth int) bool {
		found := false
		// variables holding LA(k)
		holds := map[types.Object]int64{}
		ast.Inspect(fn.Body, func(n ast.Node) bool {
			as, ok := n.(*ast.AssignStmt)
			if !ok || len(as.Lhs) != 1 || len(as.Rhs) != 1 {
				return true
			}
			if k, ok := laCall(info, as.Rhs[0]); ok {
				if id := identOf(as.Lhs[0]); id != nil {
					obj := info.Defs[id]
					if obj == nil {
						obj = info.Uses[id]
					}
					holds[obj] = k
				}
			}
			return true
		})
		ast.Inspect(fn.Body, func(n ast.Node) bool {
			b, ok := n.(*ast.BinaryExpr)
			if !ok || b.Op != token.EQL {
				return true
			}
			for _, side := range [][2]ast.Expr{{b.X, b.Y}, {b.Y, b.X}} {
				k, isLA := laCall(info, side[0])
				if !isLA {
					if id := identOf(side[0]); id != nil {
						if kk, ok := holds[info.Uses[id]]; ok {
							k, isLA = kk, true
						}
					}
				}
				if !isLA {
					continue
				}
				if tv, ok := info.Types[side[1]]; ok && tv.Value != nil {
					if v, ok := constant.Int64Val(constant.ToInt(tv.Value)); ok {
						if tests[k] == nil {
							tests[k] = map[int64]bool{}
						}
						tests[k][v] = true
						found = true
					}
				}
			}
			return true
		})
		if depth < 1 {
			walkNoLit(fn.Body, func(n ast.Node) bool {
				if call, ok := n.(*ast.CallExpr); ok {
					if callee := calleeOf(info, call); callee != nil {
						if g := w.byObj[callee]; g != nil && g.Pkg == lx.pkg && g != fn && g != lx.measure && g != lx.insert {
							if scan(g, depth+1) {
								found = true
							}
						}
					}
				}
				return true
			})
		}
		return found
	}
	scan(f, 0)
	// the guard: a top-level if of the handler whose condition depends on the look-ahead (directly or through a callee)
	// and whose body returns, placed before every stack operation and token insertion
	firstEffect := token.Pos(0)
	walkNoLit(f.Body, func(n ast.Node) bool {
		if call, ok := n.(*ast.CallExpr); ok {
			isEff := false
			if name, on := methodCallOn(info, call, lx.fIndents); on && (name == "Push" || name == "Pop") {
				isEff = true
			}
			if k := tokenKindOfInsert(info, lx, call); k == "INDENT" || k == "DEDENT" {
				isEff = true
			}
			if isEff && (firstEffect == 0 || call.Pos() < firstEffect) {
				firstEffect = call.Pos()
			}
		}
		return true
	})
	dependsOnLA := func(e ast.Node) bool {
		dep := false
		holds := map[types.Object]bool{}
		for changed := true; changed; {
			changed = false
			ast.Inspect(f.Body, func(n ast.Node) bool {
				if as, ok := n.(*ast.AssignStmt); ok && len(as.Lhs) == 1 && len(as.Rhs) == 1 {
					dep := false
					ast.Inspect(as.Rhs[0], func(q ast.Node) bool {
						switch y := q.(type) {
						case *ast.CallExpr:
							if _, ok := laCall(info, y); ok {
								dep = true
							}
						case *ast.Ident:
							if holds[info.Uses[y]] {
								dep = true
							}
						}
						return true
					})
					if dep {
						if id := identOf(as.Lhs[0]); id != nil {
							if obj := info.Defs[id]; obj != nil && !holds[obj] {
								holds[obj] = true
								changed = true
							}
						}
					}
				}
				return true
			})
		}
		ast.Inspect(e, func(n ast.Node) bool {
			switch n := n.(type) {
			case *ast.CallExpr:
				if _, ok := laCall(info, n); ok {
					dep = true
				}
				if callee := calleeOf(info, n); callee != nil {
					if g := w.byObj[callee]; g != nil && g.Pkg == lx.pkg && g.Body != nil {
						ast.Inspect(g.Body, func(q ast.Node) bool {
							if cl, ok := q.(*ast.CallExpr); ok {
								if _, ok := laCall(info, cl); ok {
									dep = true
								}
							}
							return true
						})
					}
				}
			case *ast.Ident:
				if holds[info.Uses[n]] {
					dep = true
				}
			}
			return true
		})
		return dep
	}
	for _, st := range f.Body.List {
		// the switch form of the look-ahead: switch input.LA(k) { case c1, c2: return; case c3: if <cond> { return } } is read as the
		// guard if LA(k)==c1 || LA(k)==c2 || (LA(k)==c3 && <cond>) { return }
		if sw, ok := st.(*ast.SwitchStmt); ok && sw.Tag != nil && sw.Init == nil {
			if k, isLA := laCall(info, sw.Tag); isLA {
				var cond ast.Expr
				or := func(a, b ast.Expr) ast.Expr {
					if a == nil {
						return b
					}
					return &ast.BinaryExpr{X: a, Op: token.LOR, Y: b}
				}
				okForm := true
				for _, cs := range sw.Body.List {
					cc := cs.(*ast.CaseClause)
					if cc.List == nil {
						if len(cc.Body) != 0 {
							okForm = false
						}
						continue
					}
					var eq ast.Expr
					for _, xv := range cc.List {
						eq = or(eq, &ast.BinaryExpr{X: sw.Tag, Op: token.EQL, Y: xv})
						if tv, ok := info.Types[xv]; ok && tv.Value != nil {
							if v, ok := constant.Int64Val(constant.ToInt(tv.Value)); ok {
								if tests[k] == nil {
									tests[k] = map[int64]bool{}
								}
								tests[k][v] = true
							}
						}
					}
					// body: nothing | return | [v = <cond>;] if <cond or v> { return }
					defs := map[types.Object]ast.Expr{}
					var term ast.Expr
					done := false
					for _, bs := range cc.Body {
						if done {
							okForm = false
							break
						}
						switch b := bs.(type) {
						case *ast.ReturnStmt:
							term, done = eq, true
						case *ast.AssignStmt:
							if len(b.Lhs) == 1 && len(b.Rhs) == 1 {
								if id := identOf(b.Lhs[0]); id != nil {
									obj := info.Defs[id]
									if obj == nil {
										obj = info.Uses[id]
									}
									defs[obj] = b.Rhs[0]
									continue
								}
							}
							okForm = false
						case *ast.IfStmt:
							if b.Init != nil || b.Else != nil || !isTerminating(info, b.Body) {
								okForm = false
								break
							}
							var inner ast.Expr = b.Cond
							if id, ok := unparen(b.Cond).(*ast.Ident); ok {
								if d, ok := defs[info.Uses[id]]; ok {
									inner = d
								}
							}
							term, done = &ast.BinaryExpr{X: eq, Op: token.LAND, Y: &ast.ParenExpr{X: inner}}, true
						default:
							okForm = false
						}
					}
					if term != nil {
						cond = or(cond, term)
					}
				}
				if okForm && cond != nil {
					guards = append(guards, &ast.IfStmt{If: sw.Pos(), Cond: cond, Body: &ast.BlockStmt{Lbrace: sw.Pos(), List: []ast.Stmt{&ast.ReturnStmt{Return: sw.Pos()}}, Rbrace: sw.End()}})
				}
			}
			continue
		}
		is, ok := st.(*ast.IfStmt)
		if !ok {
			continue
		}
		if !isTerminating(info, is.Body) {
			continue
		}
		if dependsOnLA(is.Cond) || (is.Init != nil && dependsOnLA(is.Init)) {
			guards = append(guards, is)
		}
	}
	okGuard := len(guards) > 0 && (firstEffect == 0 || guards[0].Pos() < firstEffect)
	pos := w.Pos(f.Decl.Pos())
	if len(guards) > 0 {
		pos = w.Pos(guards[0].Pos())
	}
	c.ob("C08.R2", f.Name+"/look-ahead-guard", pos, okGuard, map[bool]string{true: "every push/pop and INDENT/DEDENT insertion of the NEWLINE handler follows a returning look-ahead test on the input stream", false: "the NEWLINE handler decides INDENT/DEDENT from the token text and the indent stack alone: a blank or comment-only line (whose NEWLINE token looks like that of a line at column 0) would close or open a block"}[okGuard])
	if !okGuard {
		return
	}
	// nothing that can refuse the script runs before the look-ahead: a blank or comment-only line must not be measured
	// by a function that panics on what its whitespace looks like (the panic is turned into a load error)
	{
		var mayPanic func(g *Func, seen map[*Func]bool) bool
		mayPanic = func(g *Func, seen map[*Func]bool) bool {
			if g == nil || g.Body == nil || seen[g] {
				return false
			}
			seen[g] = true
			found := false
			ast.Inspect(g.Body, func(q ast.Node) bool {
				if cl, ok := q.(*ast.CallExpr); ok {
					if id, ok := unparen(cl.Fun).(*ast.Ident); ok {
						if _, isB := info.Uses[id].(*types.Builtin); isB && id.Name == "panic" {
							found = true
						}
					}
					if callee := calleeOf(info, cl); callee != nil {
						if h := w.byObj[callee]; h != nil && h.Pkg == lx.pkg && mayPanic(h, seen) {
							found = true
						}
					}
				}
				return true
			})
			return found
		}
		early := ""
		var earlyPos token.Pos
		for _, st := range f.Body.List {
			if st.Pos() >= guards[0].Pos() {
				break
			}
			ast.Inspect(st, func(q ast.Node) bool {
				if cl, ok := q.(*ast.CallExpr); ok && early == "" {
					if callee := calleeOf(info, cl); callee != nil {
						if h := w.byObj[callee]; h != nil && h.Pkg == lx.pkg && mayPanic(h, map[*Func]bool{}) {
							early, earlyPos = h.Name, cl.Pos()
						}
					}
					if id, ok := unparen(cl.Fun).(*ast.Ident); ok {
						if _, isB := info.Uses[id].(*types.Builtin); isB && id.Name == "panic" {
							early, earlyPos = "panic", cl.Pos()
						}
					}
				}
				return true
			})
		}
		if early != "" {
			c.ob("C08.R2", f.Name+"/no-rejection-before-look-ahead", w.Pos(earlyPos), false, "the NEWLINE handler calls "+early+", which can panic (the script is then refused), before the look-ahead test: the whitespace of a blank or comment-only line could get a script refused, although such a line has no indentation of its own")
		} else {
			c.obN("C08.R2", f.Name+"/no-rejection-before-look-ahead", pos, true, "nothing that can refuse the script is called before the look-ahead test", false)
		}
	}
	// coverage of the line-break characters and of the comment opener
	var missing []string
	for r := range breakChars {
		if !tests[1][int64(r)] {
			missing = append(missing, "line-break character "+itoa(int(r)))
		}
	}
	sort.Strings(missing)
	c.ob("C08.R2", f.Name+"/covers-line-breaks", pos, len(missing) == 0, map[bool]string{true: "the look-ahead compares the next character with every line-break character of the NEWLINE rule (" + strings.Join(chars, ",") + ")", false: "the look-ahead does not recognise " + strings.Join(missing, ", ") + " as the start of a blank line: with that line ending, a blank line inside a block would still close it (LF and CRLF renderings of one script would differ)"}[len(missing) == 0])
	// the guard as a truth function of the two look-ahead characters, when it can be evaluated: true exactly for a line
	// break at LA(1) and for // at LA(1), LA(2) (the comparisons being there is not enough: `a || b` written `a && b`
	// never holds)
	if len(guards) > 0 && len(missing) == 0 {
		g := guards[0]
		noteLocalDefs(w, f)
		var wrong []string
		evaluable := true
		probes1 := []int64{'\n', '\r', '/', 'x', '-', '#', '<'}
		for r := range breakChars {
			probes1 = append(probes1, int64(r))
		}
		for _, a := range probes1 {
			for _, b := range []int64{'/', 'x', '\n'} {
				evalLeaf = func(e ast.Expr, _ int64) (int64, bool) {
					if k, ok := laCall(info, e); ok {
						switch k {
						case 1:
							return a, true
						case 2:
							return b, true
						}
					}
					return 0, false
				}
				// the returning look-ahead guards that precede the first effect, taken together
				got, ok := false, true
				for _, gi := range guards {
					if firstEffect != 0 && gi.Pos() > firstEffect {
						continue
					}
					_, gv, gok := evalIntExpr(info, gi.Cond, nil, 0)
					if !gok {
						ok = false
						break
					}
					got = got || gv
				}
				evalLeaf = nil
				if !ok {
					evaluable = false
					break
				}
				want := breakChars[rune(a)] || (a == '/' && b == '/')
				if got != want && len(wrong) < 3 {
					wrong = append(wrong, "LA(1)="+strconv.QuoteRune(rune(a))+", LA(2)="+strconv.QuoteRune(rune(b))+": "+map[bool]string{true: "treated as a line without content", false: "treated as a line with content"}[got])
				}
			}
		}
		if evaluable {
			c.ob("C08.R2", f.Name+"/look-ahead-truth", w.Pos(g.Pos()), len(wrong) == 0, map[bool]string{true: "the look-ahead test holds exactly for a line break at LA(1) and for // at LA(1), LA(2) (evaluated on " + itoa(len(probes1)*3) + " character pairs)", false: "the look-ahead test is wrong for " + strings.Join(wrong, "; ") + ": a blank or comment-only line would open or close a block, or a line with content would not"}[len(wrong) == 0])
		}
	}
	okComment := tests[1]['/'] && tests[2]['/']
	c.ob("C08.R2", f.Name+"/covers-comment-lines", pos, okComment, map[bool]string{true: "the look-ahead recognises the comment opener // (LA(1) and LA(2))", false: "the look-ahead does not recognise comment-only lines (// at LA(1), LA(2)): a comment at another indentation would open or close a block"}[okComment])
}

// laCall: e is X.LA(k) / X.LT(k) with constant k on an ANTLR stream.
func laCall(info *types.Info, e ast.Expr) (int64, bool) {
	call, ok := unparen(e).(*ast.CallExpr)
	if !ok || len(call.Args) != 1 {
		return 0, false
	}
	sel, ok := unparen(call.Fun).(*ast.SelectorExpr)
	if !ok || (sel.Sel.Name != "LA" && sel.Sel.Name != "LT") {
		return 0, false
	}
	callee := calleeOf(info, call)
	if callee == nil || callee.Pkg() == nil || !strings.Contains(callee.Pkg().Path(), "antlr") {
		return 0, false
	}
	tv, ok := info.Types[call.Args[0]]
	if !ok || tv.Value == nil {
		return 0, false
	}
	k, _ := constant.Int64Val(tv.Value)
	return k, true
}
