package main

// c03.go — C03: variables (compound assignment, type stability, storer as the source of truth).

import (
	"go/ast"
	"go/constant"
	"go/token"
	"go/types"
	"sort"
	"strings"

	"golang.org/x/tools/go/packages"
)

func init() {
	registry["C03"] = &propCheck{
		meta: propMeta{
			Level: "other",
			Explanation: "Decides, in the set-statement executor and around it: (R1) every assignment operator spelling of the grammar reaches, through the token map and the executor's switch, the update `previous OP value` " +
				"with the operands on the prescribed sides and only on the types Yarn allows; (R2) at most one storer mutation per statement, nothing but `return nil` after it, no error after a mutation; " +
				"(R3) each Set<T>Value is entailed to happen only if the variable was unknown or already of type T, and every read of the previous value only if it was found; " +
				"(R4) the storer supplied by the host is the only store: who may mutate it, which storer the evaluator reads, no cached values; (R5) the in-memory storer keeps one type per name; (R6) nil-safety of all dereferences.",
			NotDecided:  "numeric results of the Go operators; behaviour of host-supplied storers (assumption A2)",
			Assumptions: []string{"A1", "A2", "A3 (grammar tables)", "A4"},
			Trusted:     []string{"go/types", "golang.org/x/tools/go/cfg", "generated LiteralNames/SymbolicNames tables", "go/packages loader"},
		},
		run: checkC03,
	}
}

var yarnAssignOps = map[string]opSpec{
	"=":  {num: "V", boolean: "V", str: "V"},
	"*=": {num: "P*V"},
	"/=": {num: "P/V"},
	"%=": {num: "math.Mod(P,V)"},
	"+=": {num: "P+V", str: "P+V"},
	"-=": {num: "P-V"},
}

func checkC03(c *Ctx) {
	w := c.W
	wGlobal = w
	m := w.runner()
	c.rule("C03.R1", "compound assignment: each assignment operator of grammar rule set_statement reaches `previous OP value` (operands on the prescribed sides) for the types Yarn allows and an error otherwise; the token map is total and injective", 20)
	c.rule("C03.R2", "atomic statement: exactly one Set*Value on every path that returns nil, only `return nil` after it, no error return after a storer mutation", 1)
	c.rule("C03.R3", "type stability: each Set<T>Value is entailed by `variable unknown or previous value of type T`", 3)
	c.rule("C03.R4", "the host's storer is the source of truth: only the set executor and RestoreAt mutate it, it is the field set once by the constructor, the evaluator reads variables through it without caching, declare goes through the set executor with plain assignment", 8)
	c.rule("C03.R5", "InMemoryStorer: each Set<T>Value removes the name from the two sibling maps; GetValue, GetValues and Contains consult all three maps", 6)
	c.rule("C03.R6", "nil-safety of every dereference of value/previous-value alternatives in the set executor", 9)
	if !m.ok(c, "C03") {
		return
	}
	g := w.grammar()
	if len(g.problems) > 0 {
		c.undecided("C03.R1", "grammar: "+strings.Join(g.problems, "; "))
		return
	}
	info := m.pkg.TypesInfo
	f := m.set
	c.fn(f)
	x := w.expander(f)
	vm := w.valueModel()
	fam := func(fn *types.Func) bool { return vm.family[fn] }
	e := w.ent(f)
	e.installContracts(fam)

	// ----- anchors inside the executor
	sparam := paramName(f, "*tree.SetStatement")
	var evalCall, getCall *ast.CallExpr
	var okIdent *ast.Ident
	walkNoLit(f.Body, func(n ast.Node) bool {
		switch n := n.(type) {
		case *ast.CallExpr:
			if callee := calleeOf(info, n); callee != nil {
				if vm.family[callee] && len(n.Args) > 0 && x.str(n.Args[0]) == "$"+sparam+".Expression" {
					evalCall = n
				}
				if name, on := methodCallOn(info, n, m.fStore); on && name == "GetValue" {
					getCall = n
					if as, ok := w.parent[n].(*ast.AssignStmt); ok && len(as.Lhs) == 2 {
						okIdent = identOf(as.Lhs[1])
					}
				}
			}
		}
		return true
	})
	if evalCall == nil || getCall == nil || okIdent == nil {
		c.undecided("C03.R1", "set executor anchors not found (evaluation of statement.Expression, storer.GetValue with its found flag)")
		return
	}
	V := x.str(evalCall) + "#0"
	P := x.str(getCall) + "#0"
	if x.str(getCall.Args[0]) != "$"+sparam+".VariableID" {
		c.ob("C03.R4", f.Name+"/previous-value-key", w.Pos(getCall.Pos()), false, "the previous value is looked up under "+x.str(getCall.Args[0])+", not under the statement's variable")
	} else {
		c.ob("C03.R4", f.Name+"/previous-value-key", w.Pos(getCall.Pos()), true, "the previous value is the storer's current value of the statement's variable")
	}

	// ----- R1: token map + operation table
	toks, err := g.opTokens("set_statement", func(alt string) bool { return strings.Contains(alt, "op=") })
	if err != nil || len(toks) < 4 {
		c.undecided("C03.R1", "cannot read the assignment operator tokens from the grammar: "+errStr(err))
		return
	}
	c.Extra["grammar_assignment_operator_tokens"] = toks
	firstTok, ok := g.tokenConst[toks[0]]
	if !ok {
		c.undecided("C03.R1", "no generated constant for token "+toks[0])
		return
	}
	tm := findTokenMap(w, firstTok)
	if tm == nil {
		c.undecided("C03.R1", "no token→in-place-operator map found in internal/tree")
		return
	}
	c.fn(tm.fn)
	gramSet := map[int64]string{}
	for _, t := range toks {
		v, ok := g.tokenConst[t]
		if !ok {
			c.ob("C03.R1", "token "+t, w.Pos(tm.lit.Pos()), false, "no generated constant for grammar token "+t)
			continue
		}
		gramSet[v] = t
		_, mapped := tm.entries[v]
		c.ob("C03.R1", "token "+t, w.Pos(tm.lit.Pos()), mapped, map[bool]string{true: "mapped to " + tm.valName[tm.entries[v]], false: "assignment token " + t + " has no entry in the token map"}[mapped])
	}
	for k, name := range tm.keyName {
		if _, ok := gramSet[k]; !ok {
			c.ob("C03.R1", "foreign key "+name, w.Pos(tm.lit.Pos()), false, "the token map has a key the grammar's set_statement operator group does not contain")
		}
	}
	inv := map[int64][]string{}
	for k, v := range tm.entries {
		inv[v] = append(inv[v], tm.keyName[k])
	}
	inj := true
	for _, ks := range inv {
		if len(ks) > 1 {
			inj = false
			sort.Strings(ks)
			c.ob("C03.R1", "injective "+strings.Join(ks, ","), w.Pos(tm.lit.Pos()), false, "two assignment tokens map to the same operator: "+strings.Join(ks, ", "))
		}
	}
	if inj {
		c.ob("C03.R1", "injective", w.Pos(tm.lit.Pos()), true, "distinct tokens map to distinct operators")
	}

	// the type arms: tagless switch `case value.<Alt> != nil`
	type arm struct {
		alt  string
		cc   *ast.CaseClause
		set  *ast.CallExpr // the (last) Set<T>Value call of the arm
		altX ast.Expr      // the expression value.<Alt> of the arm's test
		sets []*ast.CallExpr
		sw   *ast.SwitchStmt
		stmt []ast.Stmt
	}
	var arms []arm
	walkNoLit(f.Body, func(n ast.Node) bool {
		sw, ok := n.(*ast.SwitchStmt)
		if !ok || sw.Tag != nil {
			return true
		}
		// the dispatch on the value's type is the switch whose arms write the storer (other switches over the same tests —
		// a comparison helper, say — are not it)
		writes := false
		walkNoLit(sw, func(q ast.Node) bool {
			if call, ok := q.(*ast.CallExpr); ok {
				if name, on := methodCallOn(info, call, m.fStore); on && strings.HasPrefix(name, "Set") {
					writes = true
				}
			}
			return true
		})
		if !writes {
			return true
		}
		for _, cl := range sw.Body.List {
			cc := cl.(*ast.CaseClause)
			if len(cc.List) != 1 {
				continue
			}
			b, ok := unparen(cc.List[0]).(*ast.BinaryExpr)
			if !ok || b.Op != token.NEQ || !isNilExpr(info, b.Y) {
				continue
			}
			s := x.str(b.X)
			for _, alt := range []string{"Number", "Boolean", "String"} {
				if s == V+"."+alt {
					a := arm{alt: alt, cc: cc, stmt: cc.Body, altX: b.X}
					for _, st := range cc.Body {
						walkNoLit(st, func(q ast.Node) bool {
							if call, ok := q.(*ast.CallExpr); ok {
								if name, on := methodCallOn(info, call, m.fStore); on && strings.HasPrefix(name, "Set") {
									a.set = call
									a.sets = append(a.sets, call)
								}
							}
							if isw, ok := q.(*ast.SwitchStmt); ok && isw.Tag != nil && a.sw == nil {
								a.sw = isw
							}
							return true
						})
					}
					arms = append(arms, a)
				}
			}
		}
		return true
	})
	if len(arms) != 3 {
		c.undecided("C03.R1", "expected three type arms (Number, Boolean, String) on the evaluated value in the set executor, found "+itoa(len(arms)))
		return
	}
	// per arm: operator constant -> description of the stored expression
	var describe func(ex ast.Expr, alt string, at *ast.CallExpr, opv int64) string
	describe = func(ex ast.Expr, alt string, at *ast.CallExpr, opv int64) string {
		operand := func(o ast.Expr) string {
			s := x.str(o)
			switch s {
			case P + "." + alt:
				return "P"
			case V + "." + alt:
				return "V"
			}
			for _, other := range []string{"Number", "Boolean", "String"} {
				if s == P+"."+other || s == V+"."+other {
					return "?{other alternative ." + other + "}"
				}
			}
			return "?{" + s + "}"
		}
		ex = unparen(ex)
		if id := identOf(ex); id != nil {
			if obj, ok := info.Uses[id].(*types.Var); ok {
				if rhs, idx, _, ok := x.def(obj); ok && rhs != nil && idx < 0 {
					ex = unparen(rhs)
				}
			}
		}
		switch a := ex.(type) {
		case *ast.BinaryExpr:
			return operand(a.X) + a.Op.String() + operand(a.Y)
		case *ast.CallExpr:
			if cal := calleeOf(info, a); cal != nil && len(a.Args) == 2 {
				return funcFullName(cal) + "(" + operand(a.Args[0]) + "," + operand(a.Args[1]) + ")"
			}
			// the operation is looked up in a read-only table of functions keyed by the operator
			if d, ok := c03TableCall(w, m.pkg, x, e, a, at, opv, operand); ok {
				return d
			}
		}
		return operand(ex)
	}
	tokVals := []int64{}
	for v := range gramSet {
		tokVals = append(tokVals, v)
	}
	sort.Slice(tokVals, func(i, j int) bool { return tokVals[i] < tokVals[j] })
	for _, a := range arms {
		if a.set == nil {
			c.ob("C03.R1", f.Name+"/arm "+a.alt, w.Pos(a.cc.Pos()), false, "the "+a.alt+" arm never stores a value")
			continue
		}
		wantSetter := "Set" + a.alt + "Value"
		if a.alt == "Boolean" {
			wantSetter = "SetBooleanValue"
		}
		for i, set := range a.sets {
			key := f.Name + "/arm " + a.alt + "/setter"
			if i > 0 {
				key += "#" + itoa(i+1)
			}
			setter, _ := methodCallOn(info, set, m.fStore)
			if setter != wantSetter || len(set.Args) != 2 || x.str(set.Args[0]) != "$"+sparam+".VariableID" {
				c.ob("C03.R1", key, w.Pos(set.Pos()), false, "the "+a.alt+" arm stores through "+setter+"("+x.str(set.Args[0])+", …) (want "+wantSetter+" under the statement's variable)")
			} else {
				c.obN("C03.R1", key, w.Pos(set.Pos()), true, "stores through "+wantSetter+" under the statement's variable", i == 0)
			}
		}
		// what is stored per operator: every Set call of the arm, for every operator the path facts at that call do not
		// exclude, stores the description of its value argument under that operator
		stored := map[int64]string{} // operator constant -> description
		note := func(opv int64, d string) {
			if old, ok := stored[opv]; ok && old != d {
				parts := strings.Split(old, " | ")
				for _, p := range parts {
					if p == d {
						return
					}
				}
				parts = append(parts, d)
				sort.Strings(parts)
				stored[opv] = strings.Join(parts, " | ")
				return
			}
			stored[opv] = d
		}
		var opExpr ast.Expr
		walkNoLit(f.Body, func(q ast.Node) bool {
			if se, ok := q.(*ast.SelectorExpr); ok && opExpr == nil && x.str(se) == "$"+sparam+".InPlaceOperator" {
				opExpr = se
			}
			return true
		})
		if opExpr == nil {
			c.undecided("C03.R1", "the set executor never inspects the statement's operator")
			return
		}
		excluded := func(at ast.Node, opv int64) bool {
			st := site{pos: at.Pos(), anc: at}
			ok, _ := e.Prove(at, Not{e.intEq(keyCtx{e: e, s: &st}, opExpr, opv)})
			return ok
		}
		for _, set := range a.sets {
			valueArg := set.Args[len(set.Args)-1]
			valueVar, _ := info.Uses[identOf(valueArg)].(*types.Var)
			// a local assigned in several places: the assignments the operator does not exclude
			var defs []*ast.AssignStmt
			if valueVar != nil {
				walkNoLit(f.Body, func(q ast.Node) bool {
					if as, ok := q.(*ast.AssignStmt); ok && len(as.Lhs) == 1 && len(as.Rhs) == 1 && as.Tok == token.ASSIGN {
						if id := identOf(as.Lhs[0]); id != nil && info.Uses[id] == valueVar {
							defs = append(defs, as)
						}
					}
					return true
				})
			}
			for _, tv := range tokVals {
				opv, mapped := tm.entries[tv]
				if !mapped || excluded(set, opv) {
					continue
				}
				if len(defs) > 0 {
					n := 0
					for _, as := range defs {
						if !excluded(as, opv) {
							note(opv, describe(as.Rhs[0], a.alt, set, opv))
							n++
						}
					}
					if n == 0 {
						note(opv, "?{"+valueVar.Name()+" is never assigned under this operator}")
					}
					continue
				}
				if d := describe(valueArg, a.alt, set, opv); d != "" {
					note(opv, d)
				}
			}
		}
		for _, tv := range tokVals {
			tok := gramSet[tv]
			sp, ok := g.spelling(tok)
			if !ok {
				c.undecided("C03.R1", "no spelling for token "+tok)
				continue
			}
			spec, ok := yarnAssignOps[sp]
			if !ok {
				c.undecided("C03.R1", "assignment operator "+sp+" is not in Yarn's table")
				continue
			}
			opv, mapped := tm.entries[tv]
			if !mapped {
				continue
			}
			want := map[string]string{"Number": spec.num, "Boolean": spec.boolean, "String": spec.str}[a.alt]
			got := stored[opv]
			key := "operator '" + sp + "' on " + a.alt
			switch {
			case want == "" && got == "":
				c.obN("C03.R1", key, w.Pos(a.cc.Pos()), true, "not allowed on "+a.alt+": nothing is stored", false)
			case want == got:
				c.ob("C03.R1", key, w.Pos(a.cc.Pos()), true, "stores "+got+" (P = previous value, V = assigned value)")
			case got == "":
				c.ob("C03.R1", key, w.Pos(a.cc.Pos()), false, "nothing is stored for '"+sp+"' on "+a.alt+"; Yarn prescribes "+want)
			case want == "":
				c.ob("C03.R1", key, w.Pos(a.cc.Pos()), false, "stores "+got+" for '"+sp+"' on "+a.alt+", which Yarn does not allow (must be an error)")
			default:
				c.ob("C03.R1", key, w.Pos(a.cc.Pos()), false, "stores "+got+" for '"+sp+"' on "+a.alt+"; Yarn prescribes "+want+" (P = previous value, V = assigned value)")
			}
		}
		// R3: type stability at the Set call
		var prevAlt ast.Expr
		walkNoLit(f.Body, func(q ast.Node) bool {
			if se, ok := q.(*ast.SelectorExpr); ok && prevAlt == nil && x.str(se) == P+"."+a.alt {
				prevAlt = se
			}
			return true
		})
		for i, set := range a.sets {
			key := f.Name + "/" + wantSetter
			if i > 0 {
				key += "#" + itoa(i+1)
			}
			if prevAlt == nil {
				c.ob("C03.R3", key, w.Pos(set.Pos()), false, "the previous value's "+a.alt+" alternative is never inspected: a variable of another type would silently change type")
				continue
			}
			at := site{pos: set.Pos(), anc: set}
			k := keyCtx{e: e, s: &at}
			goal := Or{Not{e.cond(k, okIdent, 0)}, e.nn(k, prevAlt)}
			ok, how := e.Prove(set, goal)
			c.obN("C03.R3", key, w.Pos(set.Pos()), ok, map[bool]string{true: "entailed: the variable was unknown or already a " + a.alt + " (" + how + ")", false: "a " + a.alt + " can be stored over an existing variable of another type: " + how}[ok], i == 0 || !ok)
		}
	}

	// ----- R1, completeness: an assignment Yarn allows never fails once its expression has been evaluated. Every return
	// that may carry an error is entailed by "the evaluation failed, or the (previous type, assigned type, operator)
	// combination is not an allowed one"
	{
		var evalErr *ast.Ident
		if as, ok := w.parent[evalCall].(*ast.AssignStmt); ok && len(as.Lhs) == 2 {
			evalErr = identOf(as.Lhs[1])
		}
		prevAltOf := map[string]ast.Expr{}
		walkNoLit(f.Body, func(q ast.Node) bool {
			if se, ok := q.(*ast.SelectorExpr); ok {
				for _, alt := range []string{"Number", "Boolean", "String"} {
					if prevAltOf[alt] == nil && x.str(se) == P+"."+alt {
						prevAltOf[alt] = se
					}
				}
			}
			return true
		})
		var opX ast.Expr
		walkNoLit(f.Body, func(q ast.Node) bool {
			if se, ok := q.(*ast.SelectorExpr); ok && opX == nil && x.str(se) == "$"+sparam+".InPlaceOperator" {
				opX = se
			}
			return true
		})
		var rets []*ast.ReturnStmt
		walkNoLit(f.Body, func(q ast.Node) bool {
			if r, ok := q.(*ast.ReturnStmt); ok {
				if len(r.Results) == 1 && isNilExpr(info, r.Results[0]) {
					return true
				}
				rets = append(rets, r)
			}
			return true
		})
		sort.Slice(rets, func(i, j int) bool { return rets[i].Pos() < rets[j].Pos() })
		nret := 0
		for _, r := range rets {
			if opX == nil || evalErr == nil {
				break
			}
			nret++
			at := site{pos: r.Pos(), anc: r}
			k := keyCtx{e: e, s: &at}
			bad := ""
			for _, a := range arms {
				pa := prevAltOf[a.alt]
				if pa == nil {
					continue
				}
				for _, tv := range tokVals {
					sp, _ := g.spelling(gramSet[tv])
					spec := yarnAssignOps[sp]
					want := map[string]string{"Number": spec.num, "Boolean": spec.boolean, "String": spec.str}[a.alt]
					opv, mapped := tm.entries[tv]
					if want == "" || !mapped {
						continue
					}
					combos := []Formula{And{e.nn(k, a.altX), And{e.intEq(k, opX, opv), And{e.cond(k, okIdent, 0), e.nn(k, pa)}}}}
					if sp == "=" {
						combos = append(combos, And{e.nn(k, a.altX), And{e.intEq(k, opX, opv), Not{e.cond(k, okIdent, 0)}}})
					}
					for ci, combo := range combos {
						goal := Or{e.nn(k, evalErr), Not{combo}}
						if ok, _ := e.Prove(r, goal); ok {
							continue
						}
						if c03TableExcludes(w, m.pkg, x, e, f, r, opv) {
							continue
						}
						if bad == "" {
							bad = "'" + sp + "' on a " + a.alt + map[int]string{0: " variable", 1: " value for a new variable"}[ci]
						}
					}
				}
			}
			key := f.Name + "/allowed-assignment-cannot-fail#" + itoa(nret)
			if bad != "" {
				c.ob("C03.R1", key, w.Pos(r.Pos()), false, "this failing return is reachable for "+bad+" although the expression evaluated: `v op= e` must store `v op e` whenever the types allow the operator")
			} else {
				c.ob("C03.R1", key, w.Pos(r.Pos()), true, "entailed: the evaluation failed or the combination of types and operator is not one Yarn allows")
			}
		}
	}

	// ----- R2
	// the state is "<base>" or "<base>|<alternatives known absent>"; a value has exactly one alternative (A1), so a path on
	// which all three are known absent is not a path
	splitR2 := func(st string) (string, string) {
		if i := strings.Index(st, "|"); i >= 0 {
			return st[:i], st[i+1:]
		}
		return st, ""
	}
	r := evtRule{
		start: "idle",
		edge: func(ei edgeInfo) []string {
			b, ok := unparen(ei.Cond).(*ast.BinaryExpr)
			if !ok || ei.Tag != nil || (b.Op != token.NEQ && b.Op != token.EQL) {
				return nil
			}
			var other ast.Expr
			if isNilExpr(info, b.Y) {
				other = b.X
			} else if isNilExpr(info, b.X) {
				other = b.Y
			}
			if other == nil {
				return nil
			}
			absent := (b.Op == token.NEQ) != ei.Branch
			if !absent {
				return nil
			}
			sx := x.str(other)
			for _, alt := range []string{"Number", "Boolean", "String"} {
				if sx == V+"."+alt {
					return []string{"NO:" + alt}
				}
			}
			return nil
		},
		prim: func(n ast.Node) []string {
			if call, ok := n.(*ast.CallExpr); ok {
				if name, on := methodCallOn(info, call, m.fStore); on && (strings.HasPrefix(name, "Set") || name == "Clear") {
					return []string{"SET"}
				}
				if callee := calleeOf(info, call); callee != nil {
					switch funcFullName(callee) {
					case "fmt.Errorf", "errors.New":
						return nil
					}
					if g := w.byObj[callee]; g != nil {
						return []string{"CALL"}
					}
					if callee.Pkg() != nil && callee.Pkg().Path() == modPath+"/variable" {
						return []string{"CALL"}
					}
				}
			}
			return nil
		},
		step: func(full, ev string) string {
			st, no := splitR2(full)
			if st == "dead" {
				return ""
			}
			if strings.HasPrefix(ev, "NO:") {
				alt := strings.TrimPrefix(ev, "NO:")
				if !has(strings.ReplaceAll(no, ",", " "), alt) {
					if no == "" {
						no = alt
					} else {
						parts := append(strings.Split(no, ","), alt)
						sort.Strings(parts)
						no = strings.Join(parts, ",")
					}
				}
				if strings.Count(no, ",") >= 2 {
					return "dead"
				}
				return st + "|" + no
			}
			nx := ""
			switch {
			case ev == "SET" && st == "idle":
				nx = "set"
			case ev == "SET":
				nx = "set-twice"
			case ev == "CALL" && st == "set":
				nx = "set-then-call"
			}
			if nx == "" {
				return ""
			}
			if no != "" {
				return nx + "|" + no
			}
			return nx
		},
		bad: func(full, ev string) string {
			st, _ := splitR2(full)
			switch st {
			case "set-twice":
				return "a second storer mutation on the same path: a failing or partial statement would leave the variable half-updated"
			case "set-then-call":
				if ev == "CALL" {
					return "a call follows the storer mutation inside the statement: only `return nil` may follow it"
				}
			}
			return ""
		},
		ret: func(full string, ret *ast.ReturnStmt, kind string) string {
			st, _ := splitR2(full)
			if st == "dead" {
				return ""
			}
			if st != "idle" && kind != "nil" {
				return "a return that may carry an error is reachable after the storer was mutated (a failing statement must leave every variable as it was)"
			}
			if st == "idle" && kind == "nil" {
				return "the statement can succeed without writing the storer: on that path the variable keeps its old value although the assignment was reported as done"
			}
			return ""
		},
	}
	fs := runEVT(w, f, r)
	if len(fs) == 0 {
		c.ob("C03.R2", f.Name+"/atomic", w.Pos(f.Decl.Pos()), true, "every path that succeeds mutates the storer exactly once and then returns nil; a path that fails mutates nothing")
	}
	for i, fd := range fs {
		c.ob("C03.R2", f.Name+"/atomic#"+itoa(i+1), w.Pos(fd.pos), false, fd.msg)
	}
	// the declare executor goes through the set executor: the same discipline around that call — nothing may fail after it
	if m.decl != nil && m.decl.Body != nil {
		dinfo := m.decl.Pkg.TypesInfo
		isSetCall := func(n ast.Node) bool {
			call, ok := n.(*ast.CallExpr)
			if !ok {
				return false
			}
			if callee := calleeOf(dinfo, call); callee != nil && w.byObj[callee] == m.set {
				return true
			}
			if name, on := methodCallOn(dinfo, call, m.fStore); on && (strings.HasPrefix(name, "Set") || name == "Clear") {
				return true
			}
			return false
		}
		rd := evtRule{
			start: "idle",
			prim: func(n ast.Node) []string {
				if isSetCall(n) {
					return []string{"SET"}
				}
				return nil
			},
			step: func(st, ev string) string {
				if ev == "SET" {
					if st == "idle" {
						return "set"
					}
					return "set-twice"
				}
				return ""
			},
			bad: func(st, ev string) string {
				if st == "set-twice" && ev == "SET" {
					return "the declaration writes the variable twice"
				}
				return ""
			},
			ret: func(st string, ret *ast.ReturnStmt, kind string) string {
				if st == "idle" || kind == "nil" {
					return ""
				}
				// handing on the set executor's own result is that executor's (atomic) outcome
				if len(ret.Results) == 1 && isSetCall(unparen(ret.Results[0])) {
					return ""
				}
				// `if err := set(…); err != nil { return err }`: the error of the call itself
				if len(ret.Results) == 1 {
					if id := identOf(ret.Results[0]); id != nil {
						if v, ok := dinfo.Uses[id].(*types.Var); ok {
							dx := w.expander(m.decl)
							if rhs, _, _, ok := dx.def(v); ok && rhs != nil && isSetCall(unparen(rhs)) {
								return ""
							}
						}
					}
				}
				return "an error can be returned after the declaration has already written the variable: a rejected declaration must leave the variable as it was"
			},
		}
		fsd := runEVT(w, m.decl, rd)
		if len(fsd) == 0 {
			c.ob("C03.R2", m.decl.Name+"/atomic", w.Pos(m.decl.Decl.Pos()), true, "nothing can fail after the declaration has written the variable")
		}
		for i, fd := range fsd {
			c.ob("C03.R2", m.decl.Name+"/atomic#"+itoa(i+1), w.Pos(fd.pos), false, fd.msg)
		}
	}

	// ----- R6
	valueObligations(c, "C03.R6", "", []*Func{f})

	// ----- R4
	c03R4(c, m, tm, g)

	// ----- R5
	c03R5(c)
}

func c03R4(c *Ctx, m *runnerModel, tm *tokenMap, g *grammarInfo) {
	w := c.W
	info := m.pkg.TypesInfo
	vm := w.valueModel()
	// who may mutate the storer / who reads the checkpoint
	for _, f := range w.FuncsIn(m.pkg) {
		if f.Body == nil {
			continue
		}
		n := 0
		walkNoLit(f.Body, func(q ast.Node) bool {
			switch q := q.(type) {
			case *ast.CallExpr:
				callee := calleeOf(info, q)
				if callee == nil || callee.Pkg() == nil || callee.Pkg().Path() != modPath+"/variable" {
					break
				}
				recvIface := false
				if sig, ok := callee.Type().(*types.Signature); ok && sig.Recv() != nil {
					_, recvIface = sig.Recv().Type().Underlying().(*types.Interface)
				}
				if !recvIface {
					break
				}
				if strings.HasPrefix(callee.Name(), "Set") || callee.Name() == "Clear" {
					n++
					okc := f == m.set || f == m.restore
					c.ob("C03.R4", f.Name+"/storer-mutation "+callee.Name()+"#"+itoa(n), w.Pos(q.Pos()), okc, map[bool]string{true: "sanctioned mutation site", false: "the storer is mutated in " + f.Name + ": only the set-statement executor and RestoreAt may write variables"}[okc])
					// through the runner's field
					if sel, ok := unparen(q.Fun).(*ast.SelectorExpr); ok && lastField(info, sel.X) != m.fStore {
						c.ob("C03.R4", f.Name+"/storer-identity "+callee.Name()+"#"+itoa(n), w.Pos(q.Pos()), false, "the mutated storer is "+exprStr(sel.X)+", not the runner's storer field")
					}
				}
			}
			return true
		})
	}
	// every evaluation started by the runner reads through the storer field
	nEval := 0
	for _, f := range w.FuncsIn(m.pkg) {
		if f.Body == nil || f.Decl == nil || f.Decl.Recv == nil {
			continue
		}
		walkNoLit(f.Body, func(q ast.Node) bool {
			call, ok := q.(*ast.CallExpr)
			if !ok {
				return true
			}
			callee := calleeOf(info, call)
			if callee == nil || !vm.family[callee] {
				return true
			}
			sig := callee.Type().(*types.Signature)
			for i := 0; i < sig.Params().Len() && i < len(call.Args); i++ {
				if typeStr(sig.Params().At(i).Type()) == "variable.Retriever" {
					nEval++
					okr := lastField(info, call.Args[i]) == m.fStore
					c.ob("C03.R4", f.Name+"/evaluates-through-storer#"+itoa(nEval), w.Pos(call.Pos()), okr, map[bool]string{true: "variables are read through the runner's storer", false: "an evaluation reads variables through " + exprStr(call.Args[i]) + ", not the host's storer"}[okr])
				}
			}
			return true
		})
	}
	// the evaluator returns the retriever's answer for a variable expression (no cache)
	for _, f := range w.FuncsIn(m.pkg) {
		if f.Obj == nil || !vm.family[f.Obj] || f.Body == nil {
			continue
		}
		x := w.expander(f)
		walkNoLit(f.Body, func(q ast.Node) bool {
			cc, ok := q.(*ast.CaseClause)
			if !ok || len(cc.List) != 1 {
				return true
			}
			b, ok := unparen(cc.List[0]).(*ast.BinaryExpr)
			if !ok || b.Op != token.NEQ {
				return true
			}
			fld := lastField(info, b.X)
			if fld == nil || fld.Name() != "VariableID" {
				return true
			}
			okRet, n := true, 0
			why := ""
			for _, st := range cc.Body {
				walkNoLit(st, func(r ast.Node) bool {
					ret, ok := r.(*ast.ReturnStmt)
					if !ok || len(ret.Results) != 2 || !isNilExpr(info, ret.Results[1]) {
						return true
					}
					n++
					s := x.str(ret.Results[0])
					if !(strings.HasSuffix(s, ".GetValue($"+paramName(f, "*tree.Expression")+".VariableID)#0") && strings.HasPrefix(s, "$")) {
						okRet = false
						why = s
					}
					return true
				})
			}
			c.ob("C03.R4", f.Name+"/variable-read", w.Pos(cc.Pos()), okRet && n > 0, map[bool]string{true: "a variable expression yields what Retriever.GetValue returns in the same activation", false: "a variable expression yields " + why + ", not the retriever's current answer"}[okRet && n > 0])
			return true
		})
	}
	// the storer field is set once, by the constructor, from the host's argument
	stores := 0
	ci := m.ctorInit(w)
	for _, f := range w.FuncsIn(m.pkg) {
		if f.Body == nil {
			continue
		}
		ast.Inspect(f.Body, func(q ast.Node) bool {
			switch q := q.(type) {
			case *ast.AssignStmt:
				for _, l := range q.Lhs {
					if _, isSel := unparen(l).(*ast.SelectorExpr); isSel && lastField(info, l) == m.fStore {
						if f == m.ctor && ci.isInitStore(m, q) {
							continue // part of the construction: checked as the initial value below
						}
						stores++
						c.ob("C03.R4", f.Name+"/storer-field-store#"+itoa(stores), w.Pos(q.Pos()), false, "the runner's storer field is reassigned after construction")
					}
				}
			case *ast.CompositeLit:
				if tv, ok := info.Types[q]; ok && tv.Type == types.Type(m.T) && f != m.ctor {
					c.ob("C03.R4", f.Name+"/storer-field-init", w.Pos(q.Pos()), false, "a dialogue runner is built outside the constructor")
				}
			}
			return true
		})
	}
	{
		v := ci.fields[m.fStore.Name()]
		okv := false
		if id := identOf(v); v != nil && id != nil {
			if obj, ok := info.Uses[id].(*types.Var); ok && m.ctor.Sig().Params().Len() > 0 && obj == m.ctor.Sig().Params().At(0) {
				okv = true
			}
		}
		c.ob("C03.R4", m.ctor.Name+"/storer-field-init", w.Pos(ci.pos), okv, map[bool]string{true: "the storer field is the constructor's storer argument (defaulted when nil)", false: "the runner is built with a storer other than the host's argument"}[okv])
	}
	// the default applies only to a nil argument
	if m.ctor != nil {
		p0 := m.ctor.Sig().Params().At(0)
		walkNoLit(m.ctor.Body, func(q ast.Node) bool {
			as, ok := q.(*ast.AssignStmt)
			if !ok || len(as.Lhs) != 1 {
				return true
			}
			if id := identOf(as.Lhs[0]); id != nil && info.Uses[id] == p0 {
				e := w.ent(m.ctor)
				ok, how := e.Prove(as, Not{e.nn(e.k(), id)})
				c.ob("C03.R4", m.ctor.Name+"/storer-default", w.Pos(as.Pos()), ok, map[bool]string{true: "the host's storer is replaced only when it is nil", false: "the host's storer can be replaced although it is not nil: " + how}[ok])
			}
			return true
		})
	}
	// checkpoint field: read only by Snapshot and RestoreAt
	for _, f := range w.FuncsIn(m.pkg) {
		if f.Body == nil {
			continue
		}
		walkNoLit(f.Body, func(q ast.Node) bool {
			se, ok := q.(*ast.SelectorExpr)
			if !ok || lastField(info, se) != m.fSnap {
				return true
			}
			// a read unless it is the left-hand side of an assignment
			if as, ok := w.parent[se].(*ast.AssignStmt); ok {
				for _, l := range as.Lhs {
					if l == ast.Expr(se) {
						return true
					}
				}
			}
			okr := f == m.snapshot || f == m.restore
			c.obN("C03.R4", f.Name+"/checkpoint-read", w.Pos(se.Pos()), okr, map[bool]string{true: "the checkpoint is read by Snapshot/RestoreAt only", false: "the variables checkpoint is read in " + f.Name + ": script-visible values must come from the storer"}[okr], false)
			return true
		})
	}
	// declare → set executor with plain assignment
	if m.decl != nil {
		c.fn(m.decl)
		assignConst := int64(-1)
		for tokName, tv := range g.tokenConst {
			if sp, ok := g.spelling(tokName); ok && sp == "=" {
				if o, ok := tm.entries[tv]; ok {
					assignConst = o
				}
			}
		}
		found := false
		walkNoLit(m.decl.Body, func(q ast.Node) bool {
			call, ok := q.(*ast.CallExpr)
			if !ok {
				return true
			}
			if callee := calleeOf(info, call); callee != nil && w.byObj[callee] == m.set && len(call.Args) == 1 {
				found = true
				dx := w.expander(m.decl)
				dp := paramName(m.decl, "*tree.DeclareStatement")
				// the statement handed over: a literal, or a local completed field by field before the call
				litField := func(arg ast.Expr, name string) ast.Expr {
					if v := litField(arg, name); v != nil {
						return v
					}
					a := unparen(arg)
					if u, ok := a.(*ast.UnaryExpr); ok && u.Op == token.AND {
						a = unparen(u.X)
					}
					if id := identOf(a); id != nil {
						if fields, ok := w.builtFields(m.decl, info.Uses[id]); ok {
							if v := fields[name]; v != nil && v.Pos() < call.Pos() {
								return v
							}
						}
					}
					return nil
				}
				op := litField(call.Args[0], "InPlaceOperator")
				okOp := false
				if op != nil {
					if tv, ok := info.Types[op]; ok && tv.Value != nil {
						v, _ := constant.Int64Val(tv.Value)
						okOp = v == assignConst
					}
				}
				okVar := litField(call.Args[0], "VariableID") != nil && dx.str(litField(call.Args[0], "VariableID")) == "$"+dp+".VariableID"
				okExpr := litField(call.Args[0], "Expression") != nil && dx.str(litField(call.Args[0], "Expression")) == "$"+dp+".Value"
				all := okOp && okVar && okExpr
				c.ob("C03.R4", m.decl.Name+"/through-set-executor", w.Pos(call.Pos()), all, map[bool]string{true: "declare runs the set executor with plain assignment of the declared value to the declared variable", false: "declare does not reduce to a plain assignment of its value to its variable"}[all])
			}
			return true
		})
		if !found {
			c.ob("C03.R4", m.decl.Name+"/through-set-executor", w.Pos(m.decl.Decl.Pos()), false, "declare does not go through the set-statement executor (type stability and atomicity would not apply)")
		}
	}
}

func c03R5(c *Ctx) {
	w := c.W
	vp := w.Pkg("variable")
	info := vp.TypesInfo
	st := namedType(vp, "InMemoryStorer")
	if st == nil {
		c.undecided("C03.R5", "type InMemoryStorer not found")
		return
	}
	s := st.Underlying().(*types.Struct)
	var maps []*types.Var
	for i := 0; i < s.NumFields(); i++ {
		if _, ok := s.Field(i).Type().Underlying().(*types.Map); ok {
			maps = append(maps, s.Field(i))
		}
	}
	if len(maps) == 0 {
		c.undecided("C03.R5", "InMemoryStorer holds no map")
		return
	}
	for _, f := range w.FuncsIn(vp) {
		if f.Decl == nil || f.Decl.Recv == nil || f.Body == nil || typeStr(f.Sig().Recv().Type()) != "*variable.InMemoryStorer" {
			continue
		}
		name := f.Decl.Name.Name
		switch {
		case strings.HasPrefix(name, "Set"):
			c.fn(f)
			written := map[*types.Var]bool{}
			deleted := map[*types.Var]bool{}
			keyParam := f.Sig().Params().At(0)
			walkNoLit(f.Body, func(q ast.Node) bool {
				switch q := q.(type) {
				case *ast.AssignStmt:
					for _, l := range q.Lhs {
						if ix, ok := unparen(l).(*ast.IndexExpr); ok {
							if fld := lastField(info, ix.X); fld != nil && identOf(ix.Index) != nil && info.Uses[identOf(ix.Index)] == keyParam {
								written[fld] = true
							}
						}
					}
				case *ast.CallExpr:
					if isBuiltin(info, q, "delete") && len(q.Args) == 2 {
						if fld := lastField(info, q.Args[0]); fld != nil && identOf(q.Args[1]) != nil && info.Uses[identOf(q.Args[1])] == keyParam {
							// unconditional: a top-level statement
							if es, ok := w.parent[q].(*ast.ExprStmt); ok && w.parent[es] == ast.Node(f.Body) {
								deleted[fld] = true
							}
						}
					}
				}
				return true
			})
			okAll := len(written) == 1
			var missing []string
			for _, mp := range maps {
				if !written[mp] && !deleted[mp] {
					okAll = false
					missing = append(missing, mp.Name())
				}
			}
			c.ob("C03.R5", f.Name+"/one-type-per-name", w.Pos(f.Decl.Pos()), okAll, map[bool]string{true: "writes one map and removes the name from the " + itoa(len(maps)-1) + " sibling maps", false: "leaves the name in " + strings.Join(missing, ", ") + ": the storer could report one name under two types"}[okAll])
		case name == "GetValue" || name == "GetValues" || name == "Contains" || name == "Clear":
			c.fn(f)
			seen := map[*types.Var]bool{}
			walkNoLit(f.Body, func(q ast.Node) bool {
				if se, ok := q.(*ast.SelectorExpr); ok {
					if fld := lastField(info, se); fld != nil {
						seen[fld] = true
					}
				}
				return true
			})
			var missing []string
			for _, mp := range maps {
				if !seen[mp] {
					missing = append(missing, mp.Name())
				}
			}
			c.ob("C03.R5", f.Name+"/all-maps", w.Pos(f.Decl.Pos()), len(missing) == 0, map[bool]string{true: "consults all " + itoa(len(maps)) + " maps", false: name + " ignores " + strings.Join(missing, ", ")}[len(missing) == 0])
		}
	}
}

// c03TableCall: call is `op(a, b)` where op is a local read once from a read-only package-level map of functions,
// `op, known := table[KEY]`. Returns what the call computes when KEY == opv: the entry's body with the arguments in the
// places of its parameters, "" (nothing: the Set call is not reached) when the table has no entry for opv and the call
// site is entailed by `known`, and a description that matches nothing when a missing entry would be called.
func c03TableCall(w *World, pkg *packages.Package, x *expander, e *entFn, call, at *ast.CallExpr, opv int64, operand func(ast.Expr) string) (string, bool) {
	info := pkg.TypesInfo
	fid := identOf(call.Fun)
	if fid == nil || len(call.Args) != 2 {
		return "", false
	}
	fv, ok := info.Uses[fid].(*types.Var)
	if !ok {
		return "", false
	}
	rhs, idx, _, ok := x.def(fv)
	if !ok || rhs == nil {
		return "", false
	}
	ix, ok := unparen(rhs).(*ast.IndexExpr)
	if !ok || idx > 0 {
		return "", false
	}
	tid := identOf(ix.X)
	if tid == nil {
		return "", false
	}
	lit, why := readOnlyTable(w, pkg, info.Uses[tid])
	if lit == nil {
		return "?{function from " + tid.Name + ", which is not a read-only table: " + why + "}", true
	}
	if x.str(ix.Index) != x.str(unparen(ix.Index)) || !strings.HasSuffix(x.str(ix.Index), ".InPlaceOperator") {
		return "?{function looked up under " + x.str(ix.Index) + "}", true
	}
	var entry ast.Expr
	for _, el := range lit.Elts {
		kv, ok := el.(*ast.KeyValueExpr)
		if !ok {
			continue
		}
		if tv, ok := info.Types[kv.Key]; ok && tv.Value != nil && tv.Value.Kind() == constant.Int {
			if k, _ := constant.Int64Val(tv.Value); k == opv {
				entry = unparen(kv.Value)
			}
		}
	}
	if entry == nil {
		// no entry: the zero function must not be called; the found flag has to guard the call
		if as, ok := w.parent[ix].(*ast.AssignStmt); ok && len(as.Lhs) == 2 {
			if flag := identOf(as.Lhs[1]); flag != nil && flag.Name != "_" {
				st := site{pos: at.Pos(), anc: at}
				if ok, _ := e.Prove(at, e.cond(keyCtx{e: e, s: &st}, flag, 0)); ok {
					return "", true
				}
			}
		}
		return "?{the table has no entry for this operator and the missing function is called}", true
	}
	switch fn := entry.(type) {
	case *ast.FuncLit:
		if len(fn.Body.List) == 1 && fn.Type.Params.NumFields() == 2 {
			if ret, ok := fn.Body.List[0].(*ast.ReturnStmt); ok && len(ret.Results) == 1 {
				var params []types.Object
				for _, fl := range fn.Type.Params.List {
					for _, nm := range fl.Names {
						params = append(params, info.Defs[nm])
					}
				}
				arg := func(o ast.Expr) string {
					if id := identOf(unparen(o)); id != nil && len(params) == 2 {
						for i, p := range params {
							if info.Uses[id] == p {
								return operand(call.Args[i])
							}
						}
					}
					return "?{" + types.ExprString(o) + "}"
				}
				switch r := unparen(ret.Results[0]).(type) {
				case *ast.BinaryExpr:
					return arg(r.X) + r.Op.String() + arg(r.Y), true
				case *ast.CallExpr:
					if cal := calleeOf(info, r); cal != nil && len(r.Args) == 2 {
						return funcFullName(cal) + "(" + arg(r.Args[0]) + "," + arg(r.Args[1]) + ")", true
					}
				}
			}
		}
		return "?{a function literal that is not a single binary operation}", true
	default:
		if cal := funcValueOf(info, entry); cal != nil {
			return funcFullName(cal) + "(" + operand(call.Args[0]) + "," + operand(call.Args[1]) + ")", true
		}
	}
	return "?{" + types.ExprString(entry) + "}", true
}

// funcValueOf: the declared function an expression names (f, pkg.F), nil otherwise.
func funcValueOf(info *types.Info, ex ast.Expr) *types.Func {
	switch a := unparen(ex).(type) {
	case *ast.Ident:
		fn, _ := info.Uses[a].(*types.Func)
		return fn
	case *ast.SelectorExpr:
		fn, _ := info.Uses[a.Sel].(*types.Func)
		return fn
	}
	return nil
}

// c03TableExcludes: the return is entailed by `!known` where `_, known := table[operator]` reads a read-only table that
// has an entry for opv — the return is not reachable under that operator.
func c03TableExcludes(w *World, pkg *packages.Package, x *expander, e *entFn, f *Func, r *ast.ReturnStmt, opv int64) bool {
	info := pkg.TypesInfo
	found := false
	walkNoLit(f.Body, func(q ast.Node) bool {
		as, ok := q.(*ast.AssignStmt)
		if !ok || len(as.Lhs) != 2 || len(as.Rhs) != 1 || found {
			return true
		}
		ix, ok := unparen(as.Rhs[0]).(*ast.IndexExpr)
		if !ok || !strings.HasSuffix(x.str(ix.Index), ".InPlaceOperator") {
			return true
		}
		tid, flag := identOf(ix.X), identOf(as.Lhs[1])
		if tid == nil || flag == nil || flag.Name == "_" {
			return true
		}
		lit, _ := readOnlyTable(w, pkg, info.Uses[tid])
		if lit == nil {
			return true
		}
		has := false
		for _, el := range lit.Elts {
			if kv, ok := el.(*ast.KeyValueExpr); ok {
				if tv, ok := info.Types[kv.Key]; ok && tv.Value != nil && tv.Value.Kind() == constant.Int {
					if k, _ := constant.Int64Val(tv.Value); k == opv {
						has = true
					}
				}
			}
		}
		if !has || as.Pos() > r.Pos() {
			return true
		}
		st := site{pos: r.Pos(), anc: r}
		if ok, _ := e.Prove(r, Not{e.cond(keyCtx{e: e, s: &st}, flag, 0)}); ok {
			found = true
		}
		return true
	})
	return found
}
