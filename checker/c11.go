package main

// c11.go — C11: visited / visited_count count completed visits of tracked nodes only.

import (
	"go/ast"
	"go/constant"
	"go/token"
	"go/types"
	"strings"

	"golang.org/x/tools/go/ssa"
)

func init() {
	registry["C11"] = &propCheck{
		meta: propMeta{
			Level: "other",
			Explanation: "Decides the lemmas from which the visit-count invariant follows by induction on jumps: (R1) the visit map is updated in place only by `+1` in one function called only by the jump executor, and replaced wholesale only by the constructor and RestoreAt; " +
				"(R2) every successful jump performs that update exactly once, keyed by the node being left (before the current node is renamed), and a failed jump never; (R3) the update is entailed by the found node's `tracking` header differing from \"never\"; " +
				"(R4) the script functions visited/visited_count look the name up in the runner's live map field at call time.",
			NotDecided:  "count values along concrete histories (the induction is the reader's; the lemmas are checked)",
			Assumptions: []string{"A4", "A5"},
			Trusted:     []string{"go/types", "golang.org/x/tools/go/cfg", "golang.org/x/tools/go/ssa", "go/packages loader"},
		},
		run: checkC11,
	}
}

func checkC11(c *Ctx) {
	w := c.W
	wGlobal = w
	m := w.runner()
	c.rule("C11.R1", "who may write the visit map: in-place updates are `+1` only, in one function called only from the jump executor; whole-map assignments only in the constructor and RestoreAt", 4)
	c.rule("C11.R2", "a successful jump counts the node being left exactly once, before currentNode is renamed, keyed by currentNode; a failed jump counts nothing", 3)
	c.rule("C11.R3", "the count update is entailed by: the node found under the key exists and its tracking header is not \"never\"", 2)
	c.rule("C11.R6", "visited(n) is true exactly when the count is positive: the registered function returns count > 0 for the count looked up in the live visit map, not the presence of the key", 1)
	c.rule("C11.R4", "visited and visited_count read the runner's live visit map field at call time (not a map captured at registration)", 2)
	if !m.ok(c, "C11") {
		return
	}
	// R5: the visit map stays private (premise decided by C07.R1): a snapshot holding the live map, or a runner adopting the
	// map of a snapshot, lets later jumps (or the host) change counts that the property says only jumps and restores change
	c.rule("C11.R5", "the visit map is private to the runner: the map handed out by Snapshot and the map adopted by RestoreAt are fresh copies (C07.R1 on the visit map)", 2)
	{
		n5 := 0
		for _, o := range otherRuleObligations(w, "C07.R1") {
			if o.Rule != "C07.R1" || m.fVis == nil || !strings.Contains(strings.ToLower(o.Key), strings.ToLower(m.fVis.Name())) {
				continue
			}
			n5++
			c.ob("C11.R5", o.Key, o.Pos, o.OK, map[bool]string{true: "C07.R1 holds: " + o.How, false: "the visit counts become reachable from outside the runner (C07.R1 fails: " + o.How + "): counts recorded in a snapshot change with later jumps, or a restored runner shares its counts"}[o.OK])
		}
		if n5 == 0 {
			c.undecided("C11.R5", "premise C07.R1 produced no obligation about the visit map")
		}
	}
	info := m.pkg.TypesInfo
	if m.incVisit == nil {
		c.ob("C11.R1", "visit-update", w.Pos(m.jump.Decl.Pos()), false, "no function updates the visit map in place: nodes are never counted")
		return
	}
	c.fn(m.incVisit)
	c.fn(m.jump)

	// ----- R1
	for _, f := range w.FuncsIn(m.pkg) {
		if f.Body == nil {
			continue
		}
		n := 0
		walkNoLit(f.Body, func(q ast.Node) bool {
			switch q := q.(type) {
			case *ast.IncDecStmt:
				if ix, ok := unparen(q.X).(*ast.IndexExpr); ok && lastField(info, ix.X) == m.fVis {
					n++
					ok := q.Tok == token.INC && f == m.incVisit
					c.ob("C11.R1", f.Name+"/in-place#"+itoa(n), w.Pos(q.Pos()), ok, map[bool]string{true: "the single +1 update", false: "the visit map is updated in place by " + q.Tok.String() + " in " + f.Name + " (counts may only grow by one, in the visit updater)"}[ok])
				}
			case *ast.AssignStmt:
				for i, l := range q.Lhs {
					if ix, ok := unparen(l).(*ast.IndexExpr); ok && lastField(info, ix.X) == m.fVis {
						n++
						plusOne := false
						if q.Tok == token.ADD_ASSIGN && exprStr(q.Rhs[i]) == "1" {
							plusOne = true
						}
						if b, ok := unparen(q.Rhs[i]).(*ast.BinaryExpr); ok && q.Tok == token.ASSIGN && b.Op == token.ADD && exprStr(b.Y) == "1" {
							if ix2, ok := unparen(b.X).(*ast.IndexExpr); ok && exprStr(ix2) == exprStr(ix) {
								plusOne = true
							}
						}
						// copying a snapshot entry by entry is a wholesale replacement of a fresh map (RestoreAt)
						if f == m.restore || f == m.ctor {
							c.obN("C11.R1", f.Name+"/fill#"+itoa(n), w.Pos(q.Pos()), true, "fills the fresh map installed by "+f.Name, false)
							continue
						}
						okU := plusOne && f == m.incVisit
						c.ob("C11.R1", f.Name+"/in-place#"+itoa(n), w.Pos(q.Pos()), okU, map[bool]string{true: "the single +1 update", false: "the visit map is written in " + f.Name + " by something other than the +1 of the visit updater"}[okU])
					}
					if _, isSel := unparen(l).(*ast.SelectorExpr); isSel && lastField(info, l) == m.fVis {
						n++
						okW := f == m.restore || f == m.ctor
						c.ob("C11.R1", f.Name+"/replace#"+itoa(n), w.Pos(q.Pos()), okW, map[bool]string{true: "whole-map assignment in " + f.Name, false: "the visit map is replaced in " + f.Name + " (only the constructor and RestoreAt may do that)"}[okW])
					}
				}
			case *ast.CallExpr:
				if isBuiltin(info, q, "delete") || isBuiltin(info, q, "clear") {
					if len(q.Args) > 0 && lastField(info, q.Args[0]) == m.fVis {
						n++
						c.ob("C11.R1", f.Name+"/delete#"+itoa(n), w.Pos(q.Pos()), false, "entries are removed from the visit map: counts must never decrease")
					}
				}
				if callee := calleeOf(info, q); callee != nil && w.byObj[callee] == m.incVisit && m.incVisit != m.jump {
					n++
					okC := f == m.jump
					c.ob("C11.R1", f.Name+"/caller#"+itoa(n), w.Pos(q.Pos()), okC, map[bool]string{true: "called from the jump executor", false: "the visit updater is called from " + f.Name + ": only jumps may count a visit"}[okC])
				}
			}
			return true
		})
	}
	// the initial map
	{
		ci := m.ctorInit(w)
		v := ci.fields[m.fVis.Name()]
		okInit := false
		if v != nil {
			if vl, ok := unparen(v).(*ast.CompositeLit); ok && len(vl.Elts) == 0 {
				okInit = true
			}
			if call, ok := unparen(v).(*ast.CallExpr); ok && isBuiltin(info, call, "make") {
				okInit = true
			}
		}
		c.ob("C11.R1", m.ctor.Name+"/initial-map", w.Pos(ci.pos), okInit, map[bool]string{true: "a new runner starts with an empty, non-nil visit map", false: "a new runner does not start with an empty visit map (counts must start at 0; a nil map would panic on the first jump)"}[okInit])
	}

	// ----- R2
	jf := jumpAutomaton(w, m)
	for _, seq := range seqList(jf.successSeqs) {
		toks := strings.Fields(seq)
		incs, incIdx, setIdx := 0, -1, -1
		for i, t := range toks {
			if t == "INC" {
				incs++
				if incIdx < 0 {
					incIdx = i
				}
			}
			if t == "SETNODE" && setIdx < 0 {
				setIdx = i
			}
		}
		ok := incs == 1 && (setIdx < 0 || incIdx < setIdx)
		why := "success path [" + seq + "]: the visit is counted once, before the current node is renamed"
		if incs != 1 {
			why = "success path [" + seq + "] counts the visit " + itoa(incs) + " times (want exactly once per completed visit)"
		} else if !ok {
			why = "success path [" + seq + "] counts the visit after currentNode was renamed: the node entered is counted instead of the node left"
		}
		c.ob("C11.R2", m.jump.Name+"/success-seq["+seq+"]", w.Pos(m.jump.Decl.Pos()), ok, why)
	}
	for _, seq := range seqList(jf.errSeqs) {
		ok := !has(seq, "INC")
		c.ob("C11.R2", m.jump.Name+"/error-seq["+seq+"]", w.Pos(m.jump.Decl.Pos()), ok, map[bool]string{true: "a failed jump counts nothing", false: "a failed jump (error return after [" + seq + "]) has already counted a visit"}[ok])
	}
	// the key of the update and of the header lookup
	x := w.expander(m.incVisit)
	recv := "$" + recvName(m.incVisit)
	var update ast.Node
	var keyExpr ast.Expr
	walkNoLit(m.incVisit.Body, func(q ast.Node) bool {
		switch q := q.(type) {
		case *ast.IncDecStmt:
			if ix, ok := unparen(q.X).(*ast.IndexExpr); ok && lastField(info, ix.X) == m.fVis {
				update, keyExpr = q, ix.Index
			}
		case *ast.AssignStmt:
			for _, l := range q.Lhs {
				if ix, ok := unparen(l).(*ast.IndexExpr); ok && lastField(info, ix.X) == m.fVis {
					update, keyExpr = q, ix.Index
				}
			}
		}
		return true
	})
	if update == nil {
		c.undecided("C11.R2", "update statement not found in the visit updater")
		return
	}
	okKey := x.str(keyExpr) == recv+"."+m.fNode.Name()
	c.ob("C11.R2", m.incVisit.Name+"/key", w.Pos(update.Pos()), okKey, map[bool]string{true: "the count is keyed by currentNode (the node being left, as the jump executor renames afterwards)", false: "the count is keyed by " + x.str(keyExpr) + ", not by the runner's current node"}[okKey])

	// ----- R3
	e := w.ent(m.incVisit)
	at := site{pos: update.Pos(), anc: update}
	var hdrCmp *ast.BinaryExpr
	walkNoLit(m.incVisit.Body, func(q ast.Node) bool {
		b, ok := q.(*ast.BinaryExpr)
		if !ok || (b.Op != token.NEQ && b.Op != token.EQL) {
			return true
		}
		for _, side := range [][2]ast.Expr{{b.X, b.Y}, {b.Y, b.X}} {
			hv := unparen(side[0])
			// the header value may be trimmed before the comparison: strings.TrimSpace(node.Headers["tracking"])
			if tc, isCall := hv.(*ast.CallExpr); isCall && len(tc.Args) == 1 {
				if callee := calleeOf(info, tc); callee != nil && funcFullName(callee) == "strings.TrimSpace" {
					hv = unparen(tc.Args[0])
				}
			}
			ix, ok := hv.(*ast.IndexExpr)
			if !ok {
				continue
			}
			tvK, ok1 := info.Types[ix.Index]
			tvC, ok2 := info.Types[side[1]]
			if ok1 && ok2 && tvK.Value != nil && tvC.Value != nil && tvK.Value.Kind() == constant.String && constant.StringVal(tvK.Value) == "tracking" && tvC.Value.Kind() == constant.String && constant.StringVal(tvC.Value) == "never" {
				s := x.str(ix.X)
				if s == recv+"."+m.fDlg.Name()+".FindNode("+recv+"."+m.fNode.Name()+")#0.Headers" {
					hdrCmp = b
				}
			}
		}
		return true
	})
	if hdrCmp == nil {
		c.ob("C11.R3", m.incVisit.Name+"/tracking-never", w.Pos(update.Pos()), false, "the update is not guarded by a test of the `tracking` header (of the node found under the current node's name) against \"never\": untracked nodes would be counted")
	} else {
		goal := e.cond(keyCtx{e: e, s: &at}, hdrCmp, 0)
		if hdrCmp.Op == token.EQL {
			goal = Not{goal}
		}
		ok, how := e.Prove(update, goal)
		c.ob("C11.R3", m.incVisit.Name+"/tracking-never", w.Pos(update.Pos()), ok, map[bool]string{true: "entailed: Headers[\"tracking\"] != \"never\" (" + how + ")", false: "the update is reachable although the node's tracking header is \"never\": " + how}[ok])
	}
	// found flag
	var okIdent *ast.Ident
	walkNoLit(m.incVisit.Body, func(q ast.Node) bool {
		if a, ok := q.(*ast.AssignStmt); ok && len(a.Lhs) == 2 && len(a.Rhs) == 1 {
			if call, ok := a.Rhs[0].(*ast.CallExpr); ok {
				if callee := calleeOf(info, call); callee != nil && callee.Name() == "FindNode" && len(call.Args) == 1 && x.str(call.Args[0]) == recv+"."+m.fNode.Name() {
					okIdent = identOf(a.Lhs[1])
				}
			}
		}
		return true
	})
	if okIdent != nil {
		ok, how := e.Prove(update, e.cond(keyCtx{e: e, s: &at}, okIdent, 0))
		c.ob("C11.R3", m.incVisit.Name+"/node-found", w.Pos(update.Pos()), ok, map[bool]string{true: "entailed: the current node was found (" + how + ")", false: "the header test may run on a node that was not found: " + how}[ok])
	}

	// ----- R4
	ctorS := w.SSAFunc(m.ctor)
	if ctorS == nil {
		c.undecided("C11.R4", "no SSA for the constructor")
		return
	}
	// registration names -> closure
	regs := map[string]*ast.FuncLit{}
	walkNoLit(m.ctor.Body, func(q ast.Node) bool {
		call, ok := q.(*ast.CallExpr)
		if !ok || len(call.Args) != 2 {
			return true
		}
		tv, ok := info.Types[call.Args[0]]
		if !ok || tv.Value == nil || tv.Value.Kind() != constant.String {
			return true
		}
		if lit, ok := unparen(call.Args[1]).(*ast.FuncLit); ok {
			regs[constant.StringVal(tv.Value)] = lit
		}
		return true
	})
	for _, name := range []string{"visited", "visited_count"} {
		lit := regs[name]
		if lit == nil {
			c.ob("C11.R4", m.ctor.Name+"/"+name, w.Pos(m.ctor.Decl.Pos()), false, "no function literal is registered under \""+name+"\" by the constructor")
			continue
		}
		lf := w.funcOf[lit]
		sf := w.SSAFunc(lf)
		if sf == nil {
			c.undecided("C11.R4", "no SSA for the closure registered as "+name)
			continue
		}
		c.fn(lf)
		lookups, bad := 0, ""
		for _, b := range sf.Blocks {
			for _, in := range b.Instrs {
				lk, ok := in.(*ssa.Lookup)
				if !ok {
					continue
				}
				if _, isMap := lk.X.Type().Underlying().(*types.Map); !isMap {
					continue
				}
				lookups++
				if loadedField(lk.X) == m.fVis {
					// through which base? a captured runner is fine; a captured map value is not
					continue
				}
				bad = "looks the name up in " + lk.X.String() + ", not in the runner's visit map field read at call time (a map captured at registration goes stale when RestoreAt installs a new one)"
			}
		}
		ok := lookups > 0 && bad == ""
		if lookups == 0 {
			bad = "performs no map lookup"
		}
		// the looked-up key is the closure's parameter
		c.ob("C11.R4", m.ctor.Name+"/"+name, w.Pos(lit.Pos()), ok, map[bool]string{true: "looks its argument up in runner." + m.fVis.Name() + " loaded at call time", false: "\"" + name + "\" " + bad}[ok])
		// R6: visited(n) is "the count is positive", not "the map has the key" (a restored snapshot may hold zero counts)
		if name == "visited" && ok {
			verdict, how := "undecided", "the result of visited is not recognised as a test of the looked-up count"
			var classify func(v ssa.Value, depth int)
			classify = func(v ssa.Value, depth int) {
				if depth > 6 {
					return
				}
				switch x := v.(type) {
				case *ssa.Extract:
					if lk, isLk := x.Tuple.(*ssa.Lookup); isLk && lk.CommaOk && x.Index == 1 {
						verdict, how = "presence", "visited returns whether the visit map has the key: an entry with count 0 (a restored snapshot may hold one) makes visited true while visited_count is 0"
					}
				case *ssa.BinOp:
					var cnt, cst ssa.Value = x.X, x.Y
					swapped := false
					if _, isConst := cnt.(*ssa.Const); isConst {
						cnt, cst, swapped = x.Y, x.X, true
					}
					k, isConst := cst.(*ssa.Const)
					fromLookup := false
					switch y := cnt.(type) {
					case *ssa.Lookup:
						fromLookup = !y.CommaOk
					case *ssa.Extract:
						if _, isLk := y.Tuple.(*ssa.Lookup); isLk && y.Index == 0 {
							fromLookup = true
						}
					}
					if isConst && fromLookup && k.Value != nil {
						kv := k.Int64()
						op := x.Op
						if swapped { // 0 < count
							switch op {
							case token.LSS:
								op = token.GTR
							case token.LEQ:
								op = token.GEQ
							}
						}
						if (op == token.GTR && kv == 0) || (op == token.NEQ && kv == 0) || (op == token.GEQ && kv == 1) {
							verdict, how = "positive", "visited returns whether the looked-up count is positive"
						}
					}
				case *ssa.Phi:
					for _, e := range x.Edges {
						classify(e, depth+1)
					}
				}
			}
			for _, b := range sf.Blocks {
				for _, in := range b.Instrs {
					if r, isRet := in.(*ssa.Return); isRet && len(r.Results) >= 1 {
						classify(r.Results[0], 0)
					}
				}
			}
			switch verdict {
			case "positive":
				c.ob("C11.R6", m.ctor.Name+"/visited-is-count-positive", w.Pos(lit.Pos()), true, how)
			case "presence":
				c.ob("C11.R6", m.ctor.Name+"/visited-is-count-positive", w.Pos(lit.Pos()), false, how)
			default:
				c.undecided("C11.R6", how)
			}
		}
	}
}
