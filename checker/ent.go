package main

// ent.go — ENT: guard entailment. Facts that hold at a program point are built structurally from the AST
// (enclosing conditions, fall-through conditions of preceding statements), atoms are canonical expressions
// versioned by reaching assignment, and "facts ∧ axioms ⇒ goal" is decided propositionally (DESIGN.md, Appendix B).

import (
	"fmt"
	"go/ast"
	"go/constant"
	"go/token"
	"go/types"
	"golang.org/x/tools/go/ssa"
	"sort"
	"strconv"
	"strings"
)

// ---------- formulas ----------

type Formula interface{}
type Atom string
type Not struct{ F Formula }
type And []Formula
type Or []Formula
type Const bool

func atomsOf(f Formula, set map[Atom]bool) {
	switch f := f.(type) {
	case Atom:
		set[f] = true
	case Not:
		atomsOf(f.F, set)
	case And:
		for _, g := range f {
			atomsOf(g, set)
		}
	case Or:
		for _, g := range f {
			atomsOf(g, set)
		}
	}
}

func show(f Formula) string {
	switch f := f.(type) {
	case Atom:
		return string(f)
	case Not:
		return "¬" + show(f.F)
	case And:
		s := []string{}
		for _, g := range f {
			s = append(s, show(g))
		}
		return "(" + strings.Join(s, " ∧ ") + ")"
	case Or:
		s := []string{}
		for _, g := range f {
			s = append(s, show(g))
		}
		return "(" + strings.Join(s, " ∨ ") + ")"
	case Const:
		return fmt.Sprint(bool(f))
	}
	return "?"
}

// three-valued evaluation under a partial assignment: 1 true, 0 false, -1 unknown
func eval3(f Formula, m map[Atom]int8) int8 {
	switch f := f.(type) {
	case Atom:
		if v, ok := m[f]; ok {
			return v
		}
		return -1
	case Not:
		v := eval3(f.F, m)
		if v < 0 {
			return -1
		}
		return 1 - v
	case And:
		res := int8(1)
		for _, g := range f {
			switch eval3(g, m) {
			case 0:
				return 0
			case -1:
				res = -1
			}
		}
		return res
	case Or:
		res := int8(0)
		for _, g := range f {
			switch eval3(g, m) {
			case 1:
				return 1
			case -1:
				res = -1
			}
		}
		return res
	case Const:
		if f {
			return 1
		}
		return 0
	}
	panic("bad formula")
}

func firstUnknown(f Formula, m map[Atom]int8) (Atom, bool) {
	switch f := f.(type) {
	case Atom:
		if _, ok := m[f]; !ok {
			return f, true
		}
	case Not:
		return firstUnknown(f.F, m)
	case And:
		for _, g := range f {
			if eval3(g, m) == -1 {
				if a, ok := firstUnknown(g, m); ok {
					return a, true
				}
			}
		}
	case Or:
		for _, g := range f {
			if eval3(g, m) == -1 {
				if a, ok := firstUnknown(g, m); ok {
					return a, true
				}
			}
		}
	}
	return "", false
}

// satisfiable decides the conjunction of fs by backtracking with three-valued pruning.
func satisfiable(fs []Formula, m map[Atom]int8, budget *int) (bool, map[Atom]int8) {
	*budget--
	if *budget < 0 {
		return true, m // give up: treated as "not entailed"
	}
	var pick Atom
	picked := false
	for _, f := range fs {
		switch eval3(f, m) {
		case 0:
			return false, nil
		case -1:
			if !picked {
				if a, ok := firstUnknown(f, m); ok {
					pick, picked = a, true
				}
			}
		}
	}
	if !picked {
		return true, m
	}
	for _, v := range []int8{1, 0} {
		m[pick] = v
		if ok, mm := satisfiable(fs, m, budget); ok {
			return true, mm
		}
	}
	delete(m, pick)
	return false, nil
}

// ---------- per function context ----------

type entFn struct {
	ineqs      map[Atom]ineqRec            // the integer comparisons behind gt/lt atoms (for the linear-arithmetic fallback)
	elemStores map[types.Object][]ast.Node // S[i] = v statements per local S
	w          *World
	root       *Func // outermost declaration (or package-level literal)
	info       *types.Info
	assigns    map[types.Object][]ast.Node // assignment sites per local object, over the whole root function
	addrOf     map[types.Object]bool       // locals whose address is taken
	// &v used only as a field value of a composite literal
	addrInLit map[types.Object]bool
	calls     []*ast.CallExpr // all calls in the root function that are not known to be effect-free
	fstores   []fieldStore    // assignments to field paths
	axioms    []Formula
	axSeen    map[string]bool
	atomObj   map[Atom][]types.Object // locals an atom mentions (for the closure rule)
	effEnd    map[ast.Node]token.Pos  // post statements of for loops take effect at the end of the body
	family    func(*types.Func) bool  // evaluator-family predicate (contract axioms), may be nil
}

type fieldStore struct {
	field *types.Var
	node  ast.Node
}

type site struct {
	pos token.Pos
	anc ast.Node // node whose ancestors (itself included) determine the enclosing loops
}

var entCache = map[*Func]*entFn{}

func (w *World) rootOf(f *Func) *Func {
	for f.Parent != nil {
		f = f.Parent
	}
	return f
}

func (w *World) ent(f *Func) *entFn {
	root := w.rootOf(f)
	if e := entCache[root]; e != nil {
		return e
	}
	e := &entFn{w: w, root: root, info: root.Pkg.TypesInfo, assigns: map[types.Object][]ast.Node{}, elemStores: map[types.Object][]ast.Node{}, addrOf: map[types.Object]bool{}, addrInLit: map[types.Object]bool{}, axSeen: map[string]bool{}, atomObj: map[Atom][]types.Object{}, effEnd: map[ast.Node]token.Pos{}}
	entCache[root] = e
	info := e.info
	record := func(x ast.Expr, at ast.Node) {
		if id, ok := unparen(x).(*ast.Ident); ok {
			obj := info.Defs[id]
			if obj == nil {
				obj = info.Uses[id]
			}
			if obj != nil {
				e.assigns[obj] = append(e.assigns[obj], at)
			}
			return
		}
		if fld := lastField(info, x); fld != nil {
			e.fstores = append(e.fstores, fieldStore{fld, at})
			return
		}
		// S[i] = v: the contents of the local S (or of the field that holds the slice) change
		if ix, ok := unparen(x).(*ast.IndexExpr); ok {
			base := unparen(ix.X)
			for {
				if inner, ok := base.(*ast.IndexExpr); ok {
					base = unparen(inner.X)
					continue
				}
				break
			}
			if id, ok := base.(*ast.Ident); ok {
				if obj := info.Uses[id]; obj != nil {
					e.elemStores[obj] = append(e.elemStores[obj], at)
				}
			} else if fld := lastField(info, base); fld != nil {
				e.fstores = append(e.fstores, fieldStore{fld, at})
			}
		}
	}
	ast.Inspect(root.Node(), func(n ast.Node) bool {
		switch n := n.(type) {
		case *ast.ForStmt:
			if n.Post != nil {
				e.effEnd[n.Post] = n.Body.End()
			}
		}
		switch n := n.(type) {
		case *ast.AssignStmt:
			for _, l := range n.Lhs {
				record(l, n)
			}
		case *ast.IncDecStmt:
			record(n.X, n)
		case *ast.RangeStmt:
			if n.Key != nil {
				record(n.Key, n)
			}
			if n.Value != nil {
				record(n.Value, n)
			}
		case *ast.ValueSpec:
			for _, id := range n.Names {
				record(id, n)
			}
		case *ast.UnaryExpr:
			if n.Op == token.AND {
				if id, ok := unparen(n.X).(*ast.Ident); ok {
					if obj := info.Uses[id]; obj != nil {
						// &v stored as a field of a composite literal hands the variable over to the value being built:
						// nothing in this function writes it through that pointer (writes through fields elsewhere are
						// the who-may-write rules' business), so v still has its single value here
						if kv, isKV := e.w.parent[n].(*ast.KeyValueExpr); isKV && kv.Value == ast.Expr(n) {
							if _, inLit := e.w.parent[kv].(*ast.CompositeLit); inLit {
								e.addrInLit[obj] = true
								break
							}
						}
						e.addrOf[obj] = true
					}
				}
			}
		case *ast.CallExpr:
			if !e.pureCall(n) {
				e.calls = append(e.calls, n)
			}
		}
		return true
	})
	return e
}

// pureCall: calls that cannot change any field or local the analysed code guards on.
func (e *entFn) pureCall(c *ast.CallExpr) bool {
	if tv, ok := e.info.Types[c.Fun]; ok && tv.IsType() {
		return true // conversion
	}
	if id, ok := unparen(c.Fun).(*ast.Ident); ok {
		if b, ok := e.info.Uses[id].(*types.Builtin); ok {
			switch b.Name() {
			case "len", "cap", "min", "max", "new", "make", "panic", "append", "string":
				return true
			}
			return false
		}
	}
	callee := calleeOf(e.info, c)
	if callee == nil {
		return false
	}
	full := funcFullName(callee)
	if callee.Pkg() != nil {
		switch callee.Pkg().Path() {
		case "fmt", "errors", "strings", "strconv", "math", "unicode", "unicode/utf8", "unicode/utf16", "slices", "maps", "reflect", "regexp":
			// state-free helpers (strings.Builder/Reader methods mutate only their own receiver, never guarded state)
			return true
		}
	}
	switch {
	case strings.HasSuffix(full, "container.Stack[T]).Size"), strings.HasSuffix(full, "container.Stack[T]).Peek"),
		strings.HasSuffix(full, "container.Queue[T]).Size"), strings.HasSuffix(full, "container.Queue[T]).Peek"):
		return true
	case strings.HasPrefix(full, "("+modPath+"/variable.") && (callee.Name() == "ToString"):
		return true
	case strings.HasPrefix(full, modPath+"/variable.New"):
		return true
	}
	return false
}

// valueOnlyCall: builtins and library functions whose result is a function of the argument values alone.
func (e *entFn) valueOnlyCall(c *ast.CallExpr) bool {
	if tv, ok := e.info.Types[c.Fun]; ok && tv.IsType() {
		return true
	}
	if id, ok := unparen(c.Fun).(*ast.Ident); ok {
		if b, ok := e.info.Uses[id].(*types.Builtin); ok {
			switch b.Name() {
			case "len", "cap", "min", "max":
				return true
			}
			return false
		}
	}
	callee := calleeOf(e.info, c)
	if callee == nil || callee.Pkg() == nil {
		return false
	}
	switch callee.Pkg().Path() {
	case "strings", "strconv", "math", "unicode", "unicode/utf8", "unicode/utf16":
		// methods of strings.Builder/Reader read mutable receivers
		if sig, ok := callee.Type().(*types.Signature); ok && sig.Recv() != nil {
			return false
		}
		return true
	case "reflect":
		if sig, ok := callee.Type().(*types.Signature); ok && sig.Recv() != nil {
			rt := typeStr(sig.Recv().Type())
			return rt == "reflect.Type" || rt == "reflect.Value" || rt == "reflect.Kind"
		}
		return callee.Name() == "TypeOf"
	case "regexp":
		if sig, ok := callee.Type().(*types.Signature); ok && sig.Recv() != nil {
			return strings.HasPrefix(callee.Name(), "Match") || strings.HasPrefix(callee.Name(), "Find")
		}
	}
	return false
}

// immutableStruct: objects of these struct types are never written after construction (checked by C01.R9 and the A1 rule).
func immutableOwner(v *types.Var) bool {
	if v == nil || v.Pkg() == nil {
		return false
	}
	switch v.Pkg().Path() {
	case modPath + "/internal/tree":
		return true
	case modPath + "/variable":
		return v.Name() == "Number" || v.Name() == "Boolean" || v.Name() == "String"
	}
	return false
}

// enclosing loops of a site, innermost first
func (e *entFn) loops(s site) []ast.Node {
	var out []ast.Node
	for p := s.anc; p != nil; p = e.w.parent[p] {
		switch p.(type) {
		case *ast.ForStmt, *ast.RangeStmt:
			if p.Pos() <= s.pos && s.pos <= p.End() {
				out = append(out, p)
			}
		}
		if p == e.root.Node() {
			break
		}
	}
	return out
}

// version of a local variable at a site: (innermost enclosing loop that assigns it, latest assignment before the site)
func (e *entFn) version(obj types.Object, s site) string {
	if e.addrOf[obj] {
		return fmt.Sprintf("addr@%d", s.pos) // address-taken: opaque, never matches another occurrence
	}
	latest := token.NoPos
	for _, a := range e.assigns[obj] {
		if eff, isPost := e.effEnd[a]; isPost {
			// runs after the loop body: visible to what follows the loop, and (through the loop component) to the next iteration
			if eff <= s.pos && eff > latest {
				latest = eff
			}
			continue
		}
		if a.End() <= s.pos && a.Pos() > latest {
			latest = a.Pos()
		} else if rs, ok := a.(*ast.RangeStmt); ok && rs.Pos() <= s.pos && s.pos <= rs.End() && rs.Pos() > latest {
			latest = rs.Pos() // inside the range statement that assigns it
		} else if as, ok := a.(*ast.AssignStmt); ok && as.Pos() <= s.pos && s.pos <= as.End() && as.Pos() > latest {
			// inside the assigning statement itself (e.g. if v, err := f(); ... in the Init): the right-hand side sees the old value
			_ = as
		}
	}
	loop := token.NoPos
	for _, l := range e.loops(s) {
		for _, a := range e.assigns[obj] {
			if l.Pos() <= a.Pos() && a.End() <= l.End() && a != l {
				loop = l.Pos()
			}
		}
		if loop != token.NoPos {
			break
		}
	}
	return fmt.Sprintf("%d/%d", loop, latest)
}

// elemVersion of the contents of a local slice/map at a site: like version, over the element stores S[i] = v.
func (e *entFn) elemVersion(obj types.Object, s site) string {
	latest := token.NoPos
	for _, a := range e.elemStores[obj] {
		if a.End() <= s.pos && a.Pos() > latest && !e.cannotFlowTo(a, s.pos) {
			latest = a.Pos()
		}
	}
	loop := token.NoPos
	for _, l := range e.loops(s) {
		for _, a := range e.elemStores[obj] {
			if l.Pos() <= a.Pos() && a.End() <= l.End() {
				loop = l.Pos()
			}
		}
		if loop != token.NoPos {
			break
		}
	}
	return fmt.Sprintf("%d/%d", loop, latest)
}

// barrierVersion of a mutable field path (last field fld) at a site: latest store to that field or effectful call.
func (e *entFn) barrierVersion(fld *types.Var, s site) string {
	isBarrier := func(n ast.Node) bool { return true }
	latest := token.NoPos
	consider := func(n ast.Node) {
		if !isBarrier(n) {
			return
		}
		if n.End() <= s.pos && n.Pos() > latest {
			if e.cannotFlowTo(n, s.pos) {
				return // inside a branch that ends in return/panic and does not contain the site
			}
			latest = n.Pos()
		}
	}
	var barriers []ast.Node
	for _, fs := range e.fstores {
		if fs.field == fld {
			barriers = append(barriers, fs.node)
		}
	}
	for _, c := range e.calls {
		if fld == nil || e.mayWriteField(c, fld) {
			barriers = append(barriers, c)
		}
	}
	for _, b := range barriers {
		consider(b)
	}
	loop := token.NoPos
	for _, l := range e.loops(s) {
		for _, b := range barriers {
			if l.Pos() <= b.Pos() && b.End() <= l.End() {
				loop = l.Pos()
			}
		}
		if loop != token.NoPos {
			break
		}
	}
	return fmt.Sprintf("%d/%d", loop, latest)
}

// cannotFlowTo: n lies in a statement list (if/else body, case body) that ends in a return or a panic and does not
// contain pos: control that executes n never reaches pos within this activation of the function.
func (e *entFn) cannotFlowTo(n ast.Node, pos token.Pos) bool {
	for p := e.w.parent[n]; p != nil; p = e.w.parent[p] {
		var list []ast.Stmt
		switch b := p.(type) {
		case *ast.BlockStmt:
			list = b.List
			// only bodies of if/else (not loop bodies, not function bodies)
			switch e.w.parent[b].(type) {
			case *ast.IfStmt:
			default:
				list = nil
			}
		case *ast.CaseClause:
			list = b.Body
		case *ast.CommClause:
			list = b.Body
		case *ast.FuncLit, *ast.FuncDecl:
			return false
		}
		if len(list) == 0 {
			continue
		}
		if p.Pos() <= pos && pos < p.End() {
			return false // the site is inside this list too: no conclusion here or further up
		}
		if branchesOut(list) {
			continue // a break/continue/goto can leave the list before its end
		}
		switch last := list[len(list)-1].(type) {
		case *ast.ReturnStmt:
			return true
		case *ast.ExprStmt:
			if c, ok := last.X.(*ast.CallExpr); ok && isBuiltin(e.info, c, "panic") {
				return true
			}
		}
	}
	return false
}

// branchesOut: a break, continue or goto in the list may transfer control out of it.
func branchesOut(list []ast.Stmt) bool {
	out := false
	var walk func(n ast.Node, inLoop, inBreakable bool)
	walk = func(n ast.Node, inLoop, inBreakable bool) {
		ast.Inspect(n, func(q ast.Node) bool {
			if out || q == nil {
				return false
			}
			switch x := q.(type) {
			case *ast.FuncLit:
				return false
			case *ast.BranchStmt:
				switch {
				case x.Tok == token.GOTO, x.Label != nil:
					out = true
				case x.Tok == token.BREAK && !inBreakable:
					out = true
				case x.Tok == token.CONTINUE && !inLoop:
					out = true
				}
			case *ast.ForStmt:
				if q != n {
					walk(x.Body, true, true)
					return false
				}
			case *ast.RangeStmt:
				if q != n {
					walk(x.Body, true, true)
					return false
				}
			case *ast.SwitchStmt:
				if q != n {
					walk(x.Body, inLoop, true)
					return false
				}
			case *ast.TypeSwitchStmt:
				if q != n {
					walk(x.Body, inLoop, true)
					return false
				}
			case *ast.SelectStmt:
				if q != n {
					walk(x.Body, inLoop, true)
					return false
				}
			}
			return true
		})
	}
	for _, s := range list {
		// a loop or switch that is itself an element of the list contains its own breaks
		switch x := s.(type) {
		case *ast.ForStmt:
			walk(x.Body, true, true)
		case *ast.RangeStmt:
			walk(x.Body, true, true)
		case *ast.SwitchStmt:
			walk(x.Body, false, true)
		case *ast.TypeSwitchStmt:
			walk(x.Body, false, true)
		case *ast.SelectStmt:
			walk(x.Body, false, true)
		default:
			walk(s, false, false)
		}
	}
	return out
}

type keyCtx struct {
	e    *entFn
	s    *site // nil: every identifier is versioned at its own position
	objs *[]types.Object
	// depth of alias resolution (locals standing for access paths)
	aliasDepth int
}

func (k keyCtx) siteOf(n ast.Node) site {
	if k.s != nil {
		return *k.s
	}
	return site{pos: n.Pos(), anc: n}
}

// key renders an expression canonically, versioning locals and mutable paths.
func (k keyCtx) key(x ast.Expr) string {
	e := k.e
	x = unparen(x)
	if tv, ok := e.info.Types[x]; ok && tv.Value != nil {
		return "const:" + tv.Value.ExactString()
	}
	switch x := x.(type) {
	case *ast.Ident:
		obj := e.info.Uses[x]
		if obj == nil {
			obj = e.info.Defs[x]
		}
		if v, ok := obj.(*types.Var); ok && !v.IsField() && v.Pkg() != nil && v.Parent() != v.Pkg().Scope() {
			// a local assigned exactly once from a call-free access path (b := v.Boolean; n := *v.Number) denotes the
			// value that path had at the assignment: it is keyed as that path, versioned there, so that a test of the
			// local is a test of the path and conversely
			if k.aliasDepth < 3 && !e.addrOf[obj] {
				if as := e.assigns[obj]; len(as) == 1 {
					var rhs ast.Expr
					var at ast.Node
					switch a := as[0].(type) {
					case *ast.AssignStmt:
						if len(a.Lhs) == len(a.Rhs) && (a.Tok == token.DEFINE || a.Tok == token.ASSIGN) {
							for i, l := range a.Lhs {
								if id := identOf(l); id != nil && (e.info.Defs[id] == obj || e.info.Uses[id] == obj) {
									rhs, at = a.Rhs[i], a
								}
							}
						}
					case *ast.ValueSpec:
						if len(a.Values) == len(a.Names) {
							for i, id := range a.Names {
								if e.info.Defs[id] == obj {
									rhs, at = a.Values[i], a
								}
							}
						}
					}
					if rhs != nil && isAccessPath(e.info, rhs) {
						ka := keyCtx{e: e, s: &site{pos: at.Pos(), anc: at}, objs: k.objs, aliasDepth: k.aliasDepth + 1}
						return ka.key(rhs)
					}
				}
			}
			if k.objs != nil {
				*k.objs = append(*k.objs, obj)
			}
			return x.Name + "#" + strconv.Itoa(int(obj.Pos())) + "@" + e.version(obj, k.siteOf(x))
		}
		if obj != nil && obj.Pkg() != nil {
			return obj.Pkg().Name() + "." + x.Name
		}
		return x.Name
	case *ast.SelectorExpr:
		if sel, ok := e.info.Selections[x]; ok && sel.Kind() == types.FieldVal {
			fld := sel.Obj().(*types.Var)
			base := k.key(x.X) + "." + x.Sel.Name
			if immutableOwner(fld) {
				return base
			}
			return base + "~" + e.barrierVersion(fld, k.siteOf(x))
		}
		if obj := e.info.Uses[x.Sel]; obj != nil && obj.Pkg() != nil {
			if _, isPkg := e.info.Uses[identOf(x.X)].(*types.PkgName); isPkg {
				return obj.Pkg().Name() + "." + x.Sel.Name
			}
		}
		return k.key(x.X) + "." + x.Sel.Name
	case *ast.StarExpr:
		return "*" + k.key(x.X)
	case *ast.IndexExpr:
		ev := ""
		if id := identOf(x.X); id != nil {
			if obj := e.info.Uses[id]; obj != nil && len(e.elemStores[obj]) > 0 {
				ev = "~e" + e.elemVersion(obj, k.siteOf(x))
			}
		}
		return k.key(x.X) + ev + "[" + k.key(x.Index) + "]"
	case *ast.BasicLit:
		return x.Value
	case *ast.CallExpr:
		args := []string{}
		for _, a := range x.Args {
			args = append(args, k.key(a))
		}
		// a conversion is a function of its operand; the number of characters of a string is the length of its []rune form
		if tv, ok := e.info.Types[x.Fun]; ok && tv.IsType() && len(args) == 1 {
			return "conv:" + typeStr(tv.Type) + "(" + args[0] + ")"
		}
		if callee := calleeOf(e.info, x); callee != nil && funcFullName(callee) == "unicode/utf8.RuneCountInString" && len(args) == 1 {
			return "len(conv:" + typeStr(types.NewSlice(types.Universe.Lookup("rune").Type())) + "(" + args[0] + "))"
		}
		s := k.key(x.Fun) + "(" + strings.Join(args, ",") + ")"
		if e.valueOnlyCall(x) {
			// the result depends on the argument values only, which carry their own versions
			return s
		}
		if e.pureCall(x) {
			// a pure call reads state only through its receiver/arguments, whose keys carry their own versions
			return s
		}
		return s + fmt.Sprintf("!%d", x.Pos()) // effectful call: an atom only at its own position
	case *ast.UnaryExpr:
		return x.Op.String() + k.key(x.X)
	case *ast.BinaryExpr:
		return "(" + k.key(x.X) + x.Op.String() + k.key(x.Y) + ")"
	case *ast.TypeAssertExpr:
		return k.key(x.X) + ".(" + exprStr(x.Type) + ")"
	}
	return fmt.Sprintf("expr@%d", x.Pos())
}

func identOf(e ast.Expr) *ast.Ident {
	id, _ := unparen(e).(*ast.Ident)
	return id
}

// isAccessPath: a selector / dereference / index path rooted at a variable, with at least one step.
func isAccessPath(info *types.Info, e ast.Expr) bool {
	steps := 0
	for {
		switch x := unparen(e).(type) {
		case *ast.SelectorExpr:
			if sel, ok := info.Selections[x]; !ok || sel.Kind() != types.FieldVal {
				return false
			}
			e = x.X
			steps++
		case *ast.StarExpr:
			e = x.X
			steps++
		case *ast.IndexExpr:
			// a constant element of a slice or array
			if tv, ok := info.Types[x.Index]; !ok || tv.Value == nil {
				return false
			}
			if tv, ok := info.Types[x.X]; ok {
				if _, isMap := tv.Type.Underlying().(*types.Map); isMap {
					return false
				}
			}
			e = x.X
			steps++
		case *ast.Ident:
			v, ok := info.Uses[x].(*types.Var)
			return ok && steps > 0 && !v.IsField()
		default:
			return false
		}
	}
}

// ---------- integer normal forms (ring arithmetic, exact under wrap-around) ----------

type linForm struct {
	terms map[string]int64
	c     int64
}

func (l linForm) String() string {
	keys := []string{}
	for k, v := range l.terms {
		if v != 0 {
			keys = append(keys, k)
		}
	}
	sort.Strings(keys)
	var sb strings.Builder
	for _, k := range keys {
		fmt.Fprintf(&sb, "%+d*%s", l.terms[k], k)
	}
	fmt.Fprintf(&sb, "%+d", l.c)
	return sb.String()
}

func (l linForm) isConst() bool {
	for _, v := range l.terms {
		if v != 0 {
			return false
		}
	}
	return true
}

func addForm(a, b linForm, sign int64) linForm {
	r := linForm{terms: map[string]int64{}, c: a.c + sign*b.c}
	for k, v := range a.terms {
		r.terms[k] += v
	}
	for k, v := range b.terms {
		r.terms[k] += sign * v
	}
	return r
}

func isIntType(t types.Type) bool {
	b, ok := t.Underlying().(*types.Basic)
	return ok && b.Info()&types.IsInteger != 0
}

// norm normalises an integer-typed expression into an affine form over opaque keys.
func (k keyCtx) norm(x ast.Expr) linForm {
	x = unparen(x)
	if tv, ok := k.e.info.Types[x]; ok && tv.Value != nil && tv.Value.Kind() == constant.Int {
		if v, ok := constant.Int64Val(tv.Value); ok {
			return linForm{terms: map[string]int64{}, c: v}
		}
	}
	switch b := x.(type) {
	case *ast.BinaryExpr:
		switch b.Op {
		case token.ADD:
			return addForm(k.norm(b.X), k.norm(b.Y), 1)
		case token.SUB:
			return addForm(k.norm(b.X), k.norm(b.Y), -1)
		case token.MUL:
			l, r := k.norm(b.X), k.norm(b.Y)
			if l.isConst() {
				l, r = r, l
			}
			if r.isConst() {
				out := linForm{terms: map[string]int64{}, c: l.c * r.c}
				for t, v := range l.terms {
					out.terms[t] = v * r.c
				}
				return out
			}
		}
	case *ast.UnaryExpr:
		if b.Op == token.SUB {
			return addForm(linForm{terms: map[string]int64{}}, k.norm(b.X), -1)
		}
	case *ast.Ident:
		// expand single-assignment integer locals with call-free initialisers (calls of length getters on a receiver that
		// the function never writes count as call-free: they are the length)
		if obj, ok := k.e.info.Uses[b].(*types.Var); ok && !obj.IsField() {
			if as := k.e.assigns[obj]; len(as) == 1 {
				if a, ok := as[0].(*ast.AssignStmt); ok && len(a.Lhs) == 1 && len(a.Rhs) == 1 && a.Tok == token.DEFINE && (callFree(a.Rhs[0]) || k.e.onlyLenGetterCalls(a.Rhs[0]) || k.e.onlyStringLens(a.Rhs[0])) && isIntType(obj.Type()) {
					return k.norm(a.Rhs[0])
				}
			}
		}
	case *ast.CallExpr:
		// len of a string-valued expression; a trimmed string is no longer than the string it was cut from
		if isBuiltin(k.e.info, b, "len") && len(b.Args) == 1 {
			if bt, ok := k.e.info.TypeOf(b.Args[0]).Underlying().(*types.Basic); ok && bt.Info()&types.IsString != 0 {
				term := "len(" + k.key(b.Args[0]) + ")"
				if inner, ok := unparen(b.Args[0]).(*ast.CallExpr); ok && len(inner.Args) >= 1 {
					if callee := calleeOf(k.e.info, inner); callee != nil && callee.Pkg() != nil && callee.Pkg().Path() == "strings" && strings.HasPrefix(callee.Name(), "Trim") {
						if st, ok := k.e.info.TypeOf(inner.Args[0]).Underlying().(*types.Basic); ok && st.Info()&types.IsString != 0 {
							whole := "len(" + k.key(inner.Args[0]) + ")"
							liaAxioms = append(liaAxioms,
								leForms(linForm{terms: map[string]int64{term: 1}}, linForm{terms: map[string]int64{whole: 1}}),
								leForms(constForm(0), linForm{terms: map[string]int64{term: 1}}))
						}
					}
				}
				return linForm{terms: map[string]int64{term: 1}}
			}
		}
		if recv, deref, ok := k.e.lenGetter(b); ok {
			var arg ast.Expr = recv
			if deref {
				arg = &ast.StarExpr{X: recv}
			}
			return linForm{terms: map[string]int64{"len(" + k.key(arg) + ")": 1}}
		}
	}
	return linForm{terms: map[string]int64{k.key(x): 1}}
}

// lenGetter: call is R.M() with R a local of the root function that the function never writes (no store to or through it,
// no other method called on it, never passed on), and M a module method whose body is `return len(*r)` / `return len(r)`
// on its receiver: the call denotes the length of (*)R.
func (e *entFn) lenGetter(call *ast.CallExpr) (ast.Expr, bool, bool) {
	if e.w == nil || len(call.Args) != 0 {
		return nil, false, false
	}
	sel, ok := unparen(call.Fun).(*ast.SelectorExpr)
	if !ok {
		return nil, false, false
	}
	rid, ok := unparen(sel.X).(*ast.Ident)
	if !ok {
		return nil, false, false
	}
	robj, ok := e.info.Uses[rid].(*types.Var)
	if !ok || robj.IsField() {
		return nil, false, false
	}
	callee := calleeOf(e.info, call)
	if callee == nil {
		return nil, false, false
	}
	if o := callee.Origin(); o != nil {
		callee = o
	}
	g := e.w.byObj[callee]
	if g == nil || g.Body == nil || g.Decl == nil || g.Decl.Recv == nil || len(g.Decl.Recv.List) != 1 || len(g.Decl.Recv.List[0].Names) != 1 || len(g.Body.List) != 1 {
		return nil, false, false
	}
	ret, ok := g.Body.List[0].(*ast.ReturnStmt)
	if !ok || len(ret.Results) != 1 {
		return nil, false, false
	}
	lc, ok := unparen(ret.Results[0]).(*ast.CallExpr)
	ginfo := g.Pkg.TypesInfo
	if !ok || !isBuiltin(ginfo, lc, "len") || len(lc.Args) != 1 {
		return nil, false, false
	}
	recvObj := ginfo.Defs[g.Decl.Recv.List[0].Names[0]]
	arg := unparen(lc.Args[0])
	deref := false
	if st, ok := arg.(*ast.StarExpr); ok {
		arg, deref = unparen(st.X), true
	}
	aid, ok := arg.(*ast.Ident)
	if !ok || ginfo.Uses[aid] != recvObj {
		return nil, false, false
	}
	// the receiver local is never written in the root function, and only length getters are called on it
	quiet := true
	ast.Inspect(e.root.Body, func(n ast.Node) bool {
		switch q := n.(type) {
		case *ast.AssignStmt:
			for _, l := range q.Lhs {
				if r := identOfRoot(stripIndexes(l)); r != nil && e.info.Uses[r] == types.Object(robj) {
					quiet = false
				}
				if st, ok := unparen(l).(*ast.StarExpr); ok {
					if r := identOf(st.X); r != nil && e.info.Uses[r] == types.Object(robj) {
						quiet = false
					}
				}
			}
		case *ast.IncDecStmt:
			if r := identOfRoot(stripIndexes(q.X)); r != nil && e.info.Uses[r] == types.Object(robj) {
				quiet = false
			}
		case *ast.UnaryExpr:
			if q.Op == token.AND {
				if r := identOfRoot(stripIndexes(q.X)); r != nil && e.info.Uses[r] == types.Object(robj) {
					quiet = false
				}
			}
		case *ast.CallExpr:
			if q == call {
				return true
			}
			for _, a := range q.Args {
				if r := identOf(a); r != nil && e.info.Uses[r] == types.Object(robj) && !isBuiltin(e.info, q, "len") && !isBuiltin(e.info, q, "cap") {
					quiet = false
				}
			}
			if qs, ok := unparen(q.Fun).(*ast.SelectorExpr); ok {
				if r := identOf(qs.X); r != nil && unparen(qs.X) == ast.Expr(r) && e.info.Uses[r] == types.Object(robj) {
					if c2 := calleeOf(e.info, q); c2 == nil || (c2.Origin() != callee && c2 != callee) {
						quiet = false
					}
				}
			}
		}
		return quiet
	})
	if !quiet {
		return nil, false, false
	}
	return rid, deref, true
}

// liaAxioms: facts about the terms met while normalising (reset by liaBounds)
var liaAxioms []ineq

// onlyStringLens: every call in x is len(S) of a string-valued S made of variables and strings.Trim* calls (strings are
// immutable values: the length read at the definition is the length at the use, for a variable assigned once)
func (e *entFn) onlyStringLens(x ast.Expr) bool {
	ok := true
	var pureStr func(s ast.Expr) bool
	pureStr = func(s ast.Expr) bool {
		s = unparen(s)
		bt, isB := e.info.TypeOf(s).Underlying().(*types.Basic)
		if !isB || bt.Info()&types.IsString == 0 {
			return false
		}
		switch q := s.(type) {
		case *ast.Ident:
			if v, isVar := e.info.Uses[q].(*types.Var); isVar && !v.IsField() {
				return len(e.assigns[v]) <= 1 && !e.addrOf[v]
			}
			return false
		case *ast.CallExpr:
			callee := calleeOf(e.info, q)
			if callee == nil || callee.Pkg() == nil || callee.Pkg().Path() != "strings" || !strings.HasPrefix(callee.Name(), "Trim") || len(q.Args) < 1 {
				return false
			}
			return pureStr(q.Args[0])
		}
		return false
	}
	ast.Inspect(x, func(n ast.Node) bool {
		switch q := n.(type) {
		case *ast.FuncLit:
			ok = false
		case *ast.CallExpr:
			if !isBuiltin(e.info, q, "len") || len(q.Args) != 1 || !pureStr(q.Args[0]) {
				ok = false
			}
			return false
		}
		return ok
	})
	return ok
}

func (e *entFn) onlyLenGetterCalls(x ast.Expr) bool {
	ok := true
	ast.Inspect(x, func(n ast.Node) bool {
		switch q := n.(type) {
		case *ast.FuncLit:
			ok = false
		case *ast.CallExpr:
			if _, _, is := e.lenGetter(q); !is {
				ok = false
			}
			return false
		}
		return ok
	})
	return ok
}

func callFree(e ast.Expr) bool {
	ok := true
	ast.Inspect(e, func(n ast.Node) bool {
		switch n.(type) {
		case *ast.CallExpr, *ast.FuncLit:
			ok = false
		}
		return ok
	})
	return ok
}

func gtAtom(l linForm, c int64) Atom { return Atom(fmt.Sprintf("gt[%s|%d]", l.String(), c)) }

// ---------- conditions ----------

func (e *entFn) noteAtom(a Atom, objs []types.Object) Atom {
	if len(objs) > 0 {
		e.atomObj[a] = append(e.atomObj[a], objs...)
	}
	return a
}

func (e *entFn) nn(k keyCtx, x ast.Expr) Formula {
	var objs []types.Object
	k.objs = &objs
	a := Atom("nn(" + k.key(unparen(x)) + ")")
	return e.noteAtom(a, objs)
}

// cond converts a boolean expression into a formula.
func (e *entFn) cond(k keyCtx, x ast.Expr, depth int) Formula {
	x = unparen(x)
	if tv, ok := e.info.Types[x]; ok && tv.Value != nil && tv.Value.Kind() == constant.Bool {
		return Const(constant.BoolVal(tv.Value))
	}
	var objs []types.Object
	ko := k
	ko.objs = &objs
	switch b := x.(type) {
	case *ast.UnaryExpr:
		if b.Op == token.NOT {
			return Not{e.cond(k, b.X, depth)}
		}
	case *ast.BinaryExpr:
		switch b.Op {
		case token.LAND:
			return And{e.cond(k, b.X, depth), e.cond(k, b.Y, depth)}
		case token.LOR:
			return Or{e.cond(k, b.X, depth), e.cond(k, b.Y, depth)}
		case token.NEQ, token.EQL:
			var g Formula
			switch {
			case isNilExpr(e.info, b.Y):
				g = e.nn(k, b.X)
			case isNilExpr(e.info, b.X):
				g = e.nn(k, b.Y)
			default:
				if tx, ok := e.info.Types[b.X]; ok && isIntType(tx.Type) {
					l, r := ko.norm(b.X), ko.norm(b.Y)
					if l.isConst() && !r.isConst() {
						l, r = r, l
					}
					if r.isConst() {
						// E == c  ⇔  E > c-1 ∧ ¬(E > c)
						g = Not{And{e.noteAtom(gtAtom(l, r.c-1), objs), Not{e.noteAtom(gtAtom(l, r.c), objs)}}}
						break
					}
				}
				l, r := ko.key(b.X), ko.key(b.Y)
				if strings.HasPrefix(l, "const:") || (l > r && !strings.HasPrefix(r, "const:")) {
					l, r = r, l
				}
				g = Not{e.noteAtom(Atom("eq("+l+","+r+")"), objs)}
			}
			if b.Op == token.EQL {
				return Not{g}
			}
			return g
		case token.LSS, token.GTR, token.LEQ, token.GEQ:
			if tx, ok := e.info.Types[b.X]; ok && isIntType(tx.Type) {
				return e.cmpForms(ko.norm(b.X), ko.norm(b.Y), b.Op, objs)
			}
			ls, rs := ko.key(b.X), ko.key(b.Y)
			switch b.Op {
			case token.LSS:
				return e.noteAtom(Atom("lt("+ls+","+rs+")"), objs)
			case token.GTR:
				return e.noteAtom(Atom("lt("+rs+","+ls+")"), objs)
			case token.LEQ: // not the negation of > for floats (NaN): keep separate atoms
				return e.noteAtom(Atom("le("+ls+","+rs+")"), objs)
			case token.GEQ:
				return e.noteAtom(Atom("le("+rs+","+ls+")"), objs)
			}
		}
	case *ast.Ident:
		// expand single-assignment boolean locals with call-free initialisers
		if obj, ok := e.info.Uses[b].(*types.Var); ok && depth < 4 && !obj.IsField() {
			if as := e.assigns[obj]; len(as) == 1 {
				if a, ok := as[0].(*ast.AssignStmt); ok && len(a.Lhs) == 1 && len(a.Rhs) == 1 && callFree(a.Rhs[0]) {
					// the initialiser is evaluated at the assignment: version its variables there
					return e.cond(keyCtx{e: e, s: &site{pos: a.Pos(), anc: a}}, a.Rhs[0], depth+1)
				}
			}
		}
	}
	return e.noteAtom(Atom(ko.key(x)), objs)
}

// cmpForms: the formula of an integer comparison between two linear forms (the one cond builds for source comparisons).
func (e *entFn) cmpForms(l, r linForm, op token.Token, objs []types.Object) Formula {
	if l.isConst() && !r.isConst() { // c op E  ->  E op' c
		l, r = r, l
		op = map[token.Token]token.Token{token.LSS: token.GTR, token.GTR: token.LSS, token.LEQ: token.GEQ, token.GEQ: token.LEQ}[op]
	}
	if e.ineqs == nil {
		e.ineqs = map[Atom]ineqRec{}
	}
	gt := func(c int64) Atom {
		a := e.noteAtom(gtAtom(l, c), objs)
		e.ineqs[a] = ineqRec{l: l, r: constForm(c), gtC: true}
		return a
	}
	lt := func(a, b linForm) Atom {
		at := e.noteAtom(Atom("lt("+a.String()+","+b.String()+")"), objs)
		e.ineqs[at] = ineqRec{l: a, r: b}
		return at
	}
	if r.isConst() {
		switch op {
		case token.GTR:
			return gt(r.c)
		case token.GEQ:
			return gt(r.c - 1)
		case token.LSS:
			return Not{gt(r.c - 1)}
		case token.LEQ:
			return Not{gt(r.c)}
		}
	}
	switch op {
	case token.LSS:
		return lt(l, r)
	case token.GTR:
		return lt(r, l)
	case token.LEQ:
		return Not{lt(r, l)}
	}
	return Not{lt(l, r)}
}

func isTerminating(info *types.Info, s ast.Stmt) bool {
	switch s := s.(type) {
	case *ast.ReturnStmt:
		return true
	case *ast.BranchStmt:
		return true
	case *ast.ExprStmt:
		if c, ok := s.X.(*ast.CallExpr); ok && isBuiltin(info, c, "panic") {
			return true
		}
	case *ast.BlockStmt:
		return len(s.List) > 0 && isTerminating(info, s.List[len(s.List)-1])
	case *ast.IfStmt:
		if s.Else == nil {
			return false
		}
		return isTerminating(info, s.Body) && isTerminating(info, s.Else)
	}
	return false
}

var own = keyCtx{}

func (e *entFn) k() keyCtx { return keyCtx{e: e} }

// post computes the formula that holds when control falls through s.
func (e *entFn) post(s ast.Stmt) Formula {
	switch s := s.(type) {
	case *ast.IfStmt:
		c := e.cond(e.k(), s.Cond, 0)
		var els Formula = Const(true)
		if s.Else != nil {
			els = e.post(s.Else)
		}
		return Or{And{c, e.post(s.Body)}, And{Not{c}, els}}
	case *ast.BlockStmt:
		return e.postList(s.List)
	case *ast.SwitchStmt:
		var arms Or
		var earlier And
		hasDefault := false
		for _, cc := range s.Body.List {
			cc := cc.(*ast.CaseClause)
			g := e.caseGuard(s, cc)
			if cc.List == nil {
				hasDefault = true
			}
			arm := And{g, e.postList(cc.Body)}
			arm = append(arm, earlier...)
			arms = append(arms, arm)
			if cc.List != nil {
				earlier = append(earlier, Not{g})
			}
		}
		if !hasDefault {
			arms = append(arms, earlier)
		}
		return arms
	case *ast.ForStmt:
		if s.Cond != nil && !hasBreak(s.Body) {
			// the condition was false when last evaluated, i.e. with the values that hold right after the loop
			after := site{pos: s.End(), anc: e.w.parent[s]}
			return Not{e.cond(keyCtx{e: e, s: &after}, s.Cond, 0)}
		}
	case *ast.ReturnStmt, *ast.BranchStmt:
		return Const(false)
	case *ast.ExprStmt:
		if isTerminating(e.info, s) {
			return Const(false)
		}
	case *ast.LabeledStmt:
		return e.post(s.Stmt)
	}
	return Const(true)
}

func hasBreak(b *ast.BlockStmt) bool {
	found := false
	ast.Inspect(b, func(n ast.Node) bool {
		switch n := n.(type) {
		case *ast.ForStmt, *ast.RangeStmt, *ast.SwitchStmt, *ast.SelectStmt, *ast.TypeSwitchStmt, *ast.FuncLit:
			// an unlabelled break inside these does not leave our loop; a labelled one might
			lab := false
			ast.Inspect(n, func(m ast.Node) bool {
				if br, ok := m.(*ast.BranchStmt); ok && (br.Tok == token.BREAK || br.Tok == token.GOTO) && br.Label != nil {
					lab = true
				}
				return true
			})
			if lab {
				found = true
			}
			return false
		case *ast.BranchStmt:
			if n.Tok == token.BREAK || n.Tok == token.GOTO {
				found = true
			}
		}
		return true
	})
	return found
}

func (e *entFn) postList(list []ast.Stmt) Formula {
	var out And
	for _, s := range list {
		out = append(out, e.post(s))
	}
	if out == nil {
		return Const(true)
	}
	return out
}

func (e *entFn) caseGuard(sw *ast.SwitchStmt, cc *ast.CaseClause) Formula {
	if cc.List == nil {
		return Const(true)
	}
	var g Or
	for _, x := range cc.List {
		g = append(g, e.caseEq(sw, x))
	}
	return g
}

// caseEq: the formula "the switch selects the case expression x" (tag == x, or x itself in a tagless switch).
func (e *entFn) caseEq(sw *ast.SwitchStmt, x ast.Expr) Formula {
	var g Or
	{
		if sw.Tag == nil {
			g = append(g, e.cond(e.k(), x, 0))
		} else {
			// tag == x, the tag being evaluated at the switch
			ks := keyCtx{e: e, s: &site{pos: sw.Tag.End(), anc: sw}}
			var objs []types.Object
			ks.objs = &objs
			if tt, ok := e.info.Types[sw.Tag]; ok && isIntType(tt.Type) {
				if tv, ok := e.info.Types[x]; ok && tv.Value != nil && tv.Value.Kind() == constant.Int {
					if cv, ok := constant.Int64Val(tv.Value); ok {
						// same encoding as cond uses for integer comparisons with constants
						l := ks.norm(sw.Tag)
						g = append(g, And{e.noteAtom(gtAtom(l, cv-1), objs), Not{e.noteAtom(gtAtom(l, cv), objs)}})
						return g
					}
				}
			}
			g = append(g, e.noteAtom(Atom("eq("+ks.key(sw.Tag)+","+ks.key(x)+")"), objs))
		}
	}
	return g
}

// facts collects the facts that hold at node n of function f.
func (e *entFn) facts(n ast.Node) And {
	var out And
	child := n
	crossed := false // crossed a function-literal boundary
	var litPos token.Pos
	add := func(f Formula) {
		if crossed {
			f = e.closureFilter(f, litPos)
		}
		out = append(out, f)
	}
	for p := e.w.parent[n]; p != nil; child, p = p, e.w.parent[p] {
		switch p := p.(type) {
		case *ast.IfStmt:
			if child == p.Body {
				add(e.cond(e.k(), p.Cond, 0))
			} else if child == p.Else {
				add(Not{e.cond(e.k(), p.Cond, 0)})
			}
		case *ast.BinaryExpr:
			if child == p.Y && p.Op == token.LAND {
				add(e.cond(e.k(), p.X, 0))
			} else if child == p.Y && p.Op == token.LOR {
				add(Not{e.cond(e.k(), p.X, 0)})
			}
		case *ast.CaseClause:
			sw, ok := e.w.parent[e.w.parent[p]].(*ast.SwitchStmt)
			inBody := false
			for _, s := range p.Body {
				if s == child {
					inBody = true
				}
			}
			if ok && inBody {
				add(e.caseGuard(sw, p))
				for _, other := range sw.Body.List {
					if other == p || (sw.Tag != nil && p.List != nil) { // constant tag arms exclude each other by axiom (i)
						break
					}
					if oc := other.(*ast.CaseClause); oc.List != nil {
						add(Not{e.caseGuard(sw, oc)})
					}
				}
				if sw.Tag != nil && p.List == nil {
					for _, other := range sw.Body.List {
						if oc := other.(*ast.CaseClause); oc.List != nil {
							add(Not{e.caseGuard(sw, oc)})
						}
					}
				}
				for _, f := range e.before(p.Body, child) {
					add(f)
				}
			}
		case *ast.CommClause:
			for _, f := range e.before(p.Body, child) {
				add(f)
			}
		case *ast.ForStmt:
			if child == p.Body && p.Cond != nil {
				add(e.cond(e.k(), p.Cond, 0))
			}
		case *ast.BlockStmt:
			for _, f := range e.before(p.List, child) {
				add(f)
			}
		case *ast.FuncLit:
			crossed = true
			litPos = p.Pos()
		}
		if p == e.root.Node() {
			break
		}
	}
	return out
}

// closureFilter keeps, of the facts of a literal's creation point, only those over locals never assigned after creation.
func (e *entFn) closureFilter(f Formula, litPos token.Pos) Formula {
	set := map[Atom]bool{}
	atomsOf(f, set)
	for a := range set {
		objs := e.atomObj[a]
		if strings.Contains(string(a), "~") || strings.Contains(string(a), "!") {
			return Const(true) // mentions mutable state or a call: does not survive into the closure
		}
		for _, o := range objs {
			for _, as := range e.assigns[o] {
				if as.Pos() > litPos {
					return Const(true)
				}
			}
			if e.addrOf[o] {
				return Const(true)
			}
		}
	}
	return f
}

func (e *entFn) before(list []ast.Stmt, child ast.Node) And {
	var out And
	for _, s := range list {
		if s == child {
			break
		}
		out = append(out, e.post(s))
	}
	return out
}

// ---------- axioms ----------

var gtRe = struct{}{}

func parseGt(a Atom) (form string, c int64, ok bool) {
	s := string(a)
	if !strings.HasPrefix(s, "gt[") || !strings.HasSuffix(s, "]") {
		return "", 0, false
	}
	i := strings.LastIndex(s, "|")
	if i < 0 {
		return "", 0, false
	}
	v, err := strconv.ParseInt(s[i+1:len(s)-1], 10, 64)
	if err != nil {
		return "", 0, false
	}
	return s[3:i], v, true
}

func (e *entFn) buildAxioms(atoms map[Atom]bool) []Formula {
	var ax []Formula
	// (i) one expression equals at most one of several distinct constants
	byLeft := map[string][]Atom{}
	for a := range atoms {
		s := string(a)
		if strings.HasPrefix(s, "eq(") {
			if i := strings.LastIndex(s, ",const:"); i > 0 {
				byLeft[s[3:i]] = append(byLeft[s[3:i]], a)
			}
		}
	}
	for _, as := range byLeft {
		sort.Slice(as, func(i, j int) bool { return as[i] < as[j] })
		for i := range as {
			for j := i + 1; j < len(as); j++ {
				ax = append(ax, Not{And{as[i], as[j]}})
			}
		}
	}
	// (ii) A1: at most one alternative of a Value is non-nil
	byVal := map[string][]Atom{}
	for a := range atoms {
		s := string(a)
		for _, alt := range []string{".Number)", ".Boolean)", ".String)"} {
			if strings.HasPrefix(s, "nn(") && strings.HasSuffix(s, alt) {
				byVal[s[3:len(s)-len(alt)]] = append(byVal[s[3:len(s)-len(alt)]], a)
			}
		}
	}
	for _, as := range byVal {
		sort.Slice(as, func(i, j int) bool { return as[i] < as[j] })
		for i := range as {
			for j := i + 1; j < len(as); j++ {
				ax = append(ax, Not{And{as[i], as[j]}})
			}
		}
	}
	// (iii) integer order: E > c1 ⇒ E > c2 for c1 > c2; len/cap/Size are non-negative
	type gc struct {
		a Atom
		c int64
	}
	byForm := map[string][]gc{}
	for a := range atoms {
		if form, c, ok := parseGt(a); ok {
			byForm[form] = append(byForm[form], gc{a, c})
		}
	}
	for form, list := range byForm {
		sort.Slice(list, func(i, j int) bool { return list[i].c < list[j].c })
		for i := 0; i+1 < len(list); i++ {
			if list[i].c != list[i+1].c {
				ax = append(ax, Or{Not{list[i+1].a}, list[i].a})
			}
		}
		if nonNegForm(form) {
			for _, g := range list {
				if g.c < 0 {
					ax = append(ax, g.a)
				}
			}
		}
	}
	// (iv) a < b, b < a exclude each other
	for a := range atoms {
		s := string(a)
		if strings.HasPrefix(s, "lt(") {
			inner := s[3 : len(s)-1]
			// split at the top-level comma: forms never contain commas outside calls, try every comma
			for i := 0; i < len(inner); i++ {
				if inner[i] == ',' {
					rev := Atom("lt(" + inner[i+1:] + "," + inner[:i] + ")")
					if atoms[rev] && rev > a {
						ax = append(ax, Not{And{a, rev}})
					}
				}
			}
		}
	}
	// (v) transitivity over the lt atoms that are present:  a<b ∧ b<c ⇒ a<c ;  a<b ∧ ¬(c<b) ⇒ a<c ;  ¬(b<a) ∧ b<c ⇒ a<c
	type ltA struct{ l, r string }
	lts := map[ltA]Atom{}
	for a := range atoms {
		s := string(a)
		if strings.HasPrefix(s, "lt(") {
			inner := s[3 : len(s)-1]
			// forms end with a signed constant ("+0", "-1", …): the separating comma follows one
			for i := 1; i < len(inner); i++ {
				if inner[i] == ',' && (inner[i-1] >= '0' && inner[i-1] <= '9') && i+1 < len(inner) && (inner[i+1] == '+' || inner[i+1] == '-') {
					lts[ltA{inner[:i], inner[i+1:]}] = a
				}
			}
		}
	}
	for k1, a1 := range lts { // a<b
		for k2, a2 := range lts {
			if k1 == k2 {
				continue
			}
			// a<b ∧ b<c ⇒ a<c
			if k1.r == k2.l {
				if a3, ok := lts[ltA{k1.l, k2.r}]; ok {
					ax = append(ax, Or{Not{a1}, Not{a2}, a3})
				}
			}
			// a<b ∧ ¬(c<b) ⇒ a<c      (k2 = c<b)
			if k1.r == k2.r && k1.l != k2.l {
				if a3, ok := lts[ltA{k1.l, k2.l}]; ok {
					ax = append(ax, Or{Not{a1}, a2, a3})
				}
			}
			// ¬(b<a) ∧ b<c ⇒ a<c      (k1 = b<a, k2 = b<c)
			if k1.l == k2.l && k1.r != k2.r {
				if a3, ok := lts[ltA{k1.r, k2.r}]; ok {
					ax = append(ax, Or{a1, Not{a2}, a3})
				}
			}
		}
	}
	return append(ax, e.axioms...)
}

// nonNegForm: the form is exactly +1*len(...)/cap(...)/X.Size() with constant 0
func nonNegForm(form string) bool {
	if !strings.HasPrefix(form, "+1*") || !strings.HasSuffix(form, "+0") {
		return false
	}
	body := form[3 : len(form)-2]
	if strings.Contains(body, "+1*") || strings.Contains(body, "-1*") {
		return false
	}
	return strings.HasPrefix(body, "len(") || strings.HasPrefix(body, "cap(") || strings.HasSuffix(body, ".Size()") || strings.HasSuffix(body, ".NumIn()") || strings.HasSuffix(body, ".NumOut()")
}

func flattenAnd(f Formula, out *[]Formula) {
	if a, ok := f.(And); ok {
		for _, g := range a {
			flattenAnd(g, out)
		}
		return
	}
	*out = append(*out, f)
}

// entails decides facts ∧ axioms ⇒ goal after pruning to the goal's cone of influence.
func (e *entFn) entails(facts Formula, goal Formula) (bool, int, string) {
	set := map[Atom]bool{}
	atomsOf(facts, set)
	atomsOf(goal, set)
	for _, a := range e.axioms {
		atomsOf(a, set)
	}
	axioms0 := e.buildAxioms(set)
	var pool []Formula
	flattenAnd(facts, &pool)
	nFacts := len(pool)
	pool = append(pool, axioms0...)
	cone := map[Atom]bool{}
	atomsOf(goal, cone)
	used := make([]bool, len(pool))
	for changed := true; changed; {
		changed = false
		for i, g := range pool {
			if used[i] {
				continue
			}
			as := map[Atom]bool{}
			atomsOf(g, as)
			for a := range as {
				if cone[a] {
					used[i], changed = true, true
					for b := range as {
						cone[b] = true
					}
					break
				}
			}
		}
	}
	var fs []Formula
	for i, g := range pool {
		if used[i] {
			fs = append(fs, g)
		}
		_ = nFacts
	}
	fs = append(fs, Not{goal})
	if len(cone) > 48 {
		return false, len(cone), "too many atoms"
	}
	budget := 2_000_000
	sat, model := satisfiable(fs, map[Atom]int8{}, &budget)
	if budget < 0 {
		return false, len(cone), "search budget exhausted"
	}
	if sat {
		cex := []string{}
		for a, v := range model {
			if v == 1 {
				cex = append(cex, string(a))
			}
		}
		sort.Strings(cex)
		if len(cex) > 6 {
			cex = cex[:6]
		}
		return false, len(cone), "not entailed; a falsifying valuation makes true: " + strings.Join(cex, " ")
	}
	return true, len(cone), ""
}

// Prove decides whether goal holds at node n.
func (e *entFn) Prove(n ast.Node, goal Formula) (bool, string) {
	facts := e.facts(n)
	ok, natoms, why := e.entails(facts, goal)
	if ok {
		return true, fmt.Sprintf("entailed by the dominating guards (%d atoms)", natoms)
	}
	return false, why
}

func (e *entFn) addAxiom(name string, ax Formula) {
	if !e.axSeen[name] {
		e.axSeen[name] = true
		e.axioms = append(e.axioms, ax)
	}
}

// installContracts adds the contract axioms of two-result calls inside the root function:
//
//	v, err := g(...) with g in the evaluator family:  err != nil ∨ v != nil
//	v, ok := s.GetValue(...) on a variable.Retriever/Storer:  ¬ok ∨ v != nil           (assumption A2)
func (e *entFn) installContracts(family func(*types.Func) bool) {
	if e.family != nil {
		return
	}
	e.family = family
	ast.Inspect(e.root.Node(), func(n ast.Node) bool {
		a, ok := n.(*ast.AssignStmt)
		if !ok || len(a.Lhs) != 2 || len(a.Rhs) != 1 {
			return true
		}
		call, ok := a.Rhs[0].(*ast.CallExpr)
		if !ok {
			return true
		}
		vID, ok1 := a.Lhs[0].(*ast.Ident)
		sID, ok2 := a.Lhs[1].(*ast.Ident)
		if !ok1 || !ok2 || vID.Name == "_" || sID.Name == "_" {
			return true
		}
		callee := calleeOf(e.info, call)
		if callee == nil {
			return true
		}
		after := site{pos: a.End(), anc: e.w.parent[a]}
		if _, isIf := e.w.parent[a].(*ast.IfStmt); isIf {
			after.anc = e.w.parent[a]
		}
		ks := keyCtx{e: e, s: &after}
		vKey, sKey := ks.key(vID), ks.key(sID)
		switch {
		case family != nil && family(callee):
			e.addAxiom("c:"+vKey, Or{Atom("nn(" + sKey + ")"), Atom("nn(" + vKey + ")")})
		case callee.Name() == "GetValue" && callee.Pkg() != nil && callee.Pkg().Path() == modPath+"/variable":
			e.addAxiom("g:"+vKey, Or{Not{Atom(sKey)}, Atom("nn(" + vKey + ")")})
		}
		return true
	})
}

// mayWriteField: the call may change what the field fld (of some object) holds — decided on the callee's SSA body
// (field-based, object-insensitive); unknown callees are assumed to write everything.
func (e *entFn) mayWriteField(call *ast.CallExpr, fld *types.Var) bool {
	callee := calleeOf(e.info, call)
	if callee == nil {
		return true // dynamic call
	}
	if callee.Pkg() == nil || !strings.HasPrefix(callee.Pkg().Path(), modPath) {
		// external: may write only what it is handed; a method on the field itself (e.g. a strings.Builder field) writes it
		if sel, ok := unparen(call.Fun).(*ast.SelectorExpr); ok && lastField(e.info, sel.X) == fld {
			return true
		}
		for _, a := range call.Args {
			if u, ok := unparen(a).(*ast.UnaryExpr); ok && u.Op == token.AND && lastField(e.info, u.X) == fld {
				return true
			}
		}
		// interface methods implemented by host code (storer, functions) cannot reach unexported runner state
		return false
	}
	if sig, ok := callee.Type().(*types.Signature); ok && sig.Recv() != nil {
		if _, isIface := sig.Recv().Type().Underlying().(*types.Interface); isIface {
			// module interface (functionCaller, commandCaller): resolve to every module implementation
			any := false
			for _, f := range e.w.ModuleSSAFuncs() {
				if f.Name() == callee.Name() && f.Signature.Recv() != nil {
					ws, unknown := e.w.fieldWrites(f)
					if unknown || ws[fld] {
						any = true
					}
				}
			}
			return any
		}
	}
	sf := e.w.SSA().FuncValue(callee.Origin())
	if sf == nil {
		return true
	}
	// a mutating method invoked on the field itself
	if sel, ok := unparen(call.Fun).(*ast.SelectorExpr); ok && lastField(e.info, sel.X) == fld {
		if writesThroughReceiver(sf, 0) {
			return true
		}
	}
	ws, unknown := e.w.fieldWrites(sf)
	return unknown || ws[fld]
}

var fieldWritesMemo = map[*ssa.Function]map[*types.Var]bool{}
var fieldWritesUnknown = map[*ssa.Function]bool{}

// fieldWrites: the struct fields a function may write, transitively through static callees.
func (w *World) fieldWrites(f *ssa.Function) (map[*types.Var]bool, bool) {
	if ws, ok := fieldWritesMemo[f]; ok {
		return ws, fieldWritesUnknown[f]
	}
	ws := map[*types.Var]bool{}
	fieldWritesMemo[f] = ws // recursion guard
	unknown := false
	if f.Blocks == nil {
		fieldWritesUnknown[f] = !strings.HasPrefix(ssaFuncPkgPath(f), modPath) && false
		return ws, fieldWritesUnknown[f]
	}
	for _, b := range f.Blocks {
		for _, in := range b.Instrs {
			switch x := in.(type) {
			case *ssa.Store:
				if fld := fieldOfAddr(x.Addr); fld != nil {
					ws[fld] = true
				}
			case *ssa.MapUpdate:
				if fld := loadedField(x.Map); fld != nil {
					ws[fld] = true
				}
			case ssa.CallInstruction:
				cc := x.Common()
				callee := cc.StaticCallee()
				if callee == nil {
					if cc.IsInvoke() {
						continue // host or module interface: handled at the AST call site
					}
					if _, isBuiltin := cc.Value.(*ssa.Builtin); isBuiltin {
						continue
					}
					// a call through a function value: module closures that escape could write; be conservative only for module-typed state
					continue
				}
				if !strings.HasPrefix(ssaFuncPkgPath(callee), modPath) {
					continue
				}
				if callee.Signature.Recv() != nil && len(cc.Args) > 0 {
					if fld := fieldOfAddr(cc.Args[0]); fld != nil && writesThroughReceiver(callee, 0) {
						ws[fld] = true
					}
				}
				cws, cu := w.fieldWrites(callee)
				for k := range cws {
					ws[k] = true
				}
				if cu {
					unknown = true
				}
			}
		}
	}
	fieldWritesUnknown[f] = unknown
	return ws, unknown
}
