package main

// c01.go — C01: dialogue flow (control skeleton of the interpreter and of the tree builder).

import (
	"go/ast"
	"go/token"
	"go/types"
	"regexp"
	"sort"
	"strings"

	"golang.org/x/tools/go/ssa"
)

func init() {
	registry["C01"] = &propCheck{
		meta: propMeta{
			Level: "other",
			Explanation: "Decides the control skeleton that Yarn's sequential semantics needs, on every path of the interpreter: one dispatch arm per statement kind and one kind per statement (R1), " +
				"at most one body per if-chain, the body of the clause whose condition was tested true (R2), jump = clear + enter the found node + rename, nothing on failure (R3), the choice argument " +
				"is dead unless waiting and selects exactly Options[choice] on top of the kept continuation (R4), the start node is node 0 of reader 0 and readers are concatenated in order (R5), " +
				"the tree builder's callback stacks are balanced per grammar rule (R6), a statement queue hands out each statement once in order (R7), only five kinds of site push statements " +
				"and only an exhausted queue is popped (R8), and nothing outside internal/tree writes the parsed tree (R9). Necessary conditions of the behaviour, not the behaviour as a whole.",
			NotDecided:  "that the lexer/parser nest bodies as Yarn prescribes (grammar and ATN, assumption A3); evaluation results (C02); the behaviour as a whole",
			Assumptions: []string{"A3 (ANTLR runtime and generated parser trusted)", "A4 (range over a slice is ascending)", "A5 (FLOW is object-insensitive)"},
			Trusted:     []string{"go/types", "golang.org/x/tools/go/cfg", "golang.org/x/tools/go/ssa", "go/packages loader"},
		},
		run: checkC01,
	}
}

func checkC01(c *Ctx) {
	w := c.W
	wGlobal = w
	m := w.runner()
	c.rule("C01.R1", "every pointer field of tree.Statement has exactly one dispatch arm in Next testing that field; every tree.Statement literal sets exactly one field", 9)
	c.rule("C01.R2", "if-chain: clauses visited by a range over Clauses; the pushed body belongs to the clause whose condition was evaluated and is pushed only where that condition is true; no second push and no further iteration after a push; else-clauses carry the constant-true condition", 4)
	c.rule("C01.R3", "jump: on success CLEAR then exactly one PUSH of the found node's statements and currentNode <- that node's title, under the ok of FindNode on the evaluated destination; on failure no effect at all", 3)
	c.rule("C01.R4", "the choice argument is used only as Options[choice] under the waiting predicate and as the argument of recursive Next calls; the pushed body is Options[choice].Statements, pushed without clearing or popping the continuation; the consumed choice is cleared (C12.R2)", 4)
	c.rule("C01.R5", "the start queue and the start node name both come from Nodes[0] of the dialogue parsed from the readers; FromReaders appends each reader's nodes after the accumulated ones, in a range over the readers", 4)
	c.rule("C01.R6", "tree builder: for every grammar rule, pushes on each listener stack in EnterX equal pops in ExitX plus self-popping callbacks; every callback field set in EnterX is reset in ExitX or by the callback itself", 30)
	c.rule("C01.R7", "statementQueue: the statement handed out is statements[pointer] read before a single +1 of pointer; no change when exhausted; the index is guarded against len", 3)
	c.rule("C01.R8", "the continuation stack is pushed only in the constructor, the choice block, the if executor, the jump executor and RestoreAt; popped only in Next when the top queue is exhausted; elements name the current node", 8)
	c.rule("C01.R9", "outside internal/tree no store goes to a field, slice element or map of an object of an internal/tree type unless the object was allocated in the same function", 1)
	c.rule("C01.R11", "tree builder completeness: every callback literal installed on a listener stack or callback field consumes each of its parameters on every path (store or call argument)", 8)
	c.rule("C01.R12", "no failure is reported on behalf of a call that succeeded: every error variable handed to fmt.Errorf in the runner and the tree builder is entailed non-nil there", 5)
	c.rule("C01.R13", "what a lookup hands back is used only where it is known to have been found: every use of v after `v, ok := f(…)` on a (T, bool) function of the runner and the tree builder is entailed by ok", 1)
	c.rule("C01.R10", "tree builder re-entrancy: a listener field that is not a stack, is written by the handlers of a self-nesting grammar rule and is read later (in an Exit handler or a callback) would be overwritten by a nested occurrence of the same rule", 8)
	if !m.ok(c, "C01") {
		return
	}
	c01R1(c, m)
	c01R2(c, m)
	c01R3(c, m, "C01.R3")
	c01R4(c, m)
	c01R5(c, m)
	c01R6(c)
	c01R7(c, m)
	c01R8(c, m)
	c01R9(c)
	c01R10(c)
	c01R11(c)
	checkWrapNonNil(c, "C01.R12", "", "internal/tree")
	checkFoundFlag(c, "C01.R13", "", "internal/tree")
}

// ---------- R1 ----------

func c01R1(c *Ctx, m *runnerModel) {
	w := c.W
	treePkg := w.Pkg("internal/tree")
	st := namedType(treePkg, "Statement")
	if st == nil {
		c.undecided("C01.R1", "type tree.Statement not found")
		return
	}
	s := st.Underlying().(*types.Struct)
	info := m.pkg.TypesInfo
	// dispatch: tagless switch in Next whose case conditions test fields of tree.Statement against nil
	// dispatch: the tagless switch, or the if / else-if chain, of Next whose arm conditions test fields of tree.Statement
	var dispatch ast.Node
	arms := map[*types.Var]int{}
	consider := func(node ast.Node, as []arm) {
		local := map[*types.Var]int{}
		for _, a := range as {
			for _, x := range a.conds {
				if b, ok := unparen(x).(*ast.BinaryExpr); ok && b.Op == token.NEQ && isNilExpr(info, b.Y) {
					if f := lastField(info, b.X); f != nil && pkgPathOfVar(f) == treePkg.PkgPath {
						local[f]++
					}
				}
			}
		}
		if len(local) > len(arms) {
			arms = local
			dispatch = node
		}
	}
	walkNoLit(m.next.Body, func(n ast.Node) bool {
		switch q := n.(type) {
		case *ast.SwitchStmt:
			if q.Tag == nil {
				consider(q, armsOfSwitch(q))
			}
		case *ast.IfStmt:
			if pe, isElse := w.parent[q].(*ast.IfStmt); !isElse || pe.Else != ast.Stmt(q) {
				consider(q, armsOfIfChain(q))
			}
		}
		return true
	})
	if dispatch == nil {
		c.undecided("C01.R1", "no dispatch switch over tree.Statement fields found in Next")
		return
	}
	for i := 0; i < s.NumFields(); i++ {
		f := s.Field(i)
		if _, isPtr := f.Type().(*types.Pointer); !isPtr {
			continue
		}
		n := arms[f]
		c.ob("C01.R1", "dispatch/"+f.Name(), w.Pos(dispatch.Pos()), n == 1, map[bool]string{true: "exactly one arm tests Statement." + f.Name() + " != nil", false: itoa(n) + " arms test Statement." + f.Name() + " (want exactly 1): statements of that kind would be skipped or reported as unsupported"}[n == 1])
	}
	// the dispatched value is the statement just fetched and stored as lastStatement
	// literals
	lits := 0
	for _, pkg := range []string{"internal/tree", ""} {
		p := w.Pkg(pkg)
		for _, f := range w.FuncsIn(p) {
			if f.Body == nil || f.Lit != nil {
				continue
			}
			ast.Inspect(f.Body, func(n ast.Node) bool {
				cl, ok := n.(*ast.CompositeLit)
				if !ok {
					return true
				}
				if tv, ok := p.TypesInfo.Types[cl]; ok && tv.Type == types.Type(st) {
					lits++
					set := 0
					for _, el := range cl.Elts {
						if _, ok := el.(*ast.KeyValueExpr); ok {
							set++
						} else {
							set += 2 // positional literal: ambiguous
						}
					}
					c.obN("C01.R1", f.Name+"/Statement-literal#"+itoa(lits), w.Pos(cl.Pos()), set == 1, map[bool]string{true: "sets exactly one statement kind", false: "sets " + itoa(set) + " fields (a statement must be of exactly one kind)"}[set == 1], false)
				}
				return true
			})
		}
	}
	c.fn(m.next)
}

// ---------- R2 ----------

func c01R2(c *Ctx, m *runnerModel) {
	w := c.W
	info := m.pkg.TypesInfo
	f := m.ifx
	c.fn(f)
	x := w.expander(f)
	var param *types.Var
	sig := f.Sig()
	for i := 0; i < sig.Params().Len(); i++ {
		if typeStr(sig.Params().At(i).Type()) == "*tree.IfStatement" {
			param = sig.Params().At(i)
		}
	}
	pname := "$" + param.Name()
	// loop shape
	var loop *ast.RangeStmt
	walkNoLit(f.Body, func(n ast.Node) bool {
		if r, ok := n.(*ast.RangeStmt); ok && x.str(r.X) == pname+".Clauses" {
			loop = r
		}
		return true
	})
	if loop == nil {
		c.ob("C01.R2", f.Name+"/clause-loop", w.Pos(f.Decl.Pos()), false, "no range loop over the if-statement's Clauses: clauses would not be visited in document order")
		return
	}
	c.ob("C01.R2", f.Name+"/clause-loop", w.Pos(loop.Pos()), true, "range over "+exprStr(loop.X)+" (ascending by A4)")
	clause := pname + ".Clauses[range]"
	// pushes
	pushes := 0
	walkNoLit(f.Body, func(n ast.Node) bool {
		call, ok := n.(*ast.CallExpr)
		if !ok {
			return true
		}
		if name, on := methodCallOn(info, call, m.fStack); on && (name == "Push" || name == "PushAll") {
			pushes++
			key := f.Name + "/push#" + itoa(pushes)
			src := ""
			if len(call.Args) == 1 {
				if v := litField(call.Args[0], "statements"); v != nil {
					src = x.str(v)
				} else {
					src = x.str(call.Args[0])
				}
			}
			okSrc := src == clause+".Statements"
			c.ob("C01.R2", key+"/source", w.Pos(call.Pos()), okSrc, map[bool]string{true: "pushes " + src, false: "pushes " + src + ", not the statements of the clause being visited (" + clause + ".Statements)"}[okSrc])
			// polarity: the push is dominated by the truth of the boolean of the evaluated clause condition
			var derefs []*ast.StarExpr
			walkNoLit(f.Body, func(d ast.Node) bool {
				if se, ok := d.(*ast.StarExpr); ok {
					s := x.str(se.X)
					if strings.HasSuffix(s, "#0.Boolean") && strings.Contains(s, clause+".Condition") {
						derefs = append(derefs, se)
					}
				}
				return true
			})
			proved := false
			why := "no dereference of the evaluated clause condition's Boolean found"
			e := w.ent(f)
			for _, d := range derefs {
				goal := e.cond(keyCtx{e: e, s: &site{pos: call.Pos(), anc: call}}, d, 0)
				if ok, how := e.Prove(call, goal); ok {
					proved = true
					why = "the push is dominated by the true branch of " + exprStr(d) + " (" + how + ")"
					break
				} else {
					why = "the push is not dominated by the truth of the clause condition " + exprStr(d) + ": " + how
				}
			}
			c.ob("C01.R2", key+"/polarity", w.Pos(call.Pos()), proved, why)
		}
		return true
	})
	if pushes == 0 {
		c.ob("C01.R2", f.Name+"/push", w.Pos(f.Decl.Pos()), false, "the if executor never pushes a clause body")
	}
	// automaton: once a clause condition was true the chain is over (no further iteration), and a body is pushed
	// only after that, at most once
	r := evtRule{
		start: "",
		prim: func(n ast.Node) []string {
			switch n := n.(type) {
			case *ast.CallExpr:
				if name, on := methodCallOn(info, n, m.fStack); on && (name == "Push" || name == "PushAll") {
					return []string{"PUSH"}
				}
			case *pseudo:
				if n.kind == "BACKEDGE" {
					return []string{"BACKEDGE"}
				}
			}
			return nil
		},
		edge: func(e edgeInfo) []string {
			// the true edge of the dereferenced boolean of the evaluated clause condition
			if se, ok := unparen(e.Cond).(*ast.StarExpr); ok && e.Branch {
				s := x.str(se.X)
				if strings.HasSuffix(s, "#0.Boolean") && strings.Contains(s, clause+".Condition") {
					return []string{"TRUE"}
				}
			}
			return nil
		},
		step: func(st, ev string) string {
			switch ev {
			case "TRUE":
				if st == "" {
					return "decided"
				}
			case "PUSH":
				switch st {
				case "decided":
					return "pushed"
				case "pushed":
					return "twice"
				}
			case "BACKEDGE":
				if st == "decided" || st == "pushed" {
					return "continued"
				}
			}
			return ""
		},
		bad: func(st, ev string) string {
			switch {
			case st == "twice" && ev == "PUSH":
				return "a second clause body can be pushed on one path (only the first true clause may run)"
			case st == "continued" && ev == "BACKEDGE":
				return "the clause loop continues after a clause's condition was true: a later clause could be evaluated and run although an earlier one was the first true clause"
			}
			return ""
		},
	}
	fs := runEVT(w, f, r)
	if len(fs) == 0 {
		c.ob("C01.R2", f.Name+"/at-most-one-body", w.Pos(f.Decl.Pos()), true, "no path iterates after a clause condition was true, and at most one body is pushed")
	}
	for i, fd := range fs {
		c.ob("C01.R2", f.Name+"/at-most-one-body#"+itoa(i+1), w.Pos(fd.pos), false, fd.msg)
	}
	// else clause carries constant true (tree builder)
	tp := w.Pkg("internal/tree")
	found := 0
	for _, g := range w.FuncsWithParam(tp, "*parser.Else_clauseContext") {
		if !strings.Contains(g.Name, "Enter") {
			continue
		}
		c.fn(g)
		gx := w.expander(g)
		walkNoLit(g.Body, func(n ast.Node) bool {
			cl, ok := n.(*ast.CompositeLit)
			if !ok {
				return true
			}
			if tv, ok := tp.TypesInfo.Types[cl]; ok && typeStr(tv.Type) == "tree.Clause" {
				found++
				cond := litField(cl, "Condition")
				s := ""
				if cond != nil {
					s = gx.str(cond)
				}
				okc := strings.Contains(s, "Value:"+modPath+"/variable.NewBoolean(true)")
				c.ob("C01.R2", g.Name+"/else-condition", w.Pos(cl.Pos()), okc, map[bool]string{true: "the else clause is built with the constant-true condition", false: "the else clause's condition is " + s + ", not the constant true"}[okc])
			}
			return true
		})
	}
	if found == 0 {
		c.undecided("C01.R2", "no Clause literal found in the else-clause handler of the tree builder")
	}
}

// ---------- R3 (shared with C07.R6 and C11.R2) ----------

type jumpFacts struct {
	findings    []evtFinding
	successSeqs map[string]bool
	errSeqs     map[string]bool
}

func jumpAutomaton(w *World, m *runnerModel) *jumpFacts {
	info := m.pkg.TypesInfo
	f := m.jump
	jf := &jumpFacts{successSeqs: map[string]bool{}, errSeqs: map[string]bool{}}
	// When the visit accounting is written out in the jump executor itself (no separate updater), the accounting is the
	// if statement that holds the update and nothing else; a path "counts the visit" when it evaluates that statement's
	// condition (whether the count then grows is C11.R3's question, exactly as with a separate updater).
	var accountingTrigger ast.Node
	inlineAccounting := m.incVisit != nil && m.incVisit == m.jump
	if inlineAccounting {
		var update ast.Stmt
		walkNoLit(f.Body, func(n ast.Node) bool {
			switch q := n.(type) {
			case *ast.IncDecStmt:
				if ix, ok := unparen(q.X).(*ast.IndexExpr); ok && lastField(info, ix.X) == m.fVis {
					update = q
				}
			case *ast.AssignStmt:
				for _, l := range q.Lhs {
					if ix, ok := unparen(l).(*ast.IndexExpr); ok && lastField(info, ix.X) == m.fVis {
						update = q
					}
				}
			}
			return true
		})
		accountingTrigger = update
		if update != nil {
			var top *ast.IfStmt
			child := ast.Node(update)
			for p := w.parent[update]; p != nil && p != f.Node(); child, p = p, w.parent[p] {
				is, ok := p.(*ast.IfStmt)
				if !ok {
					continue
				}
				if child != ast.Node(is.Body) || is.Else != nil {
					break
				}
				// the body must hold nothing but the accounting
				pure := true
				walkNoLit(is.Body, func(q ast.Node) bool {
					switch y := q.(type) {
					case *ast.ReturnStmt, *ast.BranchStmt, *ast.GoStmt, *ast.SendStmt:
						pure = false
					case *ast.AssignStmt, *ast.IncDecStmt:
						for _, fld := range storesTo(info, y) {
							if fld != m.fVis {
								pure = false
							}
						}
					case *ast.CallExpr:
						if _, on := methodCallOn(info, y, m.fStack); on {
							pure = false
						}
					}
					return true
				})
				if !pure {
					break
				}
				top = is
			}
			if top != nil {
				var first ast.Node
				ast.Inspect(top.Cond, func(q ast.Node) bool {
					switch q.(type) {
					case *ast.CallExpr, *ast.IndexExpr, *ast.StarExpr, *ast.SelectorExpr:
						if first == nil || q.Pos() < first.Pos() {
							first = q
						}
					}
					return true
				})
				if first != nil {
					accountingTrigger = first
				}
			}
		}
	}
	r := evtRule{
		start: "",
		prim: func(n ast.Node) []string {
			if inlineAccounting && accountingTrigger != nil && n == accountingTrigger {
				if _, isStmt := n.(ast.Stmt); !isStmt {
					return []string{"INC"}
				}
			}
			switch n := n.(type) {
			case *ast.CallExpr:
				if name, on := methodCallOn(info, n, m.fStack); on {
					switch name {
					case "Clear":
						return []string{"CLEAR"}
					case "Push", "PushAll":
						return []string{"PUSH"}
					case "Pop":
						return []string{"POP"}
					}
				}
				if callee := calleeOf(info, n); callee != nil {
					if w.byObj[callee] == m.incVisit && m.incVisit != nil {
						return []string{"INC"}
					}
					if name, on := methodCallOn(info, n, m.fStore); on && (strings.HasPrefix(name, "Set") || name == "Clear") {
						return []string{"STORERWRITE"}
					}
				}
			case *ast.AssignStmt, *ast.IncDecStmt:
				var evs []string
				for _, fld := range storesTo(info, n) {
					switch fld {
					case m.fSnap:
						evs = append(evs, "SNAP")
					case m.fNode:
						evs = append(evs, "SETNODE")
					case m.fVis:
						if inlineAccounting && accountingTrigger != nil && n != accountingTrigger {
							break // counted where the accounting statement is entered
						}
						evs = append(evs, "INC")
					case m.fLast, m.fChan:
						evs = append(evs, "OTHERSTORE")
					}
				}
				return evs
			}
			return nil
		},
		step: func(st, ev string) string { return addTok(st, ev) },
		ret: func(st string, r *ast.ReturnStmt, kind string) string {
			switch kind {
			case "nil":
				jf.successSeqs[st] = true
			case "err":
				jf.errSeqs[st] = true
			default:
				jf.successSeqs[st] = true
				jf.errSeqs[st] = true
			}
			return ""
		},
	}
	jf.findings = runEVT(w, f, r)
	return jf
}

func seqList(m map[string]bool) []string {
	var out []string
	for s := range m {
		out = append(out, s)
	}
	sort.Strings(out)
	return out
}

func c01R3(c *Ctx, m *runnerModel, rule string) {
	w := c.W
	info := m.pkg.TypesInfo
	f := m.jump
	c.fn(f)
	jf := jumpAutomaton(w, m)
	if len(jf.successSeqs) == 0 {
		c.undecided(rule, "no success return found in the jump executor")
		return
	}
	for _, seq := range seqList(jf.successSeqs) {
		toks := strings.Fields(seq)
		lastClear, pushesAfter, pops := -1, 0, 0
		for i, t := range toks {
			if t == "CLEAR" {
				lastClear = i
			}
			if t == "POP" {
				pops++
			}
		}
		for i, t := range toks {
			if t == "PUSH" && i > lastClear {
				pushesAfter++
			}
		}
		setnode := strings.Count(" "+seq+" ", " SETNODE ")
		ok := lastClear >= 0 && pushesAfter == 1 && setnode >= 1 && pops == 0
		why := "success path [" + seq + "]: the continuation is cleared, then exactly one queue is pushed, and the current node is renamed"
		if !ok {
			switch {
			case lastClear < 0:
				why = "success path [" + seq + "] never clears the continuation stack: what was pending before the jump would resume after the target node ends"
			case pushesAfter != 1:
				why = "success path [" + seq + "] pushes " + itoa(pushesAfter) + " queues after the last clear (want exactly 1)"
			case setnode < 1:
				why = "success path [" + seq + "] does not store the current node's name: elements would be attributed to the node that was left"
			default:
				why = "success path [" + seq + "] pops the continuation"
			}
		}
		c.ob(rule, f.Name+"/success-seq["+seq+"]", w.Pos(f.Decl.Pos()), ok, why)
	}
	for _, seq := range seqList(jf.errSeqs) {
		ok := seq == ""
		c.ob(rule, f.Name+"/error-seq["+seq+"]", w.Pos(f.Decl.Pos()), ok, map[bool]string{true: "error returns are reached without any effect", false: "an error return is reachable after the effects [" + seq + "]: a failed jump must abandon nothing"}[ok])
	}
	// provenance of the pushed statements and of the new node name
	x := w.expander(f)
	var pushSrc, nodeSrc, findArg string
	var pushCall *ast.CallExpr
	walkNoLit(f.Body, func(n ast.Node) bool {
		switch n := n.(type) {
		case *ast.CallExpr:
			if name, on := methodCallOn(info, n, m.fStack); on && name == "Push" && len(n.Args) == 1 {
				if v := litField(n.Args[0], "statements"); v != nil {
					pushSrc = x.str(v)
				} else {
					pushSrc = x.str(n.Args[0])
				}
				pushCall = n
			}
		case *ast.AssignStmt:
			for i, l := range n.Lhs {
				if lastField(info, l) == m.fNode && len(n.Rhs) == len(n.Lhs) {
					if _, isSel := unparen(l).(*ast.SelectorExpr); isSel {
						nodeSrc = x.str(n.Rhs[i])
					}
				}
			}
		}
		return true
	})
	// pushSrc should be "<recv>.dialogue.FindNode(<dest>)#0.Statements"
	okPush := false
	if i := strings.Index(pushSrc, ".FindNode("); i >= 0 && strings.HasSuffix(pushSrc, ")#0.Statements") {
		findArg = pushSrc[i+len(".FindNode(") : len(pushSrc)-len(")#0.Statements")]
		okPush = true
	}
	c.ob(rule, f.Name+"/push-source", w.Pos(f.Decl.Pos()), okPush, map[bool]string{true: "the pushed queue holds the statements of the node returned by FindNode(" + findArg + ")", false: "the pushed queue holds " + pushSrc + ", not the statements of the node found by name"}[okPush])
	if okPush {
		wantNode := strings.TrimSuffix(pushSrc, ".Statements") + ".Title()"
		okNode := nodeSrc == wantNode
		c.ob(rule, f.Name+"/node-name-source", w.Pos(f.Decl.Pos()), okNode, map[bool]string{true: "currentNode receives the title of the same found node", false: "currentNode receives " + nodeSrc + ", not " + wantNode}[okNode])
		// destination derives from the String alternative of the evaluated jump expression
		okDest := strings.Contains(findArg, "evaluateExpression($"+paramName(f, "*tree.JumpStatement")+".Expression") && strings.HasSuffix(findArg, "#0.String")
		c.ob(rule, f.Name+"/destination-source", w.Pos(f.Decl.Pos()), okDest, map[bool]string{true: "the node name is the string value of the statement's evaluated expression", false: "the node name is " + findArg + ", not the string value of the evaluated jump expression"}[okDest])
		// the effects happen only when FindNode reported success
		if pushCall != nil {
			e := w.ent(f)
			var okIdent *ast.Ident
			walkNoLit(f.Body, func(n ast.Node) bool {
				if a, ok := n.(*ast.AssignStmt); ok && len(a.Lhs) == 2 && len(a.Rhs) == 1 {
					if call, ok := a.Rhs[0].(*ast.CallExpr); ok {
						if callee := calleeOf(info, call); callee != nil && callee.Name() == "FindNode" && len(call.Args) == 1 {
							// the lookup of the destination (not, say, of the node being left)
							if x.str(call.Args[0]) == findArg {
								okIdent = identOf(a.Lhs[1])
							}
						}
					}
				}
				return true
			})
			if okIdent == nil {
				c.ob(rule, f.Name+"/found-guard", w.Pos(pushCall.Pos()), false, "the found flag of FindNode is discarded")
			} else {
				goal := e.cond(keyCtx{e: e, s: &site{pos: pushCall.Pos(), anc: pushCall}}, okIdent, 0)
				ok, how := e.Prove(pushCall, goal)
				c.ob(rule, f.Name+"/found-guard", w.Pos(pushCall.Pos()), ok, map[bool]string{true: "the push is dominated by the found flag of FindNode (" + how + ")", false: "the push is not guarded by the found flag of FindNode: " + how}[ok])
			}
		}
	}
}

func paramName(f *Func, typ string) string {
	sig := f.Sig()
	for i := 0; i < sig.Params().Len(); i++ {
		if typeStr(sig.Params().At(i).Type()) == typ {
			return sig.Params().At(i).Name()
		}
	}
	return "?"
}

// ---------- R4 ----------

func c01R4(c *Ctx, m *runnerModel) {
	w := c.W
	info := m.pkg.TypesInfo
	f := m.next
	sig := f.Sig()
	if sig.Params().Len() != 1 {
		c.undecided("C01.R4", "Next no longer has exactly one parameter")
		return
	}
	choice := sig.Params().At(0)
	x := w.expander(f)
	uses := 0
	ast.Inspect(f.Body, func(n ast.Node) bool {
		id, ok := n.(*ast.Ident)
		if !ok || info.Uses[id] != choice {
			return true
		}
		uses++
		key := f.Name + "/choice-use#" + itoa(uses)
		parent := w.parent[id]
		// (ii) argument of a recursive call
		if call, ok := parent.(*ast.CallExpr); ok {
			if callee := calleeOf(info, call); callee != nil && w.byObj[callee] == m.next && len(call.Args) == 1 && call.Args[0] == ast.Expr(id) {
				c.obN("C01.R4", key, w.Pos(id.Pos()), true, "relayed to the recursive Next call", false)
				return true
			}
		}
		// (i) index through lastStatement under the waiting predicate
		if ix, ok := parent.(*ast.IndexExpr); ok && ix.Index == ast.Expr(id) && isChoiceIndex(m, ix) {
			guarded, why := underWaitingTest(w, m, ix)
			c.ob("C01.R4", key, w.Pos(id.Pos()), guarded, why)
			return true
		}
		c.ob("C01.R4", key, w.Pos(id.Pos()), false, "the choice argument is used in "+nodeStrAny(parent)+": it must have no effect unless the runner is waiting for a choice")
		return true
	})
	if uses == 0 {
		c.ob("C01.R4", f.Name+"/choice-use", w.Pos(f.Decl.Pos()), false, "the choice argument is never used: choosing an option has no effect")
	}
	// the pushed body
	pushes := 0
	walkNoLit(f.Body, func(n ast.Node) bool {
		call, ok := n.(*ast.CallExpr)
		if !ok {
			return true
		}
		if name, on := methodCallOn(info, call, m.fStack); on && name == "Push" && len(call.Args) == 1 {
			pushes++
			src := ""
			if v := litField(call.Args[0], "statements"); v != nil {
				src = x.str(v)
			} else {
				src = x.str(call.Args[0])
			}
			want := "$" + recvName(f) + "." + m.fLast.Name() + ".ShortcutOptionStatement.Options[$" + choice.Name() + "].Statements"
			ok := src == want
			c.ob("C01.R4", f.Name+"/push-source#"+itoa(pushes), w.Pos(call.Pos()), ok, map[bool]string{true: "pushes exactly the chosen option's body", false: "pushes " + src + " (want " + want + ")"}[ok])
			guarded, why := underWaitingTest(w, m, call)
			c.ob("C01.R4", f.Name+"/push-guard#"+itoa(pushes), w.Pos(call.Pos()), guarded, why)
		}
		return true
	})
	if pushes == 0 {
		c.ob("C01.R4", f.Name+"/push", w.Pos(f.Decl.Pos()), false, "Next never pushes an option body")
	}
	choiceConsumedRule(c, m, "C01.R4")
	// the continuation is kept: no CLEAR/POP before the push of the option body on any path
	r := evtRule{
		start: "clean",
		prim: func(n ast.Node) []string {
			if call, ok := n.(*ast.CallExpr); ok {
				if name, on := methodCallOn(info, call, m.fStack); on {
					switch name {
					case "Clear", "Pop":
						return []string{"DROP"}
					case "Push":
						return []string{"PUSH"}
					}
				}
			}
			return nil
		},
		step: func(st, ev string) string {
			if ev == "DROP" && st == "clean" {
				return "dropped"
			}
			if ev == "PUSH" && st == "dropped" {
				return "pushed-after-drop"
			}
			if ev == "PUSH" && st == "clean" {
				return "pushed"
			}
			return ""
		},
		bad: func(st, ev string) string {
			if st == "pushed-after-drop" && ev == "PUSH" {
				return "the option body is pushed after the continuation was cleared or popped: the dialogue would not continue after the option group"
			}
			return ""
		},
	}
	fs := runEVT(w, f, r)
	if len(fs) == 0 {
		c.ob("C01.R4", f.Name+"/continuation-kept", w.Pos(f.Decl.Pos()), true, "no path clears or pops the stack before pushing the option body")
	}
	for i, fd := range fs {
		c.ob("C01.R4", f.Name+"/continuation-kept#"+itoa(i+1), w.Pos(fd.pos), false, fd.msg)
	}
}

func recvName(f *Func) string {
	if f.Decl != nil && f.Decl.Recv != nil && len(f.Decl.Recv.List) == 1 && len(f.Decl.Recv.List[0].Names) == 1 {
		return f.Decl.Recv.List[0].Names[0].Name
	}
	return "?"
}

// underWaitingTest: n lies in the true branch of an if whose condition has the waiting predicate as a conjunct, and no
// store to lastStatement lies between the test and n.
func underWaitingTest(w *World, m *runnerModel, n ast.Node) (bool, string) {
	info := m.pkg.TypesInfo
	child := n
	for p := w.parent[n]; p != nil; child, p = p, w.parent[p] {
		if is, ok := p.(*ast.IfStmt); ok && child == ast.Node(is.Body) {
			var conj []ast.Expr
			var split func(x ast.Expr)
			split = func(x ast.Expr) {
				if b, ok := unparen(x).(*ast.BinaryExpr); ok && b.Op == token.LAND {
					split(b.X)
					split(b.Y)
					return
				}
				conj = append(conj, unparen(x))
			}
			split(is.Cond)
			for _, cj := range conj {
				waiting := false
				if call, ok := cj.(*ast.CallExpr); ok && m.waiting != nil {
					if callee := calleeOf(info, call); callee != nil && w.byObj[callee] == m.waiting {
						waiting = true
					}
				}
				if b, ok := cj.(*ast.BinaryExpr); ok && b.Op == token.NEQ && isNilExpr(info, b.Y) && isOptionGroupOfLast(m, b.X) {
					waiting = true
				}
				if waiting {
					// no store to lastStatement between the test and n
					clean := true
					ast.Inspect(is.Body, func(s ast.Node) bool {
						if s == nil || s.Pos() >= n.Pos() {
							return false
						}
						switch s := s.(type) {
						case *ast.AssignStmt:
							for _, fld := range storesTo(info, s) {
								if fld == m.fLast && s.End() <= n.Pos() {
									clean = false
								}
							}
						}
						return true
					})
					if clean {
						return true, "inside the true branch of the waiting test " + exprStr(cj)
					}
					return false, "lastStatement is reassigned between the waiting test and this use"
				}
			}
		}
		if p == m.next.Node() {
			break
		}
	}
	return false, "not dominated by the waiting predicate (lastStatement is an option group): the choice argument would take effect when no choice is pending"
}

// ---------- R5 ----------

func c01R5(c *Ctx, m *runnerModel) {
	w := c.W
	info := m.pkg.TypesInfo
	f := m.ctor
	c.fn(f)
	x := w.expander(f)
	var pushSrc, nodeSrc string
	walkNoLit(f.Body, func(n ast.Node) bool {
		switch n := n.(type) {
		case *ast.CallExpr:
			if sel, ok := unparen(n.Fun).(*ast.SelectorExpr); ok && sel.Sel.Name == "Push" && len(n.Args) == 1 {
				if tv, ok := info.Types[sel.X]; ok && strings.HasPrefix(typeStr(tv.Type), "container.Stack[") {
					if v := litField(n.Args[0], "statements"); v != nil {
						pushSrc = x.str(v)
					}
				}
			}
		}
		return true
	})
	// the stack written as a literal with its one initial element: container.Stack[*statementQueue]{{statements: …}}
	if pushSrc == "" && m.fStack != nil {
		if init := m.ctorInit(w).fields[m.fStack.Name()]; init != nil {
			lit := unparen(init)
			for k := 0; k < 3; k++ {
				id := identOf(lit)
				if id == nil {
					break
				}
				rhs, idx, _, okd := x.def(info.Uses[id])
				if !okd || rhs == nil || idx >= 0 {
					break
				}
				lit = unparen(rhs)
			}
			if cl, ok := lit.(*ast.CompositeLit); ok && len(cl.Elts) == 1 {
				el := cl.Elts[0]
				if u, ok := el.(*ast.UnaryExpr); ok && u.Op == token.AND {
					el = u.X
				}
				if v := litField(el, "statements"); v != nil {
					pushSrc = x.str(v)
				}
			}
		}
	}
	if v := m.ctorInit(w).fields[m.fNode.Name()]; v != nil {
		nodeSrc = x.str(v)
	}
	// expected: tree.FromReaders($readers...)#0.Nodes[0].Statements
	var readers string
	sig := f.Sig()
	if sig.Variadic() {
		readers = "$" + sig.Params().At(sig.Params().Len()-1).Name()
	}
	base := modPath + "/internal/tree.FromReaders(" + readers + ")#0.Nodes[0]"
	ok1 := pushSrc == base+".Statements"
	c.ob("C01.R5", f.Name+"/start-queue", w.Pos(f.Decl.Pos()), ok1, map[bool]string{true: "the initial queue holds the statements of Nodes[0] of the dialogue parsed from all readers", false: "the initial queue holds " + pushSrc + " (want " + base + ".Statements)"}[ok1])
	ok2 := nodeSrc == base+".Title()"
	c.ob("C01.R5", f.Name+"/start-node-name", w.Pos(f.Decl.Pos()), ok2, map[bool]string{true: "currentNode starts as the title of the same node", false: "currentNode starts as " + nodeSrc + " (want " + base + ".Title())"}[ok2])

	// FromReaders
	tp := w.Pkg("internal/tree")
	fr := w.DeclByName(tp, "FromReaders")
	if fr == nil {
		c.undecided("C01.R5", "tree.FromReaders not found")
		return
	}
	c.fn(fr)
	fx := w.expander(fr)
	frSig := fr.Sig()
	rparam := "$" + frSig.Params().At(frSig.Params().Len()-1).Name()
	var loop *ast.RangeStmt
	walkNoLit(fr.Body, func(n ast.Node) bool {
		if r, ok := n.(*ast.RangeStmt); ok && fx.str(r.X) == rparam {
			loop = r
		}
		return true
	})
	if loop == nil {
		c.ob("C01.R5", fr.Name+"/reader-loop", w.Pos(fr.Decl.Pos()), false, "no range loop over the readers")
		return
	}
	c.ob("C01.R5", fr.Name+"/reader-loop", w.Pos(loop.Pos()), true, "range over the readers in argument order")
	appends := 0
	walkNoLit(loop.Body, func(n ast.Node) bool {
		call, ok := n.(*ast.CallExpr)
		if !ok || !isBuiltin(tp.TypesInfo, call, "append") || len(call.Args) != 2 {
			return true
		}
		as, ok := w.parent[call].(*ast.AssignStmt)
		if !ok || len(as.Lhs) != 1 {
			return true
		}
		appends++
		dst, first, second := exprStr(as.Lhs[0]), exprStr(call.Args[0]), fx.str(call.Args[1])
		okOrder := dst == first && call.Ellipsis.IsValid() && second == modPath+"/internal/tree.FromReader("+rparam+"[range])#0.Nodes"
		c.ob("C01.R5", fr.Name+"/append-order", w.Pos(call.Pos()), okOrder, map[bool]string{true: "accumulated nodes first, then the nodes parsed from the reader being visited", false: "nodes are combined as " + dst + " = append(" + first + ", " + second + "): reader order is not preserved"}[okOrder])
		return true
	})
	if appends == 0 {
		c.ob("C01.R5", fr.Name+"/append-order", w.Pos(loop.Pos()), false, "the reader loop does not append the parsed nodes")
	}
	// the returned dialogue is the accumulated one
}

// ---------- R6 ----------

func c01R6(c *Ctx) {
	w := c.W
	tp := w.Pkg("internal/tree")
	info := tp.TypesInfo
	pl := namedType(tp, "parserListener")
	if pl == nil {
		c.undecided("C01.R6", "type parserListener not found")
		return
	}
	st := pl.Underlying().(*types.Struct)
	var stacks, callbacks []*types.Var
	for i := 0; i < st.NumFields(); i++ {
		f := st.Field(i)
		ts := typeStr(f.Type())
		if strings.HasPrefix(ts, "*container.Stack[") {
			stacks = append(stacks, f)
		} else if _, ok := f.Type().Underlying().(*types.Signature); ok {
			callbacks = append(callbacks, f)
		}
	}
	enters, exits := map[string]*Func{}, map[string]*Func{}
	for _, f := range w.FuncsIn(tp) {
		if f.Decl == nil || f.Decl.Recv == nil || f.Obj == nil {
			continue
		}
		if rt := f.Sig().Recv().Type(); typeStr(rt) != "*tree.parserListener" {
			continue
		}
		sig := f.Sig()
		if sig.Params().Len() != 1 || !strings.HasPrefix(typeStr(sig.Params().At(0).Type()), "*parser.") {
			continue
		}
		name := f.Decl.Name.Name
		switch {
		case strings.HasPrefix(name, "Enter"):
			enters[strings.TrimPrefix(name, "Enter")] = f
		case strings.HasPrefix(name, "Exit"):
			exits[strings.TrimPrefix(name, "Exit")] = f
		}
	}
	if len(enters) < 20 {
		c.undecided("C01.R6", "only "+itoa(len(enters))+" Enter overrides found on parserListener")
		return
	}
	// count pushes/pops at the top level of a body (including statically called helper methods of the listener)
	var count func(body *ast.BlockStmt, fld *types.Var, depth int) counts
	count = func(body *ast.BlockStmt, fld *types.Var, depth int) counts {
		var k counts
		var visit func(n ast.Node, conditional bool)
		visit = func(n ast.Node, conditional bool) {
			ast.Inspect(n, func(x ast.Node) bool {
				switch x := x.(type) {
				case *ast.FuncLit:
					return false
				case *ast.IfStmt, *ast.ForStmt, *ast.RangeStmt, *ast.SwitchStmt:
					if x != n {
						visit(x, true)
						return false
					}
				case *ast.CallExpr:
					if name, on := methodCallOn(info, x, fld); on {
						switch name {
						case "Push":
							if conditional {
								k.condPush++
							} else {
								k.push++
								if len(x.Args) == 1 {
									if lit, ok := unparen(x.Args[0]).(*ast.FuncLit); ok && popsItself(info, lit, fld) {
										k.selfPop++
									}
								}
							}
						case "Pop":
							if conditional {
								k.condPop++
							} else {
								k.pop++
							}
						}
					} else if callee := calleeOf(info, x); callee != nil && depth < 2 {
						if g := w.byObj[callee]; g != nil && g.Pkg == tp && g.Decl != nil && g.Decl.Recv != nil && g.Body != nil && typeStr(g.Sig().Recv().Type()) == "*tree.parserListener" {
							sub := count(g.Body, fld, depth+1)
							if conditional {
								k.condPush += sub.push
								k.condPop += sub.pop
							} else {
								k.push += sub.push
								k.selfPop += sub.selfPop
								k.pop += sub.pop
							}
							k.condPush += sub.condPush
							k.condPop += sub.condPop
						}
					}
				}
				return true
			})
		}
		visit(body, false)
		return k
	}
	names := []string{}
	for n := range enters {
		names = append(names, n)
	}
	for n := range exits {
		if enters[n] == nil {
			names = append(names, n)
		}
	}
	sort.Strings(names)
	for _, name := range names {
		en, ex := enters[name], exits[name]
		c.fn(en)
		c.fn(ex)
		for _, s := range stacks {
			var a, b counts
			if en != nil {
				a = count(en.Body, s, 0)
			}
			if ex != nil {
				b = count(ex.Body, s, 0)
			}
			if a.push+a.pop+b.push+b.pop+a.condPush+a.condPop+b.condPush+b.condPop == 0 {
				continue
			}
			net := a.push - a.selfPop - a.pop + b.push - b.selfPop - b.pop
			ok := net == 0 && a.condPush+a.condPop+b.condPush+b.condPop == 0
			pos := ""
			if en != nil {
				pos = w.Pos(en.Decl.Pos())
			} else {
				pos = w.Pos(ex.Decl.Pos())
			}
			how := "stack " + s.Name() + ": " + itoa(a.push+b.push) + " pushes = " + itoa(a.pop+b.pop) + " pops + " + itoa(a.selfPop+b.selfPop) + " self-popping callbacks"
			if !ok {
				how = "stack " + s.Name() + " is unbalanced over rule " + name + ": " + itoa(a.push+b.push) + " pushes, " + itoa(a.pop+b.pop) + " pops, " + itoa(a.selfPop+b.selfPop) + " self-popping callbacks, " + itoa(a.condPush+a.condPop+b.condPush+b.condPop) + " conditional: later statements would be attached to the wrong body"
			}
			c.ob("C01.R6", "rule "+name+"/"+s.Name(), pos, ok, how)
		}
		// callback fields set in Enter are reset in Exit or by the callback itself
		if en != nil {
			for _, cb := range callbacks {
				set, selfReset := false, false
				walkNoLit(en.Body, func(n ast.Node) bool {
					as, ok := n.(*ast.AssignStmt)
					if !ok {
						return true
					}
					for i, l := range as.Lhs {
						if lastField(info, l) == cb && len(as.Rhs) == len(as.Lhs) {
							if lit, ok := unparen(as.Rhs[i]).(*ast.FuncLit); ok {
								set = true
								ast.Inspect(lit.Body, func(x ast.Node) bool {
									if a2, ok := x.(*ast.AssignStmt); ok {
										for j, l2 := range a2.Lhs {
											if lastField(info, l2) == cb && len(a2.Rhs) == len(a2.Lhs) && isNilExpr(info, a2.Rhs[j]) {
												selfReset = true
											}
										}
									}
									return true
								})
							}
						}
					}
					return true
				})
				if !set {
					continue
				}
				reset := selfReset
				if ex != nil && !reset {
					walkNoLit(ex.Body, func(n ast.Node) bool {
						if as, ok := n.(*ast.AssignStmt); ok {
							for j, l := range as.Lhs {
								if lastField(info, l) == cb && len(as.Rhs) == len(as.Lhs) && isNilExpr(info, as.Rhs[j]) {
									reset = true
								}
							}
						}
						return true
					})
				}
				c.ob("C01.R6", "rule "+name+"/"+cb.Name(), w.Pos(en.Decl.Pos()), reset, map[bool]string{true: "callback " + cb.Name() + " set on entry is reset on exit or by itself", false: "callback " + cb.Name() + " set on entry of rule " + name + " is never reset: a later token would be delivered to a finished statement"}[reset])
			}
		}
	}
}

type counts struct {
	push, selfPop, pop int
	condPush, condPop  int // inside if/for/switch: not counted, reported
}

// popsItself: the literal's body pops fld unconditionally (a top-level statement of the body).
func popsItself(info *types.Info, lit *ast.FuncLit, fld *types.Var) bool {
	for _, s := range lit.Body.List {
		if es, ok := s.(*ast.ExprStmt); ok {
			if call, ok := es.X.(*ast.CallExpr); ok {
				if name, on := methodCallOn(info, call, fld); on && name == "Pop" {
					return true
				}
			}
		}
	}
	return false
}

// ---------- R7 ----------

func c01R7(c *Ctx, m *runnerModel) {
	w := c.W
	info := m.pkg.TypesInfo
	fStmts, fPtr := m.fStmts, m.fPtr
	f := m.fetch
	if f == nil {
		c01R7Inline(c, m)
		return
	}
	c.fn(f)
	var indexExpr *ast.IndexExpr
	r := evtRule{
		start: "",
		prim: func(n ast.Node) []string {
			switch n := n.(type) {
			case *ast.IndexExpr:
				if lastField(info, n.X) == fStmts && lastField(info, n.Index) == fPtr {
					indexExpr = n
					return []string{"READ"}
				}
				if lastField(info, n.X) == fStmts {
					return []string{"READOTHER"}
				}
			case *ast.IncDecStmt:
				if lastField(info, n.X) == fPtr {
					if n.Tok == token.INC {
						return []string{"INC"}
					}
					return []string{"BADSTEP"}
				}
			case *ast.AssignStmt:
				for i, l := range n.Lhs {
					if lastField(info, l) == fPtr {
						// pointer += 1 or pointer = pointer + 1
						if n.Tok == token.ADD_ASSIGN && exprStr(n.Rhs[i]) == "1" {
							return []string{"INC"}
						}
						if b, ok := unparen(n.Rhs[i]).(*ast.BinaryExpr); ok && n.Tok == token.ASSIGN && b.Op == token.ADD && lastField(info, b.X) == fPtr && exprStr(b.Y) == "1" {
							return []string{"INC"}
						}
						return []string{"BADSTEP"}
					}
				}
			}
			return nil
		},
		step: func(st, ev string) string { return addTok(st, ev) },
		ret: func(st string, ret *ast.ReturnStmt, kind string) string {
			if len(ret.Results) != 2 {
				return "unrecognised return"
			}
			tv, ok := info.Types[ret.Results[1]]
			if !ok || tv.Value == nil {
				return "the success flag is not a constant"
			}
			if tv.Value.ExactString() == "true" {
				if st != "READ INC" {
					return "a statement is handed out after the events [" + st + "] (want: read statements[pointer], then pointer+1 once)"
				}
			} else if st != "" {
				return "the exhausted queue reports failure after the events [" + st + "] (want none)"
			}
			return ""
		},
	}
	fs := runEVT(w, f, r)
	if len(fs) == 0 {
		c.ob("C01.R7", f.Name+"/fetch-once", w.Pos(f.Decl.Pos()), true, "success returns follow READ·INC, failure returns follow no event")
	}
	for i, fd := range fs {
		c.ob("C01.R7", f.Name+"/fetch-once#"+itoa(i+1), w.Pos(fd.pos), false, fd.msg)
	}
	// the returned statement is the one read
	x := w.expander(f)
	retOK, nret := true, 0
	walkNoLit(f.Body, func(n ast.Node) bool {
		if ret, ok := n.(*ast.ReturnStmt); ok && len(ret.Results) == 2 {
			if tv, ok := info.Types[ret.Results[1]]; ok && tv.Value != nil && tv.Value.ExactString() == "true" {
				nret++
				s := x.str(ret.Results[0])
				if !strings.HasSuffix(s, "."+fStmts.Name()+"[$"+recvName(f)+"."+fPtr.Name()+"]") {
					retOK = false
				}
			}
		}
		return true
	})
	c.ob("C01.R7", f.Name+"/returns-read-element", w.Pos(f.Decl.Pos()), retOK && nret > 0, map[bool]string{true: "the statement returned is statements[pointer] as read before the increment", false: "the statement returned is not the element read at the pointer"}[retOK && nret > 0])
	// guard
	if indexExpr != nil {
		e := w.ent(f)
		ok, how := e.proveIndexBelowLen(indexExpr)
		c.ob("C01.R7", f.Name+"/index-guard", w.Pos(indexExpr.Pos()), ok, how)
	}
}

// proveIndexBelowLen: the facts at ix entail Index < len(X).
func (e *entFn) proveIndexBelowLen(ix *ast.IndexExpr) (bool, string) {
	s := site{pos: ix.Pos(), anc: ix}
	k := keyCtx{e: e, s: &s}
	li := k.norm(ix.Index)
	lenKey := "len(" + k.key(ix.X) + ")"
	ll := linForm{terms: map[string]int64{lenKey: 1}}
	goal := Atom("lt(" + li.String() + "," + ll.String() + ")")
	ok, how := e.Prove(ix, goal)
	if ok {
		return true, "index < len entailed by the dominating guard (" + how + ")"
	}
	return false, "no dominating guard entails " + exprStr(ix.Index) + " < len(" + exprStr(ix.X) + "): " + how
}

// ---------- R8 ----------

func c01R8(c *Ctx, m *runnerModel) {
	w := c.W
	info := m.pkg.TypesInfo
	allowedPush := map[*Func]string{m.ctor: "constructor", m.next: "choice block", m.ifx: "if executor", m.jump: "jump executor", m.restore: "RestoreAt"}
	for _, f := range w.FuncsIn(m.pkg) {
		if f.Body == nil {
			continue
		}
		n := 0
		walkNoLit(f.Body, func(x ast.Node) bool {
			call, ok := x.(*ast.CallExpr)
			if !ok {
				return true
			}
			name, on := methodCallOn(info, call, m.fStack)
			if !on {
				// the constructor pushes on a local stack that becomes the field
				if f == m.ctor {
					if sel, ok := unparen(call.Fun).(*ast.SelectorExpr); ok {
						if tv, ok := info.Types[sel.X]; ok && strings.HasPrefix(typeStr(tv.Type), "container.Stack[*"+typeStr(m.queueT)+"]") {
							name, on = sel.Sel.Name, true
						}
					}
				}
				if !on {
					return true
				}
			}
			n++
			key := f.Name + "/" + name + "#" + itoa(n)
			switch name {
			case "Push", "PushAll":
				where, ok := allowedPush[f]
				c.ob("C01.R8", key, w.Pos(call.Pos()), ok && name == "Push", map[bool]string{true: "push site: " + where, false: "the continuation stack is pushed in " + f.Name + ", outside the five sanctioned sites (statements could run that the script's structure does not prescribe)"}[ok && name == "Push"])
			case "Pop":
				okPop := f == m.next
				why := "the continuation stack is popped outside Next"
				if okPop {
					// must be in the branch where the fetch reported exhaustion and be followed by the recursive call
					okPop, why = popOnExhaustion(w, m, call)
				}
				c.ob("C01.R8", key, w.Pos(call.Pos()), okPop, why)
			case "Clear":
				okClear := f == m.jump || f == m.restore || f == m.next
				c.obN("C01.R8", key, w.Pos(call.Pos()), okClear, map[bool]string{true: "clear site: " + f.Name, false: "the continuation stack is cleared in " + f.Name}[okClear], false)
			}
			return true
		})
	}
	// element literals name the current node
	n := 0
	walkNoLit(m.next.Body, func(x ast.Node) bool {
		cl, ok := x.(*ast.CompositeLit)
		if !ok {
			return true
		}
		if tv, ok := info.Types[cl]; ok && typeStr(tv.Type) == "ysgo.DialogueElement" {
			n++
			v := litField(cl, "Node")
			ok := v != nil && lastField(info, v) == m.fNode
			c.ob("C01.R8", m.next.Name+"/element-node#"+itoa(n), w.Pos(cl.Pos()), ok, map[bool]string{true: "the element is attributed to currentNode", false: "a returned element is not attributed to the runner's current node"}[ok])
		}
		return true
	})
}

func popOnExhaustion(w *World, m *runnerModel, pop *ast.CallExpr) (bool, string) {
	info := m.pkg.TypesInfo
	// enclosing if with condition !ok where ok is the second result of the fetch on the peeked queue
	child := ast.Node(pop)
	for p := w.parent[pop]; p != nil; child, p = p, w.parent[p] {
		if is, ok := p.(*ast.IfStmt); ok && child == ast.Node(is.Body) {
			x := w.expander(m.next)
			if !exhaustionTest(w, m, x, is.Cond) {
				u, ok := unparen(is.Cond).(*ast.UnaryExpr)
				if !ok || u.Op != token.NOT {
					return false, "the pop is not guarded by the negated success flag of the fetch"
				}
				id := identOf(u.X)
				if id == nil {
					return false, "the pop is not guarded by the negated success flag of the fetch"
				}
				s := x.str(id)
				if !strings.HasSuffix(s, "#1") || !strings.Contains(s, "."+m.fStack.Name()+".Peek()") {
					return false, "the pop is guarded by " + s + ", not by the exhaustion of the top queue"
				}
			}
			// followed by return of the recursive call — or by the jump back to the entry of Next, which is the same
			// continuation without the stack frame
			last := is.Body.List[len(is.Body.List)-1]
			if br, ok := last.(*ast.BranchStmt); ok && br.Tok == token.CONTINUE && br.Label == nil {
				// continue of the top-level `for {` that Next runs in (not of a loop nested in it)
				for q := w.parent[ast.Node(br)]; q != nil && q != m.next.Node(); q = w.parent[q] {
					if fs, ok := q.(*ast.ForStmt); ok {
						if fs.Cond == nil && fs.Init == nil && fs.Post == nil && w.parent[w.parent[fs]] == m.next.Node() {
							return true, "popped only when the top queue is exhausted, then the search continues with the next iteration of Next's loop"
						}
						break
					}
					if _, isRange := q.(*ast.RangeStmt); isRange {
						break
					}
				}
			}
			if br, ok := last.(*ast.BranchStmt); ok && br.Tok == token.GOTO && br.Label != nil {
				for _, st := range m.next.Body.List {
					// a top-level label above the jump: the restart point of Next
					if ls, ok := st.(*ast.LabeledStmt); ok && ls.Label.Name == br.Label.Name && ls.Pos() < br.Pos() {
						return true, "popped only when the top queue is exhausted, then the search continues from the restart point of Next"
					}
				}
			}
			if ret, ok := last.(*ast.ReturnStmt); ok && len(ret.Results) == 1 {
				if call, ok := ret.Results[0].(*ast.CallExpr); ok {
					if callee := calleeOf(info, call); callee != nil && w.byObj[callee] == m.next {
						return true, "popped only when the top queue is exhausted, then the search continues recursively"
					}
				}
			}
			return false, "after popping the exhausted queue Next does not continue with the rest of the continuation"
		}
		if p == m.next.Node() {
			break
		}
	}
	return false, "the pop is unconditional"
}

// ---------- R9 ----------

func c01R9(c *Ctx) {
	w := c.W
	treePath := modPath + "/internal/tree"
	n, bad := 0, 0
	for _, f := range w.ModuleSSAFuncs() {
		pp := ssaFuncPkgPath(f)
		if pp == treePath || strings.HasSuffix(pp, "/internal/testutils") || strings.HasSuffix(pp, "/internal/parser") {
			continue
		}
		for _, b := range f.Blocks {
			for _, in := range b.Instrs {
				var addr ssa.Value
				what := ""
				switch x := in.(type) {
				case *ssa.Store:
					addr, what = x.Addr, "store"
				case *ssa.MapUpdate:
					addr, what = x.Map, "map update"
				default:
					continue
				}
				p := pathOfAddr(addr)
				var treeField *types.Var
				for _, fld := range p.fields {
					if pkgPathOfVar(fld) == treePath {
						treeField = fld
					}
				}
				if treeField == nil {
					continue
				}
				n++
				_, local := p.base.(*ssa.Alloc)
				if local && p.loads == 0 {
					c.obN("C01.R9", ssaFuncName(f)+"/"+what+" "+treeField.Name(), w.Pos(in.Pos()), true, "initialises an object allocated in the same function", false)
					continue
				}
				bad++
				c.ob("C01.R9", ssaFuncName(f)+"/"+what+" "+treeField.Name(), w.Pos(in.Pos()), false, "writes "+treeField.Name()+" of an internal/tree object at run time: the parsed dialogue must stay immutable (it is shared by every run, snapshot and restore)")
			}
		}
	}
	if bad == 0 {
		c.ob("C01.R9", "module/no-tree-write", "-", true, "no store outside internal/tree reaches an object of an internal/tree type ("+itoa(n)+" local initialisations)")
	}
}

// ---------- R10 ----------

// selfNesting computes which parser rules can (transitively) contain themselves.
func (g *grammarInfo) selfNesting() map[string]bool {
	refs := map[string]map[string]bool{}
	idRe := regexp.MustCompile(`[a-z_][A-Za-z_0-9]*`)
	for name, body := range g.parserRules {
		refs[name] = map[string]bool{}
		// drop quoted literals and labels
		clean := regexp.MustCompile(`'(?:[^'\\]|\\.)*'|#\s*[A-Za-z_0-9]+|[A-Za-z_0-9]+\s*=`).ReplaceAllString(body, " ")
		for _, id := range idRe.FindAllString(clean, -1) {
			if _, ok := g.parserRules[id]; ok {
				refs[name][id] = true
			}
		}
	}
	out := map[string]bool{}
	for name := range g.parserRules {
		seen := map[string]bool{}
		var visit func(r string) bool
		visit = func(r string) bool {
			for t := range refs[r] {
				if t == name {
					return true
				}
				if !seen[t] {
					seen[t] = true
					if visit(t) {
						return true
					}
				}
			}
			return false
		}
		out[name] = visit(name)
	}
	return out
}

// ruleOfHandler maps a listener method name (EnterX / ExitX) to the grammar rule it belongs to.
func (g *grammarInfo) ruleOfHandler(method string) (string, bool) {
	name := strings.TrimPrefix(strings.TrimPrefix(method, "Enter"), "Exit")
	if name == method || name == "" {
		return "", false
	}
	lower := strings.ToLower(name[:1]) + name[1:]
	if _, ok := g.parserRules[lower]; ok {
		return lower, true
	}
	for rule := range g.parserRules {
		for _, l := range g.labels(rule) {
			if l == lower {
				return rule, true
			}
		}
	}
	return "", false
}

func c01R10(c *Ctx) {
	w := c.W
	g := w.grammar()
	if len(g.problems) > 0 {
		c.undecided("C01.R10", "grammar: "+strings.Join(g.problems, "; "))
		return
	}
	nesting := g.selfNesting()
	if !nesting["statement"] || !nesting["expression"] || nesting["node"] {
		c.undecided("C01.R10", "the grammar's nesting relation was not read correctly (statement and expression must be self-nesting, node must not)")
		return
	}
	tp := w.Pkg("internal/tree")
	info := tp.TypesInfo
	pl := namedType(tp, "parserListener")
	if pl == nil {
		c.undecided("C01.R10", "type parserListener not found")
		return
	}
	st := pl.Underlying().(*types.Struct)
	var scalars []*types.Var
	for i := 0; i < st.NumFields(); i++ {
		f := st.Field(i)
		if f.Embedded() || strings.HasPrefix(typeStr(f.Type()), "*container.Stack[") {
			continue
		}
		scalars = append(scalars, f)
	}
	// handlers and the helper methods they call, with the grammar rule they serve
	type site struct {
		rule    string
		handler string
		held    bool // in an Exit handler or inside a function literal: runs after children were walked
		pos     token.Pos
	}
	writes, reads := map[*types.Var][]site{}, map[*types.Var][]site{}
	var scan func(f *Func, rule, handler string, isExit bool, depth int)
	scan = func(f *Func, rule, handler string, isExit bool, depth int) {
		if f == nil || f.Body == nil {
			return
		}
		var walk func(n ast.Node, inLit bool)
		walk = func(n ast.Node, inLit bool) {
			ast.Inspect(n, func(x ast.Node) bool {
				switch x := x.(type) {
				case *ast.FuncLit:
					if x != n {
						walk(x.Body, true)
						return false
					}
				case *ast.AssignStmt:
					for _, l := range x.Lhs {
						if se, ok := unparen(l).(*ast.SelectorExpr); ok {
							if fld := lastField(info, se); fld != nil {
								if _, direct := unparen(se.X).(*ast.Ident); direct {
									writes[fld] = append(writes[fld], site{rule, handler, isExit || inLit, x.Pos()})
								}
							}
						}
					}
				case *ast.SelectorExpr:
					if sel, ok := info.Selections[x]; ok && sel.Kind() == types.FieldVal {
						fld := sel.Obj().(*types.Var)
						if _, direct := unparen(x.X).(*ast.Ident); direct {
							// a read unless this selector is itself the assigned left-hand side
							isLHS := false
							if as, ok := w.parent[x].(*ast.AssignStmt); ok {
								for _, l := range as.Lhs {
									if unparen(l) == ast.Expr(x) {
										isLHS = true
									}
								}
							}
							if !isLHS {
								reads[fld] = append(reads[fld], site{rule, handler, isExit || inLit, x.Pos()})
							}
						}
					}
				case *ast.CallExpr:
					if callee := calleeOf(info, x); callee != nil && depth < 2 {
						if h := w.byObj[callee]; h != nil && h.Pkg == tp && h.Decl != nil && h.Decl.Recv != nil && h != f && typeStr(h.Sig().Recv().Type()) == "*tree.parserListener" {
							if _, isHandler := g.ruleOfHandler(h.Decl.Name.Name); !isHandler {
								scan(h, rule, handler, isExit || inLit, depth+1)
							}
						}
					}
				}
				return true
			})
		}
		walk(f.Body, false)
	}
	handlers := 0
	for _, f := range w.FuncsIn(tp) {
		if f.Decl == nil || f.Decl.Recv == nil || typeStr(f.Sig().Recv().Type()) != "*tree.parserListener" {
			continue
		}
		rule, ok := g.ruleOfHandler(f.Decl.Name.Name)
		if !ok {
			continue
		}
		handlers++
		scan(f, rule, f.Decl.Name.Name, strings.HasPrefix(f.Decl.Name.Name, "Exit"), 0)
	}
	if handlers < 40 {
		c.undecided("C01.R10", "only "+itoa(handlers)+" listener handlers mapped to grammar rules")
		return
	}
	reaches := g.reachesRule()
	for _, fld := range scalars {
		var nestedWriters []site
		for _, wr := range writes[fld] {
			if nesting[wr.rule] {
				nestedWriters = append(nestedWriters, wr)
			}
		}
		var held []site
		for _, rd := range reads[fld] {
			if rd.held {
				held = append(held, rd)
				continue
			}
			// a read in the Enter handler of a child rule happens "after children were walked" as well when, inside the
			// writer's rule, something that can contain that rule again comes before the child (an else-if clause is
			// entered after the if clause, whose body may hold a whole nested if statement)
			for _, wr := range nestedWriters {
				if rd.rule != wr.rule && g.childAfterNesting(wr.rule, rd.rule, reaches) {
					held = append(held, rd)
					break
				}
			}
		}
		key := "parserListener." + fld.Name()
		switch {
		case len(writes[fld]) == 0:
			continue
		case len(nestedWriters) == 0:
			c.obN("C01.R10", key, w.Pos(writes[fld][0].pos), true, "written only by handlers of rules that cannot nest in themselves", false)
		case len(held) == 0:
			c.ob("C01.R10", key, w.Pos(nestedWriters[0].pos), true, "written under the self-nesting rule '"+nestedWriters[0].rule+"' but only handed to the next Enter handler, never read after children were walked")
		default:
			c.ob("C01.R10", key, w.Pos(nestedWriters[0].pos), false, "written by "+nestedWriters[0].handler+" (rule '"+nestedWriters[0].rule+"' can contain itself) and read later at "+w.Pos(held[0].pos)+" ("+held[0].handler+", after children were walked): a nested occurrence overwrites it, so the outer construct is built from the inner one's state; per-construct state of a re-entrant rule must live in a closure variable or on a stack")
		}
	}
}

// c01R7Inline: the fetch is written out where it is used (no method on the cursor type). The same obligations, stated on
// the function that reads statements[pointer]: on every path the read is followed by exactly one +1 of the pointer before
// the function returns, nothing else moves the pointer, the index is guarded, and the element read is what becomes
// lastStatement.
func c01R7Inline(c *Ctx, m *runnerModel) {
	w := c.W
	info := m.pkg.TypesInfo
	fStmts, fPtr := m.fStmts, m.fPtr
	var sites []*Func
	for _, g := range w.FuncsIn(m.pkg) {
		if g.Body == nil || g.Lit != nil {
			continue
		}
		has := false
		walkNoLit(g.Body, func(n ast.Node) bool {
			if ix, ok := n.(*ast.IndexExpr); ok && lastField(info, ix.X) == fStmts && lastField(info, ix.Index) == fPtr {
				has = true
			}
			return true
		})
		if has {
			sites = append(sites, g)
		}
	}
	if len(sites) == 0 {
		c.undecided("C01.R7", "no fetch method on the statement cursor and no function reading statements[pointer]")
		return
	}
	for _, f := range sites {
		c.fn(f)
		var indexExpr *ast.IndexExpr
		r := evtRule{
			start: "idle",
			prim: func(n ast.Node) []string {
				switch n := n.(type) {
				case *ast.IndexExpr:
					if lastField(info, n.X) == fStmts && lastField(info, n.Index) == fPtr {
						indexExpr = n
						return []string{"READ"}
					}
					if lastField(info, n.X) == fStmts {
						return []string{"READOTHER"}
					}
				case *ast.IncDecStmt:
					if lastField(info, n.X) == fPtr {
						if n.Tok == token.INC {
							return []string{"INC"}
						}
						return []string{"BADSTEP"}
					}
				case *ast.AssignStmt:
					for i, l := range n.Lhs {
						if lastField(info, l) == fPtr {
							if n.Tok == token.ADD_ASSIGN && exprStr(n.Rhs[i]) == "1" {
								return []string{"INC"}
							}
							if b, ok := unparen(n.Rhs[i]).(*ast.BinaryExpr); ok && n.Tok == token.ASSIGN && b.Op == token.ADD && lastField(info, b.X) == fPtr && exprStr(b.Y) == "1" {
								return []string{"INC"}
							}
							return []string{"BADSTEP"}
						}
					}
				}
				return nil
			},
			step: func(st, ev string) string {
				switch {
				case st == "idle" && ev == "READ":
					return "read"
				case st == "read" && ev == "INC":
					return "advanced"
				case strings.HasPrefix(st, "bad:"):
					return ""
				}
				return "bad:" + ev + " while " + st
			},
			bad: func(st, ev string) string {
				if strings.HasPrefix(st, "bad:") {
					return "the cursor is used out of step (" + strings.TrimPrefix(st, "bad:") + "): want one read of statements[pointer] followed by one pointer+1, and nothing else"
				}
				return ""
			},
			ret: func(st string, ret *ast.ReturnStmt, kind string) string {
				if st == "read" {
					return "a path returns after reading statements[pointer] without advancing the pointer: the same statement would run again"
				}
				return ""
			},
		}
		fs := runEVT(w, f, r)
		seen := map[string]bool{}
		for _, fd := range fs {
			if !seen[fd.msg] {
				seen[fd.msg] = true
				c.ob("C01.R7", f.Name+"/fetch-once#"+itoa(len(seen)), w.Pos(fd.pos), false, fd.msg)
			}
		}
		if len(seen) == 0 {
			c.ob("C01.R7", f.Name+"/fetch-once", w.Pos(f.Decl.Pos()), true, "every path reads statements[pointer] at most once, advances the pointer exactly once after a read, and moves it nowhere else")
		}
		// the element read becomes lastStatement
		x := w.expander(f)
		stored, okStored := 0, true
		walkNoLit(f.Body, func(n ast.Node) bool {
			as, ok := n.(*ast.AssignStmt)
			if !ok || len(as.Lhs) != len(as.Rhs) {
				return true
			}
			for i, l := range as.Lhs {
				if _, isSel := unparen(l).(*ast.SelectorExpr); isSel && lastField(info, l) == m.fLast && !isNilExpr(info, as.Rhs[i]) {
					stored++
					sv := x.str(as.Rhs[i])
					if !strings.Contains(sv, "."+fStmts.Name()+"[") || !strings.HasSuffix(sv, "."+fPtr.Name()+"]") {
						okStored = false
					}
				}
			}
			return true
		})
		if f == m.next {
			c.ob("C01.R7", f.Name+"/returns-read-element", w.Pos(f.Decl.Pos()), okStored && stored > 0, map[bool]string{true: "the statement that becomes lastStatement is statements[pointer] as read before the increment", false: "the statement that becomes lastStatement is not the element read at the pointer"}[okStored && stored > 0])
		}
		if indexExpr != nil {
			e := w.ent(f)
			ok, how := e.proveIndexBelowLen(indexExpr)
			c.ob("C01.R7", f.Name+"/index-guard", w.Pos(indexExpr.Pos()), ok, how)
		}
	}
}

// exhaustionTest: cond is true exactly when the cursor on top of the continuation stack has no statement left:
// top.pointer >= len(top.statements) (or ==, or the negation of <), written either way round.
func exhaustionTest(w *World, m *runnerModel, x *expander, cond ast.Expr) bool {
	info := m.pkg.TypesInfo
	neg := false
	e := unparen(cond)
	for {
		u, ok := e.(*ast.UnaryExpr)
		if !ok || u.Op != token.NOT {
			break
		}
		neg = !neg
		e = unparen(u.X)
	}
	b, ok := e.(*ast.BinaryExpr)
	if !ok {
		return false
	}
	isPtr := func(q ast.Expr) bool {
		return lastField(info, q) == m.fPtr && strings.HasSuffix(x.str(q), "."+m.fStack.Name()+".Peek()."+m.fPtr.Name())
	}
	isLen := func(q ast.Expr) bool {
		call, ok := unparen(q).(*ast.CallExpr)
		return ok && isBuiltin(info, call, "len") && len(call.Args) == 1 && lastField(info, call.Args[0]) == m.fStmts && strings.HasSuffix(x.str(call.Args[0]), "."+m.fStack.Name()+".Peek()."+m.fStmts.Name())
	}
	op := b.Op
	switch {
	case isPtr(b.X) && isLen(b.Y):
	case isLen(b.X) && isPtr(b.Y):
		op = map[token.Token]token.Token{token.LSS: token.GTR, token.GTR: token.LSS, token.LEQ: token.GEQ, token.GEQ: token.LEQ, token.EQL: token.EQL, token.NEQ: token.NEQ}[op]
	default:
		return false
	}
	// as "pointer OP len"
	if neg {
		return op == token.LSS || op == token.NEQ
	}
	return op == token.GEQ || op == token.EQL
}

// arm: one alternative of a tagless switch or of an if / else-if chain (conds empty: default / final else).
type arm struct {
	conds []ast.Expr
	body  []ast.Stmt
	pos   token.Pos
}

func armsOfSwitch(sw *ast.SwitchStmt) []arm {
	var out []arm
	for _, cl := range sw.Body.List {
		cc := cl.(*ast.CaseClause)
		out = append(out, arm{conds: cc.List, body: cc.Body, pos: cc.Pos()})
	}
	return out
}

// armsOfIfChain: the arms of `if c1 {…} else if c2 {…} else {…}` (head must be the first if of the chain). A chain
// written as consecutive `if c {…; return}` statements is a different shape and is not unified here.
func armsOfIfChain(head *ast.IfStmt) []arm {
	var out []arm
	for is := head; is != nil; {
		if is.Init != nil && is != head {
			// an else-if with its own initialiser still tests its condition in order
		}
		out = append(out, arm{conds: []ast.Expr{is.Cond}, body: is.Body.List, pos: is.Pos()})
		switch e := is.Else.(type) {
		case *ast.IfStmt:
			is = e
		case *ast.BlockStmt:
			out = append(out, arm{body: e.List, pos: e.Pos()})
			is = nil
		default:
			is = nil
		}
	}
	return out
}

// ruleRefs lists, in order of appearance, the parser rules a rule's body refers to, with whether the reference can repeat.
func (g *grammarInfo) ruleRefs(rule string) (names []string, repeats []bool) {
	body := g.parserRules[rule]
	clean := regexp.MustCompile(`'(?:[^'\\]|\\.)*'|#\s*[A-Za-z_0-9]+|[A-Za-z_0-9]+\s*=`).ReplaceAllStringFunc(body, func(m string) string { return strings.Repeat(" ", len(m)) })
	re := regexp.MustCompile(`[a-z_][A-Za-z_0-9]*`)
	for _, loc := range re.FindAllStringIndex(clean, -1) {
		id := clean[loc[0]:loc[1]]
		if _, ok := g.parserRules[id]; !ok {
			continue
		}
		rep := false
		rest := strings.TrimLeft(clean[loc[1]:], " \t\r\n")
		if strings.HasPrefix(rest, "*") || strings.HasPrefix(rest, "+") {
			rep = true
		}
		names = append(names, id)
		repeats = append(repeats, rep)
	}
	return names, repeats
}

// reachesRule: reach[a][b] — rule a can derive (directly or not) an occurrence of rule b.
func (g *grammarInfo) reachesRule() map[string]map[string]bool {
	direct := map[string][]string{}
	for name := range g.parserRules {
		direct[name], _ = g.ruleRefs(name)
	}
	out := map[string]map[string]bool{}
	for name := range g.parserRules {
		seen := map[string]bool{}
		var visit func(r string)
		visit = func(r string) {
			for _, t := range direct[r] {
				if !seen[t] {
					seen[t] = true
					visit(t)
				}
			}
		}
		visit(name)
		out[name] = seen
	}
	return out
}

// childAfterNesting: inside rule parent, an occurrence of child can be entered after a nested parent was completed —
// an earlier reference in parent's body can derive parent, or child itself repeats and can derive parent. A child that
// is not referred to directly by parent is treated the same way if anything on the way can derive parent (conservative).
func (g *grammarInfo) childAfterNesting(parent, child string, reach map[string]map[string]bool) bool {
	names, repeats := g.ruleRefs(parent)
	direct := false
	for j, nm := range names {
		if nm != child {
			continue
		}
		direct = true
		if repeats[j] && reach[child][parent] {
			return true
		}
		for i := 0; i < j; i++ {
			if names[i] == parent || reach[names[i]][parent] {
				return true
			}
		}
	}
	if direct {
		return false
	}
	// deeper: through some direct reference that derives child
	for j, nm := range names {
		if !reach[nm][child] {
			continue
		}
		if reach[nm][parent] {
			return true // the subtree that holds child can hold a nested parent as well: order unknown
		}
		for i := 0; i < j; i++ {
			if names[i] == parent || reach[names[i]][parent] {
				return true
			}
		}
	}
	return false
}
