package main

// c05.go — C05: loading any input yields a runner or an error; bad syntax is an error.

import (
	"go/ast"
	"go/constant"
	"go/token"
	"go/types"
	"regexp"
	"sort"
	"strconv"
	"strings"

	"golang.org/x/tools/go/packages"
	"golang.org/x/tools/go/ssa"
)

func init() {
	registry["C05"] = &propCheck{
		meta: propMeta{
			Level: "other",
			Explanation: "Decides a structural sufficient condition for `never panics` and necessary conditions for `syntax errors are errors`: (R1) the only function that drives the ANTLR lexer/parser and walks the tree installs, unconditionally and before those calls, a deferred recover that turns every panic value into a non-nil error result and never re-panics, and nothing else in the module calls the recognisers; " +
				"(R2) a module error listener whose SyntaxError records on every path is added to both lexer and parser before parsing, the tree walk and every nil-error return are entailed by `no error was recorded`, and the lexer's mixed tab/space check fires whatever the order of the two kinds; " +
				"(R3) Nodes[0] is guarded (bounds report); (R4) no error result is dropped on the loading path; (R5) every explicit panic, non-constant make size and unproved bounds check on the loading path is either behind the recover boundary or discharged (the base-function signatures pass the registration gate statically; the seed-text buffer size is guarded).",
			NotDecided:  "that every valid script is accepted and that parsing terminates (ANTLR runtime and ATN, assumption A3); what the grammar itself accepts",
			Assumptions: []string{"A3", "A4"},
			Trusted:     []string{"go/types", "golang.org/x/tools/go/cfg", "golang.org/x/tools/go/ssa", "cmd/compile's bounds report", "go/packages loader"},
		},
		run: checkC05,
	}
}

type lexerModel struct {
	pkg                                      *packages.Package
	T                                        *types.Named
	fIndents, fPending, fEOF                 *types.Var
	measure, newline, eof, insert, nextToken *Func
	problems                                 []string
}

var lexerModelCache *lexerModel

func (w *World) lexer() *lexerModel {
	if lexerModelCache != nil && lexerModelCache.pkg == w.Pkg("internal/parser") {
		return lexerModelCache
	}
	m := &lexerModel{pkg: w.Pkg("internal/parser")}
	lexerModelCache = m
	m.T = namedType(m.pkg, "IndentAwareLexer")
	if m.T == nil {
		m.problems = append(m.problems, "type IndentAwareLexer not found")
		return m
	}
	m.fIndents = structFieldByType(m.T, "container.Stack[int]")
	m.fPending = structFieldByType(m.T, "container.Queue[antlr.Token]")
	m.fEOF = structFieldByType(m.T, "bool")
	if m.fIndents == nil || m.fPending == nil {
		m.problems = append(m.problems, "indent stack / pending token queue fields not resolved by type")
	}
	info := m.pkg.TypesInfo
	for _, f := range w.FuncsIn(m.pkg) {
		if f.Decl == nil || f.Decl.Recv == nil || f.Body == nil || typeStr(f.Sig().Recv().Type()) != "*parser.IndentAwareLexer" {
			continue
		}
		sig := f.Sig()
		switch {
		case sig.Params().Len() == 1 && typeStr(sig.Params().At(0).Type()) == "antlr.Token" && sig.Results().Len() == 1 && typeStr(sig.Results().At(0).Type()) == "int":
			m.measure = f
		case sig.Params().Len() == 2 && typeStr(sig.Params().At(0).Type()) == "string" && typeStr(sig.Params().At(1).Type()) == "int":
			m.insert = f
		case sig.Params().Len() == 0 && sig.Results().Len() == 1 && typeStr(sig.Results().At(0).Type()) == "antlr.Token":
			m.nextToken = f
		}
	}
	for _, f := range w.FuncsIn(m.pkg) {
		if f.Decl == nil || f.Decl.Recv == nil || f.Body == nil || typeStr(f.Sig().Recv().Type()) != "*parser.IndentAwareLexer" {
			continue
		}
		sig := f.Sig()
		if sig.Params().Len() == 1 && typeStr(sig.Params().At(0).Type()) == "antlr.Token" && sig.Results().Len() == 0 {
			callsMeasure := false
			ast.Inspect(f.Body, func(n ast.Node) bool {
				if call, ok := n.(*ast.CallExpr); ok {
					if callee := calleeOf(info, call); callee != nil && m.measure != nil && callee == m.measure.Obj {
						callsMeasure = true
					}
				}
				return true
			})
			if callsMeasure {
				m.newline = f
			} else {
				m.eof = f
			}
		}
	}
	for name, f := range map[string]*Func{"width-measuring method": m.measure, "NEWLINE handler": m.newline, "EOF handler": m.eof, "token-inserting method": m.insert} {
		if f == nil {
			m.problems = append(m.problems, name+" of IndentAwareLexer not found")
		}
	}
	sort.Strings(m.problems)
	return m
}

func (m *lexerModel) ok(c *Ctx, rule string) bool {
	for _, p := range m.problems {
		c.undecided(rule, "anchor: "+p)
	}
	return len(m.problems) == 0
}

func checkC05(c *Ctx) {
	w := c.W
	wGlobal = w
	m := w.runner()
	lx := w.lexer()
	c.rule("C05.R1", "containment: the function that runs the lexer/parser and walks the tree installs, unconditionally and before them, a deferred recover that stores a non-nil error into its named result on every path and never re-panics; only that function drives the recognisers", 3)
	c.rule("C05.R2", "syntax errors are collected: a module error listener whose SyntaxError records on every path is added to lexer and parser before parsing; the walk and every nil-error return are entailed by `nothing recorded`; mixed tab/space indentation is detected in either order", 6)
	c.rule("C05.R3", "the start node index Nodes[0] is guarded (compiler bounds report + guard entailment)", 1)
	c.rule("C05.R6", "the whole input is parsed: the grammar's start rule ends with EOF, or every nil-error return of the driver is entailed by `the token after the parse is EOF` (a start rule without EOF stops silently in front of what it cannot derive)", 1)
	c.rule("C05.R4", "error discipline: no error result of a call is dropped in NewDialogueRunner, FromReaders, FromReader, NewRNG (exceptions named)", 5)
	c.rule("C05.R5", "load-path panic inventory: explicit panics, non-constant make sizes and unproved bounds checks outside the recover boundary are discharged; the base-function signatures pass the gate statically", 6)
	if !m.ok(c, "C05") || !lx.ok(c, "C05") {
		return
	}
	tp := w.Pkg("internal/tree")
	tinfo := tp.TypesInfo

	// ----- R1
	// the driver: the function that calls (*YarnSpinnerParser).Dialogue
	var driver *Func
	var dialogueCall, walkCall *ast.CallExpr
	nDrivers := 0
	for _, f := range w.Funcs {
		if f.Body == nil || strings.HasSuffix(f.Pkg.PkgPath, "/internal/parser") || strings.HasSuffix(f.Pkg.PkgPath, "/internal/testutils") {
			continue
		}
		info := f.Pkg.TypesInfo
		walkNoLit(f.Body, func(n ast.Node) bool {
			call, ok := n.(*ast.CallExpr)
			if !ok {
				return true
			}
			callee := calleeOf(info, call)
			if callee == nil {
				return true
			}
			full := funcFullName(callee)
			switch {
			case strings.HasSuffix(full, "internal/parser.YarnSpinnerParser).Dialogue"):
				if driver != f {
					nDrivers++
				}
				driver, dialogueCall = f, call
			case strings.HasSuffix(full, "antlr/v4.ParseTreeWalker).Walk"):
				if driver != f && driver != nil {
					nDrivers++
				}
				walkCall = call
				if driver == nil {
					driver = f
					nDrivers++
				}
			}
			return true
		})
	}
	if driver == nil || dialogueCall == nil || walkCall == nil {
		c.undecided("C05.R1", "the function driving the parser (Dialogue() and Walk) was not found")
		return
	}
	c.fn(driver)
	c.ob("C05.R1", "module/single-driver", w.Pos(driver.Decl.Pos()), nDrivers == 1, map[bool]string{true: "only " + driver.Name + " runs the parser and walks the tree", false: itoa(nDrivers) + " functions run the recognisers: each needs its own containment"}[nDrivers == 1])
	// the deferred recover
	var deferStmt *ast.DeferStmt
	for _, st := range driver.Body.List {
		if d, ok := st.(*ast.DeferStmt); ok {
			if lit, ok := d.Call.Fun.(*ast.FuncLit); ok {
				hasRecover := false
				ast.Inspect(lit.Body, func(n ast.Node) bool {
					if call, ok := n.(*ast.CallExpr); ok && isBuiltin(tinfo, call, "recover") {
						hasRecover = true
					}
					return true
				})
				if hasRecover && deferStmt == nil {
					deferStmt = d
				}
			}
		}
	}
	if deferStmt == nil {
		c.ob("C05.R1", driver.Name+"/recover-boundary", w.Pos(driver.Decl.Pos()), false, "no unconditional deferred recover in "+driver.Name+": the lexer's mixed-indentation panic and the tree builder's panics on recovered trees reach the caller of NewDialogueRunner")
	} else {
		okPos := deferStmt.Pos() < dialogueCall.Pos() && deferStmt.Pos() < walkCall.Pos()
		// also before the lexer is created (NewYarnSpinnerLexer runs no input, but tokens are pulled by Dialogue)
		c.ob("C05.R1", driver.Name+"/recover-boundary", w.Pos(deferStmt.Pos()), okPos, map[bool]string{true: "a top-level deferred recover precedes the parse and the walk", false: "the deferred recover is installed after the parse or the walk started"}[okPos])
		lit := deferStmt.Call.Fun.(*ast.FuncLit)
		lf := w.funcOf[lit]
		c.fn(lf)
		// named error result
		var errRes *types.Var
		sig := driver.Sig()
		for i := 0; i < sig.Results().Len(); i++ {
			if typeStr(sig.Results().At(i).Type()) == "error" && sig.Results().At(i).Name() != "" {
				errRes = sig.Results().At(i)
			}
		}
		if errRes == nil {
			c.ob("C05.R1", driver.Name+"/recover-converts", w.Pos(lit.Pos()), false, "the driver has no named error result the deferred function could set")
		} else {
			// automaton in the literal: on the non-nil edge of the recovered value every path stores a non-nil error; no panic
			var recVar types.Object
			ast.Inspect(lit.Body, func(n ast.Node) bool {
				if as, ok := n.(*ast.AssignStmt); ok && len(as.Lhs) == 1 && len(as.Rhs) == 1 {
					if call, ok := as.Rhs[0].(*ast.CallExpr); ok && isBuiltin(tinfo, call, "recover") {
						if id := identOf(as.Lhs[0]); id != nil {
							recVar = tinfo.Defs[id]
						}
					}
				}
				return true
			})
			r := evtRule{
				start: "",
				edge: func(e edgeInfo) []string {
					if b, ok := unparen(e.Cond).(*ast.BinaryExpr); ok && (b.Op == token.NEQ || b.Op == token.EQL) && isNilExpr(tinfo, b.Y) {
						if id := identOf(b.X); id != nil && recVar != nil && tinfo.Uses[id] == recVar {
							if (b.Op == token.NEQ) == e.Branch {
								return []string{"PANICKED"}
							}
							return []string{"CLEAN"}
						}
					}
					return nil
				},
				prim: func(n ast.Node) []string {
					switch n := n.(type) {
					case *ast.AssignStmt:
						for i, l := range n.Lhs {
							if id := identOf(l); id != nil && tinfo.Uses[id] == errRes {
								if len(n.Rhs) == len(n.Lhs) && !isNilExpr(tinfo, n.Rhs[i]) {
									return []string{"SETERR"}
								}
								return []string{"CLEARERR"}
							}
						}
					case *ast.CallExpr:
						if isBuiltin(tinfo, n, "panic") {
							return []string{"REPANIC"}
						}
					}
					return nil
				},
				step: func(st, ev string) string {
					switch ev {
					case "PANICKED":
						return "panicked"
					case "CLEAN":
						return "clean"
					case "SETERR":
						if st == "panicked" {
							return "converted"
						}
					case "CLEARERR":
						if st == "converted" {
							return "panicked"
						}
					case "REPANIC":
						return "repanic"
					}
					return ""
				},
				bad: func(st, ev string) string {
					if st == "repanic" && ev == "REPANIC" {
						return "the deferred function panics again: some panic values (e.g. runtime errors from the lexer on empty input) escape NewDialogueRunner"
					}
					return ""
				},
				ret: func(st string, ret *ast.ReturnStmt, kind string) string {
					if st == "panicked" {
						return "the deferred function can finish after a recovered panic without storing a non-nil error: the caller would get a nil error and a nil or half-built dialogue"
					}
					return ""
				},
			}
			fs := runEVT(w, lf, r)
			sawTest := recVar != nil
			if !sawTest {
				c.ob("C05.R1", driver.Name+"/recover-converts", w.Pos(lit.Pos()), false, "the result of recover() is not kept")
			} else if len(fs) == 0 {
				c.ob("C05.R1", driver.Name+"/recover-converts", w.Pos(lit.Pos()), true, "whenever a panic was recovered, a non-nil error is stored into the named result on every path; no re-panic")
			}
			for i, f := range fs {
				c.ob("C05.R1", driver.Name+"/recover-converts#"+itoa(i+1), w.Pos(f.pos), false, f.msg)
			}
		}
	}
	// no goroutine on the loading path of package tree/parser (a panic there could not be recovered)
	for _, f := range w.Funcs {
		if f.Body == nil || (f.Pkg != tp && f.Pkg != lx.pkg) {
			continue
		}
		walkNoLit(f.Body, func(n ast.Node) bool {
			if g, ok := n.(*ast.GoStmt); ok {
				c.ob("C05.R1", f.Name+"/go", w.Pos(g.Pos()), false, "a goroutine is started on the loading path: a panic in it cannot be recovered by the boundary")
			}
			return true
		})
	}

	// ----- R2
	c05Listener(c, driver, dialogueCall, walkCall)
	c05WholeInput(c, driver, dialogueCall)
	c05MixedIndent(c, lx)

	// ----- R3 and the load-path part of R5: bounds
	checkBounds(c, "C05.R3", func(s bceSite) bool {
		return s.Fn != nil && s.Fn == m.ctor
	}, nil)
	checkBounds(c, "C05.R5", func(s bceSite) bool {
		rel := relTo(w.Repo, s.File)
		return !isRuntimeFile(rel) && !strings.HasPrefix(rel, "markup/") && !strings.HasPrefix(rel, "internal/testutils/") || rel == "internal/tree/tree.go" || strings.HasPrefix(rel, "internal/rng/")
	}, func(s bceSite) string {
		rel := relTo(w.Repo, s.File)
		switch {
		case rel == "internal/container/queue.go":
			return "token queue: used by the lexer only, behind the recover boundary (C05.R1)"
		case rel == "internal/tree/parser_listener.go", strings.HasPrefix(rel, "internal/parser/"):
			return "tree builder / lexer: runs inside the recover boundary (C05.R1)"
		case rel == "internal/tree/tree.go" && s.Fn != nil && (strings.Contains(s.Fn.Name, "rearrange") || strings.Contains(s.Fn.Name, "split") || strings.Contains(s.Fn.Name, "valueFromCommandText")):
			return "command re-arrangement: called from the tree builder, inside the recover boundary (C05.R1)"
		}
		return ""
	})

	// ----- R4
	c05ErrorDiscipline(c, m, driver)

	// ----- R5
	c05Panics(c, m, driver)
	c05BaseSignatures(c, m)
}

func c05Listener(c *Ctx, driver *Func, dialogueCall, walkCall *ast.CallExpr) {
	w := c.W
	tp := w.Pkg("internal/tree")
	info := tp.TypesInfo
	// module types with a SyntaxError method
	var listenerT *types.Named
	var syntaxErr *Func
	for _, f := range w.FuncsIn(tp) {
		if f.Decl != nil && f.Decl.Recv != nil && f.Decl.Name.Name == "SyntaxError" && f.Body != nil {
			syntaxErr = f
			rt := f.Sig().Recv().Type()
			if p, ok := rt.(*types.Pointer); ok {
				rt = p.Elem()
			}
			listenerT, _ = rt.(*types.Named)
		}
	}
	if syntaxErr == nil || listenerT == nil {
		c.ob("C05.R2", "module/error-listener", w.Pos(driver.Decl.Pos()), false, "no module type implements antlr's SyntaxError: syntax errors found by the lexer and the parser are only printed, and whatever tree error recovery produced is loaded")
		return
	}
	c.fn(syntaxErr)
	// records on every path
	recvObj := info.Defs[syntaxErr.Decl.Recv.List[0].Names[0]]
	r := evtRule{
		start: "",
		prim: func(n ast.Node) []string {
			switch n := n.(type) {
			case *ast.AssignStmt:
				for _, l := range n.Lhs {
					root, fields := fieldChain(info, l)
					if id := identOf(root); id != nil && info.Uses[id] == recvObj && len(fields) > 0 {
						return []string{"RECORD"}
					}
				}
			case *ast.IncDecStmt:
				root, fields := fieldChain(info, n.X)
				if id := identOf(root); id != nil && info.Uses[id] == recvObj && len(fields) > 0 {
					return []string{"RECORD"}
				}
			}
			return nil
		},
		step: func(st, ev string) string {
			if ev == "RECORD" {
				return "recorded"
			}
			return ""
		},
		ret: func(st string, ret *ast.ReturnStmt, kind string) string {
			if st != "recorded" {
				return "SyntaxError can return without recording the error: some syntax errors (e.g. the single-token repairs ANTLR reports without an exception object) would be dropped and the repaired script loaded silently"
			}
			return ""
		},
	}
	fs := runEVT(w, syntaxErr, r)
	if len(fs) == 0 {
		c.ob("C05.R2", syntaxErr.Name+"/records-always", w.Pos(syntaxErr.Decl.Pos()), true, "every path through SyntaxError records the error in the listener")
	}
	for i, f := range fs {
		c.ob("C05.R2", syntaxErr.Name+"/records-always#"+itoa(i+1), w.Pos(f.pos), false, f.msg)
	}
	// added to lexer and parser before Dialogue()
	added := map[string]token.Pos{}
	var listenerVar types.Object
	walkNoLit(driver.Body, func(n ast.Node) bool {
		call, ok := n.(*ast.CallExpr)
		if !ok || len(call.Args) != 1 {
			return true
		}
		sel, ok := unparen(call.Fun).(*ast.SelectorExpr)
		if !ok || sel.Sel.Name != "AddErrorListener" {
			return true
		}
		// the argument, looked at through locals bound once (an interface-typed local holding the listener included)
		argX := unparen(call.Args[0])
		dx := w.expander(driver)
		isListener := func(e ast.Expr) bool {
			at, ok := info.Types[e]
			if !ok {
				return false
			}
			t := at.Type
			if p, ok := t.(*types.Pointer); ok {
				t = p.Elem()
			}
			return t == types.Type(listenerT)
		}
		for k := 0; k < 4 && !isListener(argX); k++ {
			id := identOf(argX)
			if id == nil {
				break
			}
			rhs, idx, _, okd := dx.def(info.Uses[id])
			if !okd || rhs == nil || idx >= 0 {
				break
			}
			argX = unparen(rhs)
		}
		if !isListener(argX) {
			return true
		}
		if id := identOf(argX); id != nil {
			listenerVar = info.Uses[id]
		}
		if rt, ok := info.Types[sel.X]; ok {
			ts := typeStr(rt.Type)
			switch {
			case strings.Contains(ts, "Lexer"):
				added["lexer"] = call.Pos()
			case strings.Contains(ts, "Parser"):
				added["parser"] = call.Pos()
			}
		}
		return true
	})
	for _, who := range []string{"lexer", "parser"} {
		pos, ok := added[who]
		okBefore := ok && pos < dialogueCall.Pos()
		p := w.Pos(driver.Decl.Pos())
		if ok {
			p = w.Pos(pos)
		}
		c.ob("C05.R2", driver.Name+"/listener-on-"+who, p, okBefore, map[bool]string{true: "the recording listener is added to the " + who + " before parsing", false: "the recording listener is not added to the " + who + " before Dialogue() runs: its syntax errors are lost"}[okBefore])
	}
	// the walk and the success returns are entailed by "nothing recorded"
	var test *ast.BinaryExpr
	walkNoLit(driver.Body, func(n ast.Node) bool {
		b, ok := n.(*ast.BinaryExpr)
		if !ok {
			return true
		}
		// through locals assigned once (errs := listener.errs; if len(errs) != 0 …)
		dx := w.expander(driver)
		var mentionsVar func(e ast.Node, depth int) bool
		mentionsVar = func(e ast.Node, depth int) bool {
			found := false
			ast.Inspect(e, func(q ast.Node) bool {
				id, ok := q.(*ast.Ident)
				if !ok || listenerVar == nil || found {
					return !found
				}
				obj := info.Uses[id]
				if obj == listenerVar {
					found = true
					return false
				}
				if v, isVar := obj.(*types.Var); isVar && depth < 4 && !v.IsField() {
					if rhs, _, _, ok := dx.def(v); ok && rhs != nil && mentionsVar(rhs, depth+1) {
						found = true
					}
				}
				return !found
			})
			return found
		}
		mentions := mentionsVar(b, 0)
		if mentions && test == nil && (b.Op == token.NEQ || b.Op == token.EQL || b.Op == token.GTR) {
			if _, isLogical := map[token.Token]bool{token.LAND: true, token.LOR: true}[b.Op]; !isLogical {
				test = b
			}
		}
		return true
	})
	if test == nil {
		c.ob("C05.R2", driver.Name+"/record-tested", w.Pos(driver.Decl.Pos()), false, "the listener's record is never tested: recorded syntax errors do not become an error")
		return
	}
	// the record only grows: nothing in the driver assigns to the listener (or to a field of it) after it was created — the
	// lexer's token recognition errors are reported once, when the token is produced, and a second parse over the same
	// token stream does not repeat them
	if listenerVar != nil {
		cleared := ""
		var clearedPos token.Pos
		ast.Inspect(driver.Body, func(q ast.Node) bool {
			as, ok := q.(*ast.AssignStmt)
			if !ok {
				return true
			}
			for _, l := range as.Lhs {
				root := identOfRoot(stripIndexes(l))
				if root == nil || info.Uses[root] != types.Object(listenerVar) {
					continue
				}
				if cleared == "" {
					cleared, clearedPos = exprStr(l), l.Pos()
				}
			}
			return true
		})
		if cleared != "" {
			c.ob("C05.R2", driver.Name+"/record-never-cleared", w.Pos(clearedPos), false, "the driver assigns to "+cleared+" after the listener was created: syntax errors recorded so far (the lexer's token recognition errors are reported only once, while the tokens are produced) are dropped, and a script with an unrecognised character can load silently")
		} else {
			c.obN("C05.R2", driver.Name+"/record-never-cleared", w.Pos(driver.Decl.Pos()), true, "the driver never assigns to the listener or its record after creating it", false)
		}
	}
	e := w.ent(driver)
	// polarity: the test is "recorded something"
	recorded := func(k keyCtx) Formula {
		f := e.cond(k, test, 0)
		if test.Op == token.EQL {
			return Not{f}
		}
		return f
	}
	at := site{pos: walkCall.Pos(), anc: walkCall}
	ok, how := e.Prove(walkCall, Not{recorded(keyCtx{e: e, s: &at})})
	c.ob("C05.R2", driver.Name+"/walk-only-clean-trees", w.Pos(walkCall.Pos()), ok, map[bool]string{true: "the tree is walked only when no syntax error was recorded (" + how + ")", false: "the tree builder can run on a tree produced by error recovery (its handlers assume well-formed trees): " + how}[ok])
	nRet := 0
	walkNoLit(driver.Body, func(n ast.Node) bool {
		ret, ok := n.(*ast.ReturnStmt)
		if !ok || len(ret.Results) != 2 || !isNilExpr(info, ret.Results[1]) || ret.Pos() < dialogueCall.Pos() {
			return true
		}
		nRet++
		at := site{pos: ret.Pos(), anc: ret}
		ok, how := e.Prove(ret, Not{recorded(keyCtx{e: e, s: &at})})
		c.ob("C05.R2", driver.Name+"/success-only-without-errors#"+itoa(nRet), w.Pos(ret.Pos()), ok, map[bool]string{true: "a nil error is returned only when no syntax error was recorded (" + how + ")", false: "a nil error can be returned although syntax errors were recorded: " + how}[ok])
		return true
	})
}

// c05MixedIndent: in the width-measuring function, once both a space and a tab were seen (in either order) no return is
// reached without the panic that reports mixed indentation.
func c05MixedIndent(c *Ctx, lx *lexerModel) {
	w := c.W
	f := lx.measure
	info := lx.pkg.TypesInfo
	c.fn(f)
	sawArms := map[string]bool{}
	r := evtRule{
		start: "",
		edge: func(e edgeInfo) []string {
			val, ok := edgeEqConst(info, e)
			if !ok {
				return nil
			}
			switch val {
			case "32":
				sawArms["space"] = true
				return []string{"SPACE"}
			case "9":
				sawArms["tab"] = true
				return []string{"TAB"}
			}
			return nil
		},
		prim: func(n ast.Node) []string {
			if call, ok := n.(*ast.CallExpr); ok && isBuiltin(info, call, "panic") {
				return []string{"PANIC"}
			}
			return nil
		},
		step: func(st, ev string) string {
			switch ev {
			case "SPACE":
				if !has(st, "S") {
					return addTok(st, "S")
				}
			case "TAB":
				if !has(st, "T") {
					return addTok(st, "T")
				}
			}
			return ""
		},
		ret: func(st string, ret *ast.ReturnStmt, kind string) string {
			if has(st, "S") && has(st, "T") {
				return "a width is returned although the indentation contained both spaces and tabs (order: " + st + "): mixed indentation would be loaded silently as some other nesting"
			}
			return ""
		},
	}
	// a panic ends the path (noReturn), so any return reached with S and T means the panic was skipped
	fs := runEVT(w, f, r)
	if !sawArms["space"] || !sawArms["tab"] {
		// the counting form: spaces := strings.Count(text, " "); tabs := strings.Count(text, "\t"); if spaces > 0 && tabs > 0 { panic }
		// as a top-level statement that precedes every return
		mx := w.expander(f)
		isCountOf := func(e ast.Expr, ch string) bool {
			s := mx.str(e)
			return strings.HasPrefix(s, "strings.Count(") && strings.HasSuffix(s, ",const:\""+ch+"\")") || strings.HasPrefix(s, "strings.Count(") && strings.HasSuffix(s, ","+strconv.Quote(ch)+")")
		}
		positive := func(e ast.Expr, ch string) bool {
			b, ok := unparen(e).(*ast.BinaryExpr)
			if !ok {
				return false
			}
			tv, okc := info.Types[b.Y]
			if !okc || tv.Value == nil {
				return false
			}
			v := tv.Value.ExactString()
			return isCountOf(b.X, ch) && (b.Op == token.GTR && v == "0" || b.Op == token.NEQ && v == "0" || b.Op == token.GEQ && v == "1")
		}
		guardAt, firstRet := token.NoPos, token.NoPos
		for _, st := range f.Body.List {
			if is, ok := st.(*ast.IfStmt); ok && is.Init == nil && guardAt == token.NoPos {
				if b, ok := unparen(is.Cond).(*ast.BinaryExpr); ok && b.Op == token.LAND {
					if (positive(b.X, " ") && positive(b.Y, "\t") || positive(b.X, "\t") && positive(b.Y, " ")) && len(is.Body.List) > 0 {
						if es, ok := is.Body.List[0].(*ast.ExprStmt); ok {
							if call, ok := es.X.(*ast.CallExpr); ok && isBuiltin(info, call, "panic") {
								guardAt = is.Pos()
							}
						}
					}
				}
			}
			ast.Inspect(st, func(n ast.Node) bool {
				if _, isLit := n.(*ast.FuncLit); isLit {
					return false
				}
				if r, ok := n.(*ast.ReturnStmt); ok && firstRet == token.NoPos {
					firstRet = r.Pos()
				}
				return true
			})
		}
		if guardAt != token.NoPos && (firstRet == token.NoPos || guardAt < firstRet) {
			c.ob("C05.R2", f.Name+"/mixed-indentation", w.Pos(guardAt), true, "the function panics when the count of spaces and the count of tabs are both positive, before any return (the panic is turned into an error by C05.R1)")
			return
		}
		c.undecided("C05.R2", "the width-measuring function has no branch taken for ' ' and none for '\\t'")
		return
	}
	if len(fs) == 0 {
		c.ob("C05.R2", f.Name+"/mixed-indentation", w.Pos(f.Decl.Pos()), true, "no return is reachable after both a space and a tab were seen, in either order (the mixed-indentation panic is raised, and turned into an error by C05.R1)")
	}
	for i, fd := range fs {
		c.ob("C05.R2", f.Name+"/mixed-indentation#"+itoa(i+1), w.Pos(fd.pos), false, fd.msg)
	}
}

func c05ErrorDiscipline(c *Ctx, m *runnerModel, driver *Func) {
	w := c.W
	tp := w.Pkg("internal/tree")
	rp := w.Pkg("internal/rng")
	fns := []*Func{m.ctor, driver, w.DeclByName(tp, "FromReaders"), w.DeclByName(rp, "NewRNG")}
	exceptions := map[string]string{
		"visited":       "registers a closure of fixed, supported shape (func(string) bool)",
		"visited_count": "registers a closure of fixed, supported shape (func(string) int)",
	}
	for _, f := range fns {
		if f == nil {
			c.undecided("C05.R4", "a loading function was not found")
			continue
		}
		c.fn(f)
		info := f.Pkg.TypesInfo
		n := 0
		walkNoLit(f.Body, func(q ast.Node) bool {
			call, ok := q.(*ast.CallExpr)
			if !ok {
				return true
			}
			tv, ok := info.Types[call]
			if !ok {
				return true
			}
			// does the call return an error (alone or last in a tuple)?
			retErr := false
			switch t := tv.Type.(type) {
			case *types.Tuple:
				if t.Len() > 0 && typeStr(t.At(t.Len()-1).Type()) == "error" {
					retErr = true
				}
			default:
				if t != nil && typeStr(t) == "error" {
					retErr = true
				}
			}
			if !retErr {
				return true
			}
			if callee := calleeOf(info, call); callee != nil {
				switch funcFullName(callee) {
				case "fmt.Errorf", "errors.New", "errors.Join":
					return true
				}
			}
			n++
			key := f.Name + "/" + exprStrShort(call.Fun) + "#" + itoa(n)
			dropped := ""
			switch par := w.parent[call].(type) {
			case *ast.ExprStmt:
				dropped = "its error result is discarded"
			case *ast.AssignStmt:
				last := par.Lhs[len(par.Lhs)-1]
				if id := identOf(last); id != nil && id.Name == "_" {
					dropped = "its error result is assigned to _"
				}
			case *ast.DeferStmt:
				dropped = ""
			}
			if dropped != "" {
				// named exception?
				if len(call.Args) > 0 {
					if av, ok := info.Types[call.Args[0]]; ok && av.Value != nil && av.Value.Kind() == constant.String {
						if why, ok := exceptions[constant.StringVal(av.Value)]; ok {
							c.obN("C05.R4", key, w.Pos(call.Pos()), true, "exception: "+why, false)
							return true
						}
					}
				}
				c.ob("C05.R4", key, w.Pos(call.Pos()), false, exprStrShort(call.Fun)+" can fail and "+dropped+": a loading error would be swallowed and a broken runner returned")
				return true
			}
			c.ob("C05.R4", key, w.Pos(call.Pos()), true, "the error result is kept and tested")
			return true
		})
	}
}

func c05Panics(c *Ctx, m *runnerModel, driver *Func) {
	w := c.W
	ctor := w.SSAFunc(m.ctor)
	if ctor == nil {
		c.undecided("C05.R5", "no SSA for the constructor")
		return
	}
	drv := w.SSAFunc(driver)
	reach := w.reachModule(ctor)
	behind := w.reachModule(drv)
	var fns []*ssa.Function
	for f := range reach {
		fns = append(fns, f)
	}
	sort.Slice(fns, func(i, j int) bool { return fns[i].String() < fns[j].String() })
	c.Extra["load_path_functions"] = len(fns)
	c.Extra["behind_recover_boundary"] = len(behind)
	for _, f := range fns {
		name := ssaFuncName(f)
		for _, b := range f.Blocks {
			for _, in := range b.Instrs {
				switch x := in.(type) {
				case *ssa.Panic:
					if behind[f] && f != drv {
						c.obN("C05.R5", name+"/panic", w.Pos(x.Pos()), true, "behind the recover boundary of "+driver.Name, false)
						continue
					}
					if strings.HasSuffix(name, "newFunctionStorer") {
						c.obN("C05.R5", name+"/panic", w.Pos(x.Pos()), true, "unreachable: every base-function signature passes the gate statically (checked below)", true)
						continue
					}
					if strings.Contains(f.String(), "container.Stack[") {
						c.obN("C05.R5", name+"/panic", w.Pos(x.Pos()), true, "empty-stack panic: the constructor only pushes", false)
						continue
					}
					c.ob("C05.R5", name+"/panic", w.Pos(x.Pos()), false, "an explicit panic is reachable from NewDialogueRunner outside the recover boundary")
				case *ssa.MakeSlice:
					if behind[f] && f != drv {
						continue
					}
					for _, sz := range []ssa.Value{x.Len, x.Cap} {
						if _, isConst := sz.(*ssa.Const); isConst {
							continue
						}
						if sizeIsLenLike(sz) {
							continue
						}
						ok, how := makeSizeGuarded(w, f, x)
						c.ob("C05.R5", name+"/make-size", w.Pos(x.Pos()), ok, how)
						break
					}
				}
			}
		}
	}
}

func sizeIsLenLike(v ssa.Value) bool {
	switch x := v.(type) {
	case *ssa.Call:
		if b, ok := x.Call.Value.(*ssa.Builtin); ok && (b.Name() == "len" || b.Name() == "cap") {
			return true
		}
		if x.Call.IsInvoke() && (x.Call.Method.Name() == "NumIn" || x.Call.Method.Name() == "NumOut") {
			return true
		}
	case *ssa.BinOp:
		if x.Op == token.ADD {
			return sizeIsLenLike(x.X) && sizeIsLenLike(x.Y)
		}
	case *ssa.Convert:
		return sizeIsLenLike(x.X)
	}
	return false
}

// makeSizeGuarded: reviewed pattern for the seed-text buffer: the size is computed from a logarithm of a value that is
// entailed positive at the make.
func makeSizeGuarded(w *World, f *ssa.Function, mk *ssa.MakeSlice) (bool, string) {
	fn, call := w.astCallAt(mk.Pos())
	_ = call
	if fn == nil {
		// find the make call by position in the enclosing declaration
		for _, g := range w.Funcs {
			if g.Body != nil && g.Body.Pos() <= mk.Pos() && mk.Pos() <= g.Body.End() && g.Lit == nil {
				fn = g
			}
		}
	}
	if fn == nil {
		return false, "a slice is made with a computed size outside the recover boundary"
	}
	info := fn.Pkg.TypesInfo
	e := w.ent(fn)
	var mkCall *ast.CallExpr
	walkNoLit(fn.Body, func(n ast.Node) bool {
		if cl, ok := n.(*ast.CallExpr); ok && isBuiltin(info, cl, "make") && cl.Pos() <= mk.Pos() && mk.Pos() <= cl.End() {
			mkCall = cl
		}
		return true
	})
	if mkCall == nil {
		return false, "a slice is made with a computed size outside the recover boundary"
	}
	// sizes that are lengths or parameter counts are non-negative by construction
	{
		x := w.expander(fn)
		allLen := true
		for _, a := range mkCall.Args[1:] {
			if tv, ok := info.Types[a]; ok && tv.Value != nil {
				continue
			}
			sx := x.str(a)
			// T.NumIn()-1 in a function that is only ever called for variadic T (NumIn() >= 1)
			if b, ok := unparen(a).(*ast.BinaryExpr); ok && b.Op == token.SUB && strings.HasSuffix(x.str(b.X), ".NumIn()") {
				if tv, ok := info.Types[b.Y]; ok && tv.Value != nil && tv.Value.ExactString() == "1" {
					if okV, _ := calledOnlyUnderIsVariadic(w, w.rootOf(fn)); okV {
						continue
					}
				}
			}
			// the same through locals assigned once: n := T.NumIn(); k := n - 1
			if strings.HasPrefix(sx, "($") && strings.HasSuffix(sx, ".NumIn()-1)") && strings.Count(sx, "(") == 2 {
				if okV, _ := calledOnlyUnderIsVariadic(w, w.rootOf(fn)); okV {
					continue
				}
			}
			if !(strings.HasPrefix(sx, "len(") || strings.HasSuffix(sx, ".NumIn()") || strings.HasSuffix(sx, ".NumOut()") || strings.HasPrefix(sx, "cap(") || (strings.HasPrefix(sx, "(len(") && strings.Contains(sx, "+len("))) {
				allLen = false
			}
		}
		if allLen {
			return true, "the size is a length / parameter count (non-negative by construction)"
		}
	}
	// an integer parameter entailed > 0 at the make, from which the size is derived through math.Log
	sig := fn.Sig()
	for i := 0; sig != nil && i < sig.Params().Len(); i++ {
		p := sig.Params().At(i)
		if !isIntType(p.Type()) {
			continue
		}
		id := identFor(fn, p)
		if id == nil {
			continue
		}
		at := site{pos: mkCall.Pos(), anc: mkCall}
		kc := keyCtx{e: e, s: &at}
		if ok, how := e.Prove(mkCall, gtAtom(kc.norm(id), 0)); ok {
			usesLog := false
			ast.Inspect(fn.Body, func(n ast.Node) bool {
				if cl, ok := n.(*ast.CallExpr); ok {
					if callee := calleeOf(info, cl); callee != nil && funcFullName(callee) == "math.Log" {
						usesLog = true
					}
				}
				return true
			})
			if usesLog {
				return true, "reviewed: the size is floor(log(" + p.Name() + ")/log(radix)) and " + p.Name() + " > 0 is entailed at the make (" + how + "), so the logarithm is finite and the size is between 0 and 12"
			}
		}
	}
	return false, "a slice is made with a computed size (" + exprStr(mkCall) + ") that no guard bounds: a non-positive value gives -Inf and `makeslice: cap out of range`"
}

// c05BaseSignatures: the static types of the registered base functions pass the registration gate.
func c05BaseSignatures(c *Ctx, m *runnerModel) {
	w := c.W
	info := m.pkg.TypesInfo
	var storerCtor *Func
	for _, f := range w.FuncsIn(m.pkg) {
		if f.Decl != nil && f.Sig().Results().Len() == 1 && typeStr(f.Sig().Results().At(0).Type()) == "*ysgo.functionStorer" {
			storerCtor = f
		}
	}
	if storerCtor == nil {
		c.undecided("C05.R5", "function storer constructor not found")
		return
	}
	reg := findRegistry(w, storerCtor)
	if reg == nil {
		c.undecided("C05.R5", "registry not found")
		return
	}
	// accepted parameter kinds: keys of the converter table
	accepted := map[string]bool{}
	for _, file := range m.pkg.Syntax {
		ast.Inspect(file, func(n ast.Node) bool {
			cl, ok := n.(*ast.CompositeLit)
			if !ok {
				return true
			}
			if tv, ok := info.Types[cl]; ok && strings.HasPrefix(structuralTypeStr(tv.Type), "map[reflect.Kind]func(") {
				for _, el := range cl.Elts {
					if kv, ok := el.(*ast.KeyValueExpr); ok {
						accepted[reflectKindName(info, kv.Key)] = true
					}
				}
			}
			return true
		})
	}
	kindOf := func(t types.Type) string {
		if b, ok := t.Underlying().(*types.Basic); ok {
			return strings.Title(b.Name())
		}
		return "?"
	}
	var names []string
	for n := range reg.entries {
		names = append(names, n)
	}
	sort.Strings(names)
	for _, name := range names {
		v := reg.entries[name]
		tv, ok := info.Types[v]
		if !ok {
			continue
		}
		sig, ok := tv.Type.Underlying().(*types.Signature)
		if !ok {
			c.ob("C05.R5", "base function "+name, w.Pos(v.Pos()), false, "registered value is not a function: the constructor panics")
			continue
		}
		var bad []string
		for i := 0; i < sig.Params().Len(); i++ {
			t := sig.Params().At(i).Type()
			if sig.Variadic() && i == sig.Params().Len()-1 {
				t = t.(*types.Slice).Elem()
			}
			if !accepted[kindOf(t)] {
				bad = append(bad, "parameter "+itoa(i)+" of kind "+kindOf(t))
			}
		}
		res := sig.Results()
		isErr := func(t types.Type) bool { return typeStr(t) == "error" }
		isVal := func(t types.Type) bool {
			_, ok := kindCategory[kindOf(t)]
			return ok && !strings.HasPrefix(kindOf(t), "Uint")
		}
		switch res.Len() {
		case 0:
		case 1:
			if !isVal(res.At(0).Type()) && !isErr(res.At(0).Type()) {
				bad = append(bad, "result of kind "+kindOf(res.At(0).Type()))
			}
		case 2:
			if !isVal(res.At(0).Type()) || !isErr(res.At(1).Type()) {
				bad = append(bad, "results ("+kindOf(res.At(0).Type())+", "+typeStr(res.At(1).Type())+")")
			}
		default:
			bad = append(bad, itoa(res.Len())+" results")
		}
		c.ob("C05.R5", "base function "+name, w.Pos(v.Pos()), len(bad) == 0, map[bool]string{true: "signature " + typeStr(sig) + " passes the registration gate", false: "signature " + typeStr(sig) + " is refused by the registration gate (" + strings.Join(bad, ", ") + "): NewDialogueRunner panics"}[len(bad) == 0])
	}
}

// c05WholeInput: C05.R6. ANTLR parses a prefix: a start rule that does not end with EOF returns, with no syntax error, as
// soon as the next token cannot continue it. Either the grammar closes the start rule with EOF, or the driver compares
// the next token with EOF and reports what is left over.
func c05WholeInput(c *Ctx, driver *Func, startCall *ast.CallExpr) {
	w := c.W
	g := w.grammar()
	info := driver.Pkg.TypesInfo
	// the start rule: the parser method called
	rule := ""
	if sel, ok := unparen(startCall.Fun).(*ast.SelectorExpr); ok {
		name := sel.Sel.Name
		rule = strings.ToLower(name[:1]) + name[1:]
	}
	body, ok := g.parserRules[rule]
	if !ok {
		c.undecided("C05.R6", "the grammar rule of the start call "+exprStr(startCall.Fun)+" was not found")
		return
	}
	if regexp.MustCompile(`\bEOF\s*;?\s*$`).MatchString(strings.TrimSpace(body)) {
		c.ob("C05.R6", "grammar/"+rule, "-", true, "the start rule ends with EOF: the parser reports whatever it cannot derive")
		return
	}
	// comparisons with the EOF token type in the driver
	e := w.ent(driver)
	var tests []*ast.BinaryExpr
	walkNoLit(driver.Body, func(n ast.Node) bool {
		b, ok := n.(*ast.BinaryExpr)
		if !ok || (b.Op != token.EQL && b.Op != token.NEQ) || b.Pos() < startCall.End() {
			return true
		}
		for _, side := range []ast.Expr{b.X, b.Y} {
			if sel, ok := unparen(side).(*ast.SelectorExpr); ok && sel.Sel.Name == "TokenEOF" {
				tests = append(tests, b)
			}
		}
		return true
	})
	n := 0
	walkNoLit(driver.Body, func(q ast.Node) bool {
		ret, ok := q.(*ast.ReturnStmt)
		if !ok || len(ret.Results) != 2 || !isNilExpr(info, ret.Results[1]) || ret.Pos() < startCall.Pos() {
			return true
		}
		n++
		proved, how := false, "no comparison of the next token with EOF follows the parse"
		for _, t := range tests {
			at := site{pos: ret.Pos(), anc: ret}
			var goal Formula = e.cond(keyCtx{e: e, s: &at}, t, 0)
			if t.Op == token.NEQ {
				goal = Not{goal}
			}
			if ok, h := e.Prove(ret, goal); ok {
				proved, how = true, "entailed: "+exprStr(t.X)+" == "+exprStr(t.Y)+" ("+h+")"
				break
			} else {
				how = "the test " + exprStr(t) + " does not dominate this return: " + h
			}
		}
		c.ob("C05.R6", driver.Name+"/whole-input#"+itoa(n), w.Pos(ret.Pos()), proved, map[bool]string{true: "a dialogue is returned only when the parser consumed the whole input: " + how, false: "grammar rule '" + rule + "' does not end with EOF and a dialogue can be returned without the rest of the input having been looked at (" + how + "): a valid node followed by something that is not a node — a body without header — loads silently as another script"}[proved])
		return true
	})
	if n == 0 {
		c.undecided("C05.R6", "no nil-error return after the parse in "+driver.Name)
	}
}
