package main

// mutgen.go — development aid, not a check: enumerates single-site syntactic mutants of the hand-written sources
// (negated conditions, deleted effect statements, && <-> ||, relational off-by-one) as text replacements, for the
// mutation sweep that looks for guards no rule depends on (tools/sweep.py).

import (
	"encoding/json"
	"fmt"
	"go/ast"
	"go/token"
	"path/filepath"
	"strings"
)

type mutant struct {
	File  string `json:"file"`
	Start int    `json:"start"`
	End   int    `json:"end"`
	Repl  string `json:"repl"`
	Kind  string `json:"kind"`
	Line  int    `json:"line"`
	Func  string `json:"func"`
	Text  string `json:"text"`
}

func runMutgen(repo string) {
	w, err := loadWorld(repo, nil, false)
	if err != nil {
		fmt.Println(err)
		return
	}
	for _, pkg := range w.Pkgs {
		if strings.HasSuffix(pkg.PkgPath, "/internal/testutils") {
			continue
		}
		for _, file := range pkg.Syntax {
			tf := w.Fset.File(file.Pos())
			name := tf.Name()
			base := filepath.Base(name)
			if strings.HasSuffix(name, "_test.go") || strings.HasPrefix(base, "yarnspinner") || base == "doc.go" {
				continue
			}
			src := func(n ast.Node) string { return "" }
			_ = src
			emit := func(n ast.Node, start, end token.Pos, repl, kind string) {
				fn := ""
				if f := w.EnclosingOrSelf(n); f != nil {
					fn = f.Name
				}
				m := mutant{File: name, Start: tf.Offset(start), End: tf.Offset(end), Repl: repl, Kind: kind, Line: tf.Line(start), Func: fn, Text: shorten(exprOrStmt(n), 80)}
				b, _ := json.Marshal(m)
				fmt.Println(string(b))
			}
			ast.Inspect(file, func(n ast.Node) bool {
				switch x := n.(type) {
				case *ast.IfStmt:
					emit(x, x.Cond.Pos(), x.Cond.End(), "@NEG@", "neg-cond")
				case *ast.BinaryExpr:
					switch x.Op {
					case token.LAND:
						emit(x, x.OpPos, x.OpPos+2, "||", "and->or")
					case token.LOR:
						emit(x, x.OpPos, x.OpPos+2, "&&", "or->and")
					case token.LSS:
						emit(x, x.OpPos, x.OpPos+1, "<=", "lt->le")
					case token.LEQ:
						emit(x, x.OpPos, x.OpPos+2, "<", "le->lt")
					case token.GTR:
						emit(x, x.OpPos, x.OpPos+1, ">=", "gt->ge")
					case token.GEQ:
						emit(x, x.OpPos, x.OpPos+2, ">", "ge->gt")
					case token.EQL:
						emit(x, x.OpPos, x.OpPos+2, "!=", "eq->ne")
					case token.NEQ:
						emit(x, x.OpPos, x.OpPos+2, "==", "ne->eq")
					}
				case *ast.ExprStmt:
					if _, ok := x.X.(*ast.CallExpr); ok {
						emit(x, x.Pos(), x.End(), "", "del-call")
					}
				case *ast.AssignStmt:
					if x.Tok != token.DEFINE {
						emit(x, x.Pos(), x.End(), "", "del-assign")
					}
				case *ast.IncDecStmt:
					emit(x, x.Pos(), x.End(), "", "del-incdec")
				case *ast.SendStmt:
					emit(x, x.Pos(), x.End(), "", "del-send")
				case *ast.ReturnStmt:
					// swap an error return for a nil error is not expressible textually in general: skipped
				}
				return true
			})
		}
	}
}

func exprOrStmt(n ast.Node) string {
	switch x := n.(type) {
	case ast.Expr:
		return exprStr(x)
	case *ast.IfStmt:
		return "if " + exprStr(x.Cond)
	case *ast.ExprStmt:
		return exprStr(x.X)
	case *ast.AssignStmt:
		var l, r []string
		for _, e := range x.Lhs {
			l = append(l, exprStr(e))
		}
		for _, e := range x.Rhs {
			r = append(r, exprStr(e))
		}
		return strings.Join(l, ", ") + " " + x.Tok.String() + " " + strings.Join(r, ", ")
	case *ast.IncDecStmt:
		return exprStr(x.X) + x.Tok.String()
	case *ast.SendStmt:
		return exprStr(x.Chan) + " <- " + exprStr(x.Value)
	}
	return fmt.Sprintf("%T", n)
}
