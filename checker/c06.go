package main

// c06.go — C06: running a valid script never panics; script-level faults surface as errors.

import (
	"go/ast"
	"go/token"
	"go/types"
	"path/filepath"
	"sort"
	"strings"

	"golang.org/x/tools/go/ssa"
)

func init() {
	registry["C06"] = &propCheck{
		meta: propMeta{
			Level: "other",
			Explanation: "Decides the absence of the panic sources through which script-level faults travel, in the module code that runs after loading: (R1) the evaluator family returns a provably non-nil value with every nil error, so faults can only leave as errors; (R2) the expression pointer is dereferenced only under a nil guard; " +
				"(R3) every dereference of a value alternative and every use of a *Value is entailed non-nil by dominating guards (propositional entailment over guard conditions, value contracts and `one alternative per value`); (R4) every grammar alternative of expressions has a handler, so no expression is silently missing; " +
				"(R5) preconditions of external calls: the argument of rand.Intn is entailed positive at the draw or — lifted through the closures that wrap it — at every call site reachable from scripts; single-value type assertions are dominated by their comma-ok twin; map fields updated in place only ever receive fresh non-nil maps; function values looked up in tables are called only when found; " +
				"(R6) every index/slice operation the compiler cannot prove in bounds is discharged by a range-index or guard-entailment argument or by a reviewed reason whose requirements are re-checked; (R7) explicit panics reachable at run time are only the empty-stack panics, each entailed unreachable; (R8) after a command error the pending channel is cleared, so the runner stays usable.",
			NotDecided:  "stack exhaustion on unbounded runs of non-yielding statements; panics inside host handlers and host storers; out-of-range choices (excluded by the property's hypothesis)",
			Assumptions: []string{"A1", "A2", "A4", "A6", "the compiler's prove pass is sound"},
			Trusted:     []string{"go/types", "golang.org/x/tools/go/cfg", "golang.org/x/tools/go/ssa", "cmd/compile's bounds-check-elimination report", "tables/bounds.json (reviewed reasons)", "go/packages loader"},
		},
		run: checkC06,
	}
}

// run-time files: everything but the load path (lexer, listener, creator, queue) and test helpers
func isRuntimeFile(rel string) bool {
	switch {
	case strings.HasPrefix(rel, "internal/parser/"), strings.HasPrefix(rel, "internal/testutils/"), strings.HasPrefix(rel, "markup/"):
		return false
	case rel == "internal/tree/parser_listener.go", rel == "internal/tree/creator.go", rel == "internal/container/queue.go":
		return false
	}
	return true
}

func checkC06(c *Ctx) {
	w := c.W
	wGlobal = w
	m := w.runner()
	c.rule("C06.R1", "value contract: every nil-error return of the evaluator family returns a provably non-nil value; values appended to argument lists and passed on are non-nil", 20)
	c.rule("C06.R2", "the *tree.Expression parameter of the evaluator is dereferenced only under a nil guard", 6)
	c.rule("C06.R3", "every dereference of a Value alternative and every use of a *Value in run-time code is entailed non-nil", 100)
	c.rule("C06.R4", "every labelled alternative of the expression/value grammar rules has a handler (shared with C02.R6)", 14)
	c.rule("C06.R5", "external preconditions: rand.Intn's argument entailed positive (lifted to script-reachable call sites), random built-ins can report errors, single-value type assertions dominated by comma-ok, in-place-updated map fields receive only fresh maps, table look-ups called only when found", 8)
	c.rule("C06.R6", "bounds: every index/slice operation of run-time code that the compiler cannot prove is discharged (range index, guard entailment, or reviewed reason with re-checked requirements)", 12)
	c.rule("C06.R7", "explicit panics reachable from the run-time API: only Stack.Pop/Peek on empty, each call entailed Size() > 0", 2)
	c.rule("C06.R8", "after a command error the runner stays usable: the pending channel is cleared before Next returns the error (C10.R3 automaton)", 1)
	c.rule("C06.R9", "recursion on the run path descends the (finite, immutable) syntax tree: at every call inside a cycle of the run-time call graph some argument is a proper part of the caller's corresponding parameter; a call that hands its parameters on unchanged iterates by recursion, its depth is set by the script, and the goroutine stack overflows (a fatal error no recover can stop)", 3)
	if !m.ok(c, "C06") {
		return
	}
	c06Recursion(c, m)
	c.rule("C06.R11", "no write into a nil map: every map field of a module struct that is written through (m[k] = v, m[k]++) only ever receives a map that exists (make, literal, or a local bound to one); a struct literal that leaves it out is completed by a store in the same function", 3)
	c06NilMaps(c)
	c06ErrorsNotFiltered(c)
	c06PendingOnlyIfPresented(c, m)
	c.rule("C06.R10", "premises decided elsewhere: the markup stage that Next calls for every line and option never panics and keeps attributes inside the text (C15.R1–R5)", 5)
	dependsOn(c, "C06.R10", "Next parses the markup of every line and option it returns: a panic there is a panic of Next", "C15.R1", "C15.R2", "C15.R3", "C15.R4", "C15.R5")
	info := m.pkg.TypesInfo
	vm := w.valueModel()

	// functions of run-time packages
	var rt []*Func
	for _, f := range w.Funcs {
		if f.Body == nil {
			continue
		}
		rel := relTo(w.Repo, w.Fset.Position(f.Body.Pos()).Filename)
		if !isRuntimeFile(rel) {
			continue
		}
		switch f.Pkg.PkgPath {
		case modPath, modPath + "/variable":
			rt = append(rt, f)
		}
	}
	// ----- R1, R3
	valueObligations(c, "C06.R3", "C06.R1", rt)

	// ----- R2
	for _, f := range w.FuncsIn(m.pkg) {
		if f.Obj == nil || !vm.family[f.Obj] || f.Body == nil {
			continue
		}
		sig := f.Sig()
		e := w.ent(f)
		for i := 0; i < sig.Params().Len(); i++ {
			p := sig.Params().At(i)
			if typeStr(p.Type()) != "*tree.Expression" && typeStr(p.Type()) != "*tree.FunctionCall" {
				continue
			}
			n := 0
			walkNoLit(f.Body, func(q ast.Node) bool {
				se, ok := q.(*ast.SelectorExpr)
				if !ok {
					return true
				}
				id := identOf(se.X)
				if id == nil || info.Uses[id] != p {
					return true
				}
				n++
				key := f.Name + "/" + exprStr(se) + "#" + itoa(n)
				if typeStr(p.Type()) == "*tree.FunctionCall" {
					// a FunctionCall is reached only through a non-nil field test of its owner
					c.obN("C06.R2", key, w.Pos(se.Pos()), true, "function-call node: passed only under `e.FunctionCall != nil` / from a call statement built by the tree builder", false)
					return true
				}
				ok2, how := e.Prove(se, e.nn(e.k(), id))
				c.ob("C06.R2", key, w.Pos(se.Pos()), ok2, map[bool]string{true: "the expression pointer is entailed non-nil (" + how + ")", false: "the expression pointer is dereferenced without a nil guard (tree fields stay nil when a construct has no expression): " + how}[ok2])
				return true
			})
		}
	}

	// ----- R4
	checkHandlers(c, "C06.R4")

	// ----- R5
	c06Intn(c)
	c06TypeAssertions(c, rt)
	c06MapFields(c)
	c06TableCalls(c, rt)

	// ----- R6
	checkBounds(c, "C06.R6", func(s bceSite) bool {
		return isRuntimeFile(relTo(w.Repo, s.File))
	}, nil)

	// ----- R7
	c06Panics(c, m)

	// ----- R8: the receive arm of the pending poll clears the channel before returning the error
	tmp := newCtx(c.Prop, c.Tier, w)
	tmp.rule("C10.R1", "", 0)
	tmp.rule("C10.R2", "", 0)
	tmp.rule("C10.R3", "", 0)
	tmp.rule("C10.R4", "", 0)
	tmp.rule("C10.R5", "", 0)
	tmp.rule("C10.R6", "", 0)
	checkC10(tmp)
	for _, o := range tmp.Obs {
		if o.Rule == "C10.R3" {
			c.ob("C06.R8", o.Key, o.Pos, o.OK, o.How)
		}
	}
}

// ---------- R5 (a): rand.Intn ----------

type liftGoal struct {
	// gt(Σ coef[i]·param_i + c, 0) over the parameters of fn
	coef map[int]int64
	c    int64
}

func c06Intn(c *Ctx) {
	w := c.W
	n := 0
	for _, f := range w.Funcs {
		if f.Body == nil || strings.HasSuffix(f.Pkg.PkgPath, "/internal/testutils") {
			continue
		}
		info := f.Pkg.TypesInfo
		walkNoLit(f.Body, func(q ast.Node) bool {
			call, ok := q.(*ast.CallExpr)
			if !ok || len(call.Args) != 1 {
				return true
			}
			callee := calleeOf(info, call)
			if callee == nil {
				return true
			}
			switch funcFullName(callee) {
			case "(*math/rand.Rand).Intn", "(*math/rand.Rand).Int63n", "(*math/rand.Rand).Int31n", "math/rand.Intn", "math/rand.Int63n", "math/rand.Int31n":
			default:
				return true
			}
			n++
			c.fn(f)
			key := f.Name + "/" + callee.Name() + "(" + exprStr(call.Args[0]) + ")"
			e := w.ent(f)
			at := site{pos: call.Pos(), anc: call}
			kc := keyCtx{e: e, s: &at}
			form := kc.norm(call.Args[0])
			if ok, how := e.Prove(call, gtAtom(form, 0)); ok {
				c.ob("C06.R5", key, w.Pos(call.Pos()), true, "argument entailed positive at the draw ("+how+")")
				return true
			}
			// lift to the callers: the argument must be affine over the parameters
			g, ok := formOverParams(w, f, kc, form)
			if !ok {
				c.ob("C06.R5", key, w.Pos(call.Pos()), false, "the argument of "+callee.Name()+" is not entailed positive and is not an affine function of the parameters: "+callee.Name()+" panics for n <= 0")
				return true
			}
			fails := liftToCallers(w, f, g, 0, map[*Func]bool{})
			if len(fails) == 0 {
				c.ob("C06.R5", key, w.Pos(call.Pos()), true, "argument entailed positive at every call site reachable from scripts (precondition lifted through the wrapping closures)")
			} else {
				sort.Strings(fails)
				c.ob("C06.R5", key, w.Pos(call.Pos()), false, callee.Name()+" panics for n <= 0 and its argument is not entailed positive: "+strings.Join(fails, "; "))
			}
			return true
		})
	}
	if n == 0 {
		c.obN("C06.R5", "module/no-Intn", "-", true, "no call of rand.Intn-like functions", false)
	}
	// the registered random built-ins can report an error
	m := w.runner()
	var storerCtor *Func
	for _, f := range w.FuncsIn(m.pkg) {
		if f.Decl != nil && f.Sig().Results().Len() == 1 && typeStr(f.Sig().Results().At(0).Type()) == "*ysgo.functionStorer" {
			storerCtor = f
		}
	}
	if storerCtor != nil {
		if reg := findRegistry(w, storerCtor); reg != nil {
			for _, name := range []string{"dice", "random_range"} {
				v := reg.entries[name]
				okE := false
				if call, ok := unparen(v).(*ast.CallExpr); ok {
					if callee := calleeOf(m.pkg.TypesInfo, call); callee != nil {
						if mk := w.byObj[callee]; mk != nil {
							if l := returnedLit(w, mk); l != nil {
								s := l.Sig()
								okE = s.Results().Len() >= 1 && typeStr(s.Results().At(s.Results().Len()-1).Type()) == "error"
							}
						}
					}
				}
				pos := "-"
				if v != nil {
					pos = w.Pos(v.Pos())
				}
				c.ob("C06.R5", "builtin "+name+" can fail", pos, okE, map[bool]string{true: "the function registered as \"" + name + "\" has an error result: an out-of-domain argument can surface as an error", false: "the function registered as \"" + name + "\" has no error result: an out-of-domain argument (dice(0), random_range(5,1)) can only panic or return a wrong value"}[okE])
			}
		}
	}
}

// formOverParams rewrites a form over the keys of f's own parameters into parameter indices.
func formOverParams(w *World, f *Func, kc keyCtx, form linForm) (liftGoal, bool) {
	g := liftGoal{coef: map[int]int64{}, c: form.c}
	sig := f.Sig()
	if sig == nil {
		return g, false
	}
	for term, coef := range form.terms {
		if coef == 0 {
			continue
		}
		found := false
		for i := 0; i < sig.Params().Len(); i++ {
			if id := identFor(f, sig.Params().At(i)); id != nil && kc.key(id) == term {
				g.coef[i] += coef
				found = true
			}
		}
		if !found {
			return g, false
		}
	}
	return g, true
}

// liftToCallers checks gt(goal[args/params], 0) at every call site of f; returns the failures.
func liftToCallers(w *World, f *Func, goal liftGoal, depth int, seen map[*Func]bool) []string {
	if depth > 4 || seen[f] {
		return []string{"lifting too deep at " + f.Name}
	}
	seen[f] = true
	defer delete(seen, f)
	var fails []string
	sites := callSitesOf(w, f)
	if sites.escapes != "" {
		fails = append(fails, f.Name+" "+sites.escapes+": scripts can call it with any argument")
	}
	for _, cs := range sites.calls {
		g := cs.fn
		e := w.ent(g)
		at := site{pos: cs.call.Pos(), anc: cs.call}
		kc := keyCtx{e: e, s: &at}
		form := linForm{terms: map[string]int64{}, c: goal.c}
		bad := false
		for i, coef := range goal.coef {
			if i >= len(cs.call.Args) {
				bad = true
				break
			}
			form = addForm(form, scaleForm(kc.norm(cs.call.Args[i]), coef), 1)
		}
		if bad {
			fails = append(fails, w.Pos(cs.call.Pos())+": argument count mismatch")
			continue
		}
		if ok, _ := e.Prove(cs.call, gtAtom(form, 0)); ok {
			continue
		}
		lifted, ok := formOverParams(w, g, kc, form)
		if !ok {
			fails = append(fails, w.Pos(cs.call.Pos())+" ("+g.Name+"): not entailed and not affine in the caller's parameters")
			continue
		}
		sub := liftToCallers(w, g, lifted, depth+1, seen)
		fails = append(fails, sub...)
	}
	if len(sites.calls) == 0 && sites.escapes == "" {
		// never called from module code: unreachable from scripts (tests only)
	}
	return fails
}

func scaleForm(l linForm, k int64) linForm {
	out := linForm{terms: map[string]int64{}, c: l.c * k}
	for t, v := range l.terms {
		out.terms[t] = v * k
	}
	return out
}

type callSite struct {
	fn   *Func
	call *ast.CallExpr
}

type callSites struct {
	calls   []callSite
	escapes string
}

// callSitesOf finds the module call sites of a declared function/method, or — for a literal returned by its parent —
// the call sites of the values the parent returns (through single-assignment locals used only as callees).
func callSitesOf(w *World, f *Func) callSites {
	var out callSites
	if f.Obj != nil {
		for _, g := range w.Funcs {
			if g.Body == nil || strings.HasSuffix(g.Pkg.PkgPath, "/internal/testutils") {
				continue
			}
			info := g.Pkg.TypesInfo
			walkNoLit(g.Body, func(q ast.Node) bool {
				switch q := q.(type) {
				case *ast.CallExpr:
					if callee := calleeOf(info, q); callee != nil && callee == f.Obj {
						out.calls = append(out.calls, callSite{g, q})
					}
				case *ast.Ident:
					// the function used as a value (not as the callee of a call)
					if info.Uses[q] == types.Object(f.Obj) {
						if call, ok := w.parent[q].(*ast.CallExpr); ok && unparen(call.Fun) == ast.Expr(q) {
							return true
						}
						if sel, ok := w.parent[q].(*ast.SelectorExpr); ok {
							if call, ok := w.parent[sel].(*ast.CallExpr); ok && unparen(call.Fun) == ast.Expr(sel) {
								return true
							}
						}
						out.escapes = "is used as a value at " + w.Pos(q.Pos())
					}
				}
				return true
			})
		}
		return out
	}
	// a literal: must be what its parent returns
	parent := f.Parent
	if parent == nil || returnedLit(w, parent) != f {
		out.escapes = "is a function literal that is not simply returned by its enclosing function"
		return out
	}
	ps := callSitesOf(w, parent)
	if ps.escapes != "" {
		out.escapes = "(built by " + parent.Name + ", which " + ps.escapes + ")"
	}
	for _, pc := range ps.calls {
		g := pc.fn
		info := g.Pkg.TypesInfo
		// the result of parent(...) must be bound to a single-assignment local used only as a callee
		as, ok := w.parent[pc.call].(*ast.AssignStmt)
		if !ok || len(as.Lhs) != 1 || len(as.Rhs) != 1 {
			out.escapes = "is built at " + w.Pos(pc.call.Pos()) + " and handed on as a value (registered for scripts)"
			continue
		}
		id := identOf(as.Lhs[0])
		if id == nil {
			out.escapes = "is built at " + w.Pos(pc.call.Pos()) + " and stored"
			continue
		}
		obj := info.Defs[id]
		if obj == nil {
			obj = info.Uses[id]
		}
		e := w.ent(g)
		if len(e.assigns[obj]) != 1 {
			out.escapes = "is bound to a variable assigned more than once at " + w.Pos(pc.call.Pos())
			continue
		}
		root := w.rootOf(g)
		ast.Inspect(root.Body, func(q ast.Node) bool {
			uid, ok := q.(*ast.Ident)
			if !ok || info.Uses[uid] != obj {
				return true
			}
			if call, ok := w.parent[uid].(*ast.CallExpr); ok && unparen(call.Fun) == ast.Expr(uid) {
				if encl := w.EnclosingOrSelf(call); encl != nil {
					out.calls = append(out.calls, callSite{encl, call})
				}
				return true
			}
			out.escapes = "is handed on as a value at " + w.Pos(uid.Pos())
			return true
		})
	}
	return out
}

// ---------- R5 (c): single-value type assertions ----------

func c06TypeAssertions(c *Ctx, rt []*Func) {
	w := c.W
	n := 0
	for _, f := range rt {
		info := f.Pkg.TypesInfo
		walkNoLit(f.Body, func(q ast.Node) bool {
			ta, ok := q.(*ast.TypeAssertExpr)
			if !ok || ta.Type == nil {
				return true
			}
			// comma-ok form?
			if as, ok := w.parent[ta].(*ast.AssignStmt); ok && len(as.Lhs) == 2 && len(as.Rhs) == 1 {
				return true
			}
			if vs, ok := w.parent[ta].(*ast.ValueSpec); ok && len(vs.Names) == 2 {
				return true
			}
			n++
			c.fn(f)
			key := f.Name + "/" + exprStr(ta)
			e := w.ent(f)
			at := site{pos: ta.Pos(), anc: ta}
			kc := keyCtx{e: e, s: &at}
			proved, how := false, "no comma-ok assertion of the same operand and type dominates it"
			ast.Inspect(f.Body, func(g ast.Node) bool {
				as, ok := g.(*ast.AssignStmt)
				if !ok || len(as.Lhs) != 2 || len(as.Rhs) != 1 {
					return true
				}
				t2, ok := unparen(as.Rhs[0]).(*ast.TypeAssertExpr)
				if !ok || t2.Type == nil || exprStr(t2.X) != exprStr(ta.X) || exprStr(t2.Type) != exprStr(ta.Type) {
					return true
				}
				okID := identOf(as.Lhs[1])
				if okID == nil || okID.Name == "_" {
					return true
				}
				// the operand must be the same value: same version
				if kc.key(ta.X) != (keyCtx{e: e, s: &site{pos: t2.Pos(), anc: t2}}).key(t2.X) {
					return true
				}
				if ok, h := e.Prove(ta, e.cond(kc, okID, 0)); ok {
					proved, how = true, "dominated by the successful comma-ok assertion at "+w.Pos(as.Pos())+" ("+h+")"
				}
				return true
			})
			_ = info
			c.ob("C06.R5", key, w.Pos(ta.Pos()), proved, map[bool]string{true: how, false: "a single-value type assertion panics when the dynamic type differs: " + how}[proved])
			return true
		})
	}
	if n == 0 {
		c.obN("C06.R5", "module/no-single-value-assertion", "-", true, "no single-value type assertion in run-time code", false)
	}
}

// ---------- R5 (d): map fields updated in place receive only fresh maps ----------

func c06MapFields(c *Ctx) {
	w := c.W
	mutated := fieldsMutatedInPlaceElsewhere(w)
	for _, f := range w.ModuleSSAFuncs() {
		pp := ssaFuncPkgPath(f)
		if pp != modPath && pp != modPath+"/variable" {
			continue
		}
		for _, b := range f.Blocks {
			for _, in := range b.Instrs {
				st, ok := in.(*ssa.Store)
				if !ok {
					continue
				}
				if _, isMap := st.Val.Type().Underlying().(*types.Map); !isMap {
					continue
				}
				fld := fieldOfAddr(st.Addr)
				if fld == nil {
					continue
				}
				if _, inPlace := mutated[fld]; !inPlace {
					continue
				}
				kind, _, desc := mapOrigin(st.Val, 0)
				nonNil := kind == "fresh" && desc != "nil map"
				c.ob("C06.R5", ssaFuncName(f)+"/map-field "+fld.Name(), w.Pos(st.Pos()), nonNil, map[bool]string{true: fld.Name() + " (updated in place elsewhere) receives a " + desc, false: fld.Name() + " is updated in place (" + mutated[fld] + ") but receives " + desc + " here: writing to a nil map panics"}[nonNil])
			}
		}
	}
}

// ---------- R5 (e): function values looked up in tables ----------

func c06TableCalls(c *Ctx, rt []*Func) {
	w := c.W
	n := 0
	for _, f := range rt {
		info := f.Pkg.TypesInfo
		e := w.ent(f)
		walkNoLit(f.Body, func(q ast.Node) bool {
			call, ok := q.(*ast.CallExpr)
			if !ok {
				return true
			}
			id := identOf(call.Fun)
			if id == nil {
				return true
			}
			obj, ok := info.Uses[id].(*types.Var)
			if !ok || obj.IsField() {
				return true
			}
			if _, isSig := obj.Type().Underlying().(*types.Signature); !isSig {
				return true
			}
			as := e.assigns[obj]
			if len(as) != 1 {
				return true
			}
			a, ok := as[0].(*ast.AssignStmt)
			if !ok || len(a.Lhs) != 2 || len(a.Rhs) != 1 {
				return true
			}
			if _, isIndex := unparen(a.Rhs[0]).(*ast.IndexExpr); !isIndex {
				return true
			}
			n++
			c.fn(f)
			okID := identOf(a.Lhs[1])
			proved, how := false, "the found flag of the look-up is discarded"
			if okID != nil && okID.Name != "_" {
				at := site{pos: call.Pos(), anc: call}
				proved, how = e.Prove(call, e.cond(keyCtx{e: e, s: &at}, okID, 0))
			}
			c.ob("C06.R5", f.Name+"/call "+id.Name+"(…)", w.Pos(call.Pos()), proved, map[bool]string{true: "the looked-up function is called only when the look-up succeeded (" + how + ")", false: "a function value from a table look-up is called although the name may be unknown (nil function call panics): " + how}[proved])
			return true
		})
	}
	if n < 2 {
		c.undecided("C06.R5", "expected the function and command table look-ups, found "+itoa(n))
	}
}

// ---------- R7 ----------

func c06Panics(c *Ctx, m *runnerModel) {
	w := c.W
	prog := w.SSA()
	// run-time API roots: the exported methods of DialogueRunner
	var roots []*ssa.Function
	ms := prog.MethodSets.MethodSet(types.NewPointer(m.T))
	for i := 0; i < ms.Len(); i++ {
		if ms.At(i).Obj().Exported() {
			roots = append(roots, prog.MethodValue(ms.At(i)))
		}
	}
	reach := w.reachModule(roots...)
	// add the functions whose values escape (called through reflect or tables)
	for _, f := range w.escapingFuncs() {
		for g := range reachSSA(f) {
			reach[g] = true
		}
	}
	c.Extra["runtime_reachable_functions"] = len(reach)
	var fns []*ssa.Function
	for f := range reach {
		fns = append(fns, f)
	}
	sort.Slice(fns, func(i, j int) bool { return fns[i].String() < fns[j].String() })
	nPanic := 0
	for _, f := range fns {
		file := ""
		if f.Pos().IsValid() {
			file = relTo(w.Repo, w.Fset.Position(f.Pos()).Filename)
		}
		loadPath := !isRuntimeFile(file) && !strings.HasPrefix(file, "markup/")
		for _, b := range f.Blocks {
			for _, in := range b.Instrs {
				p, ok := in.(*ssa.Panic)
				if !ok {
					continue
				}
				if loadPath || strings.HasPrefix(file, "markup/") {
					continue // load path: C05; markup: C15
				}
				nPanic++
				name := ssaFuncName(f)
				isStack := strings.Contains(f.String(), "container.Stack[") && (strings.HasPrefix(f.Name(), "Pop") || strings.HasPrefix(f.Name(), "Peek"))
				if isStack {
					if strings.Contains(f.String(), m.queueT.Obj().Name()) || f.TypeArgs() == nil {
						c.obN("C06.R7", name+"/panic", w.Pos(p.Pos()), true, "empty-stack panic of the continuation stack: every run-time call site is checked below", false)
					} else {
						c.obN("C06.R7", name+"/panic", w.Pos(p.Pos()), true, "empty-stack panic of a tree-builder stack: load path only, contained by the recover boundary (C05.R1)", false)
					}
					continue
				}
				// base-function conversion panic in newFunctionStorer: reachable only at construction
				if strings.HasSuffix(name, "newFunctionStorer") {
					c.obN("C06.R7", name+"/panic", w.Pos(p.Pos()), true, "constructor-time only (not reachable from the run-time API); unreachable when the base-function signatures pass the gate (C05.R5)", false)
					continue
				}
				c.ob("C06.R7", name+"/panic", w.Pos(p.Pos()), false, "an explicit panic is reachable from the run-time API")
			}
		}
	}
	// call sites of Pop/Peek on stacks in run-time code
	nCalls := 0
	for _, f := range w.FuncsIn(m.pkg) {
		if f.Body == nil {
			continue
		}
		info := f.Pkg.TypesInfo
		e := w.ent(f)
		walkNoLit(f.Body, func(q ast.Node) bool {
			call, ok := q.(*ast.CallExpr)
			if !ok {
				return true
			}
			callee := calleeOf(info, call)
			if callee == nil {
				return true
			}
			full := funcFullName(callee)
			if !strings.Contains(full, "container.Stack[T]).") || (callee.Name() != "Pop" && callee.Name() != "Peek") {
				return true
			}
			nCalls++
			c.fn(f)
			sel := unparen(call.Fun).(*ast.SelectorExpr)
			at := site{pos: call.Pos(), anc: call}
			kc := keyCtx{e: e, s: &at}
			sizeKey := kc.key(sel.X) + ".Size()"
			goal := gtAtom(linForm{terms: map[string]int64{sizeKey: 1}}, 0)
			ok2, how := e.Prove(call, goal)
			c.ob("C06.R7", f.Name+"/"+exprStr(sel)+"()", w.Pos(call.Pos()), ok2, map[bool]string{true: "entailed: Size() > 0 (" + how + ")", false: callee.Name() + " panics on an empty stack and Size() > 0 is not entailed here: " + how}[ok2])
			return true
		})
	}
	if nCalls == 0 {
		c.undecided("C06.R7", "no Pop/Peek call found in the runner")
	}
	_ = filepath.Join
	_ = token.NoPos
}

// fieldsMutatedInPlaceElsewhere: like fieldsMutatedInPlace, but an update in a function that has itself just stored a
// fresh map into the field (fill loops) does not count.
func fieldsMutatedInPlaceElsewhere(w *World) map[*types.Var]string {
	out := map[*types.Var]string{}
	for _, f := range w.ModuleSSAFuncs() {
		fresh := map[*types.Var]bool{}
		for _, b := range f.Blocks {
			for _, in := range b.Instrs {
				if st, ok := in.(*ssa.Store); ok {
					if fld := fieldOfAddr(st.Addr); fld != nil {
						if k, _, d := mapOrigin(st.Val, 0); k == "fresh" && d != "nil map" {
							fresh[fld] = true
						}
					}
				}
			}
		}
		for _, b := range f.Blocks {
			for _, in := range b.Instrs {
				var m ssa.Value
				switch x := in.(type) {
				case *ssa.MapUpdate:
					m = x.Map
				}
				if m == nil {
					continue
				}
				if fld := loadedField(m); fld != nil && !fresh[fld] {
					if _, seen := out[fld]; !seen {
						out[fld] = ssaFuncName(f) + " (" + w.Pos(in.Pos()) + ")"
					}
				}
			}
		}
	}
	return out
}

// c06Recursion: C06.R9. Cycles of the static call graph among run-time functions of the root package; each call that
// closes a cycle must pass, for at least one parameter of tree type, an argument derived from the caller's parameter by a
// field, index or range step (a proper sub-tree): the tree is finite and acyclic (built by the listener, immutable at run
// time, C01.R9), so the depth is bounded by the size of the script's deepest expression. Anything else — Next(choice)
// calling Next(choice) — recurses once per statement that yields no element.
func c06Recursion(c *Ctx, m *runnerModel) {
	w := c.W
	info := m.pkg.TypesInfo
	var fns []*Func
	idx := map[*Func]int{}
	for _, f := range w.FuncsIn(m.pkg) {
		if f.Body == nil || f.Lit != nil || f.Obj == nil {
			continue
		}
		rel := relTo(w.Repo, w.Fset.Position(f.Body.Pos()).Filename)
		if !isRuntimeFile(rel) {
			continue
		}
		idx[f] = len(fns)
		fns = append(fns, f)
	}
	type edge struct {
		to   *Func
		call *ast.CallExpr
	}
	out := map[*Func][]edge{}
	for _, f := range fns {
		ast.Inspect(f.Body, func(n ast.Node) bool {
			if call, ok := n.(*ast.CallExpr); ok {
				if callee := calleeOf(info, call); callee != nil {
					if g := w.byObj[originFunc(callee)]; g != nil {
						if _, in := idx[g]; in {
							out[f] = append(out[f], edge{g, call})
						}
					}
				}
			}
			return true
		})
	}
	// reach[f][g]: g reachable from f
	reach := map[*Func]map[*Func]bool{}
	for _, f := range fns {
		seen := map[*Func]bool{}
		var dfs func(x *Func)
		dfs = func(x *Func) {
			for _, e := range out[x] {
				if !seen[e.to] {
					seen[e.to] = true
					dfs(e.to)
				}
			}
		}
		dfs(f)
		reach[f] = seen
	}
	// classify the edges that lie on cycles: decreasing = some tree-typed argument is a proper part of a tree-typed
	// parameter of the caller
	type cedge struct {
		from, to *Func
		call     *ast.CallExpr
		dec      bool
		which    string
		k        int
	}
	var cyc []*cedge
	for _, f := range fns {
		x := w.expander(f)
		k := 0
		for _, e := range out[f] {
			if !(e.to == f || reach[e.to][f]) {
				continue
			}
			k++
			ce := &cedge{from: f, to: e.to, call: e.call, k: k}
			sig := f.Sig()
			for _, a := range e.call.Args {
				as := x.str(a)
				for i := 0; i < sig.Params().Len(); i++ {
					if !isTreePtr(sig.Params().At(i).Type()) && !strings.HasPrefix(typeStr(sig.Params().At(i).Type()), "[]*tree.") {
						continue
					}
					p := "$" + sig.Params().At(i).Name()
					if strings.HasPrefix(as, p+".") || strings.HasPrefix(as, p+"[") {
						ce.dec, ce.which = true, exprStr(a)+" (a part of "+sig.Params().At(i).Name()+")"
					}
				}
			}
			cyc = append(cyc, ce)
		}
	}
	// a cycle that survives the removal of the decreasing edges never gets closer to a leaf
	rest := map[*Func][]*cedge{}
	for _, ce := range cyc {
		if !ce.dec {
			rest[ce.from] = append(rest[ce.from], ce)
		}
	}
	onRestCycle := func(ce *cedge) bool {
		seen := map[*Func]bool{}
		var dfs func(x *Func) bool
		dfs = func(x *Func) bool {
			if x == ce.from {
				return true
			}
			if seen[x] {
				return false
			}
			seen[x] = true
			for _, e := range rest[x] {
				if dfs(e.to) {
					return true
				}
			}
			return false
		}
		return dfs(ce.to)
	}
	n := 0
	for _, ce := range cyc {
		n++
		c.fn(ce.from)
		key := ce.from.Name + "/recursive-call#" + itoa(ce.k)
		switch {
		case ce.dec:
			c.ob("C06.R9", key, w.Pos(ce.call.Pos()), true, "descends the syntax tree: "+ce.which)
		case !onRestCycle(ce):
			c.ob("C06.R9", key, w.Pos(ce.call.Pos()), true, "hands its tree on unchanged, but every cycle through this call also passes a call that descends the tree")
		default:
			c.ob("C06.R9", key, w.Pos(ce.call.Pos()), false, "calls "+ce.to.Name+" back with nothing smaller than what it received, on a cycle that never descends the syntax tree: one stack frame per statement that yields no element, so a script that loops (a jump cycle, a counter) before its next line grows the stack without bound — a terminating script of a few million steps ends in `fatal error: stack overflow`, which no recover can turn into an error")
		}
	}
	if n == 0 {
		c.obN("C06.R9", "run-time call graph", "-", true, "no recursion among the run-time functions of the root package", false)
	}
}

// c06ErrorsNotFiltered (C06.R12): a script-level fault travels as an error value from the evaluator to Next's caller. In
// the interpreter package, the error of every call to a module function is either handed on in the next return, or tested
// by a guard whose condition is exactly `err != nil` and whose body leaves the function (return / goto / panic): a guard
// weakened by a second conjunct (errors.Is, a comparison with a sentinel, a type test) lets some faults continue as if
// nothing had happened — including faults wrapped further down with %w.
func c06ErrorsNotFiltered(c *Ctx) {
	w := c.W
	c.rule("C06.R12", "script-level faults are not filtered: in the interpreter package the error of every call to a module function is returned as it is in the next return, or tested by a guard whose condition is exactly `err != nil` and whose body leaves the function; no guard weakens the test with a second conjunct (errors.Is/As, a sentinel comparison)", 20)
	p := w.Pkg("")
	info := p.TypesInfo
	isErr := func(t types.Type) bool { return t != nil && typeStr(t) == "error" }
	n := 0
	for _, f := range w.FuncsIn(p) {
		if f.Body == nil {
			continue
		}
		ast.Inspect(f.Body, func(q ast.Node) bool {
			if _, isLit := q.(*ast.FuncLit); isLit && q != f.Node() {
				return true
			}
			is, ok := q.(*ast.IfStmt)
			if !ok {
				return true
			}
			// the error variable tested: defined by the if's own initialiser or by the statement just before it, from a module call
			var errObj types.Object
			var fromCall *ast.CallExpr
			find := func(st ast.Stmt) {
				as, ok := st.(*ast.AssignStmt)
				if !ok || len(as.Rhs) != 1 {
					return
				}
				call, ok := unparen(as.Rhs[0]).(*ast.CallExpr)
				if !ok {
					return
				}
				callee := calleeOf(info, call)
				if callee == nil || w.byObj[callee] == nil {
					return
				}
				last := as.Lhs[len(as.Lhs)-1]
				id := identOf(last)
				if id == nil || id.Name == "_" || !isErr(info.TypeOf(last)) {
					return
				}
				obj := info.Defs[id]
				if obj == nil {
					obj = info.Uses[id]
				}
				errObj, fromCall = obj, call
			}
			if is.Init != nil {
				find(is.Init)
			}
			if errObj == nil {
				if blk, ok := w.parent[is].(*ast.BlockStmt); ok {
					for i, st := range blk.List {
						if st == ast.Stmt(is) && i > 0 {
							find(blk.List[i-1])
						}
					}
				}
			}
			if errObj == nil {
				return true
			}
			mentions := false
			ast.Inspect(is.Cond, func(x ast.Node) bool {
				if id, ok := x.(*ast.Ident); ok && info.Uses[id] == errObj {
					mentions = true
				}
				return true
			})
			if !mentions {
				return true
			}
			n++
			callee := calleeOf(info, fromCall)
			key := f.Name + "/error of " + callee.Name() + "#" + itoa(n)
			exact := false
			// `err != nil`, possibly as one disjunct of a wider guard (err != nil || v == nil leaves at least as often)
			var disjuncts []ast.Expr
			var flat func(e ast.Expr)
			flat = func(e ast.Expr) {
				if b, ok := unparen(e).(*ast.BinaryExpr); ok && b.Op == token.LOR {
					flat(b.X)
					flat(b.Y)
					return
				}
				disjuncts = append(disjuncts, unparen(e))
			}
			flat(is.Cond)
			for _, d := range disjuncts {
				if b, ok := d.(*ast.BinaryExpr); ok && b.Op == token.NEQ {
					for _, side := range [][2]ast.Expr{{b.X, b.Y}, {b.Y, b.X}} {
						if id := identOf(side[0]); id != nil && unparen(side[0]) == ast.Expr(id) && info.Uses[id] == errObj && isNilExpr(info, side[1]) {
							exact = true
						}
					}
				}
			}
			leaves := isTerminating(info, is.Body)
			switch {
			case exact && leaves:
				c.obN("C06.R12", key, w.Pos(is.Pos()), true, "tested by `"+exprStr(is.Cond)+"`, and the guard leaves the function", false)
			case exact:
				c.ob("C06.R12", key, w.Pos(is.Pos()), true, "tested by `"+exprStr(is.Cond)+"`; the guard handles the error and goes on (reviewed form: the body does not leave)")
			default:
				if b, ok := unparen(is.Cond).(*ast.BinaryExpr); ok && b.Op == token.EQL {
					// err == nil { … }: the positive form; the else branch or the rest handles the error
					c.obN("C06.R12", key, w.Pos(is.Pos()), true, "tested by `"+exprStr(is.Cond)+"`", false)
					return true
				}
				c.ob("C06.R12", key, w.Pos(is.Pos()), false, "the error of "+callee.Name()+" is tested by `"+shorten(exprStr(is.Cond), 90)+"`, not by `err != nil` alone: a fault for which the extra condition fails (also one wrapped further down with %w) continues as if the call had succeeded — the script-level fault does not surface")
			}
			return true
		})
	}
	_ = n
}

// c06PendingOnlyIfPresented (C06.R13): when Next records the statement it fetched as the pending one (a non-nil store to the
// field that isWaitingForChoice reads), it does not return an error afterwards without clearing the record: an option group
// that failed to render (a condition that is not a boolean, a failing inline expression) was never presented, yet the next
// call would index its options with whatever choice argument the host passes — out of range, a panic.
func c06PendingOnlyIfPresented(c *Ctx, m *runnerModel) {
	w := c.W
	c.rule("C06.R13", "a statement recorded as pending in this call is presented or cleared: in Next no return that carries an error follows a non-nil store to the last-statement field without a nil store in between (an option group that failed to render must not be waited on: the next call would index it with an arbitrary choice)", 1)
	if m.fLast == nil || m.next == nil {
		c.undecided("C06.R13", "the last-statement field or Next was not found")
		return
	}
	info := m.pkg.TypesInfo
	stores := 0
	r := evtRule{
		start: "entry",
		prim: func(n ast.Node) []string {
			if as, ok := n.(*ast.AssignStmt); ok && len(as.Lhs) == len(as.Rhs) {
				for i, l := range as.Lhs {
					if _, isSel := unparen(l).(*ast.SelectorExpr); isSel && lastField(info, l) == m.fLast {
						stores++
						if isNilExpr(info, as.Rhs[i]) {
							return []string{"CLEAR"}
						}
						return []string{"ARM"}
					}
				}
			}
			return nil
		},
		step: func(st, ev string) string {
			switch ev {
			case "ARM":
				return "armed"
			case "CLEAR":
				return "clean"
			}
			return ""
		},
		ret: func(st string, ret *ast.ReturnStmt, kind string) string {
			if st == "armed" && kind != "nil" {
				return "Next can return an error (" + kind + ") after recording the fetched statement as pending and without clearing it: an option group that failed to render stays pending, and the next call indexes its options with the host's choice argument"
			}
			return ""
		},
	}
	fs := runEVT(w, m.next, r)
	if stores == 0 {
		c.undecided("C06.R13", "Next never stores to the last-statement field")
		return
	}
	if len(fs) == 0 {
		c.ob("C06.R13", m.next.Name+"/pending-presented-or-cleared", w.Pos(m.next.Decl.Pos()), true, "no error return of Next follows a non-nil store to "+m.fLast.Name()+" without a clearing store")
	}
	for i, fd := range fs {
		c.ob("C06.R13", m.next.Name+"/pending-presented-or-cleared#"+itoa(i+1), w.Pos(fd.pos), false, fd.msg)
	}
}
