package main

// lia.go — a small decision procedure for the bounds obligations that need more than one comparison: linear
// inequalities over opaque integer terms (locals, len(…) of versioned slices), decided by Fourier–Motzkin elimination
// over the rationals (if the facts together with the negated goal have no rational solution they have no integer one).
//
// Facts, all sound by construction:
//   - the atomic comparisons among the path facts ENT collects for the site (conjuncts only; disjunctions are dropped);
//   - len(S) = n for a local S bound once to make([]T, n[, c]) that is never reassigned (element stores keep its length);
//   - 0 <= k <= len(R)-1 for the key k of an enclosing `for k := range R` (k not assigned in the body), with
//     len(A[lo:hi]) = hi-lo and len(A[lo:]) = len(A)-lo for a ranged slice expression;
//   - len(X) >= 0.
// Single-assignment integer locals with call-free initialisers are expanded by keyCtx.norm already.

import (
	"fmt"
	"go/ast"
	"go/token"
	"go/types"
	"math/big"
	"os"
	"sort"
)

// ineq: sum(terms) + c <= 0
type ineq struct {
	terms map[string]*big.Rat
	c     *big.Rat
}

func newIneq() ineq { return ineq{terms: map[string]*big.Rat{}, c: new(big.Rat)} }

// leZero builds  l <= 0  from a linear form.
func leZero(l linForm) ineq {
	q := newIneq()
	for k, v := range l.terms {
		if v != 0 {
			q.terms[k] = new(big.Rat).SetInt64(v)
		}
	}
	q.c.SetInt64(l.c)
	return q
}

func constForm(c int64) linForm { return linForm{terms: map[string]int64{}, c: c} }

// a <= b   as  a - b <= 0 ;  a < b  as  a - b + 1 <= 0 (integers)
func leForms(a, b linForm) ineq { return leZero(addForm(a, b, -1)) }
func ltForms(a, b linForm) ineq { return leZero(addForm(addForm(a, b, -1), constForm(1), 1)) }

// infeasible decides, by Fourier–Motzkin elimination, that the system has no rational solution.
func infeasible(sys []ineq) bool {
	for round := 0; round < 24; round++ {
		// a contradiction among the constant rows?
		var vars []string
		seen := map[string]bool{}
		for _, q := range sys {
			nz := false
			for k, v := range q.terms {
				if v.Sign() != 0 {
					nz = true
					if !seen[k] {
						seen[k] = true
						vars = append(vars, k)
					}
				}
			}
			if !nz && q.c.Sign() > 0 {
				return true
			}
		}
		if len(vars) == 0 {
			return false
		}
		sort.Strings(vars)
		// eliminate the variable that produces the fewest new rows
		best, bestCost := "", -1
		for _, v := range vars {
			p, n := 0, 0
			for _, q := range sys {
				if c, ok := q.terms[v]; ok {
					if c.Sign() > 0 {
						p++
					} else if c.Sign() < 0 {
						n++
					}
				}
			}
			if cost := p * n; bestCost < 0 || cost < bestCost {
				best, bestCost = v, cost
			}
		}
		var pos, neg, rest []ineq
		for _, q := range sys {
			c, ok := q.terms[best]
			switch {
			case !ok || c.Sign() == 0:
				rest = append(rest, q)
			case c.Sign() > 0:
				pos = append(pos, q)
			default:
				neg = append(neg, q)
			}
		}
		for _, p := range pos {
			for _, n := range neg {
				// p: a*x + P <= 0 (a>0), n: -b*x + N <= 0 (b>0)  =>  b*P + a*N <= 0
				a := p.terms[best]
				b := new(big.Rat).Neg(n.terms[best])
				r := newIneq()
				for k, v := range p.terms {
					if k != best {
						r.terms[k] = new(big.Rat).Mul(b, v)
					}
				}
				for k, v := range n.terms {
					if k != best {
						t := new(big.Rat).Mul(a, v)
						if old, ok := r.terms[k]; ok {
							t.Add(t, old)
						}
						r.terms[k] = t
					}
				}
				r.c = new(big.Rat).Add(new(big.Rat).Mul(b, p.c), new(big.Rat).Mul(a, n.c))
				rest = append(rest, r)
			}
		}
		if len(rest) > 400 {
			return false // give up: not proved
		}
		sys = rest
	}
	return false
}

// ineqRec: what an integer comparison atom means, recorded when cmpForms builds it.
type ineqRec struct {
	l, r   linForm
	strict bool // l < r (else l <= r)… recorded as the meaning of the atom being TRUE
	gtC    bool // form: l > c (r is the constant form)
}

// liaFacts: the linear facts at the site.
func (e *entFn) liaFacts(w *World, f *Func, at ast.Node, kc keyCtx, terms map[string]bool) []ineq {
	var out []ineq
	// (1) path facts
	var walk func(fm Formula, positive bool)
	walk = func(fm Formula, positive bool) {
		switch x := fm.(type) {
		case And:
			if positive {
				for _, g := range x {
					walk(g, true)
				}
			}
		case Or:
			if !positive {
				for _, g := range x {
					walk(g, false)
				}
			}
		case Not:
			walk(x.F, !positive)
		case Atom:
			rec, ok := e.ineqs[x]
			if !ok {
				return
			}
			switch {
			case rec.gtC && positive: // l > c  ->  c + 1 - l <= 0
				out = append(out, leZero(addForm(addForm(rec.r, constForm(1), 1), rec.l, -1)))
			case rec.gtC && !positive: // l <= c
				out = append(out, leForms(rec.l, rec.r))
			case positive: // l < r
				out = append(out, ltForms(rec.l, rec.r))
			default: // l >= r
				out = append(out, leForms(rec.r, rec.l))
			}
		}
	}
	walk(simpFormula(e.facts(at)), true)
	info := e.info
	// (2) lengths of made slices, (3) range keys
	for p := w.parent[at]; p != nil; p = w.parent[p] {
		rs, ok := p.(*ast.RangeStmt)
		if !ok || rs.Key == nil || rs.Tok != token.DEFINE {
			continue
		}
		kid := identOf(rs.Key)
		if kid == nil {
			continue
		}
		kobj := info.Defs[kid]
		if kobj == nil || len(e.assigns[kobj]) != 1 {
			continue
		}
		if tv, ok := info.Types[rs.X]; ok {
			switch tv.Type.Underlying().(type) {
			case *types.Slice, *types.Array, *types.Basic: // slices, arrays, strings (byte offsets below len)
			default:
				continue
			}
		} else {
			continue
		}
		kcs := kc
		var objs []types.Object
		kcs.objs = &objs
		kform := kcs.norm(rs.Key)
		// the ranged expression is evaluated once, before the loop
		rsSite := site{pos: rs.Pos(), anc: rs}
		rk := keyCtx{e: e, s: &rsSite, objs: &objs}
		var lenForm linForm
		if sl, isSl := unparen(rs.X).(*ast.SliceExpr); isSl && !sl.Slice3 {
			lo := constForm(0)
			if sl.Low != nil {
				lo = rk.norm(sl.Low)
			}
			var hi linForm
			if sl.High != nil {
				hi = rk.norm(sl.High)
			} else {
				hi = linForm{terms: map[string]int64{"len(" + rk.key(sl.X) + ")": 1}}
				terms["len("+rk.key(sl.X)+")"] = true
			}
			lenForm = addForm(hi, lo, -1)
		} else {
			lenForm = linForm{terms: map[string]int64{"len(" + rk.key(rs.X) + ")": 1}}
			terms["len("+rk.key(rs.X)+")"] = true
		}
		out = append(out, leForms(constForm(0), kform)) // 0 <= k
		out = append(out, ltForms(kform, lenForm))      // k < len(R)
	}
	// lengths of slices bound once to make(T, n)
	for obj, as := range e.assigns {
		v, ok := obj.(*types.Var)
		if !ok || len(as) != 1 || e.addrOf[obj] {
			continue
		}
		if _, isSlice := v.Type().Underlying().(*types.Slice); !isSlice {
			continue
		}
		a, ok := as[0].(*ast.AssignStmt)
		if !ok || len(a.Lhs) != len(a.Rhs) {
			continue
		}
		for i, l := range a.Lhs {
			id := identOf(l)
			if id == nil || (info.Defs[id] != obj && info.Uses[id] != obj) {
				continue
			}
			mk, ok := unparen(a.Rhs[i]).(*ast.CallExpr)
			if !ok || !isBuiltin(info, mk, "make") || len(mk.Args) < 2 {
				continue
			}
			// the slice as it is named at the site
			use := identFor(f, v)
			if use == nil {
				continue
			}
			var objs []types.Object
			kcs := kc
			kcs.objs = &objs
			lenKey := "len(" + kcs.key(use) + ")"
			mkSite := site{pos: a.Pos(), anc: a}
			mkc := keyCtx{e: e, s: &mkSite, objs: &objs}
			n := mkc.norm(mk.Args[1])
			lf := linForm{terms: map[string]int64{lenKey: 1}}
			out = append(out, leForms(lf, n), leForms(n, lf))
			terms[lenKey] = true
		}
	}
	// (4) len >= 0
	for t := range terms {
		if len(t) > 4 && t[:4] == "len(" {
			out = append(out, leForms(constForm(0), linForm{terms: map[string]int64{t: 1}}))
		}
	}
	return out
}

// liaBounds decides 0 <= index < len(X) (index expression) or 0 <= lo <= hi <= len(X) (slice expression) at the site.
func liaBounds(w *World, f *Func, node ast.Expr) (bool, string) {
	if f == nil {
		return false, ""
	}
	root := w.rootOf(f)
	e := w.ent(root)
	st := site{pos: node.Pos(), anc: node}
	var objs []types.Object
	kc := keyCtx{e: e, s: &st, objs: &objs}
	terms := map[string]bool{}
	liaAxioms = nil
	var goals []ineq // each must be refuted separately: facts ∧ ¬goal infeasible, with ¬goal given as an ineq
	switch x := node.(type) {
	case *ast.IndexExpr:
		if tv, ok := e.info.Types[x.X]; ok {
			if _, isMap := tv.Type.Underlying().(*types.Map); isMap {
				return false, ""
			}
		}
		lenKey := "len(" + kc.key(x.X) + ")"
		terms[lenKey] = true
		ln := linForm{terms: map[string]int64{lenKey: 1}}
		i := kc.norm(x.Index)
		goals = append(goals, ltForms(i, constForm(0))) // ¬(0 <= i):  i < 0
		goals = append(goals, leForms(ln, i))           // ¬(i < len): len <= i
	case *ast.SliceExpr:
		if x.Slice3 {
			return false, ""
		}
		lenKey := "len(" + kc.key(x.X) + ")"
		terms[lenKey] = true
		ln := linForm{terms: map[string]int64{lenKey: 1}}
		lo, hi := constForm(0), ln
		if x.Low != nil {
			lo = kc.norm(x.Low)
		}
		if x.High != nil {
			hi = kc.norm(x.High)
		}
		goals = append(goals, ltForms(lo, constForm(0)), ltForms(hi, lo), ltForms(ln, hi))
	default:
		return false, ""
	}
	facts := e.liaFacts(w, root, node, kc, terms)
	facts = append(facts, liaAxioms...)
	if os.Getenv("YSGOCHECK_LIA_DEBUG") != "" {
		fmt.Fprintf(os.Stderr, "LIA %s %s\n", w.Pos(node.Pos()), exprStr(node))
		for _, q := range facts {
			fmt.Fprintf(os.Stderr, "   fact %v %v <= 0\n", q.terms, q.c)
		}
		for _, q := range goals {
			fmt.Fprintf(os.Stderr, "   neg-goal %v %v <= 0\n", q.terms, q.c)
		}
	}
	for _, ng := range goals {
		sys := append(append([]ineq{}, facts...), ng)
		if !infeasible(sys) {
			return false, ""
		}
	}
	return true, "linear arithmetic over the path facts, the lengths of slices made with a length and the bounds of range keys (" + itoa(len(facts)) + " facts, Fourier–Motzkin)"
}

// simpFormula folds the constants of a formula: a conjunction with a false conjunct is false, false disjuncts are
// dropped, a disjunction of one is that one (after `if c { return }` only the branch where c is false remains).
func simpFormula(f Formula) Formula {
	switch x := f.(type) {
	case And:
		var out And
		for _, g := range x {
			sg := simpFormula(g)
			if c, ok := sg.(Const); ok {
				if !bool(c) {
					return Const(false)
				}
				continue
			}
			if inner, ok := sg.(And); ok {
				out = append(out, inner...)
				continue
			}
			out = append(out, sg)
		}
		if len(out) == 0 {
			return Const(true)
		}
		return out
	case Or:
		var out Or
		for _, g := range x {
			sg := simpFormula(g)
			if c, ok := sg.(Const); ok {
				if bool(c) {
					return Const(true)
				}
				continue
			}
			out = append(out, sg)
		}
		switch len(out) {
		case 0:
			return Const(false)
		case 1:
			return out[0]
		}
		return out
	case Not:
		sg := simpFormula(x.F)
		if c, ok := sg.(Const); ok {
			return Const(!bool(c))
		}
		return Not{sg}
	}
	return f
}
