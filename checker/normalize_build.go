package main

// normalize_build.go — building the statements that replace one call: parameter handling, hygiene, return elimination.

import (
	"go/ast"
	"go/token"
	"go/types"
	"strconv"
)

type inlParam struct {
	obj   *types.Var
	arg   ast.Expr
	subst bool       // every use is replaced by the argument
	drop  bool       // unnamed or unused, argument free of effects
	name  string     // name of the binding when bound
	typ   types.Type // type of the argument expression (nil: unknown)
	ptyp  types.Type // the parameter's type at this call when the helper is generic (instantiated), else nil
}

const (
	mStmt = iota
	mTail
	mAssign
)

type inlMode struct {
	kind     int
	lhs      []ast.Expr
	lhsObjs  []types.Object
	dead     []bool // the variable is read nowhere but in the test of the results
	tok      token.Token
	consumer *ast.IfStmt
	tmpName  string // the single LHS is a temporary introduced by this pass (no type information)
	tmpType  ast.Expr
	tmpT     types.Type
}

type guard struct {
	canon string // canonical text of a condition known to hold
}

type builder struct {
	c      *inlCtx
	call   *ast.CallExpr
	f      *Func
	params []*inlParam
	fail   string
	mode   inlMode
	// per build
	rename         map[types.Object]string
	subst          map[types.Object]ast.Expr
	exits          int
	exitTop        bool
	useTok         token.Token
	emitted        int
	calleeSz       int
	declared       map[string]bool
	assignsEmitted int
	varAssigned    map[int]bool
	knownFolds     int
	typeArgs       map[types.Object]ast.Expr // type parameter of the (generic) helper -> type argument syntax at this call
}

// newBuilder matches arguments with parameters and decides, per parameter, between substitution and binding.
func (c *inlCtx) newBuilder(call *ast.CallExpr, f *Func) *builder {
	b := &builder{c: c, call: call, f: f}
	b.typeArgs = c.typeArgsOf(call, f)
	sig := f.Sig()
	info := c.info
	if sig.Recv() != nil {
		sel, ok := unparen(call.Fun).(*ast.SelectorExpr)
		if !ok {
			c.skip(call, f, "method called through an expression")
			return nil
		}
		s := info.Selections[sel]
		if s == nil || s.Kind() != types.MethodVal || len(s.Index()) != 1 {
			c.skip(call, f, "promoted method or method expression")
			return nil
		}
		arg := sel.X
		at := c.typeOf(arg)
		_, recvPtr := sig.Recv().Type().(*types.Pointer)
		_, argPtr := at.(*types.Pointer)
		switch {
		case recvPtr && !argPtr:
			arg = &ast.UnaryExpr{Op: token.AND, X: arg}
		case !recvPtr && argPtr:
			arg = &ast.StarExpr{X: arg}
		}
		b.params = append(b.params, &inlParam{obj: sig.Recv(), arg: arg, typ: sig.Recv().Type()})
	}
	if len(call.Args) != sig.Params().Len() {
		c.skip(call, f, "argument list does not match the parameters one to one")
		return nil
	}
	var instSig *types.Signature
	if sig.TypeParams().Len() > 0 {
		var fid *ast.Ident
		switch fx := unparen(call.Fun).(type) {
		case *ast.Ident:
			fid = fx
		case *ast.SelectorExpr:
			fid = fx.Sel
		case *ast.IndexExpr:
			fid = identOf(fx.X)
		}
		if fid != nil {
			if inst, ok := info.Instances[fid]; ok {
				instSig, _ = inst.Type.(*types.Signature)
			}
		}
	}
	for i := 0; i < sig.Params().Len(); i++ {
		p := &inlParam{obj: sig.Params().At(i), arg: call.Args[i], typ: c.typeOf(call.Args[i])}
		if instSig != nil && i < instSig.Params().Len() {
			p.ptyp = instSig.Params().At(i).Type()
		}
		b.params = append(b.params, p)
	}
	// which parameters are written, or have their address taken, in the helper
	written := map[types.Object]bool{}
	rootOf := func(e ast.Expr) *ast.Ident {
		for {
			switch x := e.(type) {
			case *ast.ParenExpr:
				e = x.X
			case *ast.SelectorExpr:
				e = x.X
			case *ast.IndexExpr:
				e = x.X
			case *ast.Ident:
				return x
			default:
				return nil
			}
		}
	}
	finfo := f.Pkg.TypesInfo
	// an assignment through a pointer, map or slice held by a variable does not write the variable
	rootWritten := func(l ast.Expr) *ast.Ident {
		id := rootOf(l)
		if id == nil {
			return nil
		}
		if unparen(l) == ast.Expr(id) {
			return id
		}
		// walk down from the root: a pointer, map or slice step means the store lands elsewhere
		e := unparen(l)
		for {
			var inner ast.Expr
			switch x := e.(type) {
			case *ast.SelectorExpr:
				inner = x.X
			case *ast.IndexExpr:
				inner = x.X
			case *ast.ParenExpr:
				inner = x.X
			default:
				return id
			}
			if tv, ok := finfo.Types[inner]; ok && tv.Type != nil {
				switch tv.Type.Underlying().(type) {
				case *types.Pointer, *types.Map, *types.Slice:
					return nil
				}
			}
			if unparen(inner) == ast.Expr(id) {
				return id
			}
			e = inner
		}
	}
	localNames := map[string]bool{}
	fieldsAssigned := map[string]bool{}
	hasCall := false
	ast.Inspect(f.Body, func(n ast.Node) bool {
		switch x := n.(type) {
		case *ast.AssignStmt:
			for _, l := range x.Lhs {
				if id := rootWritten(l); id != nil {
					if o := finfo.Uses[id]; o != nil {
						written[o] = true
					}
				}
				if se, ok := unparen(l).(*ast.SelectorExpr); ok {
					fieldsAssigned[se.Sel.Name] = true
				}
			}
		case *ast.IncDecStmt:
			if id := rootWritten(x.X); id != nil {
				if o := finfo.Uses[id]; o != nil {
					written[o] = true
				}
			}
			if se, ok := unparen(x.X).(*ast.SelectorExpr); ok {
				fieldsAssigned[se.Sel.Name] = true
			}
		case *ast.RangeStmt:
			for _, l := range []ast.Expr{x.Key, x.Value} {
				if l != nil {
					if id := rootOf(l); id != nil {
						if o := finfo.Uses[id]; o != nil {
							written[o] = true
						}
					}
				}
			}
		case *ast.UnaryExpr:
			if x.Op == token.AND {
				if id := rootOf(x.X); id != nil {
					if o := finfo.Uses[id]; o != nil {
						written[o] = true
					}
				}
			}
		case *ast.CallExpr:
			if tv, ok := finfo.Types[x.Fun]; !ok || !tv.IsType() {
				if !isBuiltin(finfo, x, "len") && !isBuiltin(finfo, x, "cap") {
					hasCall = true
				}
			}
		case *ast.Ident:
			if o := finfo.Defs[x]; o != nil {
				localNames[x.Name] = true
			}
		}
		return true
	})
	used := map[types.Object]int{}
	ast.Inspect(f.Body, func(n ast.Node) bool {
		if id, ok := n.(*ast.Ident); ok {
			if o := finfo.Uses[id]; o != nil {
				used[o]++
			}
		}
		return true
	})
	for _, p := range b.params {
		nm := p.obj.Name()
		simple := simpleExpr(info, p.arg)
		if nm == "" || nm == "_" || used[p.obj] == 0 {
			if simple {
				p.drop = true
			} else {
				p.name = "_"
			}
			continue
		}
		p.name = nm
		declT := p.obj.Type()
		if p.ptyp != nil {
			declT = p.ptyp
		}
		if simple && !written[p.obj] && p.typ != nil && !types.Identical(p.typ, declT) {
			// an untyped constant or nil: substitute it converted to the parameter's type (T(nil), float64(2))
			if bt, ok := p.typ.(*types.Basic); ok && bt.Info()&types.IsUntyped != 0 {
				if te := typeExpr(p.obj.Type(), c.pkg.Types, c.file, c.info); te != nil {
					if _, isPtr := te.(*ast.StarExpr); isPtr {
						te = &ast.ParenExpr{X: te}
					}
					p.arg = &ast.CallExpr{Fun: te, Args: []ast.Expr{p.arg}}
					p.typ = p.obj.Type()
					p.subst = true
					continue
				}
			}
		}
		if simple && !written[p.obj] && p.typ != nil && !types.Identical(p.typ, declT) && types.IsInterface(declT) && !types.IsInterface(p.typ) {
			// an interface parameter that the helper only calls methods on: the concrete argument answers the same calls
			onlyReceiver := true
			var stack []ast.Node
			ast.Inspect(f.Body, func(n ast.Node) bool {
				if n == nil {
					stack = stack[:len(stack)-1]
					return true
				}
				stack = append(stack, n)
				if id, ok := n.(*ast.Ident); ok && finfo.Uses[id] == types.Object(p.obj) {
					ok2 := false
					if len(stack) >= 3 {
						if se, isSel := stack[len(stack)-2].(*ast.SelectorExpr); isSel && se.X == ast.Expr(id) {
							if call, isCall := stack[len(stack)-3].(*ast.CallExpr); isCall && call.Fun == ast.Expr(se) {
								ok2 = true
							}
						}
					}
					if !ok2 {
						onlyReceiver = false
					}
				}
				return true
			})
			if onlyReceiver {
				if id, isId := unparen(p.arg).(*ast.Ident); isId && c.stable(id) {
					p.subst = true
					continue
				}
			}
		}
		if !simple || written[p.obj] || p.typ == nil || !types.Identical(p.typ, declT) {
			continue
		}
		// an argument that reads memory the helper may write must be evaluated once, at the call
		stableArg := true
		ast.Inspect(p.arg, func(n ast.Node) bool {
			switch x := n.(type) {
			case *ast.SelectorExpr:
				if _, isPkg := info.Uses[identOfRoot(x)].(*types.PkgName); isPkg {
					return false
				}
				// a method value x.m of a stable variable x: the receiver is the same whenever it is read
				if sel, ok := info.Selections[x]; ok && sel.Kind() == types.MethodVal {
					if rid, ok := unparen(x.X).(*ast.Ident); ok && c.stable(rid) {
						return false
					}
					stableArg = false
					return false
				}
				if fieldsAssigned[x.Sel.Name] {
					stableArg = false
				} else if hasCall {
					// the helper calls functions: the field must be one that none of them can write (field-write summaries)
					sel, ok := info.Selections[x]
					if !ok || sel.Kind() != types.FieldVal {
						stableArg = false
						break
					}
					fld := sel.Obj().(*types.Var)
					ef := c.n.w.ent(f)
					ast.Inspect(f.Body, func(q ast.Node) bool {
						if call, ok := q.(*ast.CallExpr); ok && stableArg {
							if tv, ok := finfo.Types[call.Fun]; ok && tv.IsType() {
								return true
							}
							if _, isB := finfo.Uses[identOf(call.Fun)].(*types.Builtin); isB && identOf(call.Fun) != nil {
								return true
							}
							if ef.mayWriteField(call, fld) {
								stableArg = false
							}
						}
						return stableArg
					})
				}
			case *ast.StarExpr, *ast.IndexExpr:
				if hasCall || len(fieldsAssigned) > 0 {
					stableArg = false
				}
			case *ast.Ident:
				if v, ok := info.Uses[x].(*types.Var); ok && v.Parent() == c.pkg.Types.Scope() && c.pkgVarAssigned(v) {
					stableArg = false // a package-level variable that something assigns
				}
			}
			return true
		})
		if !stableArg && used[p.obj] > 0 {
			continue
		}
		p.subst = true
	}
	// an argument substituted into the body must not mention a name that the body, or a binding, declares
	for changed := true; changed; {
		changed = false
		bound := map[string]bool{}
		for _, p := range b.params {
			if !p.subst && !p.drop && p.name != "_" {
				bound[p.name] = true
			}
		}
		for _, p := range b.params {
			if !p.subst {
				continue
			}
			names := map[string]bool{}
			identNames(p.arg, names)
			for nm := range names {
				if localNames[nm] || bound[nm] {
					p.subst = false
					changed = true
				}
			}
		}
	}
	n := 0
	ast.Inspect(f.Body, func(x ast.Node) bool {
		if _, ok := x.(ast.Stmt); ok {
			n++
		}
		return true
	})
	b.calleeSz = n
	return b
}

func identOfRoot(e ast.Expr) *ast.Ident {
	for {
		switch x := e.(type) {
		case *ast.ParenExpr:
			e = x.X
		case *ast.SelectorExpr:
			e = x.X
		case *ast.Ident:
			return x
		default:
			return nil
		}
	}
}

// cloneBody copies the helper's body with parameters substituted, colliding locals renamed and hygiene checked.
func (b *builder) cloneBody() *ast.BlockStmt {
	c := b.c
	body := cloneAST(b.f.Body, c.n.back).(*ast.BlockStmt)
	b.subst = map[types.Object]ast.Expr{}
	b.rename = map[types.Object]string{}
	for _, p := range b.params {
		if p.subst {
			b.subst[p.obj] = p.arg
		}
	}
	// names that must not be declared by spliced code
	taken := map[string]bool{}
	for nm := range c.names {
		taken[nm] = true
	}
	for _, p := range b.params {
		identNames(p.arg, taken)
	}
	calleeNames := map[string]bool{}
	identNames(b.f.Node(), calleeNames)
	freshFor := func(nm string) string {
		for {
			cand := nm + "_i" + strconv.Itoa(c.n.fresh())
			if !taken[cand] && !calleeNames[cand] {
				taken[cand] = true
				return cand
			}
		}
	}
	for _, p := range b.params {
		if !p.subst && !p.drop && p.name != "_" {
			if taken[p.name] {
				b.rename[p.obj] = freshFor(p.name)
			}
		}
	}
	ast.Inspect(body, func(n ast.Node) bool {
		if id, ok := n.(*ast.Ident); ok && id.Name != "_" {
			if o := c.defOf(id); o != nil {
				if _, done := b.rename[o]; !done && taken[id.Name] {
					if _, isLabel := o.(*types.Label); !isLabel {
						b.rename[o] = freshFor(id.Name)
					}
				}
			}
		}
		return true
	})
	// what this splice declares is taken for the next splice into the same declaration
	for _, p := range b.params {
		if !p.subst && !p.drop && p.name != "_" {
			if nm, ok := b.rename[p.obj]; ok {
				c.names[nm] = true
			} else {
				c.names[p.name] = true
			}
		}
	}
	ast.Inspect(body, func(n ast.Node) bool {
		if id, ok := n.(*ast.Ident); ok && id.Name != "_" {
			if o := c.defOf(id); o != nil {
				if nm, ok := b.rename[o]; ok {
					c.names[nm] = true
				} else {
					c.names[id.Name] = true
				}
			}
		}
		return true
	})
	// apply: renames, substitutions, hygiene
	var apply func(n ast.Node) ast.Node
	replaceExpr := func(e ast.Expr) ast.Expr {
		id, ok := e.(*ast.Ident)
		if !ok {
			return e
		}
		o := c.useOf(id)
		if o == nil {
			o = c.defOf(id)
		}
		if o == nil {
			return e
		}
		// a type parameter of a generic helper: the type argument of this call
		if tn, isTN := o.(*types.TypeName); isTN && b.typeArgs != nil {
			if te, ok := b.typeArgs[tn]; ok {
				return cloneAST(te, map[ast.Node]ast.Node{}).(ast.Expr)
			}
		}
		if arg, ok := b.subst[o]; ok && c.useOf(id) != nil {
			cl := cloneAST(arg, c.n.back).(ast.Expr)
			switch cl.(type) {
			case *ast.Ident, *ast.SelectorExpr, *ast.BasicLit, *ast.ParenExpr, *ast.IndexExpr, *ast.CallExpr:
				return cl
			}
			return &ast.ParenExpr{X: cl}
		}
		if nm, ok := b.rename[o]; ok {
			id.Name = nm
			return id
		}
		// a variable the closure captures must be the one the name denotes at the call
		if b.f.Lit != nil && c.useOf(id) != nil {
			if lv, ok := o.(*types.Var); ok && !lv.IsField() && lv.Parent() != c.pkg.Types.Scope() && (lv.Pos() < b.f.Lit.Pos() || lv.Pos() > b.f.Lit.End()) {
				inner := c.pkg.Types.Scope().Innermost(b.call.Pos())
				if inner == nil {
					b.fail = "no scope at the call"
				} else if _, got := inner.LookupParent(id.Name, b.call.Pos()); got != o {
					b.fail = "the captured variable " + id.Name + " is shadowed at the call"
				}
				return e
			}
		}
		if c.useOf(id) != nil && !c.resolvesSame(id.Name, o, b.call.Pos()) {
			b.fail = "the name " + id.Name + " means something else at the call"
		}
		return e
	}
	_ = apply
	rewriteIdents(body, func(e ast.Expr, isSel bool, isKey bool) ast.Expr {
		if isSel {
			return e
		}
		if isKey {
			// a struct-literal key is a field name; a map-literal key is an expression
			if id, ok := e.(*ast.Ident); ok {
				if v, ok := c.useOf(id).(*types.Var); ok && v.IsField() {
					return e
				}
			}
		}
		return replaceExpr(e)
	})
	return body
}

// rewriteIdents calls f on every identifier expression position of n and stores the result back.
func rewriteIdents(n ast.Node, f func(e ast.Expr, isSel, isKey bool) ast.Expr) {
	var visit func(n ast.Node)
	expr := func(e ast.Expr) ast.Expr {
		if e == nil {
			return nil
		}
		if id, ok := e.(*ast.Ident); ok {
			return f(id, false, false)
		}
		visit(e)
		// (&x).f is x.f and *(&x) is x: an argument &x substituted for a pointer parameter reads as the variable again
		addrOf := func(y ast.Expr) ast.Expr {
			if u, ok := unparen(y).(*ast.UnaryExpr); ok && u.Op == token.AND {
				if _, isLit := unparen(u.X).(*ast.CompositeLit); !isLit {
					return u.X
				}
			}
			return nil
		}
		switch x := e.(type) {
		case *ast.SelectorExpr:
			if y := addrOf(x.X); y != nil {
				x.X = y
			}
		case *ast.StarExpr:
			if y := addrOf(x.X); y != nil {
				return y
			}
		}
		return e
	}
	exprs := func(es []ast.Expr) {
		for i := range es {
			es[i] = expr(es[i])
		}
	}
	visit = func(n ast.Node) {
		switch x := n.(type) {
		case nil:
		case *ast.SelectorExpr:
			x.X = expr(x.X)
		case *ast.KeyValueExpr:
			if id, ok := x.Key.(*ast.Ident); ok {
				x.Key = f(id, false, true)
			} else {
				x.Key = expr(x.Key)
			}
			x.Value = expr(x.Value)
		case *ast.ParenExpr:
			x.X = expr(x.X)
		case *ast.StarExpr:
			x.X = expr(x.X)
		case *ast.UnaryExpr:
			x.X = expr(x.X)
		case *ast.BinaryExpr:
			x.X = expr(x.X)
			x.Y = expr(x.Y)
		case *ast.IndexExpr:
			x.X = expr(x.X)
			x.Index = expr(x.Index)
		case *ast.IndexListExpr:
			x.X = expr(x.X)
			exprs(x.Indices)
		case *ast.SliceExpr:
			x.X = expr(x.X)
			x.Low = expr(x.Low)
			x.High = expr(x.High)
			x.Max = expr(x.Max)
		case *ast.TypeAssertExpr:
			x.X = expr(x.X)
			x.Type = expr(x.Type)
		case *ast.CallExpr:
			x.Fun = expr(x.Fun)
			exprs(x.Args)
		case *ast.CompositeLit:
			x.Type = expr(x.Type)
			exprs(x.Elts)
		case *ast.FuncLit:
			visit(x.Type)
			visit(x.Body)
		case *ast.FuncType:
			visit(x.Params)
			if x.Results != nil {
				visit(x.Results)
			}
		case *ast.FieldList:
			if x != nil {
				for _, fl := range x.List {
					for i, nm := range fl.Names {
						if r, ok := f(nm, false, false).(*ast.Ident); ok {
							fl.Names[i] = r
						}
					}
					fl.Type = expr(fl.Type)
				}
			}
		case *ast.ArrayType:
			x.Len = expr(x.Len)
			x.Elt = expr(x.Elt)
		case *ast.MapType:
			x.Key = expr(x.Key)
			x.Value = expr(x.Value)
		case *ast.ChanType:
			x.Value = expr(x.Value)
		case *ast.Ellipsis:
			x.Elt = expr(x.Elt)
		case *ast.StructType, *ast.InterfaceType, *ast.BasicLit:
		// statements
		case *ast.BlockStmt:
			for _, s := range x.List {
				visit(s)
			}
		case *ast.ExprStmt:
			x.X = expr(x.X)
		case *ast.SendStmt:
			x.Chan = expr(x.Chan)
			x.Value = expr(x.Value)
		case *ast.IncDecStmt:
			x.X = expr(x.X)
		case *ast.AssignStmt:
			exprs(x.Lhs)
			exprs(x.Rhs)
		case *ast.GoStmt:
			visit(x.Call)
		case *ast.DeferStmt:
			visit(x.Call)
		case *ast.ReturnStmt:
			exprs(x.Results)
		case *ast.BranchStmt:
		case *ast.IfStmt:
			visit(x.Init)
			x.Cond = expr(x.Cond)
			visit(x.Body)
			if x.Else != nil {
				visit(x.Else)
			}
		case *ast.CaseClause:
			exprs(x.List)
			for _, s := range x.Body {
				visit(s)
			}
		case *ast.SwitchStmt:
			visit(x.Init)
			x.Tag = expr(x.Tag)
			visit(x.Body)
		case *ast.TypeSwitchStmt:
			visit(x.Init)
			visit(x.Assign)
			visit(x.Body)
		case *ast.CommClause:
			visit(x.Comm)
			for _, s := range x.Body {
				visit(s)
			}
		case *ast.SelectStmt:
			visit(x.Body)
		case *ast.ForStmt:
			visit(x.Init)
			x.Cond = expr(x.Cond)
			visit(x.Post)
			visit(x.Body)
		case *ast.RangeStmt:
			x.Key = expr(x.Key)
			x.Value = expr(x.Value)
			x.X = expr(x.X)
			visit(x.Body)
		case *ast.DeclStmt:
			if gd, ok := x.Decl.(*ast.GenDecl); ok {
				for _, sp := range gd.Specs {
					switch s := sp.(type) {
					case *ast.ValueSpec:
						for i, nm := range s.Names {
							if r, ok := f(nm, false, false).(*ast.Ident); ok {
								s.Names[i] = r
							}
						}
						s.Type = expr(s.Type)
						exprs(s.Values)
					case *ast.TypeSpec:
						if r, ok := f(s.Name, false, false).(*ast.Ident); ok {
							s.Name = r
						}
						s.Type = expr(s.Type)
					}
				}
			}
		case *ast.LabeledStmt:
			visit(x.Stmt)
		case *ast.EmptyStmt:
		}
	}
	visit(n)
}

// bindings returns the statements that evaluate the bound arguments, in call order.
func (b *builder) bindings() []ast.Stmt {
	var out []ast.Stmt
	c := b.c
	for _, p := range b.params {
		if p.subst || p.drop {
			continue
		}
		nm := p.name
		if r, ok := b.rename[p.obj]; ok {
			nm = r
		}
		if nm == "_" {
			out = append(out, &ast.AssignStmt{Lhs: []ast.Expr{ast.NewIdent("_")}, Tok: token.ASSIGN, Rhs: []ast.Expr{p.arg}, TokPos: b.call.Pos()})
			continue
		}
		at := p.typ
		declT := p.obj.Type()
		if p.ptyp != nil {
			declT = p.ptyp
		}
		if at != nil && types.Identical(at, declT) {
			out = append(out, &ast.AssignStmt{Lhs: []ast.Expr{ast.NewIdent(nm)}, Tok: token.DEFINE, Rhs: []ast.Expr{p.arg}, TokPos: b.call.Pos()})
			continue
		}
		te := typeExpr(declT, c.pkg.Types, c.file, c.info)
		if te == nil {
			b.fail = "the type of parameter " + p.name + " cannot be written at the call"
			return nil
		}
		out = append(out, &ast.DeclStmt{Decl: &ast.GenDecl{Tok: token.VAR, TokPos: b.call.Pos(), Specs: []ast.Spec{&ast.ValueSpec{Names: []*ast.Ident{ast.NewIdent(nm)}, Type: te, Values: []ast.Expr{p.arg}}}}})
	}
	return out
}

// pkgVarAssigned: the package-level variable is exported, or some statement of its package assigns it, increments it or
// takes its address (its value can then change between the call and the use of the parameter).
func (c *inlCtx) pkgVarAssigned(v *types.Var) bool {
	if v.Exported() {
		return true
	}
	if c.n.pkgVarW == nil {
		c.n.pkgVarW = map[*types.Var]bool{}
		for _, pkg := range c.n.w.Pkgs {
			info := pkg.TypesInfo
			mark := func(e ast.Expr) {
				if id, ok := unparen(e).(*ast.Ident); ok {
					if pv, ok := info.Uses[id].(*types.Var); ok && pv.Pkg() != nil && pv.Parent() == pv.Pkg().Scope() {
						c.n.pkgVarW[pv] = true
					}
				}
			}
			for _, file := range pkg.Syntax {
				ast.Inspect(file, func(n ast.Node) bool {
					switch x := n.(type) {
					case *ast.AssignStmt:
						for _, l := range x.Lhs {
							mark(l)
						}
					case *ast.IncDecStmt:
						mark(x.X)
					case *ast.UnaryExpr:
						if x.Op == token.AND {
							mark(x.X)
						}
					case *ast.RangeStmt:
						if x.Tok == token.ASSIGN {
							if x.Key != nil {
								mark(x.Key)
							}
							if x.Value != nil {
								mark(x.Value)
							}
						}
					}
					return true
				})
			}
		}
	}
	return c.n.pkgVarW[v]
}
