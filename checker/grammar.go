package main

// grammar.go — slot filling from the repository's own grammar files and generated tables (TAB).
// Operator token sets are read from the op=(…) groups of YarnSpinnerParser.g4; quoted literals are resolved to token
// names through the LiteralNames/SymbolicNames tables of the generated parser (ANTLR's own resolution); the spelling of
// a named token is read from its rule in YarnSpinnerLexer.g4.

import (
	"fmt"
	"go/ast"
	"go/constant"
	"go/types"
	"os"
	"path/filepath"
	"regexp"
	"strconv"
	"strings"
)

type grammarInfo struct {
	parserRules map[string]string   // rule name -> body text
	lexerRules  map[string][]string // token name -> literal alternatives (only rules made of literals)
	lexerBody   map[string]string
	literal     []string         // generated LiteralNames
	symbolic    []string         // generated SymbolicNames
	tokenConst  map[string]int64 // token name -> value of the generated constant YarnSpinnerLexer<NAME>
	problems    []string
}

func stripG4Comments(s string) string {
	var out strings.Builder
	inStr := false
	for i := 0; i < len(s); i++ {
		ch := s[i]
		if inStr {
			out.WriteByte(ch)
			if ch == '\\' && i+1 < len(s) {
				i++
				out.WriteByte(s[i])
			} else if ch == '\'' {
				inStr = false
			}
			continue
		}
		if ch == '\'' {
			inStr = true
			out.WriteByte(ch)
			continue
		}
		if ch == '/' && i+1 < len(s) && s[i+1] == '/' {
			for i < len(s) && s[i] != '\n' {
				i++
			}
			out.WriteByte('\n')
			continue
		}
		if ch == '/' && i+1 < len(s) && s[i+1] == '*' {
			i += 2
			for i+1 < len(s) && !(s[i] == '*' && s[i+1] == '/') {
				i++
			}
			i++
			continue
		}
		out.WriteByte(ch)
	}
	return out.String()
}

// splitRules splits a grammar into "name : body ;" rules (quotes respected).
func splitRules(s string) map[string]string {
	rules := map[string]string{}
	s = stripG4Comments(s)
	s = regexp.MustCompile(`(?s)\b(options|tokens|channels)\s*\{[^}]*\}`).ReplaceAllString(s, " ")
	i := 0
	for i < len(s) {
		// read until ';' outside quotes and brackets
		start := i
		inStr, inSet := false, false
		for i < len(s) {
			ch := s[i]
			if inStr {
				if ch == '\\' {
					i++
				} else if ch == '\'' {
					inStr = false
				}
			} else if inSet {
				if ch == '\\' {
					i++
				} else if ch == ']' {
					inSet = false
				}
			} else if ch == '\'' {
				inStr = true
			} else if ch == '[' {
				inSet = true
			} else if ch == ';' {
				break
			}
			i++
		}
		stmt := s[start:min(i, len(s))]
		i++
		// find "name :" at the start (skipping fragment keyword)
		stmt = strings.TrimSpace(stmt)
		stmt = strings.TrimPrefix(stmt, "fragment ")
		if idx := strings.Index(stmt, ":"); idx > 0 {
			name := strings.TrimSpace(stmt[:idx])
			if regexp.MustCompile(`^[A-Za-z_][A-Za-z_0-9]*$`).MatchString(name) {
				rules[name] = strings.TrimSpace(stmt[idx+1:])
			}
		}
	}
	return rules
}

var grammarCache *grammarInfo

func (w *World) grammar() *grammarInfo {
	if grammarCache != nil {
		return grammarCache
	}
	g := &grammarInfo{lexerRules: map[string][]string{}, tokenConst: map[string]int64{}}
	grammarCache = g
	read := func(name string) string {
		path := filepath.Join(w.Repo, "internal", "parser", name)
		if b, ok := w.overlay[path]; ok {
			return string(b)
		}
		b, err := os.ReadFile(path)
		if err != nil {
			g.problems = append(g.problems, err.Error())
			return ""
		}
		return string(b)
	}
	g.parserRules = splitRules(read("YarnSpinnerParser.g4"))
	g.lexerBody = splitRules(read("YarnSpinnerLexer.g4"))
	litRe := regexp.MustCompile(`^'((?:[^'\\]|\\.)*)'$`)
	for name, body := range g.lexerBody {
		// drop lexer commands
		if i := strings.Index(body, "->"); i >= 0 {
			body = body[:i]
		}
		var lits []string
		ok := true
		for _, alt := range splitTopLevel(body, '|') {
			alt = strings.TrimSpace(alt)
			m := litRe.FindStringSubmatch(alt)
			if m == nil {
				ok = false
				break
			}
			lits = append(lits, m[1])
		}
		if ok && len(lits) > 0 {
			g.lexerRules[name] = lits
		}
	}
	// generated tables
	pp := w.Pkg("internal/parser")
	if pp == nil {
		g.problems = append(g.problems, "package internal/parser not loaded")
		return g
	}
	for _, file := range pp.Syntax {
		ast.Inspect(file, func(n ast.Node) bool {
			as, ok := n.(*ast.AssignStmt)
			if !ok || len(as.Lhs) != 1 || len(as.Rhs) != 1 {
				return true
			}
			sel, ok := as.Lhs[0].(*ast.SelectorExpr)
			if !ok {
				return true
			}
			cl, ok := as.Rhs[0].(*ast.CompositeLit)
			if !ok {
				return true
			}
			// only the parser's tables (the lexer has its own, with different content)
			if !strings.Contains(w.Fset.Position(as.Pos()).Filename, "yarnspinner_parser.go") {
				return true
			}
			var dst *[]string
			switch sel.Sel.Name {
			case "LiteralNames":
				dst = &g.literal
			case "SymbolicNames":
				dst = &g.symbolic
			default:
				return true
			}
			for _, el := range cl.Elts {
				if bl, ok := el.(*ast.BasicLit); ok {
					s, err := strconv.Unquote(bl.Value)
					if err == nil {
						*dst = append(*dst, s)
					}
				}
			}
			return true
		})
	}
	sc := pp.Types.Scope()
	for _, name := range sc.Names() {
		if c, ok := sc.Lookup(name).(*types.Const); ok && strings.HasPrefix(name, "YarnSpinnerLexer") && c.Val().Kind() == constant.Int {
			v, _ := constant.Int64Val(c.Val())
			g.tokenConst[strings.TrimPrefix(name, "YarnSpinnerLexer")] = v
		}
	}
	if len(g.literal) == 0 || len(g.symbolic) == 0 {
		g.problems = append(g.problems, "generated LiteralNames/SymbolicNames tables not found")
	}
	return g
}

// tokenOfLiteral resolves a quoted grammar literal to its token name through the generated tables.
func (g *grammarInfo) tokenOfLiteral(lit string) (string, bool) {
	for i, l := range g.literal {
		if l == "'"+lit+"'" && i < len(g.symbolic) {
			return g.symbolic[i], true
		}
	}
	return "", false
}

// spelling returns the first literal spelling of a token.
func (g *grammarInfo) spelling(token string) (string, bool) {
	if lits := g.lexerRules[token]; len(lits) > 0 {
		return lits[0], true
	}
	for i, s := range g.symbolic {
		if s == token && i < len(g.literal) && g.literal[i] != "" {
			return strings.Trim(g.literal[i], "'"), true
		}
	}
	return "", false
}

// opGroup returns the token names of the op=… group(s) of the alternatives of a parser rule that satisfy keep.
func (g *grammarInfo) opTokens(rule string, keep func(alt string) bool) ([]string, error) {
	body, ok := g.parserRules[rule]
	if !ok {
		return nil, fmt.Errorf("parser rule %s not found", rule)
	}
	var out []string
	opRe := regexp.MustCompile(`op=(\([^)]*\)|'[^']*'|[A-Z_]+)`)
	for _, alt := range splitTopLevel(body, '|') {
		if !keep(alt) {
			continue
		}
		m := opRe.FindStringSubmatch(alt)
		if m == nil {
			continue
		}
		grp := strings.Trim(m[1], "()")
		for _, t := range splitTopLevel(grp, '|') {
			t = strings.TrimSpace(t)
			if t == "" {
				continue
			}
			if strings.HasPrefix(t, "'") {
				tok, ok := g.tokenOfLiteral(strings.Trim(t, "'"))
				if !ok {
					return nil, fmt.Errorf("literal %s of rule %s is not in the generated LiteralNames table", t, rule)
				}
				out = append(out, tok)
			} else {
				out = append(out, t)
			}
		}
	}
	return out, nil
}

// splitTopLevel splits at sep outside quotes and parentheses.
func splitTopLevel(s string, sep byte) []string {
	var parts []string
	depth, inStr, start := 0, false, 0
	for i := 0; i < len(s); i++ {
		ch := s[i]
		switch {
		case inStr:
			if ch == '\\' {
				i++
			} else if ch == '\'' {
				inStr = false
			}
		case ch == '\'':
			inStr = true
		case ch == '(':
			depth++
		case ch == ')':
			depth--
		case ch == sep && depth == 0:
			parts = append(parts, s[start:i])
			start = i + 1
		}
	}
	return append(parts, s[start:])
}

// labels returns the #labels of a parser rule's alternatives.
func (g *grammarInfo) labels(rule string) []string {
	var out []string
	re := regexp.MustCompile(`#\s*([A-Za-z_][A-Za-z_0-9]*)`)
	for _, alt := range splitTopLevel(g.parserRules[rule], '|') {
		if m := re.FindStringSubmatch(alt); m != nil {
			out = append(out, m[1])
		}
	}
	return out
}

func regexpFindAll(pattern, s string) []string {
	var out []string
	for _, m := range regexp.MustCompile(pattern).FindAllStringSubmatch(s, -1) {
		out = append(out, m[1])
	}
	return out
}
